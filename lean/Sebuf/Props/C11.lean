import Sebuf.Serve
import Sebuf.Decode
import Sebuf.ClientResp
import Sebuf.Lemmas.Decode
import Sebuf.Lemmas.DecodeToy
/-!
# C11 — malformed traffic is rejected cleanly and never crashes server or client

The logic part: whatever the bytes and the content type, the body step either dispatches
exactly what the chosen decoder produced or answers 400 on field `body` without invoking the
handler; every content-type string selects one of the two decoders.

Partial by nature: panics, hangs, stack exhaustion and runtime 5xx are not expressible in a
total functional model. The `serve` correspondence runs mutated and random bodies under every
content type against the really compiled server (and canned responses against the compiled
client) with per-request time limits; it is used as correspondence and failing-input search.

The decoders: `Sebuf.Decode` transcribes every generated decode edit (tied to the emitted text by
`edit_blocks_transcribed`, `body_readers_transcribed`, `child_keys_transcribed`).
`decoder_sound_partial` / `dispatch_only_fully_decoded_partial` prove that, where the dropped
conversion error is harmless (`swallowSafe`, no duplicate keys), a dispatched message is the
documented meaning of every member of the body; the witnesses after them show the full statement
false today (HEX garbage read as base64, `null` read as the epoch, `null` list elements read as 0,
shadowed duplicate members never decoded, flattened child members dropped, truncated binary
transfers decoded). `client_total` and its companions cover the client.
-/
namespace Sebuf.C11
open Sebuf Sebuf.Bind Sebuf.Call Sebuf.Serve

variable {V : Type}

/-- **server_total**: a dispatched request on a body verb with a non-empty body carries exactly
what the decoder selected for the content type returned — never a partially decoded message. -/
theorem server_total (dj db : Bytes → Option (Fields V)) (r : SReq) (m0 m : Fields V)
    (h : serveBody dj db r m0 = .dispatch m) (hv : r.bodyVerb = true) (hb : r.rawBody ≠ []) :
    decodeBody dj db r.ct r.rawBody = some m := by
  unfold serveBody at h
  have he : r.rawBody.isEmpty = false := by
    cases hr : r.rawBody with
    | nil => exact absurd hr hb
    | cons _ _ => rfl
  simp only [hv, Bool.not_true, Bool.false_eq_true, if_false, he, Bool.and_false] at h
  cases hd : decodeBody dj db r.ct r.rawBody with
  | some fs => rw [hd] at h; cases h; rfl
  | none => rw [hd] at h; cases h

/-- **undecodable ⇒ 400 on `body`, handler not invoked**. -/
theorem undecodable_is_400 (dj db : Bytes → Option (Fields V)) (r : SReq) (m0 : Fields V)
    (hv : r.bodyVerb = true) (hb : r.rawBody ≠ []) (hd : decodeBody dj db r.ct r.rawBody = none) :
    serveBody dj db r m0 = .bad400 "body".toList := by
  unfold serveBody
  have he : r.rawBody.isEmpty = false := by
    cases hr : r.rawBody with
    | nil => exact absurd hr hb
    | cons _ _ => rfl
  simp [hv, he, hd]

/-- bodiless verbs never look at the body. -/
theorem bodiless_ignores_body (dj db : Bytes → Option (Fields V)) (r : SReq) (m0 : Fields V)
    (hv : r.bodyVerb = false) : serveBody dj db r m0 = .dispatch m0 := by
  unfold serveBody; simp [hv]

/-- an empty body is not decoded (regenerated fact), so the URL-bound message is dispatched. -/
theorem empty_body_dispatches (dj db : Bytes → Option (Fields V)) (r : SReq) (m0 : Fields V)
    (hb : r.rawBody = []) : serveBody dj db r m0 = .dispatch m0 := by
  unfold serveBody
  have : Gen.Pipeline.emptyBodySkipsDecode = true := by decide
  by_cases hv : r.bodyVerb = true <;> simp [hv, hb, this]

theorem lookupOr_mem (t : List (String × String)) (d k : String) :
    lookupOr t d k = d ∨ lookupOr t d k ∈ t.map Prod.snd := by
  unfold lookupOr
  cases h : t.find? (·.1 == k) with
  | none => exact Or.inl rfl
  | some p => exact Or.inr (List.mem_map.mpr ⟨p, List.mem_of_find?_eq_some h, rfl⟩)

/-- **every content type selects a decoder**: there is no content-type string for which the
emitted dispatch has no branch (unknown types fall back to JSON). -/
theorem codec_total (ct : String) : serverReqCodec ct = "json" ∨ serverReqCodec ct = "binary" := by
  unfold serverReqCodec
  rcases lookupOr_mem Gen.Pipeline.bindDataBasedOnContentTypeTable Gen.Pipeline.bindDataBasedOnContentTypeDefault (filterFlags ct) with h | h
  · rw [h]; decide
  · have : ∀ x ∈ Gen.Pipeline.bindDataBasedOnContentTypeTable.map Prod.snd, x = "json" ∨ x = "binary" := by decide
    exact this _ h

/-- the client's response decoder is total in the same sense. -/
theorem client_codec_total (ct : String) : clientRespCodec ct = "json" ∨ clientRespCodec ct = "binary" := by
  unfold clientRespCodec
  rcases lookupOr_mem Gen.Pipeline.clientUnmarshalResponseTable Gen.Pipeline.clientUnmarshalResponseDefault ct with h | h
  · rw [h]; decide
  · have : ∀ x ∈ Gen.Pipeline.clientUnmarshalResponseTable.map Prod.snd, x = "json" ∨ x = "binary" := by decide
    exact this _ h

/-- non-vacuity: a body verb with a non-empty body whose decoder fails. -/
example : serveBody (V := Nat) (fun _ => none) (fun _ => none) { bodyVerb := true, rawBody := [123], ct := "application/json" } [] =
    .bad400 "body".toList :=
  undecodable_is_400 _ _ _ _ rfl (by decide) (by unfold decodeBody; split <;> rfl)

/-! ## the generated decoders -/

open Sebuf.Decode Sebuf.Json Sebuf.Surgery

/-- **tie**: the edits `Decode.Impl.editMember` transcribes are the text go-http emits now: the
member is unmarshalled into the Go type shown, converted, and on ANY failure (`err == nil` /
`decErr == nil` / `parseErr == nil` without an else branch) left as it is. The unix-seconds / unix-millis
edits convert to UTC before formatting (`fix: timestamp_format: decode unix seconds / millis in UTC`): in the
process's local zone the RFC 3339 text loses the seconds of a local-mean-time offset. -/
theorem edit_blocks_transcribed :
    Gen.Decoders.editBlocks.lookup "BytesReq.bHex" = some "if v, ok := raw[\"bHex\"]; ok { var s string if err := json.Unmarshal(v, &s); err == nil { decoded, decErr := hex.DecodeString(s) if decErr == nil { raw[\"bHex\"], _ = json.Marshal(base64.StdEncoding.EncodeToString(decoded)) } } }" ∧
    Gen.Decoders.editBlocks.lookup "BytesReq.bRaw" = some "if v, ok := raw[\"bRaw\"]; ok { var s string if err := json.Unmarshal(v, &s); err == nil { decoded, decErr := base64.RawStdEncoding.DecodeString(s) if decErr == nil { raw[\"bRaw\"], _ = json.Marshal(base64.StdEncoding.EncodeToString(decoded)) } } }" ∧
    Gen.Decoders.editBlocks.lookup "BytesReq.bUrl" = some "if v, ok := raw[\"bUrl\"]; ok { var s string if err := json.Unmarshal(v, &s); err == nil { decoded, decErr := base64.URLEncoding.DecodeString(s) if decErr == nil { raw[\"bUrl\"], _ = json.Marshal(base64.StdEncoding.EncodeToString(decoded)) } } }" ∧
    Gen.Decoders.editBlocks.lookup "BytesReq.bUrlraw" = some "if v, ok := raw[\"bUrlraw\"]; ok { var s string if err := json.Unmarshal(v, &s); err == nil { decoded, decErr := base64.RawURLEncoding.DecodeString(s) if decErr == nil { raw[\"bUrlraw\"], _ = json.Marshal(base64.StdEncoding.EncodeToString(decoded)) } } }" ∧
    Gen.Decoders.editBlocks.lookup "EmptyReq.metaNull" = some "if rawVal, ok := raw[\"metaNull\"]; ok && string(rawVal) == \"null\" { raw[\"metaNull\"] = []byte(\"{}\") }" ∧
    Gen.Decoders.editBlocks.lookup "Int64Req.big" = some "if rawVal, ok := raw[\"big\"]; ok { var num int64 if err := json.Unmarshal(rawVal, &num); err == nil { raw[\"big\"], _ = json.Marshal(strconv.FormatInt(num, 10)) } }" ∧
    Gen.Decoders.editBlocks.lookup "Int64Req.ubig" = some "if rawVal, ok := raw[\"ubig\"]; ok { var num uint64 if err := json.Unmarshal(rawVal, &num); err == nil { raw[\"ubig\"], _ = json.Marshal(strconv.FormatUint(num, 10)) } }" ∧
    Gen.Decoders.editBlocks.lookup "Int64Req.bigs" = some "if rawVal, ok := raw[\"bigs\"]; ok { var nums []int64 if err := json.Unmarshal(rawVal, &nums); err == nil { strs := make([]string, len(nums)) for i, n := range nums { strs[i] = strconv.FormatInt(n, 10) } raw[\"bigs\"], _ = json.Marshal(strs) } }" ∧
    Gen.Decoders.editBlocks.lookup "Int64Req.ubigs" = some "if rawVal, ok := raw[\"ubigs\"]; ok { var nums []uint64 if err := json.Unmarshal(rawVal, &nums); err == nil { strs := make([]string, len(nums)) for i, n := range nums { strs[i] = strconv.FormatUint(n, 10) } raw[\"ubigs\"], _ = json.Marshal(strs) } }" ∧
    Gen.Decoders.editBlocks.lookup "Int64Req.sBig" = some "if rawVal, ok := raw[\"sBig\"]; ok { var num int64 if err := json.Unmarshal(rawVal, &num); err == nil { raw[\"sBig\"], _ = json.Marshal(strconv.FormatInt(num, 10)) } }" ∧
    Gen.Decoders.editBlocks.lookup "NullReq.maybeS" = some "if rawVal, ok := raw[\"maybeS\"]; ok && string(rawVal) == \"null\" { delete(raw, \"maybeS\") }" ∧
    Gen.Decoders.editBlocks.lookup "NullReq.maybeN" = some "if rawVal, ok := raw[\"maybeN\"]; ok && string(rawVal) == \"null\" { delete(raw, \"maybeN\") }" ∧
    Gen.Decoders.editBlocks.lookup "NullReq.maybeB" = some "if rawVal, ok := raw[\"maybeB\"]; ok && string(rawVal) == \"null\" { delete(raw, \"maybeB\") }" ∧
    Gen.Decoders.editBlocks.lookup "TsReq.tSecs" = some "if v, ok := raw[\"tSecs\"]; ok { var n int64 if err := json.Unmarshal(v, &n); err == nil { t := time.Unix(n, 0).UTC() raw[\"tSecs\"], _ = json.Marshal(t.Format(time.RFC3339Nano)) } }" ∧
    Gen.Decoders.editBlocks.lookup "TsReq.tMillis" = some "if v, ok := raw[\"tMillis\"]; ok { var n int64 if err := json.Unmarshal(v, &n); err == nil { t := time.UnixMilli(n).UTC() raw[\"tMillis\"], _ = json.Marshal(t.Format(time.RFC3339Nano)) } }" ∧
    Gen.Decoders.editBlocks.lookup "TsReq.tDate" = some "if v, ok := raw[\"tDate\"]; ok { var s string if err := json.Unmarshal(v, &s); err == nil { t, parseErr := time.Parse(\"2006-01-02\", s) if parseErr == nil { raw[\"tDate\"], _ = json.Marshal(t.Format(time.RFC3339Nano)) } } }" := by
  refine ⟨rfl, rfl, rfl, rfl, rfl, rfl, rfl, rfl, rfl, rfl, rfl, rfl, rfl, rfl, rfl, rfl⟩

/-- **tie**: whether the middleware decodes a body depends on the VERB alone — the guard of the body step tests the
verb against POST / PUT / PATCH and calls nothing (so the shape of the request message, e.g. one without fields left
for the body, cannot switch decoding off; regenerated from the emitted `BindingMiddleware`; seed C11-r9-1 added
`&& hasBodyFields(toBind, pathParams)` and dispatched malformed bodies on such RPCs). `Serve.serveBody` reads
`bodyVerb` and nothing else. -/
theorem body_guard_is_the_verb :
    Gen.Pipeline.bodyVerbs = ["POST", "PUT", "PATCH"] ∧ Gen.Pipeline.bodyGuardCalls = [] := by decide

/-- **tie**: the two body readers. JSON: read, error check, empty check. Binary: read, EMPTY CHECK,
then an error check that lets `io.ErrUnexpectedEOF` through (`Decode.Impl.readJSON/readBinary`). -/
theorem body_readers_transcribed :
    Gen.Decoders.bindDataFromJSONRequest.take 4 = [
      "bodyBytes, err := io.ReadAll(r.Body)",
      "r.Body = io.NopCloser(bytes.NewReader(bodyBytes))",
      "if err != nil { return fmt.Errorf(\"could not read request body: %w\", err) }",
      "if len(bodyBytes) == 0 { return nil }"] ∧
    Gen.Decoders.bindDataFromBinaryRequest.take 4 = [
      "bodyBytes, err := io.ReadAll(r.Body)",
      "r.Body = io.NopCloser(bytes.NewReader(bodyBytes))",
      "if len(bodyBytes) == 0 { return nil }",
      "if err != nil && !errors.Is(err, io.ErrUnexpectedEOF) { return fmt.Errorf(\"could not read request body: %w\", err) }"] := by
  constructor <;> rfl

/-- **tie**: which body key the flatten / flattened-oneof decoders file under which child key, and
the json tags of the child structs encoding/json resolves those keys against. -/
theorem child_keys_transcribed :
    Gen.Decoders.childKeyMoves = [("FlatReq.home_street", "street"), ("FlatReq.home_zipCode", "zipCode"),
      ("FlatReq.street", "street"), ("FlatReq.zipCode", "zipCode"), ("OneofFlatReq.body", "body"),
      ("OneofFlatReq.langCode", "langCode"), ("OneofFlatReq.url", "url"), ("OneofFlatReq.width", "width")] ∧
    Gen.Decoders.childJsonTags = [("ImageVariant", "url"), ("ImageVariant", "width"), ("Leaf", "street"),
      ("Leaf", "zip_code"), ("TextVariant", "body"), ("TextVariant", "lang_code")] := by
  constructor <;> rfl

/-- the full statement of the decoder part: whatever member the server accepts, the value it
dispatches is the member's documented meaning. FALSE today (witnesses below). -/
def DecoderSound : Prop :=
  ∀ (pj : PJ), pj.OK → ∀ (k : Str) (t : Tpl) (j : Json) (v : FV),
    Impl.memberOutcome pj k t j = some v → Spec.memberMeaning pj k t j = some v

/-- **decoder_sound_partial** (every template): on the members where the dropped conversion
error is harmless, `Impl` accepts ⇒ the value dispatched is the documented meaning. -/
theorem decoder_sound_partial (pj : PJ) (ok : pj.OK) (k : Str) (t : Tpl) (j : Json) (v : FV)
    (hs : swallowSafe t j = true) (h : Impl.memberOutcome pj k t j = some v) :
    Spec.memberMeaning pj k t j = some v := by
  cases t with
  | plain => simpa [Impl.memberOutcome, Impl.editMember, Spec.memberMeaning, Spec.reading] using h
  | int64 u =>
    simp only [Spec.memberMeaning, Spec.reading]
    simp only [Impl.memberOutcome, Impl.editMember] at h
    cases hg : goInt u j with
    | none => simpa [hg] using h
    | some n =>
      simp only [hg] at h
      rcases goInt_some u j n hg with ⟨hj, hn⟩ | ⟨hj, hr⟩
      · subst hj; subst hn
        have h0 : inRange64 u 0 = true := by cases u <;> decide
        simp only [pjRead, ok.int64_str u 0 h0] at h
        simp only [pjRead, ok.int64_null u]; exact h
      · subst hj
        simp only [pjRead, ok.int64_str u n hr] at h
        simp only [pjRead, ok.int64_num u n hr]; exact h
  | int64s u =>
    simp only [Spec.memberMeaning, Spec.reading]
    simp only [Impl.memberOutcome, Impl.editMember] at h
    cases hg : goIntList u j with
    | none => simpa [hg] using h
    | some l =>
      simp only [hg] at h
      cases j with
      | null =>
        simp [goIntList] at hg; subst hg
        simp only [pjRead, List.map_nil] at h
        have := ok.int64s_strs u [] (by simp)
        simp only [List.map_nil] at this
        simp only [this] at h
        simp only [pjRead, ok.int64s_null u]; exact h
      | arr js =>
        simp only [goIntList] at hg
        have hn : Json.null ∉ js := by
          intro hm
          have := mem_null_hasNull js hm
          simp [swallowSafe, this] at hs
        obtain ⟨e, hr⟩ := goIntElems_no_null u js l hg hn
        simp only [pjRead, ok.int64s_strs u l hr] at h
        simp only [pjRead, e, ok.int64s_nums u l hr]; exact h
      | bool _ => simp [goIntList] at hg
      | num _ => simp [goIntList] at hg
      | str _ => simp [goIntList] at hg
      | obj _ => simp [goIntList] at hg
  | nullable =>
    by_cases hj : j = .null
    · subst hj; simpa [Impl.memberOutcome, Impl.editMember, Spec.memberMeaning, Spec.reading] using h
    · simpa [Impl.memberOutcome, Impl.editMember, Spec.memberMeaning, Spec.reading, hj] using h
  | emptyNull =>
    by_cases hj : j = .null
    · subst hj; simpa [Impl.memberOutcome, Impl.editMember, Spec.memberMeaning, Spec.reading, pjRead] using h
    · simpa [Impl.memberOutcome, Impl.editMember, Spec.memberMeaning, Spec.reading, hj] using h
  | tsSecs =>
    simp only [Impl.memberOutcome, Impl.editMember] at h
    cases hg : goInt false j with
    | none =>
      simp only [hg] at h
      cases j with
      | num x =>
        simp [pjRead, ok.ts_num x] at h
      | null => simp [goInt] at hg
      | bool _ => simpa [Spec.memberMeaning, Spec.reading] using h
      | str _ => simpa [Spec.memberMeaning, Spec.reading] using h
      | arr _ => simpa [Spec.memberMeaning, Spec.reading] using h
      | obj _ => simpa [Spec.memberMeaning, Spec.reading] using h
    | some n =>
      simp only [hg] at h
      rcases goInt_some false j n hg with ⟨hj, _⟩ | ⟨hj, _⟩
      · subst hj; simp [swallowSafe, Json.isNull] at hs
      · subst hj
        simp only [pjRead, ok.ts_rfc n 0 (by decide)] at h
        simp only [Spec.memberMeaning, Spec.reading]
        by_cases hr : tsInRange n = true
        · simp only [hr, if_true] at h ⊢; simpa using h
        · simp [hr] at h
  | tsMillis =>
    simp only [Impl.memberOutcome, Impl.editMember] at h
    cases hg : goInt false j with
    | none =>
      simp only [hg] at h
      cases j with
      | num x =>
        simp [pjRead, ok.ts_num x] at h
      | null => simp [goInt] at hg
      | bool _ => simpa [Spec.memberMeaning, Spec.reading] using h
      | str _ => simpa [Spec.memberMeaning, Spec.reading] using h
      | arr _ => simpa [Spec.memberMeaning, Spec.reading] using h
      | obj _ => simpa [Spec.memberMeaning, Spec.reading] using h
    | some n =>
      simp only [hg] at h
      rcases goInt_some false j n hg with ⟨hj, _⟩ | ⟨hj, _⟩
      · subst hj; simp [swallowSafe, Json.isNull] at hs
      · subst hj
        have hlt : (n % 1000).toNat * 1000000 < 1000000000 := by omega
        simp only [pjRead, ok.ts_rfc (n / 1000) _ hlt] at h
        simp only [Spec.memberMeaning, Spec.reading]
        by_cases hr : tsInRange (n / 1000) = true
        · simp only [hr, if_true] at h ⊢; simpa using h
        · simp [hr] at h
  | tsDate =>
    simp only [Impl.memberOutcome, Impl.editMember] at h
    cases j with
    | str s =>
      simp only [goStr] at h
      simp only [Spec.memberMeaning, Spec.reading]
      cases hp : parseDate s with
      | none => simpa [hp] using h
      | some d =>
        simp only [hp] at h ⊢
        simp only [pjRead, ok.ts_rfc (d * 86400) 0 (by decide)] at h
        by_cases hr : tsInRange (d * 86400) = true
        · simp only [hr, if_true] at h ⊢; simpa using h
        · simp [hr] at h
    | null =>
      have : parseDate [] = none := rfl
      simpa [goStr, this, Spec.memberMeaning, Spec.reading] using h
    | bool _ => simpa [goStr, Spec.memberMeaning, Spec.reading] using h
    | num _ => simpa [goStr, Spec.memberMeaning, Spec.reading] using h
    | arr _ => simpa [goStr, Spec.memberMeaning, Spec.reading] using h
    | obj _ => simpa [goStr, Spec.memberMeaning, Spec.reading] using h
  | bytes e =>
    simp only [Impl.memberOutcome, Impl.editMember] at h
    cases j with
    | str s =>
      simp only [goStr] at h
      simp only [Spec.memberMeaning, Spec.reading]
      cases hd : sebufBytesDecode e (toBytes s) with
      | some b =>
        simp only [hd] at h ⊢
        simpa [pjRead, ok.bytes_std e s b hd] using h
      | none =>
        simp only [hd] at h ⊢
        by_cases he : e = 5
        · subst he
          simp [swallowSafe, sebufBytesDecode] at hs hd
          simp [hd] at hs
        · simpa [he] using h
    | null =>
      have hd : sebufBytesDecode e (toBytes []) = some [] := by
        unfold sebufBytesDecode toBytes
        split <;> rfl
      simp only [goStr, hd] at h
      have hb := ok.bytes_std e [] [] hd
      have he : ofBytes (b64Encode .std []) = [] := rfl
      simp only [pjRead, he] at h
      rw [he] at hb
      simp only [hb] at h
      simpa [Spec.memberMeaning, Spec.reading, pjRead] using h
    | bool _ => simpa [goStr, Spec.memberMeaning, Spec.reading] using h
    | num _ => simpa [goStr, Spec.memberMeaning, Spec.reading] using h
    | arr _ => simpa [goStr, Spec.memberMeaning, Spec.reading] using h
    | obj _ => simpa [goStr, Spec.memberMeaning, Spec.reading] using h

/-- non-vacuity of every theorem below that assumes the leaf contract `PJ.OK`: the contract has a
model (`Lemmas/DecodeToy.lean`: decimal strings, `secs nanos` timestamp text, Go's standard
base64), on which an in-range unix-seconds member is accepted with its documented meaning. -/
example : toyPJ.OK ∧ swallowSafe .tsSecs (.num (.int 1705312200)) = true ∧
    Impl.memberOutcome toyPJ "tSecs".toList .tsSecs (.num (.int 1705312200)) = some (.ts 1705312200 0) :=
  ⟨toyPJ_ok, by decide, by
    have h := toyPJ_ok.ts_rfc 1705312200 0 (by decide)
    have hr : tsInRange 1705312200 = true := by decide
    have hg : goInt false (.num (.int 1705312200)) = some 1705312200 := by decide
    simp only [hr, if_true] at h
    simp [Impl.memberOutcome, Impl.editMember, hg, pjRead, h]⟩

/-- a leaf instance for closed witnesses: bytes are read by the transcription of protojson's
`unmarshalBytes`; the other leaves are not consulted by the witnesses that use it. -/
def pjBytesOnly : PJ :=
  { rfc := fun _ _ => [], int64 := fun _ _ => none, int64s := fun _ _ => none, ts := fun _ => none,
    bytes := pjBytes, plain := fun _ _ => true }

/-- non-vacuity of `decoder_sound_partial`: a hexadecimal member is accepted and means its bytes. -/
example : swallowSafe (.bytes 5) (.str "cafe".toList) = true ∧
    Impl.memberOutcome pjBytesOnly "bHex".toList (.bytes 5) (.str "cafe".toList) = some (.bytes [202, 254]) ∧
    Spec.memberMeaning pjBytesOnly "bHex".toList (.bytes 5) (.str "cafe".toList) = some (.bytes [202, 254]) := by decide

/-- **¬ DecoderSound, HEX** (finding `dispatched_undecodable:bytes_hex_read_as_base64`): text that is
not hexadecimal makes `hex.DecodeString` fail, the error is dropped, protojson reads the same text
as base64 and the handler receives bytes no hexadecimal reading of the body gives. Body
`{"bHex":"zzzz"}`, field `b_hex` (bytes_encoding = HEX). -/
theorem hex_accepts_garbage :
    Impl.memberOutcome pjBytesOnly "bHex".toList (.bytes 5) (.str "zzzz".toList) = some (.bytes [207, 60, 243]) ∧
    Spec.memberMeaning pjBytesOnly "bHex".toList (.bytes 5) (.str "zzzz".toList) = none := by decide

/-- a hexadecimal typo: `deadbeeg` is dispatched as the six bytes of its base64 reading. -/
theorem hex_typo_dispatched :
    Impl.memberOutcome pjBytesOnly "bHex".toList (.bytes 5) (.str "deadbeeg".toList) = some (.bytes [117, 230, 157, 109, 231, 160]) ∧
    Spec.memberMeaning pjBytesOnly "bHex".toList (.bytes 5) (.str "deadbeeg".toList) = none := by decide

/-- why the fallback cannot be admitted for HEX: the two encodings accept common texts and read
them differently, so which bytes a text means would depend on whether it happens to be valid hex. -/
theorem hex_base64_conflict :
    hexDecode (toBytes "deadbeef".toList) = some [222, 173, 190, 239] ∧
    pjBytes "deadbeef".toList = some [117, 230, 157, 109, 231, 159] := by decide

/-- for the base64 variants the dropped error IS re-examined by protojson (no finding): a member the
declared variant refuses is read by protojson's own rule, which the Spec admits as `canonical`. -/
theorem base64_variant_error_redetected (pj : PJ) (k : Str) (e : Nat) (he : e ≠ 5) (s : Str)
    (hd : sebufBytesDecode e (toBytes s) = none) :
    Impl.memberOutcome pj k (.bytes e) (.str s) = Spec.memberMeaning pj k (.bytes e) (.str s) := by
  simp [Impl.memberOutcome, Impl.editMember, goStr, hd, Spec.memberMeaning, Spec.reading, he]

/-- likewise for `int64_encoding = NUMBER`: a member Go's `json.Unmarshal` refuses for int64
(a decimal string, `1e2`, `1.5`, `true`, …) is judged by protojson alone. -/
theorem int64_error_redetected (pj : PJ) (k : Str) (u : Bool) (j : Json) (hg : goInt u j = none) :
    Impl.memberOutcome pj k (.int64 u) j = Spec.memberMeaning pj k (.int64 u) j := by
  simp [Impl.memberOutcome, Impl.editMember, hg, Spec.memberMeaning, Spec.reading]

/-- and for the timestamp formats on every member but `null`: an RFC 3339 string, a fraction, an
out-of-int64 number … go to protojson unchanged. -/
theorem ts_error_redetected (pj : PJ) (ok : pj.OK) (k : Str) (j : Json) (hg : goInt false j = none) :
    Impl.memberOutcome pj k .tsSecs j = Spec.memberMeaning pj k .tsSecs j := by
  cases j with
  | num x =>
    cases x with
    | int n =>
      have hr : tsInRange n = false := by
        simp only [goInt] at hg
        by_cases h : inRange64 false n = true
        · simp [h] at hg
        · simp only [inRange64, Bool.false_eq_true, if_false, decide_eq_true_eq] at h
          simp only [tsInRange, decide_eq_false_iff_not]
          omega
      simp [Impl.memberOutcome, Impl.editMember, hg, Spec.memberMeaning, Spec.reading, hr, pjRead, ok.ts_num]
    | float t => simp [Impl.memberOutcome, Impl.editMember, goInt, Spec.memberMeaning, Spec.reading]
  | null => simp [goInt] at hg
  | bool _ => simp [Impl.memberOutcome, Impl.editMember, goInt, Spec.memberMeaning, Spec.reading]
  | str _ => simp [Impl.memberOutcome, Impl.editMember, goInt, Spec.memberMeaning, Spec.reading]
  | arr _ => simp [Impl.memberOutcome, Impl.editMember, goInt, Spec.memberMeaning, Spec.reading]
  | obj _ => simp [Impl.memberOutcome, Impl.editMember, goInt, Spec.memberMeaning, Spec.reading]

/-- **¬ DecoderSound, UNIX_SECONDS / UNIX_MILLIS** (finding `dispatched_value:timestamp_null_read_as_epoch`):
`json.Unmarshal("null", &n)` succeeds with n = 0, so `{"tSecs":null}` reaches the handler with the
field SET to 1970-01-01T00:00:00Z; proto3 JSON `null` means the field is absent. -/
theorem ts_null_becomes_epoch (pj : PJ) (ok : pj.OK) (k : Str) :
    Impl.memberOutcome pj k .tsSecs .null = some (.ts 0 0) ∧ Spec.memberMeaning pj k .tsSecs .null = some .unset ∧
    Impl.memberOutcome pj k .tsMillis .null = some (.ts 0 0) ∧ Spec.memberMeaning pj k .tsMillis .null = some .unset := by
  have h0 := ok.ts_rfc 0 0 (by decide)
  have hr : tsInRange 0 = true := by decide
  simp only [hr, if_true] at h0
  refine ⟨?_, ?_, ?_, ?_⟩
  · simp [Impl.memberOutcome, Impl.editMember, goInt, pjRead, h0]
  · simp [Spec.memberMeaning, Spec.reading, pjRead, ok.ts_null]
  · have e1 : (0 : Int) / 1000 = 0 := by decide
    have e2 : ((0 : Int) % 1000).toNat * 1000000 = 0 := by decide
    simp [Impl.memberOutcome, Impl.editMember, goInt, pjRead, e1, h0]
  · simp [Spec.memberMeaning, Spec.reading, pjRead, ok.ts_null]

/-- **¬ DecoderSound, repeated int64 NUMBER** (finding `dispatched_undecodable:null_element_read_as_zero`):
`{"bigs":[1,null]}` — protojson refuses `null` as a list element, but `json.Unmarshal` into
`[]int64` leaves a 0 there and the edit rewrites the member to `["1","0"]`: the handler sees [1, 0]. -/
theorem int64_list_null_element_becomes_zero (pj : PJ) (ok : pj.OK) (k : Str) :
    Impl.memberOutcome pj k (.int64s false) (.arr [.num (.int 1), .null]) = some (.ints [1, 0]) ∧
    Spec.memberMeaning pj k (.int64s false) (.arr [.num (.int 1), .null]) = none := by
  constructor
  · have := ok.int64s_strs false [1, 0] (by intro n hn; simp at hn; rcases hn with rfl | rfl <;> decide)
    simp only [List.map] at this
    have hg : goIntList false (.arr [.num (.int 1), .null]) = some [1, 0] := by decide
    simp [Impl.memberOutcome, Impl.editMember, hg, pjRead, this]
  · have := ok.int64s_null_elem false [.num (.int 1), .null] (by simp)
    simp [Spec.memberMeaning, Spec.reading, pjRead, this]

/-- the same defect in the root unwrap of scalars (`json.Unmarshal(data, &x.Items)`): body `[1,null]`. -/
theorem unwrap_null_element_becomes_zero :
    Impl.unwrapInts (.arr [.num (.int 1), .null]) = some [1, 0] ∧ Spec.unwrapInts (.arr [.num (.int 1), .null]) = none := by decide

/-! ## whole bodies -/

/-- the full statement for an object body: a dispatched message is built from a body EVERY member
of which decoded, and is that decoding. FALSE today. -/
def DispatchOnlyFullyDecoded : Prop :=
  ∀ (pj : PJ), pj.OK → ∀ (tpls : List (Str × Tpl)) (raw : Obj) (m : List (Str × FV)),
    Impl.decodeObj pj tpls raw = some m → Spec.decodeMembers pj tpls raw = some m

theorem decodeMembers_sound (pj : PJ) (ok : pj.OK) (tpls : List (Str × Tpl)) :
    ∀ (raw : Obj) (m : List (Str × FV)), (∀ p ∈ raw, swallowSafe (Impl.tplOf tpls p.1) p.2 = true) →
      Impl.decodeMembers pj tpls raw = some m → Spec.decodeMembers pj tpls raw = some m
  | [], m, _, h => by simpa [Impl.decodeMembers, Spec.decodeMembers] using h
  | (k, j) :: t, m, hs, h => by
    simp only [Impl.decodeMembers] at h
    cases hv : Impl.memberOutcome pj k (Impl.tplOf tpls k) j with
    | none => simp [hv] at h
    | some v =>
      cases ht : Impl.decodeMembers pj tpls t with
      | none => simp [hv, ht] at h
      | some r =>
        simp [hv, ht] at h
        have h1 := decoder_sound_partial pj ok k _ j v (hs (k, j) List.mem_cons_self) hv
        have h2 := decodeMembers_sound pj ok tpls t r (fun p hp => hs p (List.mem_cons_of_mem _ hp)) ht
        simp [Spec.decodeMembers, h1, h2, h]

/-- **dispatch_only_fully_decoded_partial**: for a body without duplicate keys whose members are
all `swallowSafe`, what the server dispatches is the documented decoding of every member. -/
theorem dispatch_only_fully_decoded_partial (pj : PJ) (ok : pj.OK) (tpls : List (Str × Tpl)) (raw : Obj)
    (m : List (Str × FV)) (hd : raw.Pairwise (fun a b => a.1 ≠ b.1))
    (hs : ∀ p ∈ raw, swallowSafe (Impl.tplOf tpls p.1) p.2 = true)
    (h : Impl.decodeObj pj tpls raw = some m) :
    Spec.decodeMembers pj tpls raw = some m ∧ Spec.decodesFully pj tpls raw = true := by
  unfold Impl.decodeObj at h
  rw [goMap_nodup raw hd] at h
  have := decodeMembers_sound pj ok tpls raw m hs h
  exact ⟨this, by simp [Spec.decodesFully, this]⟩

/-- non-vacuity: a two-member body (a hexadecimal member and a plain one) meets the hypotheses. -/
example : let raw : Obj := [("bHex".toList, .str "cafe".toList), ("note".toList, .str "x".toList)]
    raw.Pairwise (fun a b => a.1 ≠ b.1) ∧
    (∀ p ∈ raw, swallowSafe (Impl.tplOf [("bHex".toList, .bytes 5)] p.1) p.2 = true) ∧
    (Impl.decodeObj pjBytesOnly [("bHex".toList, .bytes 5)] raw).isSome = true := by decide

/-- **¬ DispatchOnlyFullyDecoded, duplicate keys** (finding `dispatched_undecodable:duplicate_key_shadows_invalid_member`):
the Go map keeps the last binding of a key, so an earlier binding is never decoded, whatever it
holds: `{"note":1,"note":"x"}` is dispatched although `"note":1` is not a string (and although
protojson itself refuses duplicate keys for every un-annotated message). -/
theorem duplicate_key_shadows_invalid_member (pj : PJ) (k : Str) (x : Str)
    (hbad : pj.plain k (.num (.int 1)) = false) (hgood : pj.plain k (.str x) = true) :
    Impl.decodeObj pj [] [(k, .num (.int 1)), (k, .str x)] = some [(k, .other (.str x))] ∧
    Spec.decodesFully pj [] [(k, .num (.int 1)), (k, .str x)] = false := by
  constructor
  · simp [Impl.decodeObj, Impl.goMap, Impl.decodeMembers, Impl.memberOutcome, Impl.editMember, Impl.tplOf, pjRead, hgood]
  · simp [Spec.decodesFully, Spec.decodeMembers, Spec.memberMeaning, Spec.reading, Impl.tplOf, pjRead, hbad]

/-- json tags of the child structs, from the regenerated facts. -/
def leafTags : List Str := (Gen.Decoders.childJsonTags.filter (·.1 == "Leaf")).map (·.2.toList)
def textTags : List Str := (Gen.Decoders.childJsonTags.filter (·.1 == "TextVariant")).map (·.2.toList)

/-- **¬, flatten / flattened oneof** (finding `dispatched_undecodable:flattened_child_member_ignored`): the
decoders file `home_zipCode` / `langCode` under the lowerCamel key, the child struct's json tag is
the snake_case proto name, encoding/json finds no field and drops the member without looking at
it — `{"home_zipCode":"zz"}` (a string for an int32) is dispatched. -/
theorem flattened_child_member_ignored :
    childKeyDecoded leafTags "zipCode".toList = false ∧ childKeyDecoded leafTags "street".toList = true ∧
    childKeyDecoded textTags "langCode".toList = false ∧
    (∀ g : Json → Option FV, Impl.childMember leafTags "zipCode".toList g (.str "zz".toList) = some none) ∧
    (∀ g : Json → Option FV, g (.str "zz".toList) = none → Spec.childMember g (.str "zz".toList) = none) := by
  have hz : childKeyDecoded leafTags "zipCode".toList = false := by decide
  refine ⟨hz, by decide, by decide, ?_, ?_⟩
  · intro g
    unfold Impl.childMember
    rw [hz]
    rfl
  · intro g hg
    unfold Spec.childMember
    rw [hg]
    rfl

/-- **¬, flattened oneof** (finding `dispatched_undecodable:flattened_oneof_variant_member_overwritten`):
the generated assignment `raw["text"], _ = json.Marshal(variant)` replaces whatever the body holds
under the variant's own key — `{"type":"txt","body":"b","text":-1}` is dispatched, `"text":-1` is
never decoded. (Tie: the assignment is in the regenerated `OneofFlatReq.type` block.) -/
theorem flattened_oneof_variant_member_overwritten (k : Str) (own variant : Json) (rest : Obj) :
    oget k (Impl.oneofFlatAssign k variant ((k, own) :: rest)) = some variant := by
  unfold Impl.oneofFlatAssign
  exact Json.oget_oset_same k variant _

theorem oneof_assignment_transcribed :
    Gen.Decoders.editBlocks.lookup "OneofFlatReq.type" = some
      "if discRaw, ok := raw[\"type\"]; ok { var disc string if err := json.Unmarshal(discRaw, &disc); err != nil { return fmt.Errorf(\"invalid discriminator %q: %%w\", \"type\", err) } switch disc { case \"txt\": variantMap := make(map[string]json.RawMessage) if fv, exists := raw[\"body\"]; exists { variantMap[\"body\"] = fv delete(raw, \"body\") } if fv, exists := raw[\"langCode\"]; exists { variantMap[\"langCode\"] = fv delete(raw, \"langCode\") } variantData, _ := json.Marshal(variantMap) variant := &TextVariant{} if err := json.Unmarshal(variantData, variant); err != nil { return fmt.Errorf(\"failed to unmarshal variant %s: %%w\", \"Text\", err) } x.Content = &OneofFlatReq_Text{Text: variant} raw[\"text\"], _ = json.Marshal(variant) case \"image\": variantMap := make(map[string]json.RawMessage) if fv, exists := raw[\"url\"]; exists { variantMap[\"url\"] = fv delete(raw, \"url\") } if fv, exists := raw[\"width\"]; exists { variantMap[\"width\"] = fv delete(raw, \"width\") } variantData, _ := json.Marshal(variantMap) variant := &ImageVariant{} if err := json.Unmarshal(variantData, variant); err != nil { return fmt.Errorf(\"failed to unmarshal variant %s: %%w\", \"Image\", err) } x.Content = &OneofFlatReq_Image{Image: variant} raw[\"image\"], _ = json.Marshal(variant) } }" := by
  rfl

/-- **¬, map-value-unwrap container** (finding `dispatched_undecodable:map_value_unwrap_container_lenient`):
the container's decoder reads its own keys out of the Go map and returns — no protojson pass — so
an unknown member is never looked at and a top-level `null` (nil map) is an empty request, while
every other generated decoder answers 400 to both. -/
theorem container_lenient :
    Impl.containerLooksAt ["bySymbol".toList, "note".toList] "nope".toList = false ∧
    Impl.containerRoot .null = some [] ∧ Spec.containerRoot .null = none := by decide

/-- tie: the container decoder ends with `return nil`, the surgery decoders with protojson. -/
theorem container_shape_transcribed :
    (Gen.Decoders.unmarshalShape.lookup "MapValReq") = some ["var raw map[string]json.RawMessage",
      "if err := json.Unmarshal(data, &raw); err != nil { return err }", "EDIT bySymbol", "EDIT note", "EDIT places", "EDIT home", "EDIT tags", "return nil"] ∧
    ((Gen.Decoders.unmarshalShape.lookup "BytesReq").bind (·.getLast?)) = some "return protojson.Unmarshal(modified, x)" := by
  constructor <;> rfl

/-- **¬, encoding/json paths** (finding `dispatched_undecodable:invalid_utf8_replaced`): a body that is
not UTF-8 is not JSON; the members that go through encoding/json are accepted with U+FFFD in
place of the bad bytes. -/
theorem invalid_utf8_replaced : Impl.goStringAccepts false = true ∧ Spec.stringAccepts false = false := by decide

/-- **¬, the 400 body** (finding `malformed_error_body:undecodable_input_echoed`): when the decoder's
error text quotes bytes of a body that is not UTF-8, the ValidationError cannot be marshalled and
the answer is `text/plain` "error processing request" — a 400, but not a validation error. -/
theorem error_body_not_always_wellformed : Impl.errorBody false = .plainText ∧ Spec.errorBody false = .validationError := by decide

/-- **error_body_wellformed_partial**: with a UTF-8 description the body is the ValidationError. -/
theorem error_body_wellformed_partial : Impl.errorBody true = Spec.errorBody true := rfl

/-- tie: the fallback statement of the emitted `writeProtoMessageResponse`. -/
theorem error_fallback_transcribed :
    Gen.Decoders.writeProtoMessageResponse[6]? = some "if err != nil { http.Error(w, fallbackMsg, statusCode) return }" := by rfl

/-- **¬, proto field name as key** (finding `dispatched_value:proto_field_name_bypasses_decoder`): proto3 JSON
accepts `b_hex` as well as `bHex`; the generated edit looks `bHex` up only, so under `b_hex` the
text is read as base64: `{"b_hex":"cafe"}` reaches the handler as 71 a7 de, not ca fe. -/
theorem proto_field_name_bypasses_decoder :
    Impl.surgery pjBytesOnly [("bHex".toList, .bytes 5)] [("b_hex".toList, .str "cafe".toList)] = [("b_hex".toList, .str "cafe".toList)] ∧
    pjRead pjBytesOnly "b_hex".toList (.bytes 5) (.str "cafe".toList) = some (.bytes [113, 167, 222]) ∧
    Spec.memberMeaning pjBytesOnly "b_hex".toList (.bytes 5) (.str "cafe".toList) = some (.bytes [202, 254]) := by decide

/-! ## reading the body -/

/-- the JSON reader dispatches nothing from a body it could not read completely. -/
theorem json_read_sound (r : ReadResult) : Impl.readJSON r = Spec.read r := by
  cases r <;> rfl

/-- **binary_read_sound_partial**: for a completely read body the binary reader agrees. -/
theorem binary_read_sound_partial (b : Bytes) : Impl.readBinary (.complete b) = Spec.read (.complete b) := rfl

/-- **¬, truncated binary transfer** (finding `dispatched_undecodable:binary_body_read_error_tolerated`): when the
connection ends before the declared Content-Length (`io.ErrUnexpectedEOF`), the prefix that did
arrive is decoded and dispatched; when ANY read error happens before the first byte, the empty
check comes first and the request is dispatched undecoded. -/
theorem binary_truncated_body_dispatched :
    Impl.readBinary (.failed [10, 3, 97, 98, 99] true) = .decode [10, 3, 97, 98, 99] ∧
    Spec.read (.failed [10, 3, 97, 98, 99] true) = .reject ∧
    Impl.readBinary (.failed [] false) = .skip ∧ Spec.read (.failed [] false) = .reject := by decide

/-! ## the client -/

open Sebuf.ClientResp in
/-- **client_total**: whatever the transport delivers — no response, a failing body reader, any
status with any body — the generated client returns a response or an error value. -/
theorem client_total {M V E : Type} (d : Decoders M V E) (ct : String) (ex : Exchange) :
    (∃ m, outcome d ct ex = .ok m) ∨ (∃ k, outcome d ct ex = .err k) := by
  cases h : outcome d ct ex with
  | ok m => exact Or.inl ⟨m, rfl⟩
  | err k => exact Or.inr ⟨k, rfl⟩

open Sebuf.ClientResp in
/-- a status of 400 or more is never a response, whatever the body decodes to. -/
theorem client_error_status_is_error {M V E : Type} (d : Decoders M V E) (ct : String) (s : Int) (body : Bytes)
    (hs : s ≥ 400) : ∃ k, outcome d ct (.response s body) = .err k ∧ (k = .validation ∨ k = .error ∨ k = .status) := by
  have he : isErrorStatus s = true := by
    have : Gen.Pipeline.clientErrorThreshold = ">= 400" := by decide
    simp [isErrorStatus, this, hs]
  refine ⟨handleError d ct s body, by simp [outcome, he], ?_⟩
  unfold handleError
  split
  · exact Or.inl rfl
  · split
    · exact Or.inr (Or.inl rfl)
    · exact Or.inr (Or.inr rfl)

open Sebuf.ClientResp in
/-- below 400 the client returns a response exactly when the codec chosen for the CALL's content
type accepts the body (an empty body is the zero message); otherwise a decode error. -/
theorem client_ok_iff_decoded {M V E : Type} (d : Decoders M V E) (ct : String) (s : Int) (body : Bytes)
    (hs : s < 400) (m : M) :
    outcome d ct (.response s body) = .ok m ↔ unmarshal d.msg d.zeroMsg ct body = some m := by
  have he : isErrorStatus s = false := by
    have : Gen.Pipeline.clientErrorThreshold = ">= 400" := by decide
    simp only [isErrorStatus, this, beq_self_eq_true, if_true, decide_eq_false_iff_not]; omega
  simp only [outcome, he, Bool.false_eq_true, if_false]
  cases hu : unmarshal d.msg d.zeroMsg ct body with
  | none => simp
  | some x => simp

open Sebuf.ClientResp in
/-- a ValidationError is reported only for status 400. -/
theorem client_validation_only_400 {M V E : Type} (d : Decoders M V E) (ct : String) (s : Int) (body : Bytes)
    (h : outcome d ct (.response s body) = .err .validation) : s = 400 := by
  have hv : Gen.Pipeline.clientValidationStatusTest = "== http.StatusBadRequest" := by decide
  simp only [outcome] at h
  split at h
  · simp only [Outcome.err.injEq] at h
    unfold handleError at h
    split at h
    · rename_i hc
      simp only [Bool.and_eq_true, isValidationStatus, hv, beq_self_eq_true, if_true, decide_eq_true_eq] at hc
      exact hc.1
    · split at h <;> cases h
  · split at h <;> cases h

open Sebuf.ClientResp in
/-- non-vacuity: a 200 with a body the decoder accepts is a response; a 500 is an error. -/
example : outcome (M := Nat) (V := Nat) (E := Nat) ⟨fun _ _ => some 7, 0, fun _ _ => none, 0, fun _ _ => none, 0⟩ "application/json" (.response 200 [123, 125]) = .ok 7 ∧
    outcome (M := Nat) (V := Nat) (E := Nat) ⟨fun _ _ => some 7, 0, fun _ _ => none, 0, fun _ _ => none, 0⟩ "application/json" (.response 500 [123, 125]) = .err .status := by
  constructor <;> rfl

end Sebuf.C11
