import Sebuf.Mapping
import Sebuf.WireEnc
import Sebuf.JsonSchema
/-!
# The mock emitter (`internal/httpgen/mock_generator.go`) — `Impl` and `Spec` for C20

`Impl` (what the emitted `*_http_mock.pb.go` does today, defects included)

* `tableLine` / `exampleTable` — the `fieldExamples` map literal: every declared example is
  pasted between two `"` characters, so the Go compiler reads it as an *interpreted string
  literal* (`lexBody`, `escape`): escapes are interpreted, a `"` ends the literal early, a raw
  newline or an unknown escape makes the file unparsable (protogen then answers with an error).
  Keys are `<nested message path>.<field>`; the assignments look the key up by
  `<short message name>.<field>`.
* `mockMsg` — the value a mock RPC returns, field by field, following the
  `switch field.Desc.Kind()` of `generateMockFieldAssignments`, with every random draw an explicit
  parameter (`Env.pick`, `Env.rnd`, indexed by the call site). Since b58be88 the recursion carries
  the set of messages on the current path (`visiting`): a singular message field or a map value
  whose type is on the path is left unset.
* `stmtDefects` — the Go typing of every emitted assignment statement (the emitter consults
  neither cardinality nor oneof membership, and its selectors return `int64` / `float64`).

`Spec` (what C20 demands): `wt` (the value inhabits the response type: what the generated server
can serialise), `Schema.valid` of its wire JSON against the published response schema, and
`dishonoured = []` (every field that declares examples holds one of them, parsed to its type).

Library leaves: `strconv.ParseInt` (base 10, 64 bit) and `strconv.ParseBool` are defined here;
`strconv.ParseFloat` and the protojson text of the result enter as a finite table supplied by the
harness from the real library (`Env.floats`).
-/
namespace Sebuf.Mock
open Sebuf Sebuf.Mapping

/-! ## 1. Go interpreted string literals -/

/-- a piece of a literal's value: a Unicode character, or a raw byte ≥ 0x80 written `\xhh` / `\ooo`. -/
inductive Piece
  | c (ch : Char)
  | b (n : Nat)
deriving DecidableEq, Repr

def hexVal (c : Char) : Option Nat :=
  if '0' ≤ c ∧ c ≤ '9' then some (c.toNat - 48)
  else if 'a' ≤ c ∧ c ≤ 'f' then some (c.toNat - 87)
  else if 'A' ≤ c ∧ c ≤ 'F' then some (c.toNat - 55)
  else none

def octVal (c : Char) : Option Nat := if '0' ≤ c ∧ c ≤ '7' then some (c.toNat - 48) else none

def hexNum : List Char → Option Nat
  | [] => some 0
  | c :: cs => match hexVal c, hexNum cs with
    | some v, some r => some (v * 16 ^ cs.length + r)
    | _, _ => none

def validRune (n : Nat) : Bool := n ≤ 0x10FFFF && !(0xD800 ≤ n && n ≤ 0xDFFF)

def bytePiece (n : Nat) : Piece := if n < 128 then .c (Char.ofNat n) else .b n

/-- what follows a backslash: the piece it denotes and the rest of the source, or `none` for an
escape the Go scanner rejects. -/
def escape : Str → Option (Piece × Str)
  | 'a' :: r => some (.c (Char.ofNat 7), r)
  | 'b' :: r => some (.c (Char.ofNat 8), r)
  | 'f' :: r => some (.c (Char.ofNat 12), r)
  | 'n' :: r => some (.c '\n', r)
  | 'r' :: r => some (.c '\r', r)
  | 't' :: r => some (.c '\t', r)
  | 'v' :: r => some (.c (Char.ofNat 11), r)
  | '\\' :: r => some (.c '\\', r)
  | '"' :: r => some (.c '"', r)
  | 'x' :: h1 :: h2 :: r => (hexNum [h1, h2]).map fun n => (bytePiece n, r)
  | 'u' :: h1 :: h2 :: h3 :: h4 :: r =>
    (hexNum [h1, h2, h3, h4]).bind fun n => if validRune n then some (.c (Char.ofNat n), r) else none
  | 'U' :: h1 :: h2 :: h3 :: h4 :: h5 :: h6 :: h7 :: h8 :: r =>
    (hexNum [h1, h2, h3, h4, h5, h6, h7, h8]).bind fun n => if validRune n then some (.c (Char.ofNat n), r) else none
  | o1 :: o2 :: o3 :: r =>
    match octVal o1, octVal o2, octVal o3 with
    | some a, some b, some c =>
      let n := a * 64 + b * 8 + c
      if n ≤ 255 then some (bytePiece n, r) else none
    | _, _, _ => none
  | _ => none

inductive LexR
  | done (ps : List Piece) (rest : Str)
  | err
deriving DecidableEq, Repr

/-- characters the scanner refuses inside source text. -/
def illegalChar (c : Char) : Bool := c == '\n' || c.toNat == 0 || c.toNat == 0xFEFF

/-- the scanner after an opening quote. Fuel: one unit per step (`s.length + 1` suffices). -/
def lexBody : Nat → Str → List Piece → LexR
  | 0, _, _ => .err
  | _ + 1, [], _ => .err
  | fuel + 1, c :: rest, acc =>
    if c = '"' then .done acc rest
    else if illegalChar c then .err
    else if c = '\\' then
      match escape rest with
      | some (p, rest') => lexBody fuel rest' (acc ++ [p])
      | none => .err
    else lexBody fuel rest (acc ++ [.c c])

/-- UTF-8 decoding of a run of raw bytes (shortest form only, no surrogates). -/
def isCont (b : Nat) : Bool := 128 ≤ b && b < 192

def decodeRun : Nat → List Nat → Option Str
  | 0, _ => none
  | _ + 1, [] => some []
  | fuel + 1, b0 :: r =>
    if b0 < 128 then (decodeRun fuel r).map (Char.ofNat b0 :: ·)
    else if 194 ≤ b0 && b0 < 224 then
      match r with
      | b1 :: r' => if isCont b1 then (decodeRun fuel r').map (Char.ofNat ((b0 - 192) * 64 + (b1 - 128)) :: ·) else none
      | _ => none
    else if 224 ≤ b0 && b0 < 240 then
      match r with
      | b1 :: b2 :: r' =>
        let n := (b0 - 224) * 4096 + (b1 - 128) * 64 + (b2 - 128)
        if isCont b1 && isCont b2 && 2048 ≤ n && validRune n then (decodeRun fuel r').map (Char.ofNat n :: ·) else none
      | _ => none
    else if 240 ≤ b0 && b0 < 245 then
      match r with
      | b1 :: b2 :: b3 :: r' =>
        let n := (b0 - 240) * 262144 + (b1 - 128) * 4096 + (b2 - 128) * 64 + (b3 - 128)
        if isCont b1 && isCont b2 && isCont b3 && 65536 ≤ n && validRune n then (decodeRun fuel r').map (Char.ofNat n :: ·) else none
      | _ => none
    else none

/-- the string a literal denotes, `none` when its bytes are not valid UTF-8 (a raw-byte run never
combines with a neighbouring complete character). -/
def litValue : List Piece → List Nat → Option Str
  | [], run => decodeRun (run.length + 1) run
  | .b n :: ps, run => litValue ps (run ++ [n])
  | .c ch :: ps, run =>
    match decodeRun (run.length + 1) run, litValue ps [] with
    | some a, some r => some (a ++ ch :: r)
    | _, _ => none

/-- how the Go parser reads one emitted table line `"<example>",`. -/
inductive Line
  | entries (vs : List (Option Str))   -- the element values (`none`: not valid UTF-8)
  | unparsable                         -- protogen answers `unparsable Go source`
  | outside                            -- the spill-over is Go code the model does not read
deriving DecidableEq, Repr

def isBlank (c : Char) : Bool := c == ' ' || c == '\t'
def isOperandStart (c : Char) : Bool := c.isAlphanum || c == '"' || c == '_' || c == '\'' || c == '`'

/-- after a complete string literal: `,` then either the end of the line or another literal. -/
def afterLit : Nat → Str → List (Option Str) → Line
  | 0, _, _ => .outside
  | fuel + 1, src, acc =>
    match src.dropWhile isBlank with
    | [] => .unparsable                       -- cannot happen: the line ends in `",`
    | ',' :: r =>
      (match r.dropWhile (fun c => isBlank c || c == '\n') with
       | [] => .entries acc
       | '"' :: r' =>
         (match lexBody (r'.length + 1) r' [] with
          | .done ps rest => afterLit fuel rest (acc ++ [litValue ps []])
          | .err => .unparsable)
       | _ => .outside)
    | c :: _ => if isOperandStart c then .unparsable else .outside

def tableLine (ex : Str) : Line :=
  let src := ex ++ ['"', ',']
  match lexBody (src.length + 1) src [] with
  | .done ps rest => afterLit (src.length + 1) rest [litValue ps []]
  | .err => .unparsable

/-- an example without `"`, `\`, newline, NUL or BOM. -/
def plain (ex : Str) : Bool := ex.all fun c => !(c == '"' || c == '\\' || illegalChar c)

/-! ## 2. The `fieldExamples` table -/

/-- declared examples: (message full name, field name, example strings). -/
abbrev Decls := List (Str × Str × List Str)

def Decls.get (d : Decls) (msg fld : Str) : List Str :=
  match d.find? (fun e => e.1 == msg && e.2.1 == fld) with
  | some e => e.2.2
  | none => []

def isPrefixOf : Str → Str → Bool
  | [], _ => true
  | _ :: _, [] => false
  | a :: as, b :: bs => a == b && isPrefixOf as bs

/-- `collectMessageFieldExamples`: the path of a message inside its file (`Outer.Inner`). -/
def tablePath (f : File) (m : Message) : Str :=
  match f.messages.find? (fun t => t.topLevel && (t.fullName == m.fullName || isPrefixOf (t.fullName ++ ['.']) m.fullName)) with
  | some t => m.fullName.drop (t.fullName.length - t.name.length)
  | none => m.name

inductive Lines
  | ok (vs : List (Option Str))
  | unparsable
  | outside
deriving DecidableEq, Repr

/-- the lines of one table entry; a lexical error anywhere makes the whole file unparsable. -/
def linesOf : List Str → Lines
  | [] => .ok []
  | ex :: rest =>
    match tableLine ex, linesOf rest with
    | .unparsable, _ => .unparsable
    | _, .unparsable => .unparsable
    | .outside, _ => .outside
    | _, .outside => .outside
    | .entries vs, .ok ws => .ok (vs ++ ws)

inductive TableR
  | ok (t : List (Str × List (Option Str)))
  | unparsable
  | outside
deriving DecidableEq, Repr

/-- the rows `collectMessageFieldExamples` writes for the file: key and declared examples. -/
def tableRows (f : File) (d : Decls) : List (Str × List Str) :=
  f.messages.flatMap fun m => m.fields.filterMap fun fl =>
    match d.get m.fullName fl.name with
    | [] => none
    | exs => some (tablePath f m ++ ['.'] ++ fl.name, exs)

def tableOfRows : List (Str × List Str) → TableR
  | [] => .ok []
  | row :: rest =>
    match linesOf row.2, tableOfRows rest with
    | .unparsable, _ => .unparsable
    | _, .unparsable => .unparsable
    | .outside, _ => .outside
    | _, .outside => .outside
    | .ok vs, .ok t => .ok ((row.1, vs) :: t)

/-- the table of the generated file: one entry per field of the file's messages that declares examples. -/
def exampleTable (f : File) (d : Decls) : TableR := tableOfRows (tableRows f d)

abbrev Table := List (Str × List (Option Str))

def Table.get (t : Table) (k : Str) : List (Option Str) := (t.lookup k).getD []

/-! ## 3. Library leaves -/

def int64Min : Int := -9223372036854775808
def int64Max : Int := 9223372036854775807

def digitsVal : Str → Option Nat
  | [] => none
  | cs => cs.foldl (fun acc c => acc.bind fun n => if c.isDigit then some (n * 10 + (c.toNat - 48)) else none) (some 0)

def parseIntRaw : Str → Option Int
  | '-' :: r => (digitsVal r).map fun n => -(n : Int)
  | '+' :: r => (digitsVal r).map fun n => (n : Int)
  | r => (digitsVal r).map fun n => (n : Int)

def inInt64 (v : Int) : Bool := decide (int64Min ≤ v ∧ v ≤ int64Max)

/-- `strconv.ParseInt(s, 10, 64)` with a nil error. -/
def parseInt (s : Str) : Option Int :=
  match parseIntRaw s with
  | some v => if inInt64 v then some v else none
  | none => none

/-- `strconv.ParseBool`. -/
def parseBool (s : Str) : Option Bool :=
  if s ∈ ["1".toList, "t".toList, "T".toList, "TRUE".toList, "true".toList, "True".toList] then some true
  else if s ∈ ["0".toList, "f".toList, "F".toList, "FALSE".toList, "false".toList, "False".toList] then some false
  else none

/-- one row of the supplied `strconv.ParseFloat(·, 64)` table: protojson text of the result,
whether protojson quotes it (NaN / ±Infinity), whether it is +0. -/
structure FloatRow where
  tok : Str
  quoted : Bool := false
  zero : Bool := false
deriving DecidableEq, Repr, Inhabited

/-! ## 4. The emitter's per-kind tables (checked against `Gen.Mock` in `Props/C20.lean`) -/

inductive Action | selString | selInt | selBool | selFloat | message | todo
deriving DecidableEq, Repr

def actionOf : Kind → Action
  | .string => .selString
  | .int32 | .int64 => .selInt
  | .bool => .selBool
  | .float | .double => .selFloat
  | .message => .message
  | _ => .todo

def Action.name : Action → String
  | .selString => "selectStringExample" | .selInt => "selectIntExample" | .selBool => "selectBoolExample"
  | .selFloat => "selectFloatExample" | .message => "message" | .todo => "todo"

/-- Go type of a scalar struct field of this kind, as protoc-gen-go declares it. -/
def goScalar : Kind → String
  | .string => "string" | .int32 | .sint32 | .sfixed32 => "int32" | .int64 | .sint64 | .sfixed64 => "int64"
  | .uint32 | .fixed32 => "uint32" | .uint64 | .fixed64 => "uint64" | .bool => "bool"
  | .float => "float32" | .double => "float64" | .bytes => "[]byte" | .enum => "<enum type>" | .message => "<message>"

/-- Go type the selector returns. -/
def Action.retTy : Action → String
  | .selString => "string" | .selInt => "int64" | .selBool => "bool" | .selFloat => "float64" | _ => ""

/-- `getDefaultValue`: the literal written for a scalar map value. -/
def defaultLit : Kind → String
  | .int32 | .int64 => "42" | .bool => "true" | .float | .double => "3.14" | _ => "\"\""

/-- `getGoTypeScalar` (what `make(map[K]V)` is written with). -/
def emittedScalarTy : Kind → String
  | .enum => "int32"
  | .message => "<message>"
  | k => goScalar k

/-- `getSampleMapKey`, as protojson prints the key. -/
def sampleKeyText : Kind → Str
  | .string => "sample_key".toList
  | .bool => "true".toList
  | .enum => "0".toList
  | .float | .double => "1".toList
  | .bytes | .message => "key".toList
  | _ => "1".toList

/-- is the untyped constant `lit` assignable to Go type `ty`? -/
def litAssignable (lit ty : String) : Bool :=
  match lit with
  | "42" => ty ∈ ["int32", "int64", "uint32", "uint64", "float32", "float64"]
  | "true" => ty == "bool"
  | "3.14" => ty ∈ ["float32", "float64"]
  | _ => ty == "string"

inductive StrGen | uuid | names | const (s : String)
deriving DecidableEq, Repr

def containsSub (sub s : Str) : Bool :=
  match s with
  | [] => sub.isEmpty
  | _ :: t => isPrefixOf sub s || containsSub sub t

/-- `getDefaultGenerator`: substring tests on the lower-cased proto field name, in source order. -/
def defaultGenName (fname : Str) : String :=
  let n := fname.map toLowerAscii
  if containsSub "id".toList n then "generateUUID"
  else if containsSub "email".toList n then "generateEmail"
  else if containsSub "name".toList n then "generateName"
  else if containsSub "phone".toList n then "generatePhone"
  else if containsSub "address".toList n then "generateAddress"
  else if containsSub "url".toList n then "generateURL"
  else "generateString"

def genNames : List String := ["Alice Johnson", "Bob Smith", "Charlie Davis", "Diana Wilson"]

def genOf : String → StrGen
  | "generateUUID" => .uuid
  | "generateName" => .names
  | "generateEmail" => .const "user@example.com"
  | "generatePhone" => .const "+1-555-0123"
  | "generateAddress" => .const "123 Main Street, Anytown, USA"
  | "generateURL" => .const "https://example.com"
  | _ => .const "example string"

def hex2 (b : Nat) : Str := [Char.ofNat (hexLowerDigit (b / 16 % 16)), Char.ofNat (hexLowerDigit (b % 16))]

def hexOf (bs : List Nat) : Str := bs.flatMap hex2

/-- `generateUUID` on 16 random bytes: version and variant bits forced, `%x-%x-%x-%x-%x`. -/
def uuidOf (bs : List Nat) : Str :=
  let b := (bs ++ List.replicate 16 0).take 16
  let b := b.set 6 (b[6]! % 16 + 64)
  let b := b.set 8 (b[8]! % 64 + 128)
  hexOf (b.take 4) ++ ['-'] ++ hexOf ((b.drop 4).take 2) ++ ['-'] ++ hexOf ((b.drop 6).take 2) ++ ['-'] ++
    hexOf ((b.drop 8).take 2) ++ ['-'] ++ hexOf (b.drop 10)

/-! ## 5. `Impl`: the value a mock RPC returns -/

structure Env where
  tbl : Table := []
  floats : List (Str × FloatRow) := []
  pick : Str → Nat := fun _ => 0          -- `rand.Intn` at the call site
  rnd : Str → List Nat := fun _ => []     -- `crypto/rand` bytes at the call site

def nth? {α} (l : List α) (i : Nat) : Option α := l[i % l.length]?

/-- the element `examples[rand.Intn(len(examples))]` of a non-empty list. -/
def pickOf {α} (env : Env) (site : Str) (l : List α) : Option α := nth? l (env.pick site)

def strDefault (env : Env) (site fname : Str) : Str :=
  match genOf (defaultGenName fname) with
  | .uuid => uuidOf (env.rnd site)
  | .names => ((nth? genNames (env.pick site)).getD "").toList
  | .const s => s.toList

/-- `selectStringExample`: `none` = the chosen literal is not valid UTF-8. -/
def selString (env : Env) (site key fname : Str) : Option Str :=
  match env.tbl.get key with
  | [] => some (strDefault env site fname)
  | exs => (pickOf env site exs).getD none

/-- `selectIntExample(key, 42)`. -/
def selInt (env : Env) (site key : Str) : Int :=
  match env.tbl.get key with
  | [] => 42
  | exs => (((pickOf env site exs).getD none).bind parseInt).getD 42

/-- `selectBoolExample(key, true)`. -/
def selBool (env : Env) (site key : Str) : Bool :=
  match env.tbl.get key with
  | [] => true
  | exs => (((pickOf env site exs).getD none).bind parseBool).getD true

def float314 : FloatRow := { tok := "3.14".toList }

/-- `selectFloatExample(key, 3.14)`. -/
def selFloat (env : Env) (site key : Str) : FloatRow :=
  match env.tbl.get key with
  | [] => float314
  | exs => (((pickOf env site exs).getD none).bind fun s => env.floats.lookup s).getD float314

/-- marker for a string field holding bytes that are not valid UTF-8 (the generated server cannot
serialise it: `proto: field … contains invalid UTF-8`). -/
def badUtf8 : Val := .bytes [256]

def isBadUtf8 : Val → Bool | .bytes [256] => true | _ => false

/-- value of a scalar map entry (`getDefaultValue` of the value kind). -/
def mapScalarDefault : Kind → Val
  | .int32 | .int64 => .int 42
  | .bool => .bool true
  | .float | .double => .float "3.14".toList false
  | _ => .str []

/-- one field of the response: `none` = nothing assigned, or a proto3 default (not populated).
`vis` = full names of the messages being filled on the current path (`visiting`, the enclosing
message included): a singular message field or a map value whose type is on the path is left unset. -/
def mockField (rq : Request) (env : Env) (vis : List Str) (recMsg : Str → Message → List (Str × Val)) (site mname : Str) (f : Field) : Option Val :=
  let key := mname ++ ['.'] ++ f.name
  if f.card == .map then
    if f.kind == .message then
      if vis.contains f.typeName then none
      else
        (match rq.findMessage f.typeName with
         | some c => some (.map [(sampleKeyText f.mapKey, Val.msg (recMsg (site ++ "[]".toList) c))])
         | none => some (.map [(sampleKeyText f.mapKey, Val.msg [])]))
    else some (.map [(sampleKeyText f.mapKey, mapScalarDefault f.kind)])
  else match actionOf f.kind with
    | .selString => (match selString env site key f.name with
        | none => some badUtf8
        | some [] => none
        | some s => some (.str s))
    | .selInt => let v := selInt env site key; if v = 0 then none else some (.int v)
    | .selBool => if selBool env site key then some (.bool true) else none
    | .selFloat => let r := selFloat env site key; if r.zero then none else some (.float r.tok r.quoted)
    | .message =>
      if f.card == .repeated then none
      else if vis.contains f.typeName then none
      else (match rq.findMessage f.typeName with
        | some c => some (.msg (recMsg site c))
        | none => some (.msg []))
    | .todo => none

/-- the response of a mock RPC whose output type is `m`; `path` = the messages being filled above
`m` (empty for the response type), `site` names the variable path. The recursion carries a path
guard (`visiting`), so it ends on every type graph; fuel `#messages + 1` is never exhausted. -/
def mockMsg (rq : Request) (env : Env) : Nat → List Str → Str → Message → List (Str × Val)
  | 0, _, _, _ => []
  | fuel + 1, path, site, m =>
    m.fields.filterMap fun f =>
      (mockField rq env (m.fullName :: path) (mockMsg rq env fuel (m.fullName :: path)) (site ++ ['.'] ++ f.name) m.name f).map fun v => (f.name, v)

/-- does the emitter's (path-guarded) recursion below `m` finish within `fuel` levels? -/
def finishes (rq : Request) : Nat → List Str → Message → Bool
  | 0, _, _ => false
  | fuel + 1, path, m => m.fields.all fun f =>
      if f.kind == .message && f.card != .repeated && !(m.fullName :: path).contains f.typeName then
        (match rq.findMessage f.typeName with | some c => finishes rq fuel (m.fullName :: path) c | none => true)
      else true

/-- every call site of a selector below `m`, with the candidates count it draws from. -/
def sites (rq : Request) (env : Env) : Nat → List Str → Str → Message → List (Str × Nat)
  | 0, _, _, _ => []
  | fuel + 1, path, site, m => m.fields.flatMap fun f =>
      let s := site ++ ['.'] ++ f.name
      let vis := m.fullName :: path
      if f.card == .map then
        (if f.kind == .message && !vis.contains f.typeName then
          (match rq.findMessage f.typeName with | some c => sites rq env fuel vis (s ++ "[]".toList) c | none => [])
         else [])
      else match actionOf f.kind with
        | .message => if f.card == .repeated || vis.contains f.typeName then [] else
            (match rq.findMessage f.typeName with | some c => sites rq env fuel vis s c | none => [])
        | .todo => []
        | _ => [(s, max 4 (env.tbl.get (m.name ++ ['.'] ++ f.name)).length)]

/-- a string field somewhere holds invalid UTF-8: the server answers 500. -/
def hasBadUtf8 : Nat → Val → Bool
  | 0, _ => false
  | fuel + 1, v =>
    match v with
    | .msg fs => fs.any fun p => hasBadUtf8 fuel p.2
    | .map kvs => kvs.any fun p => hasBadUtf8 fuel p.2
    | .list l => l.any (hasBadUtf8 fuel)
    | x => isBadUtf8 x

/-- the environment of the emitted file: its table (empty when the file is not Go). -/
def envOf (f : File) (d : Decls) (floats : List (Str × FloatRow) := []) (pick : Str → Nat := fun _ => 0) : Env :=
  { tbl := (match exampleTable f d with | .ok t => t | _ => []), floats := floats, pick := pick }

/-! ## 6. `Impl`: Go typing of the emitted assignments -/

/-- defect classes of the statements emitted for one field (`recMsg` = defects below a child type;
nothing is emitted for a message type on the path `vis`). -/
def stmtDefects (rq : Request) (vis : List Str) (recMsg : Message → List String) (f : Field) : List String :=
  if f.card == .map then
    if f.kind == .message then
      (if vis.contains f.typeName then []
       else if isTimestampName f.typeName then ["selector_type_mismatch"]
       else match rq.findMessage f.typeName with | some c => recMsg c | none => [])
    else
      (if emittedScalarTy f.kind != goScalar f.kind then ["map_value_type"] else []) ++
      (if litAssignable (defaultLit f.kind) (goScalar f.kind) then [] else ["map_value_default_literal"])
  else match actionOf f.kind with
    | .todo => []
    | .message =>
      if f.card == .repeated then []
      else if vis.contains f.typeName then []
      else
        if f.oneof.isSome then ["oneof_member"]
        else if isTimestampName f.typeName then ["selector_type_mismatch"]   -- Timestamp.nanos is int32
        else (match rq.findMessage f.typeName with | some c => recMsg c | none => [])
    | a =>
      if f.oneof.isSome then ["oneof_member"]
      else if f.card == .optional then ["optional_scalar"]
      else if f.card == .repeated then ["repeated_scalar"]
      else if a.retTy != goScalar f.kind then ["selector_type_mismatch"]
      else []

def msgDefects (rq : Request) : Nat → List Str → Message → List String
  | 0, _, _ => []
  | fuel + 1, path, m => m.fields.flatMap (stmtDefects rq (m.fullName :: path) (msgDefects rq fuel (m.fullName :: path)))

/-! ## 7. `Spec` -/

def int32Min : Int := -2147483648
def int32Max : Int := 2147483647

/-- a scalar value of kind `k` that the protobuf runtime can serialise. -/
def leafWT (k : Kind) : Val → Bool
  | .str _ => k == .string
  | .int i =>
    (match k with
     | .int32 | .sint32 | .sfixed32 => decide (int32Min ≤ i ∧ i ≤ int32Max)
     | .int64 | .sint64 | .sfixed64 => decide (int64Min ≤ i ∧ i ≤ int64Max)
     | .uint32 | .fixed32 => decide (0 ≤ i ∧ i ≤ 4294967295)
     | .uint64 | .fixed64 => decide (0 ≤ i ∧ i ≤ 18446744073709551615)
     | _ => false)
  | .bool _ => k == .bool
  | .float _ _ => k == .float || k == .double
  | .bytes b => k == .bytes && b.all (· < 256)
  | .enum _ => k == .enum
  | _ => false

def elemWT (rq : Request) (recMsg : Message → List (Str × Val) → Bool) (f : Field) (v : Val) : Bool :=
  if f.kind == .message then
    (match v, rq.findMessage f.typeName with
     | .msg vs, some c => recMsg c vs
     | .msg vs, none => vs.isEmpty
     | _, _ => false)
  else leafWT f.kind v

def fieldWT (rq : Request) (recMsg : Message → List (Str × Val) → Bool) (f : Field) (v : Val) : Bool :=
  if f.card == .map then
    (match v with | .map kvs => kvs.all fun p => elemWT rq recMsg f p.2 | _ => false)
  else if f.card == .repeated then
    (match v with | .list l => l.all (elemWT rq recMsg f) | _ => false)
  else elemWT rq recMsg f v

/-- **well typed**: every populated field is a field of `m` holding a value of its kind and
cardinality, strings being valid text (`badUtf8` is not). -/
def wt (rq : Request) : Nat → Message → List (Str × Val) → Bool
  | 0, _, vs => vs.isEmpty
  | fuel + 1, m, vs => vs.all fun p => m.fields.any fun f => f.name == p.1 && fieldWT rq (wt rq fuel) f p.2

def leafEq : Val → Val → Bool
  | .str a, .str b => a == b
  | .int a, .int b => a == b
  | .bool a, .bool b => a == b
  | .float a qa, .float b qb => a == b && qa == qb
  | .enum a, .enum b => a == b
  | _, _ => false

def defaultOf (floatZero : Str) : Kind → Val
  | .string => .str []
  | .bool => .bool false
  | .float | .double => .float floatZero false
  | .enum => .enum 0
  | .bytes => .bytes []
  | _ => .int 0

/-- an example **parsed to the field's type** (`none`: not a value of that type). -/
def specParse (rq : Request) (floats : List (Str × FloatRow)) (f : Field) (ex : Str) : Option Val :=
  match f.kind with
  | .string => some (.str ex)
  | .bool => (parseBool ex).map .bool
  | .float | .double => (floats.lookup ex).map fun r => .float r.tok r.quoted
  | .enum => (rq.findEnum f.typeName).bind fun e => (e.values.find? (·.2.1 == ex)).map fun v => .enum v.1
  | .bytes | .message => none
  | .uint32 | .fixed32 | .uint64 | .fixed64 =>     -- strconv.ParseUint: no sign
    (digitsVal ex).bind fun n => if leafWT f.kind (.int n) then some (.int n) else none
  | k => (parseInt ex).bind fun i => if leafWT k (.int i) then some (.int i) else none

/-- fields (by path) that declare at least one parsable example and hold none of them. -/
def dishonoured (rq : Request) (d : Decls) (floats : List (Str × FloatRow)) : Nat → Str → Message → List (Str × Val) → List Str
  | 0, _, _, _ => []
  | fuel + 1, path, m, vs => m.fields.flatMap fun f =>
      let p := path ++ ['.'] ++ f.name
      if f.card == .map then
        (match vs.lookup f.name, rq.findMessage f.typeName with
         | some (.map kvs), some c => if f.kind == .message then kvs.flatMap fun kv =>
              (match kv.2 with | .msg cvs => dishonoured rq d floats fuel (p ++ "[]".toList) c cvs | _ => []) else []
         | _, _ => [])
      else if f.card == .repeated then []
      else if f.kind == .message then
        (match vs.lookup f.name, rq.findMessage f.typeName with
         | some (.msg cvs), some c => dishonoured rq d floats fuel p c cvs
         | _, _ => [])
      else
        let parsed := (d.get m.fullName f.name).filterMap (specParse rq floats f)
        if parsed.isEmpty then []
        else
          let v := (vs.lookup f.name).getD (defaultOf "0".toList f.kind)
          if parsed.any (leafEq v) then [] else [p]

/-- the contract of C20 for one answer (`encFuel` bounds the encoder's recursion, three steps per
nesting level). -/
def mockOk (rq : Request) (d : Decls) (floats : List (Str × FloatRow)) (comps : List (Str × Json)) (schema : Json)
    (fuel encFuel : Nat) (m : Message) (vs : List (Str × Val)) : Bool :=
  let wire := WireEnc.wireEnc rq encFuel m vs
  wt rq fuel m vs && Schema.valid comps (Schema.defaultFuel comps schema wire) schema wire &&
  (dishonoured rq d floats fuel [] m vs).isEmpty

end Sebuf.Mock
