import Sebuf.Driver
import Sebuf.Traverse
import Sebuf.Gen.Recursion
namespace Sebuf.Driver
open Lean (Json)

/-- does the mock emitter's unguarded recursion finish on the type graph from each root?
fuel = number of messages + 1 is enough on acyclic graphs (`mockAssign_done_of_rank`). -/
def opMockGraph (j : Json) : Json :=
  let g : Graph := (getArr j "edges").map fun e => (getStr e "from", getStrList e "to")
  let roots := getStrList j "roots"
  let fuel := g.length + 2
  -- the fuel-bounded replay of the recursion is itself exponential on DAG-shaped graphs: only run it
  -- when the unfolded size is small; a saturated estimate on an acyclic graph is reported as work
  let small := (roots.map fun r => mockWork g (2 ^ 22) r).all (· < 2 ^ 22)
  -- the recursion the mock emitter has NOW, read off the regenerated fact: with a path guard it finishes on every graph
  let mockGuarded := Gen.Recursion.sites.any fun t => t.1 == "internal/httpgen.generateMockFieldAssignments" && t.2.2.1
  let div := if mockGuarded then false
    else if small then roots.any fun r => mockAssign g fuel r == Outcome.outOfFuel else false
  let cap := 2 ^ 40
  let work := (roots.map fun r => mockWork g cap r).foldl max 0
  Json.mkObj [("mock_diverges", Json.bool div), ("mock_work", Json.num (Lean.JsonNumber.fromNat work)),
              ("visited", Json.arr ((collect g [] roots).map jstr).toArray)]

end Sebuf.Driver
