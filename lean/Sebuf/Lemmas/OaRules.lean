import Sebuf.OaRules
import Sebuf.Lemmas.JsonSchema
import Sebuf.Lemmas.Dec
/-!
Helper lemmas for property C19 (`Sebuf.Props.C19`): annotation keywords do not influence
`Schema.valid`, exact decimal comparison on integers, `enum` / `const` / `uniqueItems` against
lists of scalars, YAML plain scalars that stay strings, and the per-class equivalences between
`OaRules.accepts` on `Impl.fieldSchema` and `Spec.satisfies`.
-/
namespace Sebuf.OaRules
open Sebuf Sebuf.Json Sebuf.Schema

set_option linter.unusedSimpArgs false

section closed
attribute [local simp] Schema.valid objValid leafOk applicatorsOk typeOk enumOk constOk numericOk
  numBoundOk stringOk countOk arrayCountsOk uniqueOk objectCountsOk requiredOk refOk itemsOk
  propertiesOk propsOf memberOk allOfOk anyOfOk oneOfOk notOk kw Json.oget typeAccepts
  typeEntryAccepts Json.isStr Json.isNull Json.isBool Json.isObj Json.isArr Json.isNum strLen
  arrLen objLen geB leB
  K.ref K.type K.enum K.const K.minimum K.maximum K.exclusiveMinimum K.exclusiveMaximum K.minLength K.maxLength K.pattern K.items K.minItems K.maxItems K.uniqueItems K.properties K.required K.additionalProperties K.minProperties K.maxProperties K.allOf K.anyOf K.oneOf K.not K.format K.description T.null T.boolean T.object T.array T.number T.integer T.string

/-! ### annotation keywords at the head of a schema object are invisible to the validator -/

theorem valid_cons_format (comps : List (Str × Json)) (fuel : Nat) (v : Json) (kvs : List (Str × Json)) (j : Json) :
    Schema.valid comps (fuel + 1) (.obj ((K.format, v) :: kvs)) j = Schema.valid comps (fuel + 1) (.obj kvs) j := by
  simp

theorem valid_cons_pattern (comps : List (Str × Json)) (fuel : Nat) (v : Json) (kvs : List (Str × Json)) (j : Json) :
    Schema.valid comps (fuel + 1) (.obj ((K.pattern, v) :: kvs)) j = Schema.valid comps (fuel + 1) (.obj kvs) j := by
  simp

theorem valid_cons_description (comps : List (Str × Json)) (fuel : Nat) (v : Json) (kvs : List (Str × Json)) (j : Json) :
    Schema.valid comps (fuel + 1) (.obj ((K.description, v) :: kvs)) j = Schema.valid comps (fuel + 1) (.obj kvs) j := by
  simp

theorem decBoundsOk_cons_format (v : Json) (kvs : List (Str × Json)) (j : Json) :
    decBoundsOk ((K.format, v) :: kvs) j = decBoundsOk kvs j := by
  simp [decBoundsOk, decBound]

theorem decBoundsOk_cons_pattern (v : Json) (kvs : List (Str × Json)) (j : Json) :
    decBoundsOk ((K.pattern, v) :: kvs) j = decBoundsOk kvs j := by
  simp [decBoundsOk, decBound]

theorem decBoundsOk_cons_description (v : Json) (kvs : List (Str × Json)) (j : Json) :
    decBoundsOk ((K.description, v) :: kvs) j = decBoundsOk kvs j := by
  simp [decBoundsOk, decBound]

/-- only annotation keys (`format`, `pattern`, `description`). -/
def AnnList (l : List (Str × Json)) : Prop :=
  ∀ p ∈ l, p.1 = K.format ∨ p.1 = K.pattern ∨ p.1 = K.description

theorem accepts_obj (comps : List (Str × Json)) (fuel : Nat) (kvs : List (Str × Json)) (j : Json) :
    accepts comps fuel (.obj kvs) j = (Schema.valid comps fuel (.obj kvs) j && decBoundsOk kvs j) := rfl

theorem accepts_strip (comps : List (Str × Json)) (fuel : Nat) (core : List (Str × Json)) (j : Json) :
    ∀ l, AnnList l → accepts comps (fuel + 1) (.obj (l ++ core)) j = accepts comps (fuel + 1) (.obj core) j
  | [], _ => rfl
  | (k, v) :: t, h => by
    have ht : AnnList t := fun p hp => h p (List.mem_cons_of_mem _ hp)
    have ih := accepts_strip comps fuel core j t ht
    rw [accepts_obj] at ih ⊢
    rcases h (k, v) List.mem_cons_self with hk | hk | hk <;> simp only at hk <;> subst hk
    · rw [List.cons_append, valid_cons_format, decBoundsOk_cons_format]; exact ih
    · rw [List.cons_append, valid_cons_pattern, decBoundsOk_cons_pattern]; exact ih
    · rw [List.cons_append, valid_cons_description, decBoundsOk_cons_description]; exact ih

theorem annList_append {a b : List (Str × Json)} (ha : AnnList a) (hb : AnnList b) : AnnList (a ++ b) := by
  intro p hp
  rcases List.mem_append.mp hp with h | h
  · exact ha p h
  · exact hb p h

theorem annList_baseAnn (k : FKind) (i : Bool) : AnnList (Impl.baseAnn k i) := by
  intro p hp
  cases k with
  | string => simp [Impl.baseAnn] at hp
  | bool => simp [Impl.baseAnn] at hp
  | num nk => cases nk <;> cases i <;> simp [Impl.baseAnn] at hp <;> rcases hp with rfl | rfl <;> simp <;> rfl

theorem annList_scalarAnn (k : FKind) (c : FCard) (r : FieldRules) : AnnList (Impl.scalarAnn k c r) := by
  intro p hp
  unfold Impl.scalarAnn at hp
  split at hp
  · cases k with
    | string =>
      simp only [Impl.stringAnn] at hp
      rcases List.mem_append.mp hp with h | h
      · split at h
        · simp at h; subst h; simp; 
        · simp at h
      · cases hf : r.format <;> simp [hf, Impl.optKw] at h
        subst h; simp
    | bool => simp at hp
    | num nk => simp at hp
  · simp at hp

/-- the schema of a scalar field accepts what its validation keywords accept. -/
theorem accepts_scalar_core (k : FKind) (c : FCard) (i : Bool) (r : FieldRules) (hc : c.isScalar = true)
    (fuel : Nat) (j : Json) :
    accepts [] (fuel + 1) (Impl.fieldSchema k c i r) j =
      accepts [] (fuel + 1) (.obj (Impl.scalarCore k c r ++ Impl.baseCore k i)) j := by
  unfold Impl.fieldSchema
  rw [if_pos hc]
  exact accepts_strip [] fuel _ j _ (annList_append (annList_scalarAnn k c r) (annList_baseAnn k i))

/-! ### exact decimal comparison on integers -/

theorem dle_int (a b : Int) : dle (.int a) (.int b) = decide (a ≤ b) := by
  simp [dle, Dcm.ofJNum, Dcm.le]

theorem dlt_int (a b : Int) : dlt (.int a) (.int b) = decide (a < b) := by
  simp [dlt, Dcm.ofJNum, Dcm.lt]

theorem toF64_small (i : Int) (h : i.natAbs ≤ 2 ^ 53) : Impl.toF64 i = i := by
  simp [Impl.toF64, h]

theorem any_beq_num (l : List JNum) (n : JNum) :
    (l.map Json.num).any (fun v => Json.beq v (Json.num n)) = l.any (· == n) := by
  induction l with
  | nil => rfl
  | cons a t ih => simp [List.any_cons, Json.beq, ih]

theorem any_beq_str (l : List Str) (s : Str) :
    (l.map Json.str).any (fun v => Json.beq v (Json.str s)) = l.any (· == s) := by
  induction l with
  | nil => rfl
  | cons a t ih => simp [List.any_cons, Json.beq, ih]

theorem any_comp_beq_num (l : List JNum) (n : JNum) :
    l.any ((fun v => Json.beq v (Json.num n)) ∘ Json.num) = l.any (fun x => x == n) := by
  induction l with
  | nil => rfl
  | cons a t ih => simp [List.any_cons, Json.beq, ih]

/-- numeric rule values that are exact integers `float64` represents. -/
def IntBound (o : Option NumB) : Prop := ∀ b, o = some b → ∃ i : Int, b.v = .int i ∧ i.natAbs ≤ 2 ^ 53

/-- the signed integer kinds whose JSON form is a number: the 32-bit ones, and the 64-bit ones under
`int64_encoding = NUMBER` (every kind reads its own rule group since /repo 3ffb0a3). -/
def NumberJsonInt (nk : NKind) (i64n : Bool) : Prop :=
  nk = .int32 ∨ nk = .sint32 ∨ nk = .sfixed32 ∨ ((nk = .int64 ∨ nk = .sint64 ∨ nk = .sfixed64) ∧ i64n = true)

/-- an integer bound is absent, or the document shows it as the same integer. -/
theorem intBound_norm {nk : NKind} {i64n : Bool} (hk : NumberJsonInt nk i64n) {o : Option NumB} (h : IntBound o) :
    o = none ∨ ∃ b i, o = some b ∧ Impl.boundJson nk b = .num (.int i) ∧ b.v = .int i := by
  cases o with
  | none => exact Or.inl rfl
  | some b =>
    obtain ⟨i, hv, hi⟩ := h b rfl
    refine Or.inr ⟨b, i, rfl, ?_, hv⟩
    rcases hk with rfl | rfl | rfl | ⟨rfl | rfl | rfl, rfl⟩ <;> simp [Impl.boundJson, hv, toF64_small _ hi]

set_option maxHeartbeats 8000000 in
theorem int_rules_iff (nk : NKind) (i64n : Bool) (hk : NumberJsonInt nk i64n) (c : FCard) (hc : c.isScalar = true)
    (r : FieldRules) (hg : r.group = nk)
    (hgt : IntBound r.gt) (hgte : IntBound r.gte) (hlt : IntBound r.lt) (hlte : IntBound r.lte) (i : Int) (fuel : Nat) :
    accepts [] (fuel + 1) (Impl.fieldSchema (.num nk) c i64n r) (jsonForm (.num nk) i64n (.one (.num (.int i))))
      = Spec.satisfies (.num nk) c r (.one (.num (.int i))) := by
  rw [accepts_scalar_core _ _ _ _ hc]
  obtain ⟨req, minLen, maxLen, pat, strIn, strConst, fmt, group, gt, gte, lt, lte, numIn, numConst, minItems, maxItems, unique, minPairs, maxPairs⟩ := r
  simp only at hg hgt hlt hgte hlte
  subst hg
  have hj : jsonForm (.num group) i64n (.one (.num (.int i))) = .num (.int i) := by
    rcases hk with rfl | rfl | rfl | ⟨rfl | rfl | rfl, rfl⟩ <;> simp [jsonForm, jsonScalar, NKind.is64]
  have hb : Impl.baseCore (.num group) i64n = [(K.type, .str T.integer)] := by
    rcases hk with rfl | rfl | rfl | ⟨rfl | rfl | rfl, rfl⟩ <;> simp [Impl.baseCore]
  have hget : Impl.getter group = group := by
    rcases hk with rfl | rfl | rfl | ⟨rfl | rfl | rfl, rfl⟩ <;> rfl
  have n1 := intBound_norm hk hgte
  have n2 := intBound_norm hk hgt
  have n3 := intBound_norm hk hlte
  have n4 := intBound_norm hk hlt
  rw [hj, hb]
  simp only [Impl.scalarCore, hc, if_true, hget, Impl.numericKws, Spec.satisfies, Spec.scalarOk, Spec.numOk, Spec.optB,
    Bool.true_and]
  clear hj hb hget hk hgt hgte hlt hlte hc
  rcases n1 with rfl | ⟨b1, i1, rfl, j1, v1⟩ <;> rcases n2 with rfl | ⟨b2, i2, rfl, j2, v2⟩ <;>
  rcases n3 with rfl | ⟨b3, i3, rfl, j3, v3⟩ <;> rcases n4 with rfl | ⟨b4, i4, rfl, j4, v4⟩ <;>
  cases numConst <;> cases numIn <;>
  simp [accepts, decBoundsOk, decBound, Impl.optKw, any_comp_beq_num, Json.beq, Bool.and_comm, Bool.and_left_comm,
    Bool.and_assoc, dle_int, dlt_int, Dcm.ofJNum, Dcm.le, Dcm.lt, *]

/-- the document shows the scalar as the same string. -/
def staysString (v : Str) : Bool := match yamlScalar v with | .str w => w == v | _ => false

theorem yamlScalar_of_staysString {v : Str} (h : staysString v = true) : yamlScalar v = .str v := by
  unfold staysString at h
  cases hy : yamlScalar v <;> simp [hy] at h
  rw [h]

theorem map_yamlScalar_of_staysString : ∀ {l : List Str}, (∀ v ∈ l, staysString v = true) →
    l.map yamlScalar = l.map Json.str
  | [], _ => rfl
  | a :: t, h => by
    simp only [List.map_cons]
    rw [yamlScalar_of_staysString (h a List.mem_cons_self),
        map_yamlScalar_of_staysString (fun v hv => h v (List.mem_cons_of_mem _ hv))]

theorem any_comp_beq_str (l : List Str) (s : Str) :
    l.any ((fun v => Json.beq v (Json.str s)) ∘ Json.str) = l.any (fun x => x == s) := by
  induction l with
  | nil => rfl
  | cons a t ih => simp [List.any_cons, Json.beq, ih]

/-- a count keyword with a value `int64` holds. -/
def CountOK (o : Option Nat) : Prop := ∀ m, o = some m → m < 2 ^ 63
/-- ... and which the renderer does not drop. -/
def CountPos (o : Option Nat) : Prop := ∀ m, o = some m → 0 < m ∧ m < 2 ^ 63

theorem toInt64_small {n : Nat} (h : n < 2 ^ 63) : Impl.toInt64 n = (n : Int) := by
  simp [Impl.toInt64, h]

theorem countKw_pos (k : Str) {n : Nat} (h0 : 0 < n) (h : n < 2 ^ 63) :
    Impl.countKw k (some n) = [(k, .num (.int (n : Int)))] := by
  have : ¬ (n = 0) := by omega
  simp [Impl.countKw, toInt64_small h, this]

theorem countKw_zero (k : Str) : Impl.countKw k (some 0) = [] := by
  simp [Impl.countKw, Impl.toInt64]

@[simp] theorem optLe_some (b n : Nat) : Spec.optLe (some b) n = decide (b ≤ n) := rfl
@[simp] theorem optLe_none (n : Nat) : Spec.optLe none n = true := rfl
@[simp] theorem optGe_some (b n : Nat) : Spec.optGe (some b) n = decide (n ≤ b) := rfl
@[simp] theorem optGe_none (n : Nat) : Spec.optGe none n = true := rfl

/-- a lower count bound: kept (`n > 0`) or dropped (`n = 0`, where it says nothing). -/
theorem countKw_min_cases (k : Str) {o : Option Nat} (h : CountOK o) :
    (Impl.countKw k o = [] ∧ ∀ x, Spec.optLe o x = true) ∨
    (∃ n : Nat, 0 < n ∧ o = some n ∧ Impl.countKw k o = [(k, .num (.int (n : Int)))]) := by
  cases o with
  | none => left; exact ⟨rfl, fun _ => rfl⟩
  | some n =>
    cases n with
    | zero => left; exact ⟨countKw_zero k, by intro x; simp [Spec.optLe]⟩
    | succ m => right; exact ⟨m + 1, by omega, rfl, countKw_pos k (by omega) (h _ rfl)⟩

theorem countKw_max_cases (k : Str) {o : Option Nat} (h : CountPos o) :
    (o = none ∧ Impl.countKw k o = []) ∨
    (∃ n : Nat, o = some n ∧ Impl.countKw k o = [(k, .num (.int (n : Int)))]) := by
  cases o with
  | none => left; exact ⟨rfl, rfl⟩
  | some n => right; exact ⟨n, rfl, countKw_pos k (h n rfl).1 (h n rfl).2⟩

set_option maxHeartbeats 2000000 in
theorem string_rules_iff (c : FCard) (hc : c.isScalar = true) (i64n : Bool) (r : FieldRules)
    (hmin : CountOK r.minLen) (hmax : CountPos r.maxLen)
    (s : Str) (fuel : Nat) :
    accepts [] (fuel + 1) (Impl.fieldSchema .string c i64n r) (jsonForm .string i64n (.one (.str s)))
      = Spec.satisfies .string c r (.one (.str s)) := by
  rw [accepts_scalar_core _ _ _ _ hc]
  obtain ⟨req, minLen, maxLen, pat, strIn, strConst, fmt, group, gt, gte, lt, lte, numIn, numConst, minItems, maxItems, unique, minPairs, maxPairs⟩ := r
  simp only at hmin hmax
  have hlit : Impl.stringLit = Json.str := rfl
  simp only [Impl.scalarCore, hc, if_true, Impl.stringCore, Impl.stringCoreWith, hlit, Impl.baseCore, jsonForm, jsonScalar, Spec.satisfies,
    Spec.scalarOk, Spec.strOk, Bool.true_and]
  rcases countKw_min_cases K.minLength hmin with ⟨e1, s1⟩ | ⟨n, hn, rfl, e1⟩ <;>
  rcases countKw_max_cases K.maxLength hmax with ⟨rfl, e2⟩ | ⟨m, rfl, e2⟩ <;>
  rw [e1, e2] <;> cases strConst <;> cases strIn <;>
  simp [accepts, decBoundsOk, decBound, Impl.optKw, any_comp_beq_str, Json.beq, *,
    Bool.and_comm, Bool.and_left_comm, Bool.and_assoc]

/-! ### repeated fields -/

theorem beq_scalar_str (a b : Str) : (Scalar.str a == Scalar.str b) = (a == b) := by
  rw [Bool.eq_iff_iff]; simp

theorem beq_scalar_int (a b : Int) : (Scalar.num (.int a) == Scalar.num (.int b)) = (a == b) := by
  rw [Bool.eq_iff_iff]; simp

@[simp] theorem all_const_true {α : Type} (l : List α) : (l.all fun _ => true) = true := by
  induction l with
  | nil => rfl
  | cons a t ih => simp [List.all_cons, ih]

theorem beq_str_str (a b : Str) : Json.beq (Json.str a) (Json.str b) = (a == b) := by simp [Json.beq]
theorem beq_int_int (a b : Int) : Json.beq (Json.num (.int a)) (Json.num (.int b)) = (a == b) := by
  simp [Json.beq]; rw [Bool.eq_iff_iff]; simp

theorem any_beq_str_left (a : Str) (t : List Str) :
    (t.map Json.str).any (fun y => Json.beq (Json.str a) y) = (t.map Scalar.str).any (fun y => Scalar.str a == y) := by
  induction t with
  | nil => rfl
  | cons b u ih => simp only [List.map_cons, List.any_cons, ih, beq_scalar_str, beq_str_str]

theorem any_beq_int_left (a : Int) (t : List Int) :
    (t.map fun i => Json.num (.int i)).any (fun y => Json.beq (Json.num (.int a)) y) =
      (t.map fun i => Scalar.num (.int i)).any (fun y => Scalar.num (.int a) == y) := by
  induction t with
  | nil => rfl
  | cons b u ih =>
    simp only [List.map_cons, List.any_cons, ih, beq_scalar_int, beq_int_int]

theorem distinct_str (l : List Str) :
    Schema.allDistinct (l.map Json.str) = Spec.distinct (l.map Scalar.str) := by
  induction l with
  | nil => rfl
  | cons a t ih => simp only [List.map_cons, Schema.allDistinct, Spec.distinct, any_beq_str_left, ih]

theorem distinct_int (l : List Int) :
    Schema.allDistinct (l.map fun i => Json.num (.int i)) = Spec.distinct (l.map fun i => Scalar.num (.int i)) := by
  induction l with
  | nil => rfl
  | cons a t ih => simp only [List.map_cons, Schema.allDistinct, Spec.distinct, any_beq_int_left, ih]

set_option maxHeartbeats 2000000 in
theorem repeated_string_iff (i64n : Bool) (r : FieldRules) (hmin : CountOK r.minItems) (hmax : CountPos r.maxItems)
    (l : List Str) (fuel : Nat) :
    accepts [] (fuel + 2) (Impl.fieldSchema .string .repeated i64n r) (jsonForm .string i64n (.list (l.map Scalar.str)))
      = Spec.satisfies .string .repeated r (.list (l.map Scalar.str)) := by
  obtain ⟨req, minLen, maxLen, pat, strIn, strConst, fmt, group, gt, gte, lt, lte, numIn, numConst, minItems, maxItems, unique, minPairs, maxPairs⟩ := r
  simp only at hmin hmax
  have hj : jsonForm .string i64n (.list (l.map Scalar.str)) = .arr (l.map Json.str) := by
    simp [jsonForm, jsonScalar, List.map_map, Function.comp_def]
  rw [hj]
  simp only [Impl.fieldSchema, FCard.isScalar, Bool.false_eq_true, if_false, if_true, Impl.repeatedKws, Impl.baseAnn,
    Impl.baseCore, Spec.satisfies, List.nil_append, List.length_map, beq_self_eq_true, Bool.true_and]
  rcases countKw_min_cases K.minItems hmin with ⟨e1, s1⟩ | ⟨n, hn, rfl, e1⟩ <;>
  rcases countKw_max_cases K.maxItems hmax with ⟨rfl, e2⟩ | ⟨m, rfl, e2⟩ <;>
  rw [e1, e2] <;> cases unique <;>
  simp [accepts, decBoundsOk, decBound, List.all_map, Function.comp_def, distinct_str, *,
    Bool.and_comm, Bool.and_left_comm, Bool.and_assoc]

set_option maxHeartbeats 2000000 in
theorem repeated_int32_iff (r : FieldRules) (hmin : CountOK r.minItems) (hmax : CountPos r.maxItems)
    (l : List Int) (fuel : Nat) :
    accepts [] (fuel + 2) (Impl.fieldSchema (.num .int32) .repeated false r)
        (jsonForm (.num .int32) false (.list (l.map fun i => Scalar.num (.int i))))
      = Spec.satisfies (.num .int32) .repeated r (.list (l.map fun i => Scalar.num (.int i))) := by
  obtain ⟨req, minLen, maxLen, pat, strIn, strConst, fmt, group, gt, gte, lt, lte, numIn, numConst, minItems, maxItems, unique, minPairs, maxPairs⟩ := r
  simp only at hmin hmax
  have hj : jsonForm (.num .int32) false (.list (l.map fun i => Scalar.num (.int i))) = .arr (l.map fun i => Json.num (.int i)) := by
    simp [jsonForm, jsonScalar, List.map_map, Function.comp_def, NKind.is64]
  rw [hj]
  simp only [Impl.fieldSchema, FCard.isScalar, Bool.false_eq_true, if_false, if_true, Impl.repeatedKws, Impl.baseAnn,
    Impl.baseCore, Spec.satisfies, List.nil_append, List.length_map, beq_self_eq_true, Bool.true_and]
  rcases countKw_min_cases K.minItems hmin with ⟨e1, s1⟩ | ⟨n, hn, rfl, e1⟩ <;>
  rcases countKw_max_cases K.maxItems hmax with ⟨rfl, e2⟩ | ⟨m, rfl, e2⟩ <;>
  rw [e1, e2] <;> cases unique <;>
  simp [accepts, decBoundsOk, decBound, List.all_map, Function.comp_def, distinct_int, *,
    Bool.and_comm, Bool.and_left_comm, Bool.and_assoc]

/-! ### map fields -/

theorem filter_ne_of_not_mem {x : Str} : ∀ {l : List Str}, x ∉ l → l.filter (fun y => !(y == x)) = l
  | [], _ => rfl
  | a :: t, h => by
    have ha : a ≠ x := fun e => h (e ▸ List.mem_cons_self)
    have ht : x ∉ t := fun e => h (List.mem_cons_of_mem _ e)
    simp [List.filter_cons, ha, filter_ne_of_not_mem ht]

theorem dedup_of_nodup : ∀ {l : List Str}, l.Nodup → Schema.dedup l = l
  | [], _ => rfl
  | a :: t, h => by
    have hn := List.nodup_cons.mp h
    simp only [Schema.dedup, dedup_of_nodup hn.2, filter_ne_of_not_mem hn.1]

set_option maxHeartbeats 2000000 in
theorem map_string_iff (r : FieldRules) (hmin : CountOK r.minPairs) (hmax : CountPos r.maxPairs)
    (kvs : List (Str × Str)) (hk : (kvs.map Prod.fst).Nodup) (fuel : Nat) :
    accepts [] (fuel + 2) (Impl.fieldSchema .string .map false r)
        (jsonForm .string false (.map (kvs.map fun p => (p.1, Scalar.str p.2))))
      = Spec.satisfies .string .map r (.map (kvs.map fun p => (p.1, Scalar.str p.2))) := by
  obtain ⟨req, minLen, maxLen, pat, strIn, strConst, fmt, group, gt, gte, lt, lte, numIn, numConst, minItems, maxItems, unique, minPairs, maxPairs⟩ := r
  simp only at hmin hmax
  have hj : jsonForm .string false (.map (kvs.map fun p => (p.1, Scalar.str p.2))) = .obj (kvs.map fun p => (p.1, Json.str p.2)) := by
    simp [jsonForm, jsonScalar, List.map_map, Function.comp_def]
  have hkeys : Json.keys (kvs.map fun p => (p.1, Json.str p.2)) = kvs.map Prod.fst := by
    simp [Json.keys, List.map_map, Function.comp_def]
  have hlen : (Schema.dedup (Json.keys (kvs.map fun p => (p.1, Json.str p.2)))).length = kvs.length := by
    rw [hkeys, dedup_of_nodup hk, List.length_map]
  rw [hj]
  simp only [Impl.fieldSchema, FCard.isScalar, Bool.false_eq_true, if_false, Impl.mapKws, Impl.baseAnn,
    Impl.baseCore, Spec.satisfies, List.nil_append, List.length_map, beq_self_eq_true, Bool.true_and]
  clear hk hkeys hj
  rcases countKw_min_cases K.minProperties hmin with ⟨e1, s1⟩ | ⟨n, hn, rfl, e1⟩
  · rcases countKw_max_cases K.maxProperties hmax with ⟨rfl, e2⟩ | ⟨m, rfl, e2⟩
    · rw [e1, e2]
      simp [accepts, decBoundsOk, decBound, List.all_map, Function.comp_def, hlen, s1]
    · rw [e1, e2]
      simp [accepts, decBoundsOk, decBound, List.all_map, Function.comp_def, hlen, s1]
  · clear hmin
    rcases countKw_max_cases K.maxProperties hmax with ⟨rfl, e2⟩ | ⟨m, rfl, e2⟩
    · rw [e1, e2]
      simp [accepts, decBoundsOk, decBound, List.all_map, Function.comp_def, hlen]
    · rw [e1, e2]
      simp [accepts, decBoundsOk, decBound, List.all_map, Function.comp_def, hlen]

/-! ### float / double fields -/

/-- the number has an exact decimal reading. -/
def Parses (n : JNum) : Prop := ∃ d, Dcm.ofJNum n = some d

def BoundParses (o : Option NumB) : Prop := ∀ b, o = some b → Parses b.v

/-- `float64(float32 x)` prints like `x` itself (x is exactly representable with few digits: 0.5, 2.25, 100 ...). -/
def WideExact (o : Option NumB) : Prop := ∀ b, o = some b → b.wide = b.v

theorem jsonForm_float (nk : NKind) (hk : nk = .float ∨ nk = .double) (i64n : Bool) (x : JNum) :
    jsonForm (.num nk) i64n (.one (.num x)) = .num x := by
  rcases hk with rfl | rfl <;> cases x <;> simp [jsonForm, jsonScalar, NKind.is64]

/-- a float / double bound is absent, or an integer, or a decimal token that parses; the
document shows it unchanged. -/
theorem floatBound_norm {nk : NKind} (hk : nk = .float ∨ nk = .double) {o : Option NumB}
    (hp : BoundParses o) (hw : nk = .float → WideExact o) :
    o = none ∨ (∃ w i, o = some ⟨.int i, w⟩ ∧ Impl.boundJson nk ⟨.int i, w⟩ = .num (.int i)) ∨
    (∃ w t d, o = some ⟨.float t, w⟩ ∧ Impl.boundJson nk ⟨.float t, w⟩ = .num (.float t) ∧ Dcm.parse t = some d) := by
  cases o with
  | none => exact Or.inl rfl
  | some b =>
    obtain ⟨v, w⟩ := b
    have hbj : Impl.boundJson nk ⟨v, w⟩ = .num v := by
      rcases hk with rfl | rfl
      · have := hw rfl ⟨v, w⟩ rfl
        simp only at this
        simp [Impl.boundJson, this]
      · simp [Impl.boundJson]
    obtain ⟨d, hd⟩ := hp ⟨v, w⟩ rfl
    cases v with
    | int i => exact Or.inr (Or.inl ⟨w, i, rfl, hbj⟩)
    | float tok => exact Or.inr (Or.inr ⟨w, tok, d, rfl, hbj, by simpa [Dcm.ofJNum] using hd⟩)

set_option maxHeartbeats 16000000 in
theorem float_bounds_iff (nk : NKind) (hk : nk = .float ∨ nk = .double) (i64n : Bool) (c : FCard) (hc : c.isScalar = true)
    (r : FieldRules) (hg : r.group = nk)
    (hin : r.numIn = []) (hconst : r.numConst = none)
    (hgt : BoundParses r.gt) (hgte : BoundParses r.gte) (hlt : BoundParses r.lt) (hlte : BoundParses r.lte)
    (hw : nk = .float → WideExact r.gt ∧ WideExact r.gte ∧ WideExact r.lt ∧ WideExact r.lte)
    (x : JNum) (hx : Parses x) (fuel : Nat) :
    accepts [] (fuel + 1) (Impl.fieldSchema (.num nk) c i64n r) (jsonForm (.num nk) i64n (.one (.num x)))
      = Spec.satisfies (.num nk) c r (.one (.num x)) := by
  rw [accepts_scalar_core _ _ _ _ hc, jsonForm_float nk hk]
  obtain ⟨req, minLen, maxLen, pat, strIn, strConst, fmt, group, gt, gte, lt, lte, numIn, numConst, minItems, maxItems, unique, minPairs, maxPairs⟩ := r
  simp only at hg hgt hlt hin hconst hgte hlte hw
  subst hg hin hconst
  have hb : Impl.baseCore (.num group) i64n = [(K.type, .str T.number)] := by
    rcases hk with rfl | rfl <;> simp [Impl.baseCore]
  have hget : Impl.getter group = group := by
    rcases hk with rfl | rfl <;> rfl
  have n1 := floatBound_norm hk hgte (fun h => (hw h).2.1)
  have n2 := floatBound_norm hk hgt (fun h => (hw h).1)
  have n3 := floatBound_norm hk hlte (fun h => (hw h).2.2.2)
  have n4 := floatBound_norm hk hlt (fun h => (hw h).2.2.1)
  rw [hb]
  simp only [Impl.scalarCore, hc, if_true, hget, Impl.numericKws, Spec.satisfies, Spec.scalarOk, Spec.numOk, Spec.optB,
    Bool.true_and, List.isEmpty_nil, Option.map_none, Impl.optKw, Bool.or_true, Bool.and_true, List.append_nil]
  obtain ⟨dx, hdx⟩ := hx
  clear hb hget hk hgt hgte hlt hlte hw hc
  cases x with
  | int xi =>
    clear hdx
    rcases n1 with rfl | ⟨w1, i1, rfl, j1⟩ | ⟨w1, t1, d1, rfl, j1, p1⟩ <;>
    rcases n2 with rfl | ⟨w2, i2, rfl, j2⟩ | ⟨w2, t2, d2, rfl, j2, p2⟩ <;>
    rcases n3 with rfl | ⟨w3, i3, rfl, j3⟩ | ⟨w3, t3, d3, rfl, j3, p3⟩ <;>
    rcases n4 with rfl | ⟨w4, i4, rfl, j4⟩ | ⟨w4, t4, d4, rfl, j4, p4⟩ <;>
    simp [accepts, decBoundsOk, decBound, Impl.optKw, dle, dlt, Dcm.ofJNum, Dcm.le, Dcm.lt, Bool.and_comm,
      Bool.and_left_comm, Bool.and_assoc, *]
  | float xt =>
    have px : Dcm.parse xt = some dx := by simpa [Dcm.ofJNum] using hdx
    clear hdx
    rcases n1 with rfl | ⟨w1, i1, rfl, j1⟩ | ⟨w1, t1, d1, rfl, j1, p1⟩ <;>
    rcases n2 with rfl | ⟨w2, i2, rfl, j2⟩ | ⟨w2, t2, d2, rfl, j2, p2⟩ <;>
    rcases n3 with rfl | ⟨w3, i3, rfl, j3⟩ | ⟨w3, t3, d3, rfl, j3, p3⟩ <;>
    rcases n4 with rfl | ⟨w4, i4, rfl, j4⟩ | ⟨w4, t4, d4, rfl, j4, p4⟩ <;>
    simp [accepts, decBoundsOk, decBound, Impl.optKw, dle, dlt, Dcm.ofJNum, Dcm.le, Dcm.lt, Bool.and_comm,
      Bool.and_left_comm, Bool.and_assoc, *]

theorem float_in_const_iff (nk : NKind) (hk : nk = .float ∨ nk = .double) (i64n : Bool) (c : FCard) (hc : c.isScalar = true)
    (r : FieldRules) (hg : r.group = nk) (hgt : r.gt = none) (hlt : r.lt = none) (hgte : r.gte = none) (hlte : r.lte = none)
    (x : JNum) (fuel : Nat) :
    accepts [] (fuel + 1) (Impl.fieldSchema (.num nk) c i64n r) (jsonForm (.num nk) i64n (.one (.num x)))
      = Spec.satisfies (.num nk) c r (.one (.num x)) := by
  rw [accepts_scalar_core _ _ _ _ hc, jsonForm_float nk hk]
  obtain ⟨req, minLen, maxLen, pat, strIn, strConst, fmt, group, gt, gte, lt, lte, numIn, numConst, minItems, maxItems, unique, minPairs, maxPairs⟩ := r
  simp only at hg hgt hlt hgte hlte
  subst hg hgt hlt hgte hlte
  have hb : Impl.baseCore (.num group) i64n = [(K.type, .str T.number)] := by
    rcases hk with rfl | rfl <;> simp [Impl.baseCore]
  have hget : Impl.getter group = group := by
    rcases hk with rfl | rfl <;> rfl
  rw [hb]
  simp only [Impl.scalarCore, hc, if_true, hget, Impl.numericKws, Spec.satisfies, Spec.scalarOk, Spec.numOk, Spec.optB,
    Option.isSome_none, Bool.false_eq_true, if_false, List.append_nil, Bool.true_and, Option.map_none, Impl.optKw,
    List.nil_append]
  cases numConst <;> cases numIn <;>
    simp [accepts, decBoundsOk, decBound, Impl.optKw, any_comp_beq_num, Json.beq, Bool.and_comm]

/-! ### required -/

theorem mem_requiredList (fields : List (Str × FieldRules)) (n : Str) :
    n ∈ Impl.requiredList fields ↔ ∃ r, (n, r) ∈ fields ∧ r.required = true := by
  simp [Impl.requiredList, List.mem_map, List.mem_filter]

end closed
/-! ### a syntactic condition under which a plain scalar stays a string -/

theorem letter_nat {c : Char} (h : isAsciiLetter c = true) : (65 ≤ c.toNat ∧ c.toNat ≤ 90) ∨ (97 ≤ c.toNat ∧ c.toNat ≤ 122) := by
  simp only [isAsciiLetter, isUpperAscii, isLowerAscii, Bool.or_eq_true, decide_eq_true_eq, Char.le_def, Char.toNat] at h ⊢
  rcases h with ⟨a, b⟩ | ⟨a, b⟩
  · left; exact ⟨by simpa using UInt32.le_iff_toNat_le.mp a, by simpa using UInt32.le_iff_toNat_le.mp b⟩
  · right; exact ⟨by simpa using UInt32.le_iff_toNat_le.mp a, by simpa using UInt32.le_iff_toNat_le.mp b⟩

theorem ne_of_toNat_ne {c d : Char} (h : c.toNat ≠ d.toNat) : c ≠ d := fun e => h (e ▸ rfl)

theorem charDigit_letter {c : Char} (h : isAsciiLetter c = true) : charDigit c = none := by
  have := letter_nat h
  unfold charDigit
  rw [if_neg]
  rintro ⟨a, b⟩
  have b' : c.val.toNat ≤ ('9' : Char).val.toNat := UInt32.le_iff_toNat_le.mp (Char.le_def.mp b)
  have e : ('9' : Char).val.toNat = 57 := by decide
  rw [e] at b'
  change c.toNat ≤ 57 at b'
  omega

theorem parse_letter {c : Char} (t : Str) (h : isAsciiLetter c = true) : Dcm.parse (c :: t) = none := by
  have hn := letter_nat h
  have e1 : ('-' : Char).toNat = 45 := by decide
  have e2 : ('+' : Char).toNat = 43 := by decide
  have e3 : ('.' : Char).toNat = 46 := by decide
  have h1 : c ≠ '-' := ne_of_toNat_ne (by omega)
  have h2 : c ≠ '+' := ne_of_toNat_ne (by omega)
  have h3 : c ≠ '.' := ne_of_toNat_ne (by omega)
  have hs : Dcm.signOf (c :: t) = (false, c :: t) := by
    unfold Dcm.signOf
    split
    · rename_i e; injection e with e1 _; exact absurd e1 h1
    · rename_i e; injection e with e1 _; exact absurd e1 h2
    · rfl
  have hm : ∀ u : Str, Dcm.parseMantissa (c :: u) = none := by
    intro u
    simp [Dcm.parseMantissa, Dcm.splitAt, h3, Dcm.digitsOrZero, parseDigits, parseDigitsAcc, charDigit_letter h]
  unfold Dcm.parse
  simp only [hs]
  by_cases he : (c == 'e' || c == 'E') = true
  · simp [Dcm.splitAt, he, Dcm.parseMantissa, Dcm.digitsOrZero]
  · simp [Dcm.splitAt, he, hm]

theorem staysString_of_safeWord {v : Str} (h : safeWord v = true) : staysString v = true := by
  unfold safeWord at h
  cases v with
  | nil => simp at h
  | cons c t =>
    simp only [Bool.and_eq_true, Bool.not_eq_true'] at h
    obtain ⟨hl, hr⟩ := h
    have hr' : ∀ w ∈ reservedWords, w ≠ c :: t := by
      intro w hw e
      have : reservedWords.contains (c :: t) = true := by simpa [e] using hw
      rw [hr] at this; exact absurd this (by decide)
    have hnull : (c :: t) ∉ nullWords := fun hm => hr' _ (by simp [reservedWords, hm]) rfl
    have htrue : (c :: t) ∉ trueWords := fun hm => hr' _ (by simp [reservedWords, hm]) rfl
    have hfalse : (c :: t) ∉ falseWords := fun hm => hr' _ (by simp [reservedWords, hm]) rfl
    have hy : yamlScalar (c :: t) = Json.str (c :: t) := by
      unfold yamlScalar
      split
      · simp [yamlResolve, hnull, htrue, hfalse, parse_letter t hl]
      · rfl
    simp [staysString, hy]

end Sebuf.OaRules
