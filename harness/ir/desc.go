package ir

import (
	"fmt"
	"math"
	"strconv"
	"strings"

	validate "buf.build/gen/go/bufbuild/protovalidate/protocolbuffers/go/buf/validate"
	sebufhttp "github.com/SebastienMelki/sebuf/http"
	"google.golang.org/protobuf/proto"
	"google.golang.org/protobuf/reflect/protodesc"
	"google.golang.org/protobuf/reflect/protoreflect"
	"google.golang.org/protobuf/types/descriptorpb"
	"google.golang.org/protobuf/types/known/structpb"
	"google.golang.org/protobuf/types/known/timestamppb"
	"google.golang.org/protobuf/types/pluginpb"
)

var kindEnum = map[string]descriptorpb.FieldDescriptorProto_Type{
	"double": descriptorpb.FieldDescriptorProto_TYPE_DOUBLE, "float": descriptorpb.FieldDescriptorProto_TYPE_FLOAT,
	"int64": descriptorpb.FieldDescriptorProto_TYPE_INT64, "uint64": descriptorpb.FieldDescriptorProto_TYPE_UINT64,
	"int32": descriptorpb.FieldDescriptorProto_TYPE_INT32, "fixed64": descriptorpb.FieldDescriptorProto_TYPE_FIXED64,
	"fixed32": descriptorpb.FieldDescriptorProto_TYPE_FIXED32, "bool": descriptorpb.FieldDescriptorProto_TYPE_BOOL,
	"string": descriptorpb.FieldDescriptorProto_TYPE_STRING, "message": descriptorpb.FieldDescriptorProto_TYPE_MESSAGE,
	"bytes": descriptorpb.FieldDescriptorProto_TYPE_BYTES, "uint32": descriptorpb.FieldDescriptorProto_TYPE_UINT32,
	"enum": descriptorpb.FieldDescriptorProto_TYPE_ENUM, "sfixed32": descriptorpb.FieldDescriptorProto_TYPE_SFIXED32,
	"sfixed64": descriptorpb.FieldDescriptorProto_TYPE_SFIXED64, "sint32": descriptorpb.FieldDescriptorProto_TYPE_SINT32,
	"sint64": descriptorpb.FieldDescriptorProto_TYPE_SINT64,
}

// ScalarKinds lists the 15 scalar kinds in protoreflect numbering order.
var ScalarKinds = []string{"double", "float", "int64", "uint64", "int32", "fixed64", "fixed32", "bool", "string",
	"bytes", "uint32", "sfixed32", "sfixed64", "sint32", "sint64"}

var verbEnum = map[string]sebufhttp.HttpMethod{
	"": sebufhttp.HttpMethod_HTTP_METHOD_UNSPECIFIED, "GET": sebufhttp.HttpMethod_HTTP_METHOD_GET,
	"POST": sebufhttp.HttpMethod_HTTP_METHOD_POST, "PUT": sebufhttp.HttpMethod_HTTP_METHOD_PUT,
	"DELETE": sebufhttp.HttpMethod_HTTP_METHOD_DELETE, "PATCH": sebufhttp.HttpMethod_HTTP_METHOD_PATCH,
}

// WellKnownDeps returns the descriptor protos every request may import.
func wellKnown() map[string]*descriptorpb.FileDescriptorProto {
	out := map[string]*descriptorpb.FileDescriptorProto{}
	add := func(fd protoreflect.FileDescriptor) {
		out[fd.Path()] = protodesc.ToFileDescriptorProto(fd)
	}
	add(descriptorpb.File_google_protobuf_descriptor_proto)
	add(timestamppb.File_google_protobuf_timestamp_proto)
	add(structpb.File_google_protobuf_struct_proto)
	add(sebufhttp.File_proto_sebuf_http_annotations_proto)
	add(sebufhttp.File_proto_sebuf_http_headers_proto)
	add(sebufhttp.File_proto_sebuf_http_errors_proto)
	vf := validate.File_buf_validate_validate_proto
	add(vf)
	imps := vf.Imports()
	for i := 0; i < imps.Len(); i++ {
		add(imps.Get(i).FileDescriptor)
	}
	// a file that only re-exports the option and well-known files (`import public`)
	pre := &descriptorpb.FileDescriptorProto{Name: proto.String(PreludeProto), Package: proto.String("prelude"), Syntax: proto.String("proto3"),
		Options: &descriptorpb.FileOptions{GoPackage: proto.String("example.com/gen/prelude;prelude")}}
	for i, d := range []string{AnnotationsProto, HeadersProto, TimestampProto, StructProto, ValidateProto} {
		pre.Dependency = append(pre.Dependency, d)
		pre.PublicDependency = append(pre.PublicDependency, int32(i))
	}
	out[PreludeProto] = pre
	return out
}

const (
	AnnotationsProto = "proto/sebuf/http/annotations.proto"
	HeadersProto     = "proto/sebuf/http/headers.proto"
	TimestampProto   = "google/protobuf/timestamp.proto"
	StructProto      = "google/protobuf/struct.proto"
	ValidateProto    = "buf/validate/validate.proto"
	PreludeProto     = "prelude/prelude.proto"
)

// ToCodeGenRequest converts the IR into the request protoc would send to a plugin.
func (r *Request) ToCodeGenRequest() (*pluginpb.CodeGeneratorRequest, error) {
	wk := wellKnown()
	var protos []*descriptorpb.FileDescriptorProto
	seen := map[string]bool{}
	var addDep func(name string) error
	userFiles := map[string]*File{}
	for _, f := range r.Files {
		userFiles[f.Name] = f
	}
	built := map[string]*descriptorpb.FileDescriptorProto{}
	for _, f := range r.Files {
		fd, err := f.toProto()
		if err != nil {
			return nil, err
		}
		built[f.Name] = fd
	}
	addDep = func(name string) error {
		if seen[name] {
			return nil
		}
		seen[name] = true
		var fd *descriptorpb.FileDescriptorProto
		if b, ok := built[name]; ok {
			fd = b
		} else if w, ok := wk[name]; ok {
			fd = w
		} else {
			return fmt.Errorf("unknown dependency %q", name)
		}
		for _, d := range fd.Dependency {
			if err := addDep(d); err != nil {
				return err
			}
		}
		protos = append(protos, fd)
		return nil
	}
	for _, f := range r.Files {
		if err := addDep(f.Name); err != nil {
			return nil, err
		}
	}
	req := &pluginpb.CodeGeneratorRequest{
		FileToGenerate:  append([]string(nil), r.Generate...),
		ProtoFile:       protos,
		CompilerVersion: &pluginpb.Version{Major: proto.Int32(5), Minor: proto.Int32(29), Patch: proto.Int32(0)},
	}
	if r.Parameter != "" {
		req.Parameter = proto.String(r.Parameter)
	}
	return req, nil
}

func (f *File) toProto() (*descriptorpb.FileDescriptorProto, error) {
	fd := &descriptorpb.FileDescriptorProto{
		Name:   proto.String(f.Name),
		Syntax: proto.String("proto3"),
	}
	if f.Package != "" {
		fd.Package = proto.String(f.Package)
	}
	if f.GoPackage != "" {
		fd.Options = &descriptorpb.FileOptions{GoPackage: proto.String(f.GoPackage)}
	}
	deps := map[string]bool{}
	for _, d := range f.Deps {
		deps[d] = true
	}
	need := func(d string) { deps[d] = true }
	for _, m := range f.Messages {
		mp, err := m.toProto(need)
		if err != nil {
			return nil, err
		}
		prefix := ""
		if f.Package != "" {
			prefix = "." + f.Package
		}
		patchEntries(prefix, mp)
		fd.MessageType = append(fd.MessageType, mp)
	}
	for _, e := range f.Enums {
		fd.EnumType = append(fd.EnumType, e.toProto(need))
	}
	for _, s := range f.Services {
		fd.Service = append(fd.Service, s.toProto(need))
	}
	// deterministic dependency order: declared deps first, then auto-added ones sorted
	var auto []string
	for d := range deps {
		found := false
		for _, x := range f.Deps {
			if x == d {
				found = true
			}
		}
		if !found {
			auto = append(auto, d)
		}
	}
	sortStrings(auto)
	if f.ViaPrelude && len(auto) > 0 {
		auto = []string{PreludeProto}
	}
	fd.Dependency = append(append([]string{}, f.Deps...), auto...)
	if len(f.Comments) > 0 {
		sci := &descriptorpb.SourceCodeInfo{}
		add := func(c string, path ...int32) {
			n := int32(len(sci.Location))
			sci.Location = append(sci.Location, &descriptorpb.SourceCodeInfo_Location{Path: path, Span: []int32{n + 1, 0, 1}, LeadingComments: proto.String(c)})
		}
		for i, m := range fd.MessageType {
			if c, ok := f.Comments["msg:"+m.GetName()]; ok {
				add(c, 4, int32(i))
			}
			for j, fl := range m.Field {
				if c, ok := f.Comments["field:"+m.GetName()+"."+fl.GetName()]; ok {
					add(c, 4, int32(i), 2, int32(j))
				}
			}
		}
		for i, e := range fd.EnumType {
			if c, ok := f.Comments["enum:"+e.GetName()]; ok {
				add(c, 5, int32(i))
			}
		}
		for i, sv := range fd.Service {
			if c, ok := f.Comments["svc:"+sv.GetName()]; ok {
				add(c, 6, int32(i))
			}
			for j, me := range sv.Method {
				if c, ok := f.Comments["rpc:"+sv.GetName()+"."+me.GetName()]; ok {
					add(c, 6, int32(i), 2, int32(j))
				}
			}
		}
		fd.SourceCodeInfo = sci
	}
	return fd, nil
}

func sortStrings(s []string) {
	for i := 1; i < len(s); i++ {
		for j := i; j > 0 && s[j] < s[j-1]; j-- {
			s[j], s[j-1] = s[j-1], s[j]
		}
	}
}

func (e *Enum) toProto(need func(string)) *descriptorpb.EnumDescriptorProto {
	ep := &descriptorpb.EnumDescriptorProto{Name: proto.String(e.Name)}
	for _, v := range e.Values {
		vp := &descriptorpb.EnumValueDescriptorProto{Name: proto.String(v.Name), Number: proto.Int32(v.Number)}
		if v.Custom != nil {
			need(AnnotationsProto)
			vp.Options = &descriptorpb.EnumValueOptions{}
			proto.SetExtension(vp.Options, sebufhttp.E_EnumValue, *v.Custom)
		}
		ep.Value = append(ep.Value, vp)
	}
	return ep
}

func upperCamel(s string) string {
	var b strings.Builder
	up := true
	for _, c := range s {
		if c == '_' {
			up = true
			continue
		}
		if up && c >= 'a' && c <= 'z' {
			c = c - 'a' + 'A'
		}
		up = false
		b.WriteRune(c)
	}
	return b.String()
}

func (m *Message) toProto(need func(string)) (*descriptorpb.DescriptorProto, error) {
	mp := &descriptorpb.DescriptorProto{Name: proto.String(m.Name)}
	oneofIdx := map[string]int32{}
	for _, o := range m.Oneofs {
		op := &descriptorpb.OneofDescriptorProto{Name: proto.String(o.Name)}
		if o.HasConfig || o.Discriminator != nil || o.Flatten {
			need(AnnotationsProto)
			cfg := &sebufhttp.OneofConfig{Flatten: o.Flatten}
			if o.Discriminator != nil {
				cfg.Discriminator = *o.Discriminator
			}
			op.Options = &descriptorpb.OneofOptions{}
			proto.SetExtension(op.Options, sebufhttp.E_OneofConfig, cfg)
		}
		oneofIdx[o.Name] = int32(len(mp.OneofDecl))
		mp.OneofDecl = append(mp.OneofDecl, op)
	}
	var synthetic []*descriptorpb.OneofDescriptorProto
	for _, f := range m.Fields {
		k, ok := kindEnum[f.Kind]
		if !ok {
			return nil, fmt.Errorf("field %s: unknown kind %q", f.Name, f.Kind)
		}
		fp := &descriptorpb.FieldDescriptorProto{
			Name:     proto.String(f.Name),
			Number:   proto.Int32(f.Number),
			Type:     k.Enum(),
			Label:    descriptorpb.FieldDescriptorProto_LABEL_OPTIONAL.Enum(),
			JsonName: proto.String(JSONName(f.Name)),
		}
		if f.JSONName != "" {
			fp.JsonName = proto.String(f.JSONName)
		}
		if f.TypeName != "" {
			fp.TypeName = proto.String(f.TypeName)
			if f.TypeName == ".google.protobuf.Timestamp" {
				need(TimestampProto)
			}
			if f.TypeName == ".google.protobuf.Value" || f.TypeName == ".google.protobuf.Struct" || f.TypeName == ".google.protobuf.ListValue" {
				need(StructProto)
			}
		}
		switch f.Card {
		case "repeated":
			fp.Label = descriptorpb.FieldDescriptorProto_LABEL_REPEATED.Enum()
		case "optional":
			fp.Proto3Optional = proto.Bool(true)
			idx := int32(len(m.Oneofs) + len(synthetic))
			fp.OneofIndex = proto.Int32(idx)
			synthetic = append(synthetic, &descriptorpb.OneofDescriptorProto{Name: proto.String("_" + f.Name)})
		case "map":
			entryName := upperCamel(f.Name) + "Entry"
			kk, ok := kindEnum[f.MapKey]
			if !ok {
				return nil, fmt.Errorf("field %s: unknown map key kind %q", f.Name, f.MapKey)
			}
			entry := &descriptorpb.DescriptorProto{
				Name:    proto.String(entryName),
				Options: &descriptorpb.MessageOptions{MapEntry: proto.Bool(true)},
				Field: []*descriptorpb.FieldDescriptorProto{
					{Name: proto.String("key"), Number: proto.Int32(1), Type: kk.Enum(),
						Label: descriptorpb.FieldDescriptorProto_LABEL_OPTIONAL.Enum(), JsonName: proto.String("key")},
					{Name: proto.String("value"), Number: proto.Int32(2), Type: k.Enum(),
						Label: descriptorpb.FieldDescriptorProto_LABEL_OPTIONAL.Enum(), JsonName: proto.String("value")},
				},
			}
			if f.TypeName != "" {
				entry.Field[1].TypeName = proto.String(f.TypeName)
			}
			mp.NestedType = append(mp.NestedType, entry)
			fp.Label = descriptorpb.FieldDescriptorProto_LABEL_REPEATED.Enum()
			fp.Type = descriptorpb.FieldDescriptorProto_TYPE_MESSAGE.Enum()
			fp.TypeName = proto.String("__ENTRY__" + entryName) // patched by caller with the parent's full name
		}
		if f.Oneof != "" {
			idx, ok := oneofIdx[f.Oneof]
			if !ok {
				return nil, fmt.Errorf("field %s: unknown oneof %q", f.Name, f.Oneof)
			}
			fp.OneofIndex = proto.Int32(idx)
		}
		opts, err := f.options(need)
		if err != nil {
			return nil, err
		}
		fp.Options = opts
		mp.Field = append(mp.Field, fp)
	}
	mp.OneofDecl = append(mp.OneofDecl, synthetic...)
	for _, n := range m.Nested {
		np, err := n.toProto(need)
		if err != nil {
			return nil, err
		}
		mp.NestedType = append(mp.NestedType, np)
	}
	for _, e := range m.Enums {
		mp.EnumType = append(mp.EnumType, e.toProto(need))
	}
	return mp, nil
}

// patchEntries rewrites the placeholder map-entry type names once full names are known.
func patchEntries(prefix string, mp *descriptorpb.DescriptorProto) {
	full := prefix + "." + mp.GetName()
	for _, f := range mp.Field {
		if strings.HasPrefix(f.GetTypeName(), "__ENTRY__") {
			f.TypeName = proto.String(full + "." + strings.TrimPrefix(f.GetTypeName(), "__ENTRY__"))
		}
	}
	for _, n := range mp.NestedType {
		patchEntries(full, n)
	}
}

func (f *Field) options(need func(string)) (*descriptorpb.FieldOptions, error) {
	o := &descriptorpb.FieldOptions{}
	used := false
	a := f.Ann
	set := func(x protoreflect.ExtensionType, v any) {
		need(AnnotationsProto)
		proto.SetExtension(o, x, v)
		used = true
	}
	if a.Query != nil {
		set(sebufhttp.E_Query, &sebufhttp.QueryConfig{Name: a.Query.Name, Required: a.Query.Required})
	}
	if a.Unwrap {
		set(sebufhttp.E_Unwrap, true)
	}
	if a.Int64Enc != "" {
		v, ok := sebufhttp.Int64Encoding_value["INT64_ENCODING_"+a.Int64Enc]
		if !ok {
			return nil, fmt.Errorf("bad int64_encoding %q", a.Int64Enc)
		}
		set(sebufhttp.E_Int64Encoding, sebufhttp.Int64Encoding(v))
	}
	if a.EnumEnc != "" {
		v, ok := sebufhttp.EnumEncoding_value["ENUM_ENCODING_"+a.EnumEnc]
		if !ok {
			return nil, fmt.Errorf("bad enum_encoding %q", a.EnumEnc)
		}
		set(sebufhttp.E_EnumEncoding, sebufhttp.EnumEncoding(v))
	}
	if a.Nullable != nil {
		set(sebufhttp.E_Nullable, *a.Nullable)
	}
	if a.EmptyBehavior != "" {
		v, ok := sebufhttp.EmptyBehavior_value["EMPTY_BEHAVIOR_"+a.EmptyBehavior]
		if !ok {
			return nil, fmt.Errorf("bad empty_behavior %q", a.EmptyBehavior)
		}
		set(sebufhttp.E_EmptyBehavior, sebufhttp.EmptyBehavior(v))
	}
	if a.TsFormat != "" {
		v, ok := sebufhttp.TimestampFormat_value["TIMESTAMP_FORMAT_"+a.TsFormat]
		if !ok {
			return nil, fmt.Errorf("bad timestamp_format %q", a.TsFormat)
		}
		set(sebufhttp.E_TimestampFormat, sebufhttp.TimestampFormat(v))
	}
	if a.BytesEnc != "" {
		v, ok := sebufhttp.BytesEncoding_value["BYTES_ENCODING_"+a.BytesEnc]
		if !ok {
			return nil, fmt.Errorf("bad bytes_encoding %q", a.BytesEnc)
		}
		set(sebufhttp.E_BytesEncoding, sebufhttp.BytesEncoding(v))
	}
	if a.OneofValue != nil {
		set(sebufhttp.E_OneofValue, *a.OneofValue)
	}
	if a.Flatten != nil {
		set(sebufhttp.E_Flatten, *a.Flatten)
	}
	if a.FlattenPrefix != nil {
		set(sebufhttp.E_FlattenPrefix, *a.FlattenPrefix)
	}
	if len(a.Examples) > 0 {
		set(sebufhttp.E_FieldExamples, &sebufhttp.FieldExamples{Values: a.Examples})
	}
	if f.Rules != nil {
		fr, err := f.Rules.toProto(f)
		if err != nil {
			return nil, err
		}
		need(ValidateProto)
		proto.SetExtension(o, validate.E_Field, fr)
		used = true
	}
	if !used {
		return nil, nil
	}
	return o, nil
}

func pI64(s *string) *int64 {
	if s == nil {
		return nil
	}
	v, _ := strconv.ParseInt(*s, 10, 64)
	return &v
}
func pU64(s *string) *uint64 {
	if s == nil {
		return nil
	}
	v, _ := strconv.ParseUint(*s, 10, 64)
	return &v
}
func pF64(s *string) *float64 {
	if s == nil {
		return nil
	}
	v, _ := strconv.ParseFloat(*s, 64)
	return &v
}
func i32(p *int64) *int32 {
	if p == nil {
		return nil
	}
	v := int32(*p)
	return &v
}
func u32(p *uint64) *uint32 {
	if p == nil {
		return nil
	}
	v := uint32(*p)
	return &v
}
func f32(p *float64) *float32 {
	if p == nil {
		return nil
	}
	v := float32(*p)
	return &v
}

// toProto builds kind-appropriate buf.validate FieldRules via protoreflect so that the
// oneof "type" member matches the field kind exactly as protovalidate requires.
func (r *Rules) toProto(f *Field) (*validate.FieldRules, error) {
	fr := &validate.FieldRules{}
	if r.Required {
		fr.Required = proto.Bool(true)
	}
	if r.IgnoreIfZero {
		fr.Ignore = validate.Ignore_IGNORE_IF_ZERO_VALUE.Enum()
	}
	elemKind := f.Kind
	scalarTarget := fr
	hasScalar := r.MinLen != nil || r.MaxLen != nil || r.Len != nil || r.Pattern != nil || len(r.StrIn) > 0 ||
		r.StrConst != nil || r.Format != "" || r.Gt != nil || r.Gte != nil || r.Lt != nil || r.Lte != nil ||
		len(r.NumIn) > 0 || r.NumConst != nil
	if f.Card == "repeated" {
		rr := &validate.RepeatedRules{MinItems: r.MinItems, MaxItems: r.MaxItems, Unique: r.Unique}
		if hasScalar {
			rr.Items = &validate.FieldRules{}
			scalarTarget = rr.Items
		}
		fr.Type = &validate.FieldRules_Repeated{Repeated: rr}
	} else if f.Card == "map" {
		mr := &validate.MapRules{MinPairs: r.MinPairs, MaxPairs: r.MaxPairs}
		if hasScalar {
			mr.Values = &validate.FieldRules{}
			scalarTarget = mr.Values
		}
		fr.Type = &validate.FieldRules_Map{Map: mr}
	}
	if !hasScalar {
		return fr, nil
	}
	switch elemKind {
	case "string":
		sr := &validate.StringRules{MinLen: r.MinLen, MaxLen: r.MaxLen, Len: r.Len, Pattern: r.Pattern, In: r.StrIn, Const: r.StrConst}
		switch r.Format {
		case "email":
			sr.WellKnown = &validate.StringRules_Email{Email: true}
		case "uuid":
			sr.WellKnown = &validate.StringRules_Uuid{Uuid: true}
		case "uri":
			sr.WellKnown = &validate.StringRules_Uri{Uri: true}
		case "hostname":
			sr.WellKnown = &validate.StringRules_Hostname{Hostname: true}
		case "ip":
			sr.WellKnown = &validate.StringRules_Ip{Ip: true}
		case "ipv4":
			sr.WellKnown = &validate.StringRules_Ipv4{Ipv4: true}
		case "ipv6":
			sr.WellKnown = &validate.StringRules_Ipv6{Ipv6: true}
		case "":
		default:
			return nil, fmt.Errorf("unknown format %q", r.Format)
		}
		scalarTarget.Type = &validate.FieldRules_String_{String_: sr}
	case "bytes":
		// lengths count RAW bytes (not the characters of the base64 / hex text on the wire)
		scalarTarget.Type = &validate.FieldRules_Bytes{Bytes: &validate.BytesRules{MinLen: r.MinLen, MaxLen: r.MaxLen, Len: r.Len}}
	case "int32", "sint32", "sfixed32", "int64", "sint64", "sfixed64", "uint32", "fixed32", "uint64", "fixed64", "float", "double":
		if err := setNumericRules(scalarTarget, elemKind, r); err != nil {
			return nil, err
		}
	default:
		return nil, fmt.Errorf("rules on kind %s unsupported", elemKind)
	}
	return fr, nil
}

func setNumericRules(fr *validate.FieldRules, kind string, r *Rules) error {
	if r.NumGroup != "" {
		kind = r.NumGroup
	}
	// The per-kind rule messages share field names (gt, gte, lt, lte, const, in), so fill
	// them reflectively.
	msgName := map[string]string{"int32": "int32", "sint32": "sint32", "sfixed32": "sfixed32", "int64": "int64",
		"sint64": "sint64", "sfixed64": "sfixed64", "uint32": "uint32", "fixed32": "fixed32", "uint64": "uint64",
		"fixed64": "fixed64", "float": "float", "double": "double"}[kind]
	frm := fr.ProtoReflect()
	fdesc := frm.Descriptor().Fields().ByName(protoreflect.Name(msgName))
	if fdesc == nil {
		return fmt.Errorf("no rules member %s", msgName)
	}
	rm := frm.Mutable(fdesc).Message()
	conv := func(s string) (protoreflect.Value, error) {
		switch kind {
		case "int32", "sint32", "sfixed32":
			v, err := strconv.ParseInt(s, 10, 32)
			return protoreflect.ValueOfInt32(int32(v)), err
		case "int64", "sint64", "sfixed64":
			v, err := strconv.ParseInt(s, 10, 64)
			return protoreflect.ValueOfInt64(v), err
		case "uint32", "fixed32":
			v, err := strconv.ParseUint(s, 10, 32)
			return protoreflect.ValueOfUint32(uint32(v)), err
		case "uint64", "fixed64":
			v, err := strconv.ParseUint(s, 10, 64)
			return protoreflect.ValueOfUint64(v), err
		case "float":
			v, err := strconv.ParseFloat(s, 32)
			return protoreflect.ValueOfFloat32(float32(v)), err
		default:
			v, err := strconv.ParseFloat(s, 64)
			return protoreflect.ValueOfFloat64(v), err
		}
	}
	setOne := func(name string, s *string) error {
		if s == nil {
			return nil
		}
		v, err := conv(*s)
		if err != nil {
			return err
		}
		rm.Set(rm.Descriptor().Fields().ByName(protoreflect.Name(name)), v)
		return nil
	}
	for _, p := range []struct {
		n string
		s *string
	}{{"gt", r.Gt}, {"gte", r.Gte}, {"lt", r.Lt}, {"lte", r.Lte}, {"const", r.NumConst}} {
		if err := setOne(p.n, p.s); err != nil {
			return err
		}
	}
	if len(r.NumIn) > 0 {
		l := rm.Mutable(rm.Descriptor().Fields().ByName("in")).List()
		for _, s := range r.NumIn {
			v, err := conv(s)
			if err != nil {
				return err
			}
			l.Append(v)
		}
	}
	_ = math.Pi
	return nil
}

func headerProtos(hs []Header) []*sebufhttp.Header {
	var out []*sebufhttp.Header
	for _, h := range hs {
		out = append(out, &sebufhttp.Header{Name: h.Name, Type: h.Type, Required: h.Required, Format: h.Format,
			Description: h.Desc, Example: h.Example, Deprecated: h.Deprecated})
	}
	return out
}

func (s *Service) toProto(need func(string)) *descriptorpb.ServiceDescriptorProto {
	sp := &descriptorpb.ServiceDescriptorProto{Name: proto.String(s.Name)}
	if s.HasConfig || s.BasePath != "" || len(s.Headers) > 0 {
		sp.Options = &descriptorpb.ServiceOptions{}
	}
	if s.HasConfig || s.BasePath != "" {
		need(AnnotationsProto)
		proto.SetExtension(sp.Options, sebufhttp.E_ServiceConfig, &sebufhttp.ServiceConfig{BasePath: s.BasePath})
	}
	if len(s.Headers) > 0 {
		need(HeadersProto)
		proto.SetExtension(sp.Options, sebufhttp.E_ServiceHeaders, &sebufhttp.ServiceHeaders{RequiredHeaders: headerProtos(s.Headers)})
	}
	for _, m := range s.Methods {
		mp := &descriptorpb.MethodDescriptorProto{Name: proto.String(m.Name), InputType: proto.String(m.Input), OutputType: proto.String(m.Output)}
		if m.Input == ".google.protobuf.Timestamp" || m.Output == ".google.protobuf.Timestamp" {
			need(TimestampProto)
		}
		if m.ClientStreaming {
			mp.ClientStreaming = proto.Bool(true)
		}
		if m.ServerStreaming {
			mp.ServerStreaming = proto.Bool(true)
		}
		if m.Config != nil || len(m.Headers) > 0 {
			mp.Options = &descriptorpb.MethodOptions{}
		}
		if m.Config != nil {
			need(AnnotationsProto)
			proto.SetExtension(mp.Options, sebufhttp.E_Config, &sebufhttp.HttpConfig{Path: m.Config.Path, Method: verbEnum[m.Config.Method]})
		}
		if len(m.Headers) > 0 {
			need(HeadersProto)
			proto.SetExtension(mp.Options, sebufhttp.E_MethodHeaders, &sebufhttp.MethodHeaders{RequiredHeaders: headerProtos(m.Headers)})
		}
		sp.Method = append(sp.Method, mp)
	}
	return sp
}

// JSON is the field's JSON name: the explicit json_name when one is set, protoc's derivation otherwise.
func (f *Field) JSON() string {
	if f.JSONName != "" {
		return f.JSONName
	}
	return JSONName(f.Name)
}

// JSONName is protoc's JSON name derivation.
func JSONName(s string) string {
	var b []byte
	up := false
	for i := 0; i < len(s); i++ {
		c := s[i]
		if c == '_' {
			up = true
			continue
		}
		if up && c >= 'a' && c <= 'z' {
			c = c - 'a' + 'A'
		}
		up = false
		b = append(b, c)
	}
	return string(b)
}
