import Sebuf.Surgery
import Sebuf.Lemmas.Dec
/-!
Round-trip theorems for the codec templates modelled in `Sebuf.Surgery`.

Each theorem says: the decode edit applied to the encode edit of a protojson object `p` gives
back an object that is lookup-equal (`ObjEq`) to `p` — which `protojson.Unmarshal` then parses
back to the message by the library's own round-trip contract (a hypothesis outside the model).
For `UNIX_SECONDS` the result is the protojson object of the same timestamp with the nanoseconds
truncated to 0 (the documented loss). The flatten theorems record the statement-order defect.
-/
namespace Sebuf.Surgery
open Sebuf Json

theorem ObjEq.refl (a : Obj) : ObjEq a a := fun _ => rfl
theorem ObjEq.symm {a b : Obj} (h : ObjEq a b) : ObjEq b a := fun k => (h k).symm
theorem ObjEq.trans {a b c : Obj} (h₁ : ObjEq a b) (h₂ : ObjEq b c) : ObjEq a c :=
  fun k => (h₁ k).trans (h₂ k)

/-! ### B1 `int64_encoding = NUMBER` -/
namespace Int64Number

/-- the wire carries a JSON number (and nothing for 0). -/
theorem int64_number_wire (k : Str) (v : Int) (p : Obj) :
    oget k (encEdit k v p) = if v = 0 then none else some (num (JNum.int v)) := by
  unfold encEdit
  by_cases h : v = 0
  · simp [h, oget_odel_same]
  · simp [h, oget_oset_same]

/-- every other key of the protojson object is untouched by the encode edit. -/
theorem int64_number_wire_other (k k' : Str) (v : Int) (p : Obj) (hk : k' ≠ k) :
    oget k' (encEdit k v p) = oget k' p := by
  unfold encEdit
  by_cases h : v = 0
  · simp [h, oget_odel_other _ _ _ hk]
  · simp [h, oget_oset_other _ _ _ _ hk]

theorem int64_number_roundtrip (k : Str) (v : Int) (p : Obj)
    (hp : oget k p = if v = 0 then none else some (str (intToDec v))) :
    ObjEq (decEdit k (encEdit k v p)) p := by
  intro k'
  have hw := int64_number_wire k v p
  unfold decEdit
  by_cases h : v = 0
  · subst h
    simp only [↓reduceIte] at hw hp
    rw [hw]
    by_cases hk : k' = k
    · subst hk; rw [hw, hp]
    · exact int64_number_wire_other k k' 0 p hk
  · simp only [h, if_false] at hw hp
    rw [hw]
    by_cases hk : k' = k
    · subst hk; rw [oget_oset_same, hp]
    · rw [oget_oset_other _ _ _ _ hk]; exact int64_number_wire_other k k' v p hk

/-- what protojson then reads from the decoded string is the original value. -/
theorem int64_number_reparse (k : Str) (v : Int) (p : Obj) (hv : v ≠ 0) :
    (oget k (decEdit k (encEdit k v p))).map (fun j => match j with | str s => parseSigned s | _ => none)
      = some (some v) := by
  have hw := int64_number_wire k v p
  simp only [hv, if_false] at hw
  unfold decEdit
  rw [hw]
  simp [oget_oset_same, parseSigned_intToDec]

end Int64Number

/-! ### B2 `nullable` -/
namespace Nullable

theorem nullable_wire (k : Str) (unset : Bool) (p : Obj) :
    oget k (encEdit k unset p) = if unset then some null else oget k p := by
  unfold encEdit; cases unset <;> simp [oget_oset_same]

theorem nullable_roundtrip (k : Str) (unset : Bool) (p : Obj)
    (hp : if unset then oget k p = none else ∃ j, oget k p = some j ∧ j ≠ null) :
    ObjEq (decEdit k (encEdit k unset p)) p := by
  intro k'
  unfold decEdit encEdit
  cases unset
  · simp only [Bool.false_eq_true, if_false] at hp ⊢
    obtain ⟨j, hj, hn⟩ := hp
    rw [hj]
    cases j <;> first | rfl | exact absurd rfl hn
  · simp only [if_true] at hp ⊢
    rw [oget_oset_same]
    by_cases hk : k' = k
    · subst hk; rw [oget_odel_same, hp]
    · rw [oget_odel_other _ _ _ hk, oget_oset_other _ _ _ _ hk]

end Nullable

/-! ### B3 `timestamp_format = UNIX_SECONDS` -/
namespace UnixSeconds

theorem unix_seconds_wire (k : Str) (secs : Int) (nanos : Nat) (p : Obj) :
    oget k (encEdit k (some (secs, nanos)) p) = some (num (JNum.int secs)) := by
  simp [encEdit, oget_oset_same]

/-- the round trip of a set timestamp `(secs, nanos)` is the protojson object of `(secs, 0)`:
`p₁` is any protojson object of the message holding `(secs, nanos)`, `p₀` any object that holds
`(secs, 0)` at `k` and agrees with `p₁` elsewhere. -/
theorem unix_seconds_roundtrip_lossy (rfcOfSecs : Int → Str) (rfcFull : Int → Nat → Str)
    (hrfc : ∀ s, rfcFull s 0 = rfcOfSecs s)
    (k : Str) (secs : Int) (nanos : Nat) (p₁ p₀ : Obj)
    (_h₁ : oget k p₁ = some (str (rfcFull secs nanos)))
    (h₀ : oget k p₀ = some (str (rfcFull secs 0)))
    (hother : ∀ k', k' ≠ k → oget k' p₁ = oget k' p₀) :
    ObjEq (decEdit rfcOfSecs k (encEdit k (some (secs, nanos)) p₁)) p₀ := by
  intro k'
  unfold decEdit
  rw [unix_seconds_wire]
  simp only [encEdit]
  by_cases hk : k' = k
  · subst hk; rw [oget_oset_same, h₀, hrfc]
  · rw [oget_oset_other _ _ _ _ hk, oget_oset_other _ _ _ _ hk, hother k' hk]

/-- an unset timestamp (protojson omits the key) round-trips exactly. -/
theorem unix_seconds_roundtrip_unset (rfcOfSecs : Int → Str) (k : Str) (p : Obj)
    (hp : oget k p = none) :
    ObjEq (decEdit rfcOfSecs k (encEdit k none p)) p := by
  intro k'
  simp [decEdit, encEdit, hp]

end UnixSeconds

/-! ### B4 flatten decode order -/

/-- the generated order loses the child whatever the input: the final `protojson.Unmarshal` resets it. -/
theorem flatten_child_lost (childKeys : List Str) (raw : Obj) :
    (flattenDecode childKeys raw).child = none := rfl

theorem flatten_rest_kept (childKeys : List Str) (raw : Obj) :
    (flattenDecode childKeys raw).rest = remaining childKeys raw := rfl

/-- reset first, then assign: the child survives. -/
theorem flatten_fixed_keeps_child (childKeys : List Str) (raw : Obj)
    (h : extractChild childKeys raw ≠ []) :
    (flattenDecodeFixed childKeys raw).child = some (extractChild childKeys raw) := by
  unfold flattenDecodeFixed assignChild
  have : (extractChild childKeys raw).isEmpty = false := by
    cases hc : extractChild childKeys raw with
    | nil => exact absurd hc h
    | cons _ _ => rfl
  simp [this]

theorem flatten_fixed_rest (childKeys : List Str) (raw : Obj) :
    (flattenDecodeFixed childKeys raw).rest = remaining childKeys raw := by
  unfold flattenDecodeFixed assignChild pjUnmarshal
  split <;> rfl

/-- so the two orders differ exactly when the wire object carries some key of the child. -/
theorem flatten_orders_differ (childKeys : List Str) (raw : Obj)
    (h : extractChild childKeys raw ≠ []) :
    flattenDecode childKeys raw ≠ flattenDecodeFixed childKeys raw := by
  intro e
  have := congrArg FMsg.child e
  rw [flatten_child_lost, flatten_fixed_keeps_child _ _ h] at this
  cases this

/-! ### Concrete instances (three keys) -/
section Examples

private def p3 : Obj :=
  [("id".toList, str "7".toList), ("big".toList, str "-42".toList), ("name".toList, str "x".toList)]
private def p3unset : Obj := [("id".toList, str "7".toList), ("name".toList, str "x".toList), ("ok".toList, bool true)]

-- B1: set value
example : Int64Number.encEdit "big".toList (-42) p3 =
    [("id".toList, str "7".toList), ("big".toList, num (JNum.int (-42))), ("name".toList, str "x".toList)] := by decide
example : Int64Number.decEdit "big".toList (Int64Number.encEdit "big".toList (-42) p3) = p3 := by decide
example : ∀ k ∈ ["id".toList, "big".toList, "name".toList, "other".toList],
    oget k (Int64Number.decEdit "big".toList (Int64Number.encEdit "big".toList (-42) p3)) = oget k p3 := by decide
-- B1: zero value (key absent in protojson)
example : ∀ k ∈ ["id".toList, "big".toList, "name".toList, "ok".toList],
    oget k (Int64Number.decEdit "big".toList (Int64Number.encEdit "big".toList 0 p3unset)) = oget k p3unset := by decide
example : ObjEq (Int64Number.decEdit "big".toList (Int64Number.encEdit "big".toList (-42) p3)) p3 :=
  Int64Number.int64_number_roundtrip _ _ _ (by decide)

-- B2
example : Nullable.encEdit "big".toList true p3unset =
    [("id".toList, str "7".toList), ("name".toList, str "x".toList), ("ok".toList, bool true), ("big".toList, null)] := by decide
example : Nullable.decEdit "big".toList (Nullable.encEdit "big".toList true p3unset) = p3unset := by decide
example : Nullable.decEdit "big".toList (Nullable.encEdit "big".toList false p3) = p3 := by decide
example : ObjEq (Nullable.decEdit "big".toList (Nullable.encEdit "big".toList true p3unset)) p3unset :=
  Nullable.nullable_roundtrip _ _ _ (by decide)
example : ObjEq (Nullable.decEdit "big".toList (Nullable.encEdit "big".toList false p3)) p3 :=
  Nullable.nullable_roundtrip _ _ _ ⟨str "-42".toList, by decide, by decide⟩

-- B3 (toy renderings: the decimal seconds, with ".<nanos>" appended when non-zero)
private def rfcOfSecsToy (s : Int) : Str := intToDec s ++ "Z".toList
private def rfcFullToy (s : Int) (n : Nat) : Str :=
  if n = 0 then intToDec s ++ "Z".toList else intToDec s ++ '.' :: natToDec n ++ "Z".toList
private def pts (n : Nat) : Obj :=
  [("id".toList, str "7".toList), ("at".toList, str (rfcFullToy 1700000000 n)), ("name".toList, str "x".toList)]

example : UnixSeconds.encEdit "at".toList (some (1700000000, 5)) (pts 5) =
    [("id".toList, str "7".toList), ("at".toList, num (JNum.int 1700000000)), ("name".toList, str "x".toList)] := by decide
example : UnixSeconds.decEdit rfcOfSecsToy "at".toList (UnixSeconds.encEdit "at".toList (some (1700000000, 5)) (pts 5)) = pts 0 := by
  decide
example : UnixSeconds.decEdit rfcOfSecsToy "at".toList (UnixSeconds.encEdit "at".toList (some (1700000000, 5)) (pts 5)) ≠ pts 5 := by
  decide
example : ObjEq (UnixSeconds.decEdit rfcOfSecsToy "at".toList (UnixSeconds.encEdit "at".toList (some (1700000000, 5)) (pts 5))) (pts 0) :=
  UnixSeconds.unix_seconds_roundtrip_lossy rfcOfSecsToy rfcFullToy (fun _ => rfl) _ _ _ _ _ (by decide) (by decide)
    (by intro k' hk
        have : ¬ ['a', 't'] = k' := fun e => hk e.symm
        simp [pts, oget, this])

-- B4
private def rawFlat : Obj := [("id".toList, str "7".toList), ("street".toList, str "s".toList), ("zip".toList, str "z".toList)]
example : flattenDecode ["street".toList, "zip".toList] rawFlat =
    { child := none, rest := [("id".toList, str "7".toList)] } := by decide
example : flattenDecodeFixed ["street".toList, "zip".toList] rawFlat =
    { child := some [("street".toList, str "s".toList), ("zip".toList, str "z".toList)], rest := [("id".toList, str "7".toList)] } := by
  decide

end Examples

end Sebuf.Surgery
