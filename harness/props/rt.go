package props

import (
	"encoding/base64"
	"encoding/json"
	"fmt"
	"net/url"
	"sort"
	"strconv"
	"strings"
	"time"

	"google.golang.org/protobuf/encoding/protojson"
	"google.golang.org/protobuf/proto"
	"google.golang.org/protobuf/reflect/protoreflect"
	"google.golang.org/protobuf/reflect/protoregistry"
	"google.golang.org/protobuf/types/dynamicpb"

	"verif/harness/gen"
	"verif/harness/ir"
	"verif/harness/scratch"
)

// rtItem is one compiled runtime schema.
type rtItem struct {
	req   *ir.Request
	file  *ir.File
	it    *scratch.Item
	descs *protoregistry.Files
	opts  scratch.AddOpts // the plugin subset the package was built from
}

// buildBatch generates and compiles n schemas produced by mk. Items that fail to generate or
// build are returned with it.Built == false (the caller decides what that means).
func buildBatch(n int, mk func(i int) *ir.Request, add scratch.AddOpts, race bool) (*scratch.Batch, []*rtItem, error) {
	return buildBatchOpts(n, mk, func(int) scratch.AddOpts { return add }, race)
}

// buildBatchOpts: like buildBatch with the plugin subset chosen per schema (a package holding the
// output of ONE Go plugin shows what that plugin alone emits; with both, the later file wins).
func buildBatchOpts(n int, mk func(i int) *ir.Request, addFor func(i int) scratch.AddOpts, race bool) (*scratch.Batch, []*rtItem, error) {
	bt, err := scratch.NewBatch()
	if err != nil {
		return nil, nil, err
	}
	items := make([]*rtItem, n)
	var firstErr error
	parallel(n, func(i int) {
		req := mk(i)
		add := addFor(i)
		it, err := bt.Add(fmt.Sprintf("s%04d", i), req, add)
		if err != nil {
			firstErr = err
			return
		}
		ds, err := gen.Descs(req)
		if err != nil {
			firstErr = err
			return
		}
		items[i] = &rtItem{req: req, file: req.FileByName(req.PrimaryName()), it: it, descs: ds, opts: add}
	})
	if firstErr != nil {
		bt.Close()
		return nil, nil, firstErr
	}
	if err := bt.Build(race); err != nil {
		bt.Close()
		return nil, nil, err
	}
	return bt, items, nil
}

func (x *rtItem) msgDesc(full string) protoreflect.MessageDescriptor {
	return gen.FindMsg(x.descs, full)
}

// methodInfo is what the harness knows of one RPC from the IR.
type methodInfo struct {
	svc      *ir.Service
	m        *ir.Method
	in       *ir.Message
	verb     string
	template string // full path template as every generator agrees on it (explicit path under a /base)
	pathVars []string
	query    []*ir.Field
}

func (x *rtItem) methods() []*methodInfo {
	var out []*methodInfo
	for _, s := range x.file.Services {
		for _, m := range s.Methods {
			in, _ := x.req.FindMessage(m.Input)
			mi := &methodInfo{svc: s, m: m, in: in, verb: "POST"}
			if m.Config != nil {
				if m.Config.Method != "" {
					mi.verb = m.Config.Method
				}
				mi.template = strings.TrimSuffix(s.BasePath, "/") + m.Config.Path
				for _, seg := range strings.Split(m.Config.Path, "/") {
					if strings.HasPrefix(seg, "{") && strings.HasSuffix(seg, "}") {
						mi.pathVars = append(mi.pathVars, seg[1:len(seg)-1])
					}
				}
			}
			if m.Config == nil && s.BasePath != "" {
				// the default route of the Go server: POST <base>/<method name in snake case>
				mi.template = strings.TrimSuffix(s.BasePath, "/") + "/" + camelToSnake(m.Name)
			}
			for _, f := range in.Fields {
				if f.Ann.Query != nil {
					mi.query = append(mi.query, f)
				}
			}
			out = append(out, mi)
		}
	}
	return out
}

func (mi *methodInfo) bodyVerb() bool {
	return mi.verb == "POST" || mi.verb == "PUT" || mi.verb == "PATCH"
}

func (mi *methodInfo) queryName(f *ir.Field) string {
	if f.Ann.Query.Name != "" {
		return f.Ann.Query.Name
	}
	return f.Name
}

func (mi *methodInfo) isURLBound(name string) bool {
	for _, v := range mi.pathVars {
		if v == name {
			return true
		}
	}
	for _, q := range mi.query {
		if q.Name == name {
			return true
		}
	}
	return false
}

// sprintField is fmt.Sprint of a scalar field value as the Go client prints it.
func sprintField(fd protoreflect.FieldDescriptor, v protoreflect.Value) string {
	if fd.IsList() { // a sample ELEMENT: the first one, or the kind's plain value
		if l := v.List(); l.Len() > 0 {
			v = l.Get(0)
		} else if fd.Kind() == protoreflect.StringKind {
			return "x"
		} else if fd.Kind() == protoreflect.BoolKind {
			return "true"
		} else {
			return "1"
		}
	}
	switch fd.Kind() {
	case protoreflect.StringKind:
		return v.String()
	case protoreflect.BoolKind:
		return strconv.FormatBool(v.Bool())
	case protoreflect.FloatKind:
		return fmt.Sprint(float32(v.Float()))
	case protoreflect.DoubleKind:
		return fmt.Sprint(v.Float())
	case protoreflect.Int32Kind, protoreflect.Sint32Kind, protoreflect.Sfixed32Kind, protoreflect.Int64Kind, protoreflect.Sint64Kind, protoreflect.Sfixed64Kind:
		return strconv.FormatInt(v.Int(), 10)
	case protoreflect.Uint32Kind, protoreflect.Fixed32Kind, protoreflect.Uint64Kind, protoreflect.Fixed64Kind:
		return strconv.FormatUint(v.Uint(), 10)
	}
	return fmt.Sprint(v.Interface())
}

// specConvert is the oracle's reading of "the URL value converts to the field's type": Go's
// strconv with the kind's bit size (an independent statement of the protobuf ranges).
func specConvert(kind string, text string) (protoreflect.Value, bool) {
	switch kind {
	case "string":
		return protoreflect.ValueOfString(text), true
	case "bool":
		b, err := strconv.ParseBool(text)
		return protoreflect.ValueOfBool(b), err == nil
	case "int32", "sint32", "sfixed32":
		v, err := strconv.ParseInt(text, 10, 32)
		return protoreflect.ValueOfInt32(int32(v)), err == nil
	case "int64", "sint64", "sfixed64":
		v, err := strconv.ParseInt(text, 10, 64)
		return protoreflect.ValueOfInt64(v), err == nil
	case "uint32", "fixed32":
		v, err := strconv.ParseUint(text, 10, 32)
		return protoreflect.ValueOfUint32(uint32(v)), err == nil
	case "uint64", "fixed64":
		v, err := strconv.ParseUint(text, 10, 64)
		return protoreflect.ValueOfUint64(v), err == nil
	case "float":
		v, err := strconv.ParseFloat(text, 32)
		return protoreflect.ValueOfFloat32(float32(v)), err == nil
	case "double":
		v, err := strconv.ParseFloat(text, 64)
		return protoreflect.ValueOfFloat64(v), err == nil
	}
	return protoreflect.Value{}, false
}

// singleFieldJSON renders what protojson shows for a message in which only fd is set to v:
// (json key, value) or ("", nil) when the value is the proto3 default (omitted).
func singleFieldJSON(md protoreflect.MessageDescriptor, fd protoreflect.FieldDescriptor, v protoreflect.Value) (string, any) {
	m := dynamicpb.NewMessage(md)
	m.Set(fd, v)
	var mm map[string]any
	d := json.NewDecoder(strings.NewReader(string(gen.PJ(m))))
	d.UseNumber()
	if d.Decode(&mm) != nil {
		return "", nil
	}
	for k, val := range mm {
		return k, val
	}
	return "", nil
}

func b64(b []byte) string { return base64.StdEncoding.EncodeToString(b) }

func jsonEq(a, b any) bool {
	x, _ := json.Marshal(a)
	y, _ := json.Marshal(b)
	return string(x) == string(y)
}

func runItem(x *rtItem, ops []any) ([]map[string]any, error) {
	outs, stderr, err := x.it.Run(ops, 5*time.Minute)
	if err != nil || len(outs) != len(ops) {
		return outs, fmt.Errorf("runner for %s: %v (got %d/%d answers) stderr=%s", x.it.ID, err, len(outs), len(ops), firstLines(stderr, 12))
	}
	return outs, nil
}

func sortedKeys(m map[string]any) []string {
	var ks []string
	for k := range m {
		ks = append(ks, k)
	}
	sort.Strings(ks)
	return ks
}

func pathEscape(s string) string { return url.PathEscape(s) }

type jsonRaw []byte

func (j jsonRaw) MarshalJSON() ([]byte, error) {
	if len(j) == 0 {
		return []byte("null"), nil
	}
	return j, nil
}

func canonJSONBytes(b []byte) any {
	var v any
	d := json.NewDecoder(strings.NewReader(string(b)))
	d.UseNumber()
	if d.Decode(&v) != nil {
		return nil
	}
	return v
}

func protojsonUnmarshal(b []byte, m proto.Message) error { return protojson.Unmarshal(b, m) }

// camelToSnake is the generator's own rule for default paths (an underscore before every capital but the first).
func camelToSnake(s string) string {
	var b []byte
	for i := 0; i < len(s); i++ {
		c := s[i]
		if c >= 'A' && c <= 'Z' {
			if i > 0 {
				b = append(b, '_')
			}
			b = append(b, c+'a'-'A')
		} else {
			b = append(b, c)
		}
	}
	return string(b)
}
