import Sebuf.Driver
import Sebuf.Errors
namespace Sebuf.Driver
open Lean (Json)
open Sebuf.Errors

def srcOfName : String → Option Src
  | "header_violation" => some .headerViolation | "url_binding" => some .urlBinding
  | "malformed_body" => some .malformedBody | "rule_violation" => some .ruleViolation
  | "plain_error" => some .plainError | "sebuf_error" => some .sebufError
  | "wrapped_sebuf_error" => some .wrappedSebufError | "validation_from_handler" => some .validationFromHandler
  | "wrapped_validation_from_handler" => some .wrappedValidationFromHandler
  | "custom_message" => some .customMessage | "wrapped_custom_message" => some .wrappedCustomMessage
  | _ => none

def hookOfName : String → Option Hook
  | "none" => some .none | "nil" => some .returnsNil | "message" => some .returnsMessage
  | "status" => some .setsStatus | "status_message" => some .setsStatusAndMessage
  | "headers" => some .setsHeader | "headers_status" => some .setsHeaderAndStatus | "body" => some .writesBody
  | _ => none

def statusName : Status → String
  | .s400 => "400" | .s500 => "500" | .hook => "hook"

def bodyName : Body → String
  | .violations => "violations" | .errorMessage => "error_message" | .customMessage => "custom_message"
  | .hookMessage => "hook_message" | .hookBody => "hook_body"

def clientErrName : ClientErr → String
  | .validation => "validation" | .error => "error" | .other => "other"

def respJson (r : Resp) : Json :=
  Json.mkObj [("status", Json.str (statusName r.status)), ("body", Json.str (bodyName r.body)),
    ("hook_header", Json.bool r.hookHeader), ("ct_header", Json.bool r.ctHeader)]

def opErrorCase (j : Json) : Json :=
  match srcOfName (String.ofList (getStr j "src")), hookOfName (String.ofList (getStr j "hook")) with
  | some s, some h =>
    let impl := implResponse s h
    Json.mkObj [("impl", respJson impl), ("spec", respJson (specResponse s h)),
      ("client_impl", Json.str (clientErrName (goClientErr (getBool j "binary") (impl.status == .s400) impl.body))),
      ("client_spec", Json.str (clientErrName (specClientErr (impl.status == .s400) impl.body)))]
  | _, _ => Json.mkObj [("driver_err", Json.str "unknown source or hook")]

def tsSrvSourceOfName : String → Option TsSrvSource
  | "header_violation" => some .headerViolation
  | "request_violation" => some .requestViolation
  | "handler_validation" => some .handlerValidation
  | "handler_error" => some .handlerError
  | _ => none

def tsSrvAnswerName : TsSrvAnswer → String
  | .violations400 => "violations_400"
  | .hookResponse => "hook_response"
  | .message500 => "message_500"

/-- `ts_server_error`: how a route of the emitted TS server answers an error, model and contract. -/
def opTsServerError (j : Json) : Json :=
  match tsSrvSourceOfName (String.ofList (getStr j "src")) with
  | some s =>
    Json.mkObj [("impl", Json.str (tsSrvAnswerName (tsServerAnswer s (getBool j "hook_answers")))),
      ("spec", Json.str (tsSrvAnswerName (specTsServerAnswer s (getBool j "hook_answers"))))]
  | none => Json.mkObj [("driver_err", Json.str "unknown source")]

end Sebuf.Driver
