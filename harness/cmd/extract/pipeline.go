package main

import (
	"fmt"
	"go/ast"
	"go/parser"
	"go/token"
	"sort"
	"strconv"
	"strings"

	"verif/harness/gen"
	"verif/harness/ir"
	"verif/harness/plug"
)

func init() { register("Pipeline", extractPipeline) }

// probe schemas: the binding runtime must not depend on the schema (checked, fact bindingIsStatic).
func probeRequests() []*ir.Request {
	r := gen.New(424242)
	a := gen.GenRuntimeFile(r.Fork("a"), 0, gen.RuntimeOpts{Headers: true, ErrorTypes: true})
	b := gen.GenRuntimeFile(r.Fork("b"), 1, gen.RuntimeOpts{})
	return []*ir.Request{a, b}
}

func emitted(p string, req *ir.Request, suffix string) (string, error) {
	res, err := plug.Run(p, req, nil)
	if err != nil {
		return "", err
	}
	if !res.OK() {
		e := res.Outcome()
		if res.Error != nil {
			e += ": " + *res.Error
		}
		return "", fmt.Errorf("%s refused the probe schema: %s", p, e)
	}
	for n, c := range res.Files {
		if strings.HasSuffix(n, suffix) {
			return c, nil
		}
	}
	return "", fmt.Errorf("%s emitted no %s", p, suffix)
}

func parseSrc(src string) (*ast.File, error) {
	return parser.ParseFile(token.NewFileSet(), "emitted.go", src, 0)
}

// strConsts evaluates string constants of an emitted file.
func emittedConsts(f *ast.File) map[string]string { return stringConsts(f) }

func litOrConst(e ast.Expr, consts map[string]string) (string, bool) {
	switch x := e.(type) {
	case *ast.BasicLit:
		if x.Kind == token.STRING {
			v, err := strconv.Unquote(x.Value)
			return v, err == nil
		}
	case *ast.Ident:
		v, ok := consts[x.Name]
		return v, ok
	case *ast.SelectorExpr:
		// http.StatusBadRequest etc. are reported by name
		return exprString(x), true
	}
	return "", false
}

// switchTable reads `switch X { case A, B: <stmt calling F> ... default: ... }` into
// (case label -> first called function name or assigned literal).
func switchTable(sw *ast.SwitchStmt, consts map[string]string, pick func(body []ast.Stmt) string) ([][2]string, string, error) {
	var rows [][2]string
	def := ""
	for _, c := range sw.Body.List {
		cc := c.(*ast.CaseClause)
		val := pick(cc.Body)
		if cc.List == nil {
			def = val
			continue
		}
		for _, e := range cc.List {
			l, ok := litOrConst(e, consts)
			if !ok {
				return nil, "", fmt.Errorf("unresolvable case label %s", exprString(e))
			}
			rows = append(rows, [2]string{l, val})
		}
	}
	return rows, def, nil
}

func firstCall(body []ast.Stmt) string {
	name := ""
	for _, st := range body {
		ast.Inspect(st, func(n ast.Node) bool {
			if name != "" {
				return false
			}
			if c, ok := n.(*ast.CallExpr); ok {
				name = exprString(c.Fun)
				return false
			}
			return true
		})
		if name != "" {
			break
		}
	}
	return name
}

func findSwitch(fd *ast.FuncDecl) *ast.SwitchStmt {
	var sw *ast.SwitchStmt
	ast.Inspect(fd.Body, func(n ast.Node) bool {
		if s, ok := n.(*ast.SwitchStmt); ok && sw == nil {
			sw = s
			return false
		}
		return true
	})
	return sw
}

func leanPairs(rows [][2]string) string {
	var q []string
	for _, r := range rows {
		q = append(q, fmt.Sprintf("(%s, %s)", leanStr(r[0]), leanStr(r[1])))
	}
	return "[" + strings.Join(q, ", ") + "]"
}

func extractPipeline() (string, error) {
	probes := probeRequests()
	bind0, err := emitted(plug.GoHTTP, probes[0], "_http_binding.pb.go")
	if err != nil {
		return "", err
	}
	bind1, err := emitted(plug.GoHTTP, probes[1], "_http_binding.pb.go")
	if err != nil {
		return "", err
	}
	cfg0, _ := emitted(plug.GoHTTP, probes[0], "_http_config.pb.go")
	cfg1, _ := emitted(plug.GoHTTP, probes[1], "_http_config.pb.go")
	static := stripPkgAndSource(bind0) == stripPkgAndSource(bind1) && stripPkgAndSource(cfg0) == stripPkgAndSource(cfg1)
	f, err := parseSrc(bind0)
	if err != nil {
		return "", fmt.Errorf("emitted binding file does not parse: %w", err)
	}
	consts := emittedConsts(f)
	var b strings.Builder
	b.WriteString(header("Pipeline", "the Go text protoc-gen-go-http EMITS for a probe schema (*_http_binding.pb.go), parsed with go/parser"))
	fmt.Fprintf(&b, "/-- the binding runtime is the same text for two different schemas. -/\ndef bindingIsStatic : Bool := %v\n", static)

	// 1. order of steps inside BindingMiddleware
	bm := findFunc(f, "BindingMiddleware")
	if bm == nil {
		return "", fmt.Errorf("BindingMiddleware not emitted")
	}
	stepName := map[string]string{"validateHeaders": "headers", "bindPathParams": "path", "bindQueryParams": "query",
		"bindDataBasedOnContentType": "body", "ValidateMessage": "validate", "next.ServeHTTP": "handler"}
	var order []string
	var bodyVerbs []string
	var bodyGuardCalls []string
	ast.Inspect(bm.Body, func(n ast.Node) bool {
		switch x := n.(type) {
		case *ast.CallExpr:
			if s, ok := stepName[exprString(x.Fun)]; ok {
				order = append(order, s)
			}
		case *ast.IfStmt:
			// the condition guarding the body step
			hasBody := false
			ast.Inspect(x.Body, func(m ast.Node) bool {
				if c, ok := m.(*ast.CallExpr); ok && exprString(c.Fun) == "bindDataBasedOnContentType" {
					hasBody = true
				}
				return true
			})
			if hasBody && len(bodyVerbs) == 0 {
				// anything the guard CALLS: the verb tests call nothing
				ast.Inspect(x.Cond, func(m ast.Node) bool {
					if c, ok := m.(*ast.CallExpr); ok {
						bodyGuardCalls = append(bodyGuardCalls, srcOf(c))
					}
					return true
				})
				ast.Inspect(x.Cond, func(m ast.Node) bool {
					if be, ok := m.(*ast.BinaryExpr); ok && be.Op == token.EQL {
						if exprString(be.X) == "httpMethod" {
							if v, ok := litOrConst(be.Y, consts); ok {
								bodyVerbs = append(bodyVerbs, v)
							}
						}
					}
					return true
				})
			}
		}
		return true
	})
	fmt.Fprintf(&b, "/-- order of the binding steps inside the emitted BindingMiddleware. -/\ndef order : List String := %s\n", leanStrList(order))
	fmt.Fprintf(&b, "/-- verbs for which the emitted middleware binds a body. -/\ndef bodyVerbs : List String := %s\n", leanStrList(bodyVerbs))
	fmt.Fprintf(&b, "/-- calls made by the condition that guards the body step (the verb tests make none). -/\ndef bodyGuardCalls : List String := %s\n", leanStrList(bodyGuardCalls))

	// 2. content-type dispatch tables
	for _, fn := range []string{"bindDataBasedOnContentType", "marshalResponse", "writeProtoMessageResponse", "writeResponseBody"} {
		fd := findFunc(f, fn)
		if fd == nil {
			return "", fmt.Errorf("%s not emitted", fn)
		}
		sw := findSwitch(fd)
		if sw == nil {
			return "", fmt.Errorf("%s: no switch", fn)
		}
		rows, def, err := switchTable(sw, consts, func(body []ast.Stmt) string {
			// codec decided by which library call appears in the case body
			s := ""
			for _, st := range body {
				ast.Inspect(st, func(n ast.Node) bool {
					if c, ok := n.(*ast.CallExpr); ok {
						fnn := exprString(c.Fun)
						switch {
						case strings.Contains(fnn, "Binary") || fnn == "proto.Marshal" || fnn == "proto.Unmarshal":
							if s == "" {
								s = "binary"
							}
						case strings.Contains(fnn, "JSON") || strings.HasPrefix(fnn, "protojson."):
							if s == "" {
								s = "json"
							}
						}
					}
					return true
				})
			}
			return s
		})
		if err != nil {
			return "", fmt.Errorf("%s: %w", fn, err)
		}
		fmt.Fprintf(&b, "def %sTable : List (String × String) := %s\ndef %sDefault : String := %s\n", fn, leanPairs(rows), fn, leanStr(def))
	}
	// the switch subject: filterFlags applied?
	for _, fn := range []string{"bindDataBasedOnContentType", "marshalResponse"} {
		fd := findFunc(f, fn)
		usesFilter := false
		ast.Inspect(fd.Body, func(n ast.Node) bool {
			if c, ok := n.(*ast.CallExpr); ok && exprString(c.Fun) == "filterFlags" {
				usesFilter = true
			}
			return true
		})
		fmt.Fprintf(&b, "def %sUsesFilterFlags : Bool := %v\n", fn, usesFilter)
	}
	// does marshalResponse prefer a custom json.Marshaler for JSON
	{
		fd := findFunc(f, "marshalResponse")
		custom := false
		ast.Inspect(fd.Body, func(n ast.Node) bool {
			if ta, ok := n.(*ast.TypeAssertExpr); ok && exprString2(ta.Type) == "json.Marshaler" {
				custom = true
			}
			return true
		})
		fmt.Fprintf(&b, "def marshalResponseUsesCustomMarshaler : Bool := %v\n", custom)
		fd = findFunc(f, "bindDataFromJSONRequest")
		customU, emptySkips := false, false
		if fd != nil {
			ast.Inspect(fd.Body, func(n ast.Node) bool {
				if ta, ok := n.(*ast.TypeAssertExpr); ok && exprString2(ta.Type) == "json.Unmarshaler" {
					customU = true
				}
				if is, ok := n.(*ast.IfStmt); ok {
					if be, ok := is.Cond.(*ast.BinaryExpr); ok && exprString(be.X) == "len()" {
						emptySkips = true
					}
				}
				return true
			})
		}
		fmt.Fprintf(&b, "def jsonBindUsesCustomUnmarshaler : Bool := %v\ndef emptyBodySkipsDecode : Bool := %v\n", customU, emptySkips)
	}

	// 3. status codes
	{
		fd := findFunc(f, "defaultErrorStatusCode")
		if fd == nil {
			return "", fmt.Errorf("defaultErrorStatusCode not emitted")
		}
		var rets []string
		ast.Inspect(fd.Body, func(n ast.Node) bool {
			if r, ok := n.(*ast.ReturnStmt); ok && len(r.Results) == 1 {
				rets = append(rets, exprString(r.Results[0]))
			}
			return true
		})
		fmt.Fprintf(&b, "/-- return expressions of defaultErrorStatusCode in order: [status when errors.As ValidationError, otherwise]. -/\ndef errorStatus : List String := %s\n", leanStrList(rets))
	}
	// 4. string -> field conversion table
	{
		fd := findFunc(f, "convertStringToFieldValue")
		if fd == nil {
			return "", fmt.Errorf("convertStringToFieldValue not emitted")
		}
		sw := findSwitch(fd)
		var rows, bases []string
		defaultErr := false
		for _, c := range sw.Body.List {
			cc := c.(*ast.CaseClause)
			parser, bits := "identity", ""
			for _, st := range cc.Body {
				ast.Inspect(st, func(n ast.Node) bool {
					if call, ok := n.(*ast.CallExpr); ok && strings.HasPrefix(exprString(call.Fun), "strconv.") {
						parser = strings.TrimPrefix(exprString(call.Fun), "strconv.")
						if len(call.Args) > 0 {
							if bl, ok := call.Args[len(call.Args)-1].(*ast.BasicLit); ok {
								bits = bl.Value
							}
						}
						// ParseInt / ParseUint(value, BASE, bits): the base argument, as written
						if (parser == "ParseInt" || parser == "ParseUint") && len(call.Args) == 3 {
							for _, e := range cc.List {
								k := strings.TrimSuffix(strings.TrimPrefix(exprString(e), "protoreflect."), "Kind")
								bases = append(bases, fmt.Sprintf("(%s, %s)", leanStr(strings.ToLower(k)), leanStr(srcOf(call.Args[1]))))
							}
						}
					}
					if call, ok := n.(*ast.CallExpr); ok && exprString(call.Fun) == "fmt.Errorf" {
						parser = "error"
					}
					return true
				})
			}
			if cc.List == nil {
				defaultErr = parser == "error"
				continue
			}
			for _, e := range cc.List {
				k := strings.TrimSuffix(strings.TrimPrefix(exprString(e), "protoreflect."), "Kind")
				rows = append(rows, fmt.Sprintf("(%s, %s, %s)", leanStr(strings.ToLower(k)), leanStr(parser), leanStr(bits)))
			}
		}
		sort.Strings(rows)
		fmt.Fprintf(&b, "/-- convertStringToFieldValue: kind ↦ (strconv parser or identity, bit size). -/\ndef convertTable : List (String × String × String) := [%s]\ndef convertDefaultIsError : Bool := %v\n", strings.Join(rows, ", "), defaultErr)
		sort.Strings(bases)
		fmt.Fprintf(&b, "/-- the BASE argument of every integer conversion, as written in the emitted code. -/\ndef convertBases : List (String × String) := [%s]\n", strings.Join(bases, ", "))
	}
	// 4b. bindQueryParams: which occurrences of a parameter are converted
	{
		fd := findFunc(f, "bindQueryParams")
		if fd == nil {
			return "", fmt.Errorf("bindQueryParams not emitted")
		}
		lookup, listRange, listArg, singleArg := "", "", "", ""
		absentTest, absentRequiredTest, absentOtherwise, absentRequiredReturns := "", "", "", false
		ast.Inspect(fd.Body, func(n ast.Node) bool {
			switch x := n.(type) {
			case *ast.IfStmt:
				if srcOf(x.Cond) == "len(values) == 0" && absentTest == "" {
					absentTest = srcOf(x.Cond)
					for _, st := range x.Body.List {
						switch y := st.(type) {
						case *ast.IfStmt:
							absentRequiredTest = srcOf(y.Cond)
							for _, in := range y.Body.List {
								if rs, ok := in.(*ast.ReturnStmt); ok && len(rs.Results) == 1 && strings.Contains(srcOf(rs.Results[0]), "ValidationError") {
									absentRequiredReturns = true
								}
							}
						case *ast.BranchStmt:
							absentOtherwise = y.Tok.String()
						default:
							absentOtherwise = "?" + srcOf(st)
						}
					}
				}
			}
			return true
		})
		if absentTest == "" || absentRequiredTest == "" || absentOtherwise == "" {
			return "", fmt.Errorf("bindQueryParams: the branch for an absent parameter has an unexpected shape (test %q, required test %q, otherwise %q)", absentTest, absentRequiredTest, absentOtherwise)
		}
		ast.Inspect(fd.Body, func(n ast.Node) bool {
			switch x := n.(type) {
			case *ast.AssignStmt:
				if len(x.Lhs) == 1 && exprString(x.Lhs[0]) == "values" && len(x.Rhs) == 1 {
					lookup = srcOf(x.Rhs[0])
				}
			case *ast.IfStmt:
				if srcOf(x.Cond) == "field.IsList()" {
					ast.Inspect(x.Body, func(m ast.Node) bool {
						if rs, ok := m.(*ast.RangeStmt); ok {
							// every loop of the branch (a second, inner one would re-cut the occurrences)
							if listRange != "" {
								listRange += " ; "
							}
							listRange += srcOf(rs.X)
						}
						if call, ok := m.(*ast.CallExpr); ok && exprString(call.Fun) == "convertStringToFieldValue" && len(call.Args) > 0 && listArg == "" {
							listArg = srcOf(call.Args[0])
						}
						return true
					})
					if x.Else != nil {
						ast.Inspect(x.Else, func(m ast.Node) bool {
							if call, ok := m.(*ast.CallExpr); ok && exprString(call.Fun) == "convertStringToFieldValue" && len(call.Args) > 0 && singleArg == "" {
								singleArg = srcOf(call.Args[0])
							}
							return true
						})
					}
					return false
				}
			}
			return true
		})
		if lookup == "" || listRange == "" || listArg == "" || singleArg == "" {
			return "", fmt.Errorf("bindQueryParams: unexpected shape (lookup %q, list range %q, element %q, singular %q)", lookup, listRange, listArg, singleArg)
		}
		fmt.Fprintf(&b, "/-- bindQueryParams: where the occurrences of a parameter come from, what a `repeated` field ranges over, what each element conversion and the singular conversion are given. -/\n")
		fmt.Fprintf(&b, "def queryValuesLookup : String := %s\ndef queryListRange : String := %s\ndef queryListElemArg : String := %s\ndef querySingularArg : String := %s\n", leanStr(lookup), leanStr(listRange), leanStr(listArg), leanStr(singleArg))
		fmt.Fprintf(&b, "/-- bindQueryParams, a parameter without occurrences: the test, the test under which the request is refused (and whether that branch returns a ValidationError), what happens otherwise. -/\n")
		fmt.Fprintf(&b, "def queryAbsentTest : String := %s\ndef queryAbsentRequiredTest : String := %s\ndef queryAbsentRequiredReturns : Bool := %v\ndef queryAbsentOtherwise : String := %s\n", leanStr(absentTest), leanStr(absentRequiredTest), absentRequiredReturns, leanStr(absentOtherwise))
	}
	// 5. header validators: type switch and format switch
	for _, fn := range []string{"validateHeaderValue", "validateStringHeader"} {
		fd := findFunc(f, fn)
		if fd == nil {
			return "", fmt.Errorf("%s not emitted", fn)
		}
		sw := findSwitch(fd)
		if sw == nil {
			return "", fmt.Errorf("%s: no switch", fn)
		}
		rows, def, err := switchTable(sw, consts, firstCall)
		if err != nil {
			return "", fmt.Errorf("%s: %w", fn, err)
		}
		fmt.Fprintf(&b, "def %sTable : List (String × String) := %s\ndef %sDefault : String := %s\n", fn, leanPairs(rows), fn, leanStr(def))
	}

	// 6. the emitted Go client
	cl, err := emitted(plug.GoClient, probes[0], "_client.pb.go")
	if err != nil {
		return "", err
	}
	cf, err := parseSrc(cl)
	if err != nil {
		return "", fmt.Errorf("emitted client file does not parse: %w", err)
	}
	cconsts := emittedConsts(cf)
	for _, fn := range []string{"marshalRequest", "unmarshalResponse"} {
		fd := findFunc(cf, fn)
		if fd == nil {
			return "", fmt.Errorf("client %s not emitted", fn)
		}
		sw := findSwitch(fd)
		rows, def, err := switchTable(sw, cconsts, func(body []ast.Stmt) string {
			s := ""
			for _, st := range body {
				ast.Inspect(st, func(n ast.Node) bool {
					if c, ok := n.(*ast.CallExpr); ok {
						fnn := exprString(c.Fun)
						if fnn == "proto.Marshal" || fnn == "proto.Unmarshal" {
							if s == "" {
								s = "binary"
							}
						} else if strings.HasPrefix(fnn, "protojson.") || strings.HasSuffix(fnn, "JSON") {
							if s == "" {
								s = "json"
							}
						}
					}
					return true
				})
			}
			return s
		})
		if err != nil {
			return "", err
		}
		fmt.Fprintf(&b, "def client%sTable : List (String × String) := %s\ndef client%sDefault : String := %s\n", strings.Title(fn), leanPairs(rows), strings.Title(fn), leanStr(def))
	}
	// status threshold and the 400 test
	{
		threshold, vErr := "", ""
		ast.Inspect(cf, func(n ast.Node) bool {
			if be, ok := n.(*ast.BinaryExpr); ok {
				l := exprString(be.X)
				if strings.HasSuffix(l, "StatusCode") || l == "statusCode" {
					r := exprString(be.Y)
					if bl, ok := be.Y.(*ast.BasicLit); ok {
						r = bl.Value
					}
					if be.Op == token.GEQ {
						threshold = ">= " + r
					}
					if be.Op == token.EQL {
						vErr = "== " + r
					}
				}
			}
			return true
		})
		fmt.Fprintf(&b, "def clientErrorThreshold : String := %s\ndef clientValidationStatusTest : String := %s\n", leanStr(threshold), leanStr(vErr))
		// how the emitted client reads a response body: every call that is handed `resp.Body` (distinct, in source order)
		var reads []string
		seenRead := map[string]bool{}
		ast.Inspect(cf, func(n ast.Node) bool {
			call, ok := n.(*ast.CallExpr)
			if !ok {
				return true
			}
			for _, a := range call.Args {
				if strings.Contains(srcOf(a), "resp.Body") {
					t := srcOf(call)
					if !seenRead[t] {
						seenRead[t] = true
						reads = append(reads, t)
					}
					return false
				}
			}
			return true
		})
		b.WriteString("/-- every call of the emitted client that is handed `resp.Body`. -/\n")
		fmt.Fprintf(&b, "def clientBodyReads : List String := %s\n", leanStrList(reads))
	}
	// the header table literal: which getter each attribute of an emitted `sebufhttp.Header{…}` entry is written from
	// (generator side, internal/httpgen/generator.go generateHeaderLiteral)
	hl, err := headerLiteralFacts()
	if err != nil {
		return "", err
	}
	b.WriteString("/-- `generateHeaderLiteral`: (attribute of the emitted header entry, the expression its value is printed from). -/\n")
	fmt.Fprintf(&b, "def headerLiteral : List (String × String) := %s\n", leanPairs(hl))
	b.WriteString("end Sebuf.Gen.Pipeline\n")
	return b.String(), nil
}

func exprString2(e ast.Expr) string {
	if s, ok := e.(*ast.SelectorExpr); ok {
		return exprString(s.X) + "." + s.Sel.Name
	}
	return exprString(e)
}

func stripPkgAndSource(src string) string {
	var out []string
	for _, l := range strings.Split(src, "\n") {
		if strings.HasPrefix(l, "// source:") || strings.HasPrefix(l, "package ") {
			continue
		}
		out = append(out, l)
	}
	return strings.Join(out, "\n")
}

func headerLiteralFacts() ([][2]string, error) {
	pf, err := parser.ParseFile(token.NewFileSet(), repo("internal/httpgen/generator.go"), nil, 0)
	if err != nil {
		return nil, err
	}
	fd := findFunc(pf, "generateHeaderLiteral")
	if fd == nil {
		return nil, fmt.Errorf("generateHeaderLiteral not found in internal/httpgen/generator.go")
	}
	// the parameter that carries the declaration is called `header` here, whatever its name in the source
	if fd.Type.Params != nil {
		for _, prm := range fd.Type.Params.List {
			if strings.HasSuffix(srcOf(prm.Type), ".Header") && len(prm.Names) == 1 {
				renameIdent(fd, prm.Names[0].Name, "header")
			}
		}
	}
	var out [][2]string
	ast.Inspect(fd.Body, func(n ast.Node) bool {
		call, ok := n.(*ast.CallExpr)
		if !ok || len(call.Args) < 2 {
			return true
		}
		if sel, ok := call.Fun.(*ast.SelectorExpr); !ok || sel.Sel.Name != "P" {
			return true
		}
		bl, ok := call.Args[0].(*ast.BasicLit)
		if !ok || bl.Kind != token.STRING {
			return true
		}
		lit, err := strconv.Unquote(bl.Value)
		if err != nil {
			return true
		}
		i := strings.Index(lit, ":")
		if i <= 0 {
			return true
		}
		out = append(out, [2]string{strings.TrimSpace(lit[:i]), srcOf(call.Args[1])})
		return true
	})
	if len(out) == 0 {
		return nil, fmt.Errorf("generateHeaderLiteral prints no `Key: value` line")
	}
	return out, nil
}
