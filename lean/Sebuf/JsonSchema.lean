import Sebuf.Json
/-!
A JSON Schema (draft 2020-12) validator for the keyword subset that sebuf's OpenAPI generator
emits. Schemas are JSON values exactly as they appear after parsing the emitted document;
`comps` is the object under `#/components/schemas`.

Conventions
* `Schema.valid comps fuel s j` recurses on `fuel` only. Every descent (into a sub-schema, an
  array element, an object member, a `$ref` target) consumes one unit; fuel `0` answers `false`.
* A keyword whose value has the wrong JSON shape (e.g. `required: 3`) makes the schema reject
  every instance: a malformed schema must be noticed, not silently weakened.
* Keywords outside the supported set are ignored (annotations); `Schema.unknownKeywords` lists
  every key that is neither supported nor a known annotation so callers can require `= []`.
* Numeric bounds are only interpreted between exact integers; a float token on either side
  satisfies the keyword (`Schema.usesFloatBound` reports such bounds). `pattern` is
  uninterpreted (`Schema.usesPattern`). `multipleOf` and `propertyNames` are ignored.
-/
namespace Sebuf

namespace Json

mutual
  /-- number of nodes of a JSON value. -/
  def size : Json → Nat
    | arr l => 1 + sizeList l
    | obj kvs => 1 + sizeObj kvs
    | _ => 1
  def sizeList : List Json → Nat
    | [] => 0
    | x :: xs => size x + sizeList xs
  def sizeObj : List (Str × Json) → Nat
    | [] => 0
    | (_, x) :: xs => size x + sizeObj xs
end

end Json

namespace Schema

/-! Keyword and type names as explicit character lists (`K.type = "type".toList`
by `decide`): the kernel then evaluates `valid` on closed terms without decoding string literals. -/

def K.ref : Str := ['$', 'r', 'e', 'f']
def K.type : Str := ['t', 'y', 'p', 'e']
def K.enum : Str := ['e', 'n', 'u', 'm']
def K.const : Str := ['c', 'o', 'n', 's', 't']
def K.minimum : Str := ['m', 'i', 'n', 'i', 'm', 'u', 'm']
def K.maximum : Str := ['m', 'a', 'x', 'i', 'm', 'u', 'm']
def K.exclusiveMinimum : Str := ['e', 'x', 'c', 'l', 'u', 's', 'i', 'v', 'e', 'M', 'i', 'n', 'i', 'm', 'u', 'm']
def K.exclusiveMaximum : Str := ['e', 'x', 'c', 'l', 'u', 's', 'i', 'v', 'e', 'M', 'a', 'x', 'i', 'm', 'u', 'm']
def K.minLength : Str := ['m', 'i', 'n', 'L', 'e', 'n', 'g', 't', 'h']
def K.maxLength : Str := ['m', 'a', 'x', 'L', 'e', 'n', 'g', 't', 'h']
def K.pattern : Str := ['p', 'a', 't', 't', 'e', 'r', 'n']
def K.items : Str := ['i', 't', 'e', 'm', 's']
def K.minItems : Str := ['m', 'i', 'n', 'I', 't', 'e', 'm', 's']
def K.maxItems : Str := ['m', 'a', 'x', 'I', 't', 'e', 'm', 's']
def K.uniqueItems : Str := ['u', 'n', 'i', 'q', 'u', 'e', 'I', 't', 'e', 'm', 's']
def K.properties : Str := ['p', 'r', 'o', 'p', 'e', 'r', 't', 'i', 'e', 's']
def K.required : Str := ['r', 'e', 'q', 'u', 'i', 'r', 'e', 'd']
def K.additionalProperties : Str := ['a', 'd', 'd', 'i', 't', 'i', 'o', 'n', 'a', 'l', 'P', 'r', 'o', 'p', 'e', 'r', 't', 'i', 'e', 's']
def K.minProperties : Str := ['m', 'i', 'n', 'P', 'r', 'o', 'p', 'e', 'r', 't', 'i', 'e', 's']
def K.maxProperties : Str := ['m', 'a', 'x', 'P', 'r', 'o', 'p', 'e', 'r', 't', 'i', 'e', 's']
def K.allOf : Str := ['a', 'l', 'l', 'O', 'f']
def K.anyOf : Str := ['a', 'n', 'y', 'O', 'f']
def K.oneOf : Str := ['o', 'n', 'e', 'O', 'f']
def K.not : Str := ['n', 'o', 't']
def K.multipleOf : Str := ['m', 'u', 'l', 't', 'i', 'p', 'l', 'e', 'O', 'f']
def K.propertyNames : Str := ['p', 'r', 'o', 'p', 'e', 'r', 't', 'y', 'N', 'a', 'm', 'e', 's']
def K.description : Str := ['d', 'e', 's', 'c', 'r', 'i', 'p', 't', 'i', 'o', 'n']
def K.format : Str := ['f', 'o', 'r', 'm', 'a', 't']
def K.title : Str := ['t', 'i', 't', 'l', 'e']
def K.example : Str := ['e', 'x', 'a', 'm', 'p', 'l', 'e']
def K.examples : Str := ['e', 'x', 'a', 'm', 'p', 'l', 'e', 's']
def K.discriminator : Str := ['d', 'i', 's', 'c', 'r', 'i', 'm', 'i', 'n', 'a', 't', 'o', 'r']
def K.default : Str := ['d', 'e', 'f', 'a', 'u', 'l', 't']
def K.deprecated : Str := ['d', 'e', 'p', 'r', 'e', 'c', 'a', 't', 'e', 'd']
def K.summary : Str := ['s', 'u', 'm', 'm', 'a', 'r', 'y']
def K.xml : Str := ['x', 'm', 'l']
def K.externalDocs : Str := ['e', 'x', 't', 'e', 'r', 'n', 'a', 'l', 'D', 'o', 'c', 's']
def K.readOnly : Str := ['r', 'e', 'a', 'd', 'O', 'n', 'l', 'y']
def K.writeOnly : Str := ['w', 'r', 'i', 't', 'e', 'O', 'n', 'l', 'y']
def T.null : Str := ['n', 'u', 'l', 'l']
def T.boolean : Str := ['b', 'o', 'o', 'l', 'e', 'a', 'n']
def T.object : Str := ['o', 'b', 'j', 'e', 'c', 't']
def T.array : Str := ['a', 'r', 'r', 'a', 'y']
def T.number : Str := ['n', 'u', 'm', 'b', 'e', 'r']
def T.integer : Str := ['i', 'n', 't', 'e', 'g', 'e', 'r']
def T.string : Str := ['s', 't', 'r', 'i', 'n', 'g']

/-- keyword lookup in a schema object. -/
def kw (k : Str) (o : List (Str × Json)) : Option Json := Json.oget k o

/-- `stripPrefix p s = some r` iff `s = p ++ r`. -/
def stripPrefix : Str → Str → Option Str
  | [], s => some s
  | _ :: _, [] => none
  | c :: p, d :: s => if c = d then stripPrefix p s else none

def refPrefix : Str := ['#', '/', 'c', 'o', 'm', 'p', 'o', 'n', 'e', 'n', 't', 's', '/', 's', 'c', 'h', 'e', 'm', 'a', 's', '/']

/-- the component name of a `$ref` string `#/components/schemas/NAME`. -/
def refName (r : Str) : Option Str := stripPrefix refPrefix r

/-- does a primitive type name accept the instance? (`integer`: exact integers only.) -/
def typeAccepts (t : Str) (j : Json) : Bool :=
  if t = T.null then j.isNull
  else if t = T.boolean then j.isBool
  else if t = T.object then j.isObj
  else if t = T.array then j.isArr
  else if t = T.number then j.isNum
  else if t = T.integer then (match j with | .num (.int _) => true | _ => false)
  else if t = T.string then j.isStr
  else false

def typeEntryAccepts (j : Json) : Json → Bool
  | .str t => typeAccepts t j
  | _ => false

/-- `type`: a name or an array of names. -/
def typeOk (kvs : List (Str × Json)) (j : Json) : Bool :=
  match kw K.type kvs with
  | none => true
  | some (.str t) => typeAccepts t j
  | some (.arr ts) => ts.any (typeEntryAccepts j)
  | some _ => false

/-- `enum`: equal (by `Json.beq`) to one of the listed values. -/
def enumOk (kvs : List (Str × Json)) (j : Json) : Bool :=
  match kw K.enum kvs with
  | none => true
  | some (.arr vs) => vs.any (fun v => Json.beq v j)
  | some _ => false

def constOk (kvs : List (Str × Json)) (j : Json) : Bool :=
  match kw K.const kvs with
  | none => true
  | some v => Json.beq v j

/-- a numeric bound keyword; `cmp bound instance`. Interpreted between exact integers only. -/
def numBoundOk (k : Str) (cmp : Int → Int → Bool) (kvs : List (Str × Json)) (j : Json) : Bool :=
  match kw k kvs with
  | none => true
  | some (.num (.int b)) => (match j with | .num (.int i) => cmp b i | _ => true)
  | some (.num (.float _)) => true
  | some _ => false

def numericOk (kvs : List (Str × Json)) (j : Json) : Bool :=
  numBoundOk K.minimum (fun b i => decide (b ≤ i)) kvs j &&
  numBoundOk K.maximum (fun b i => decide (i ≤ b)) kvs j &&
  numBoundOk K.exclusiveMinimum (fun b i => decide (b < i)) kvs j &&
  numBoundOk K.exclusiveMaximum (fun b i => decide (i < b)) kvs j

/-- a counting keyword (`minLength`, `maxItems`, ...): `count j` is `none` when the keyword
does not apply to the instance's type; `cmp bound count`. The bound must be an exact integer. -/
def countOk (k : Str) (count : Json → Option Nat) (cmp : Int → Int → Bool)
    (kvs : List (Str × Json)) (j : Json) : Bool :=
  match kw k kvs with
  | none => true
  | some (.num (.int b)) => (match count j with | some n => cmp b (Int.ofNat n) | none => true)
  | some _ => false

def strLen : Json → Option Nat | .str s => some s.length | _ => none
def arrLen : Json → Option Nat | .arr l => some l.length | _ => none

/-- remove later duplicates. -/
def dedup : List Str → List Str
  | [] => []
  | x :: xs => x :: (dedup xs).filter (fun y => !(y == x))

/-- number of distinct keys of an object instance. -/
def objLen : Json → Option Nat | .obj kvs => some (dedup (Json.keys kvs)).length | _ => none

def geB (b n : Int) : Bool := decide (b ≤ n)
def leB (b n : Int) : Bool := decide (n ≤ b)

def stringOk (kvs : List (Str × Json)) (j : Json) : Bool :=
  countOk K.minLength strLen geB kvs j && countOk K.maxLength strLen leB kvs j

/-- all elements pairwise not `Json.beq`. -/
def allDistinct : List Json → Bool
  | [] => true
  | x :: xs => !(xs.any (fun y => Json.beq x y)) && allDistinct xs

def uniqueOk (kvs : List (Str × Json)) (j : Json) : Bool :=
  match kw K.uniqueItems kvs with
  | none => true
  | some (.bool false) => true
  | some (.bool true) => (match j with | .arr l => allDistinct l | _ => true)
  | some _ => false

def arrayCountsOk (kvs : List (Str × Json)) (j : Json) : Bool :=
  countOk K.minItems arrLen geB kvs j && countOk K.maxItems arrLen leB kvs j && uniqueOk kvs j

def requiredEntryOk (members : List (Str × Json)) : Json → Bool
  | .str n => (Json.oget n members).isSome
  | _ => false

def requiredOk (kvs : List (Str × Json)) (j : Json) : Bool :=
  match kw K.required kvs with
  | none => true
  | some (.arr names) => (match j with | .obj members => names.all (requiredEntryOk members) | _ => true)
  | some _ => false

def objectCountsOk (kvs : List (Str × Json)) (j : Json) : Bool :=
  countOk K.minProperties objLen geB kvs j && countOk K.maxProperties objLen leB kvs j &&
  requiredOk kvs j

/-! ### keywords holding sub-schemas; `rec` is `valid comps fuel` of the level below -/

def refOk (rec : Json → Json → Bool) (comps kvs : List (Str × Json)) (j : Json) : Bool :=
  match kw K.ref kvs with
  | none => true
  | some (.str r) =>
    (match refName r with
     | none => false
     | some n => (match Json.oget n comps with | none => false | some s => rec s j))
  | some _ => false

def itemsOk (rec : Json → Json → Bool) (kvs : List (Str × Json)) (j : Json) : Bool :=
  match kw K.items kvs with
  | none => true
  | some s => (match j with | .arr l => l.all (rec s) | _ => true)

/-- the `properties` map: `none` when malformed. -/
def propsOf (kvs : List (Str × Json)) : Option (List (Str × Json)) :=
  match kw K.properties kvs with
  | none => some []
  | some (.obj ps) => some ps
  | some _ => none

/-- `properties` + `additionalProperties`, one pass over the members of the instance (so a
duplicated key is checked at every occurrence). -/
def memberOk (rec : Json → Json → Bool) (ps : List (Str × Json)) (ap : Option Json)
    (m : Str × Json) : Bool :=
  match Json.oget m.1 ps with
  | some s => rec s m.2
  | none => (match ap with | none => true | some a => rec a m.2)

def propertiesOk (rec : Json → Json → Bool) (kvs : List (Str × Json)) (j : Json) : Bool :=
  match propsOf kvs with
  | none => false
  | some ps =>
    (match j with
     | .obj members => members.all (memberOk rec ps (kw K.additionalProperties kvs))
     | _ => true)

def allOfOk (rec : Json → Json → Bool) (kvs : List (Str × Json)) (j : Json) : Bool :=
  match kw K.allOf kvs with
  | none => true
  | some (.arr ss) => ss.all (fun s => rec s j)
  | some _ => false

def anyOfOk (rec : Json → Json → Bool) (kvs : List (Str × Json)) (j : Json) : Bool :=
  match kw K.anyOf kvs with
  | none => true
  | some (.arr ss) => ss.any (fun s => rec s j)
  | some _ => false

def oneOfOk (rec : Json → Json → Bool) (kvs : List (Str × Json)) (j : Json) : Bool :=
  match kw K.oneOf kvs with
  | none => true
  | some (.arr ss) => (ss.filter (fun s => rec s j)).length == 1
  | some _ => false

def notOk (rec : Json → Json → Bool) (kvs : List (Str × Json)) (j : Json) : Bool :=
  match kw K.not kvs with
  | none => true
  | some s => !(rec s j)

/-- the keywords that need no recursion. -/
def leafOk (kvs : List (Str × Json)) (j : Json) : Bool :=
  typeOk kvs j && enumOk kvs j && constOk kvs j && numericOk kvs j && stringOk kvs j &&
  arrayCountsOk kvs j && objectCountsOk kvs j

/-- the keywords that apply sub-schemas. -/
def applicatorsOk (rec : Json → Json → Bool) (comps kvs : List (Str × Json)) (j : Json) : Bool :=
  refOk rec comps kvs j && itemsOk rec kvs j && propertiesOk rec kvs j &&
  allOfOk rec kvs j && anyOfOk rec kvs j && oneOfOk rec kvs j && notOk rec kvs j

/-- one schema object against one instance. -/
def objValid (rec : Json → Json → Bool) (comps kvs : List (Str × Json)) (j : Json) : Bool :=
  leafOk kvs j && applicatorsOk rec comps kvs j

/-- `valid comps fuel schema instance`. -/
def valid (comps : List (Str × Json)) : Nat → Json → Json → Bool
  | 0, _, _ => false
  | fuel + 1, s, j =>
    match s with
    | .bool b => b
    | .obj kvs => objValid (valid comps fuel) comps kvs j
    | _ => false

def defaultFuel (comps : List (Str × Json)) (_s j : Json) : Nat :=
  8 * (Json.size j + 1) + 8 * (comps.length + 1) + 64

/-! ### declared properties -/

def union (a b : List Str) : List Str := a ++ b.filter (fun x => !(a.contains x))

def unions : List (List Str) → List Str
  | [] => []
  | l :: ls => union l (unions ls)

def subSchemasOf (k : Str) (kvs : List (Str × Json)) : List Json :=
  match kw k kvs with
  | some (.arr ss) => ss
  | _ => []

/-- every property name a schema describes at the top level of an object instance, looking
through `$ref`, `allOf`, `oneOf`, `anyOf` (union). -/
def declaredProps (comps : List (Str × Json)) : Nat → Json → List Str
  | 0, _ => []
  | fuel + 1, s =>
    match s with
    | .obj kvs =>
      let own := match kw K.properties kvs with | some (.obj ps) => dedup (Json.keys ps) | _ => []
      let viaRef := match kw K.ref kvs with
        | some (.str r) =>
          (match refName r with
           | some n => (match Json.oget n comps with | some t => declaredProps comps fuel t | none => [])
           | none => [])
        | _ => []
      let sub := fun (k : Str) => unions ((subSchemasOf k kvs).map (declaredProps comps fuel))
      union own (union viaRef (union (sub K.allOf) (union (sub K.oneOf) (sub K.anyOf))))
    | _ => []

/-- keys of an object instance that the schema does not describe (top level only). -/
def undeclared (comps : List (Str × Json)) (fuel : Nat) (s j : Json) : List Str :=
  match j with
  | .obj members =>
    let d := declaredProps comps fuel s
    (dedup (Json.keys members)).filter (fun k => !(d.contains k))
  | _ => []

/-! ### undeclared properties at any depth

"The instance contains no property that the schema does not describe": every member of every
object of the instance must be matched by a `properties` entry or an `additionalProperties`
schema of (one of) the schema(s) applying at that position, looking through `$ref`, `allOf`,
`oneOf` and `anyOf`. -/

def compositionSubs (kvs : List (Str × Json)) : List Json :=
  subSchemasOf K.allOf kvs ++ subSchemasOf K.oneOf kvs ++ subSchemasOf K.anyOf kvs

def refTarget (comps kvs : List (Str × Json)) : List Json :=
  match kw K.ref kvs with
  | some (.str r) =>
    (match refName r with
     | some n => (match Json.oget n comps with | some t => [t] | none => [])
     | none => [])
  | _ => []

/-- the schemas that describe member `k` of an object validated by `s`. -/
def memberSchemas (comps : List (Str × Json)) : Nat → Json → Str → List Json
  | 0, _, _ => []
  | fuel + 1, s, k =>
    match s with
    | .obj kvs =>
      let own := match kw K.properties kvs with
        | some (.obj ps) => (match Json.oget k ps with | some x => [x] | none => [])
        | _ => []
      let ap := if own.isEmpty then
          (match kw K.additionalProperties kvs with
           | some (.bool false) => []
           | some x => [x]
           | none => [])
        else []
      own ++ ap ++ (refTarget comps kvs ++ compositionSubs kvs).flatMap (fun t => memberSchemas comps fuel t k)
    | _ => []

/-- the schemas that describe the elements of an array validated by `s`. -/
def itemSchemas (comps : List (Str × Json)) : Nat → Json → List Json
  | 0, _ => []
  | fuel + 1, s =>
    match s with
    | .obj kvs =>
      (match kw K.items kvs with | some x => [x] | none => []) ++
      (refTarget comps kvs ++ compositionSubs kvs).flatMap (fun t => itemSchemas comps fuel t)
    | _ => []

def anyTrue (ss : List Json) : Bool := ss.any fun s => match s with | .bool true => true | .obj [] => true | _ => false

/-- paths (`a/b/0/c`) of the members no applicable schema describes. -/
def undeclaredDeep (comps : List (Str × Json)) : Nat → List Json → Json → Str → List Str
  | 0, _, _, _ => []
  | fuel + 1, ss, j, path =>
    if anyTrue ss then [] else
    match j with
    | .obj members =>
      members.flatMap fun m =>
        let p := if path.isEmpty then m.1 else path ++ ('/' :: m.1)
        let ms := ss.flatMap fun s => memberSchemas comps (fuel + 1) s m.1
        if ms.isEmpty then [p] else undeclaredDeep comps fuel ms m.2 p
    | .arr l =>
      let is := ss.flatMap fun s => itemSchemas comps (fuel + 1) s
      if is.isEmpty then [] else l.flatMap fun x => undeclaredDeep comps fuel is x path
    | _ => []

/-- a member key as a JSON-pointer reference token (RFC 6901): `~` ↦ `~0`, `/` ↦ `~1`, so that a
path stays readable when a map key contains a slash. -/
def ptrEscape (k : Str) : Str :=
  k.flatMap fun c => if c = '~' then ['~', '0'] else if c = '/' then ['~', '1'] else [c]

/-- where validation fails: the deepest members / elements that satisfy none of the schemas
applying at their position (diagnostic only; `index` paths for arrays). -/
def failingPaths (comps : List (Str × Json)) : Nat → List Json → Json → Str → List Str
  | 0, _, _, path => [path]
  | fuel + 1, ss, j, path =>
    if ss.any (fun s => valid comps (8 * (Json.size j + 1) + 8 * (comps.length + 1) + 64) s j) then [] else
    let sub : List Str :=
      match j with
      | .obj members =>
        members.flatMap fun m =>
          let ms := ss.flatMap fun s => memberSchemas comps (fuel + 1) s m.1
          if ms.isEmpty then [] else failingPaths comps fuel ms m.2 (if path.isEmpty then ptrEscape m.1 else path ++ ('/' :: ptrEscape m.1))
      | .arr l =>
        let is := ss.flatMap fun s => itemSchemas comps (fuel + 1) s
        if is.isEmpty then [] else
          (l.zipIdx).flatMap fun x => failingPaths comps fuel is x.1 (if path.isEmpty then (toString x.2).toList else path ++ ('/' :: (toString x.2).toList))
      | _ => []
    if sub.isEmpty then [path] else sub

/-! ### syntactic traversal of a schema -/

/-- keywords whose value is one schema. -/
def schemaKeys : List Str :=
  [K.items, K.additionalProperties, K.not, K.propertyNames]
/-- keywords whose value is an array of schemas. -/
def schemaArrayKeys : List Str := [K.allOf, K.anyOf, K.oneOf]
/-- keywords whose value is an object name → schema. -/
def schemaMapKeys : List Str := [K.properties]

mutual
  /-- `collect f s`: `f` of every schema object reachable from `s` through the keywords that
  hold schemas (not through `$ref`), concatenated in document order. -/
  def collect (f : List (Str × Json) → List Str) : Json → List Str
    | .obj kvs => f kvs ++ collectKws f kvs
    | _ => []
  /-- the members of a schema object. -/
  def collectKws (f : List (Str × Json) → List Str) : List (Str × Json) → List Str
    | [] => []
    | (k, v) :: rest =>
      (if schemaKeys.contains k then collect f v
       else if schemaArrayKeys.contains k then collectIn f v
       else if schemaMapKeys.contains k then collectIn f v
       else []) ++ collectKws f rest
  /-- the direct children (array elements / object values) of a container, each as a schema. -/
  def collectIn (f : List (Str × Json) → List Str) : Json → List Str
    | .arr l => collectList f l
    | .obj kvs => collectVals f kvs
    | _ => []
  def collectList (f : List (Str × Json) → List Str) : List Json → List Str
    | [] => []
    | x :: xs => collect f x ++ collectList f xs
  def collectVals (f : List (Str × Json) → List Str) : List (Str × Json) → List Str
    | [] => []
    | (_, x) :: xs => collect f x ++ collectVals f xs
end

def ownRef (kvs : List (Str × Json)) : List Str :=
  match kw K.ref kvs with
  | some (.str r) => [r]
  | _ => []

/-- all `$ref` strings occurring anywhere inside a schema. -/
def refs (s : Json) : List Str := collect ownRef s

def refResolves (comps : List (Str × Json)) (r : Str) : Bool :=
  match refName r with
  | some n => (Json.oget n comps).isSome
  | none => false

/-- every ref is `#/components/schemas/N` with `N` a key of `comps`. -/
def refsResolve (comps : List (Str × Json)) (s : Json) : Bool := (refs s).all (refResolves comps)

def ownPattern (kvs : List (Str × Json)) : List Str :=
  match kw K.pattern kvs with
  | some (.str p) => [p]
  | some _ => [[]]
  | none => []

/-- all `pattern` values inside a schema (uninterpreted by `valid`). -/
def patterns (s : Json) : List Str := collect ownPattern s
def usesPattern (s : Json) : Bool := !(patterns s).isEmpty

def boundKeys : List Str := [K.minimum, K.maximum, K.exclusiveMinimum, K.exclusiveMaximum]

def ownFloatBounds (kvs : List (Str × Json)) : List Str :=
  boundKeys.filterMap fun k =>
    match kw k kvs with
    | some (.num (.float _)) => some k
    | _ => none

/-- names of the numeric-bound keywords inside a schema whose bound is a float token (those
are treated as satisfied by `valid`). -/
def floatBounds (s : Json) : List Str := collect ownFloatBounds s
def usesFloatBound (s : Json) : Bool := !(floatBounds s).isEmpty

/-- keywords `valid` interprets. -/
def supportedKeys : List Str :=
  [K.ref, K.type, K.enum, K.const, K.minimum, K.maximum,
   K.exclusiveMinimum, K.exclusiveMaximum, K.minLength, K.maxLength, K.pattern, K.items,
   K.minItems, K.maxItems, K.uniqueItems, K.properties, K.required, K.additionalProperties,
   K.minProperties, K.maxProperties, K.allOf, K.anyOf, K.oneOf, K.not]

/-- keywords ignored on purpose. -/
def ignoredKeys : List Str :=
  [K.multipleOf, K.propertyNames, K.description, K.format, K.title, K.example,
   K.examples, K.discriminator, K.default, K.deprecated, K.summary, K.xml,
   K.externalDocs, K.readOnly, K.writeOnly]

def ownUnknown (kvs : List (Str × Json)) : List Str :=
  (Json.keys kvs).filter (fun k => !(supportedKeys.contains k) && !(ignoredKeys.contains k))

/-- every key inside a schema that is neither supported nor a known annotation. -/
def unknownKeywords (s : Json) : List Str := collect ownUnknown s

def ownNegative (kvs : List (Str × Json)) : List Str :=
  (if (kw K.not kvs).isSome then [K.not] else []) ++
  (if (kw K.oneOf kvs).isSome then [K.oneOf] else [])

/-- the `not` / `oneOf` occurrences inside a schema (the keywords that are not monotone in the
validity of their sub-schemas). -/
def negatives (s : Json) : List Str := collect ownNegative s
/-- no `not` / `oneOf` anywhere inside the schema (not looking through `$ref`). -/
def positive (s : Json) : Bool := (negatives s).isEmpty
def positiveComps (comps : List (Str × Json)) : Bool := comps.all (fun p => positive p.2)

end Schema
end Sebuf
