package main

import (
	"fmt"
	"go/ast"
	"strings"

	sebufhttp "github.com/SebastienMelki/sebuf/http"
)

func init() { register("Verbs", extractVerbs) }

func extractVerbs() (string, error) {
	_, f, err := parseFile("internal/annotations/method.go")
	if err != nil {
		return "", err
	}
	consts := stringConsts(f)
	fn := findFunc(f, "HTTPMethodToString")
	if fn == nil {
		return "", fmt.Errorf("HTTPMethodToString not found")
	}
	resolve := func(e ast.Expr) (string, error) {
		switch x := e.(type) {
		case *ast.Ident:
			if v, ok := consts[x.Name]; ok {
				return v, nil
			}
		case *ast.BasicLit:
			return strings.Trim(x.Value, `"`), nil
		}
		return "", fmt.Errorf("cannot resolve return expression %T", e)
	}
	var rows []string
	fallback := ""
	sawSwitch := false
	for _, st := range fn.Body.List {
		switch s := st.(type) {
		case *ast.SwitchStmt:
			sawSwitch = true
			for _, c := range s.Body.List {
				cc := c.(*ast.CaseClause)
				if len(cc.Body) != 1 {
					return "", fmt.Errorf("case body is not a single return")
				}
				ret, ok := cc.Body[0].(*ast.ReturnStmt)
				if !ok || len(ret.Results) != 1 {
					return "", fmt.Errorf("case body is not a single return")
				}
				v, err := resolve(ret.Results[0])
				if err != nil {
					return "", err
				}
				if cc.List == nil {
					fallback = v
					continue
				}
				for _, e := range cc.List {
					sel, ok := e.(*ast.SelectorExpr)
					if !ok {
						return "", fmt.Errorf("case label is not a selector")
					}
					name := strings.TrimPrefix(sel.Sel.Name, "HttpMethod_")
					num, ok := sebufhttp.HttpMethod_value[name]
					if !ok {
						return "", fmt.Errorf("unknown enum constant %s", sel.Sel.Name)
					}
					rows = append(rows, fmt.Sprintf("(%d, %s)", num, leanStr(v)))
				}
			}
		case *ast.ReturnStmt:
			if !sawSwitch || len(s.Results) != 1 {
				return "", fmt.Errorf("unexpected return")
			}
			v, err := resolve(s.Results[0])
			if err != nil {
				return "", err
			}
			fallback = v
		default:
			return "", fmt.Errorf("unexpected statement %T in HTTPMethodToString", st)
		}
	}
	lower := findFunc(f, "HTTPMethodToLower")
	lowerOK := false
	if lower != nil && len(lower.Body.List) == 1 {
		if ret, ok := lower.Body.List[0].(*ast.ReturnStmt); ok && len(ret.Results) == 1 {
			if call, ok := ret.Results[0].(*ast.CallExpr); ok {
				if sel, ok := call.Fun.(*ast.SelectorExpr); ok && sel.Sel.Name == "ToLower" && len(call.Args) == 1 {
					if inner, ok := call.Args[0].(*ast.CallExpr); ok {
						if id, ok := inner.Fun.(*ast.Ident); ok && id.Name == "HTTPMethodToString" {
							lowerOK = true
						}
					}
				}
			}
		}
	}
	var b strings.Builder
	b.WriteString(header("Verbs", "internal/annotations/method.go"))
	b.WriteString("/-- `HTTPMethodToString` switch: enum number ↦ returned string. -/\n")
	fmt.Fprintf(&b, "def table : List (Nat × String) := [%s]\n", strings.Join(rows, ", "))
	b.WriteString("/-- value returned after the switch (unknown enum numbers). -/\n")
	fmt.Fprintf(&b, "def fallback : String := %s\n", leanStr(fallback))
	b.WriteString("/-- `HTTPMethodToLower` is `strings.ToLower ∘ HTTPMethodToString`. -/\n")
	fmt.Fprintf(&b, "def lowerIsToLowerOfString : Bool := %v\n", lowerOK)
	b.WriteString("end Sebuf.Gen.Verbs\n")
	return b.String(), nil
}
