package main

// Globals: shared mutable state of the EMITTED Go (C17).
//
// The freshly built go-http (with generate_mock=true, so that the mock file is inspected too)
// and go-client plugins are run on a probe schema with several services; every emitted Go file
// is parsed with go/parser and read syntactically:
//
//  (a) every package-level `var`, and every place that writes one (assignment, `++`, store
//      through an index / field / pointer, `&x`, `append(x, ..)`, `delete(x, ..)`, range
//      assignment), with the guard the write sits under: a func literal passed to `<once>.Do`
//      where <once> is a package-level `sync.Once`, the body of `init()`, or none;
//  (b) every func literal: the locals of the enclosing function it captures, and how often the
//      enclosing function assigns each (a captured variable that is assigned more than once is
//      per-route configuration shared between the closures that capture it); and the route
//      table of every `Register*Server`, read by executing its straight-line body symbolically
//      (which getter / table each handler was built from AT THE TIME of the BindingMiddleware
//      call);
//  (c) in every method of a generated client struct: writes through the receiver (fields, maps
//      and slices reachable from it, also through local aliases), what the per-call option
//      functions are applied to, and which object the header writes go to.
//
// The generator side of the `methodHeaders` anchor (internal/httpgen/generator.go) is read as
// well: the literals printed inside the loop over service.Methods.

import (
	"bytes"
	"fmt"
	"go/ast"
	"go/parser"
	"go/printer"
	"go/token"
	"regexp"
	"sort"
	"strings"
	"unicode"

	"verif/harness/gen"
	"verif/harness/ir"
	"verif/harness/plug"
)

func init() { register("Globals", extractGlobals) }

func globalsProbe() *ir.Request {
	return gen.GenMultiServiceFile(gen.New(171717).Fork("globals"), 0, gen.RuntimeOpts{Headers: true, ManyMethods: true, ErrorTypes: true})
}

type gFile struct {
	name string
	f    *ast.File
}

type gState struct {
	fset    *token.FileSet
	files   []gFile
	globals map[string]*ast.ValueSpec // package-level vars by name
	gfile   map[string]string
	once    map[string]bool // package-level vars of type sync.Once
}

func (g *gState) src(n ast.Node) string {
	var b bytes.Buffer
	printer.Fprint(&b, g.fset, n)
	return strings.Join(strings.Fields(b.String()), " ")
}

// root peels selectors, indexes, derefs and parens off an lvalue-like expression.
func root(e ast.Expr) (*ast.Ident, bool) {
	through := false
	for {
		switch x := e.(type) {
		case *ast.Ident:
			return x, through
		case *ast.ParenExpr:
			e = x.X
		case *ast.SelectorExpr:
			e, through = x.X, true
		case *ast.IndexExpr:
			e, through = x.X, true
		case *ast.StarExpr:
			e, through = x.X, true
		case *ast.SliceExpr:
			e, through = x.X, true
		default:
			return nil, false
		}
	}
}

// isGlobal: the identifier names a package-level var and is not shadowed by a local.
func (g *gState) isGlobal(id *ast.Ident) bool {
	if id == nil || id.Name == "_" {
		return false
	}
	vs, ok := g.globals[id.Name]
	if !ok {
		return false
	}
	if id.Obj == nil {
		return true // unresolved in its file: package scope (declared in a sibling file)
	}
	return id.Obj.Decl == vs
}

type gWrite struct{ v, fn, kind, guard, text string }

func lowerFirst(s string) string {
	if s == "" {
		return s
	}
	r := []rune(s)
	r[0] = unicode.ToLower(r[0])
	return string(r)
}

func upperFirst(s string) string {
	if s == "" {
		return s
	}
	r := []rune(s)
	r[0] = unicode.ToUpper(r[0])
	return string(r)
}

func funcDisplayName(fd *ast.FuncDecl) string {
	if fd.Recv != nil && len(fd.Recv.List) == 1 {
		t := fd.Recv.List[0].Type
		if s, ok := t.(*ast.StarExpr); ok {
			t = s.X
		}
		if ix, ok := t.(*ast.IndexExpr); ok {
			t = ix.X
		}
		if id, ok := t.(*ast.Ident); ok {
			return id.Name + "." + fd.Name.Name
		}
	}
	return fd.Name.Name
}

func leanTuple(xs ...string) string {
	q := make([]string, len(xs))
	for i, x := range xs {
		q[i] = leanStr(x)
	}
	return "(" + strings.Join(q, ", ") + ")"
}

func leanList(rows []string) string {
	if len(rows) == 0 {
		return "[]"
	}
	return "[\n  " + strings.Join(rows, ",\n  ") + "\n]"
}

func extractGlobals() (string, error) {
	req := globalsProbe()
	if len(req.Files[0].Services) < 2 {
		return "", fmt.Errorf("probe schema has fewer than two services")
	}
	for _, s := range req.Files[0].Services {
		if len(s.Methods) < 3 {
			return "", fmt.Errorf("probe service %s has fewer than three methods", s.Name)
		}
	}
	var srcs [][2]string
	for _, p := range []struct{ plugin, param string }{{plug.GoHTTP, "generate_mock=true"}, {plug.GoClient, ""}} {
		r := req.Clone()
		r.Parameter = p.param
		res, err := plug.Run(p.plugin, r, nil)
		if err != nil {
			return "", err
		}
		if !res.OK() {
			e := res.Outcome()
			if res.Error != nil {
				e += ": " + *res.Error
			}
			return "", fmt.Errorf("%s refused the probe schema: %s", p.plugin, e)
		}
		for _, n := range res.Order {
			if strings.HasSuffix(n, ".go") {
				srcs = append(srcs, [2]string{n[strings.LastIndex(n, "/")+1:], res.Files[n]})
			}
		}
	}
	var svcRows []string
	for _, s := range req.Files[0].Services {
		svcRows = append(svcRows, fmt.Sprintf("(%s, %d)", leanStr(s.Name), len(s.Methods)))
	}
	genRows, genOK, err := generatorMethodHeaders()
	if err != nil {
		return "", err
	}
	return globalsFromSources(srcs, svcRows, genRows, genOK)
}

// globalsFromSources is the analysis proper, over (file name, Go text) pairs.
func globalsFromSources(srcs [][2]string, svcRows, genRows []string, genOK bool) (string, error) {
	g := &gState{fset: token.NewFileSet(), globals: map[string]*ast.ValueSpec{}, gfile: map[string]string{}, once: map[string]bool{}}
	for _, sf := range srcs {
		f, err := parser.ParseFile(g.fset, sf[0], sf[1], 0)
		if err != nil {
			return "", fmt.Errorf("emitted %s does not parse: %w", sf[0], err)
		}
		g.files = append(g.files, gFile{sf[0], f})
	}
	need := map[string]bool{"_http.pb.go": false, "_http_binding.pb.go": false, "_http_config.pb.go": false, "_client.pb.go": false}
	for _, gf := range g.files {
		for suf := range need {
			if strings.HasSuffix(gf.name, suf) {
				need[suf] = true
			}
		}
	}
	for suf, ok := range need {
		if !ok {
			return "", fmt.Errorf("no emitted *%s to inspect", suf)
		}
	}

	// ---- (a) package-level vars ----
	var varRows []string
	for _, gf := range g.files {
		for _, d := range gf.f.Decls {
			gd, ok := d.(*ast.GenDecl)
			if !ok || gd.Tok != token.VAR {
				continue
			}
			for _, s := range gd.Specs {
				vs := s.(*ast.ValueSpec)
				for i, n := range vs.Names {
					if n.Name == "_" {
						continue
					}
					if _, dup := g.globals[n.Name]; dup {
						return "", fmt.Errorf("package-level var %s emitted twice (probe must compile)", n.Name)
					}
					g.globals[n.Name] = vs
					g.gfile[n.Name] = gf.name
					desc := ""
					if vs.Type != nil {
						desc = g.src(vs.Type)
						if desc == "sync.Once" {
							g.once[n.Name] = true
						}
					} else if i < len(vs.Values) {
						switch v := vs.Values[i].(type) {
						case *ast.CompositeLit:
							desc = "= " + g.src(v.Type) + "{…}"
						default:
							s := g.src(v)
							if len(s) > 60 {
								s = s[:60] + "…"
							}
							desc = "= " + s
						}
					}
					varRows = append(varRows, leanTuple(gf.name, n.Name, desc))
				}
			}
		}
	}
	if !g.once["validatorOnce"] {
		return "", fmt.Errorf("emitted binding file has no package-level `validatorOnce sync.Once` (anchor shape gone)")
	}

	var writes []gWrite
	var methodCalls []string
	type capRow struct {
		fn       string
		idx      int
		captured []string
		shared   []string
	}
	var lits []capRow
	var sharedCaptures []string
	var reassigned []string
	var reassignedUses []string
	var routeRows []string
	var clientMethods []string
	var clientWrites []string
	var optTargets []string
	var headerTargets []string
	nRegister := 0

	for _, gf := range g.files {
		for _, d := range gf.f.Decls {
			fd, ok := d.(*ast.FuncDecl)
			if !ok || fd.Body == nil {
				continue
			}
			fname := funcDisplayName(fd)
			isInit := fd.Recv == nil && fd.Name.Name == "init"

			// ---- writes to package-level vars, with guard ----
			var stack []ast.Node
			guardOf := func() string {
				if isInit {
					return "init"
				}
				for i := len(stack) - 1; i > 0; i-- {
					if _, ok := stack[i].(*ast.FuncLit); ok {
						if call, ok := stack[i-1].(*ast.CallExpr); ok {
							if sel, ok := call.Fun.(*ast.SelectorExpr); ok && sel.Sel.Name == "Do" {
								if id, ok := sel.X.(*ast.Ident); ok && g.isGlobal(id) && g.once[id.Name] && len(call.Args) == 1 && call.Args[0] == stack[i] {
									return "once:" + id.Name
								}
							}
						}
					}
				}
				return "none"
			}
			rec := func(id *ast.Ident, kind string, n ast.Node) {
				if g.isGlobal(id) {
					writes = append(writes, gWrite{id.Name, fname, kind, guardOf(), g.src(n)})
				}
			}
			ast.Inspect(fd.Body, func(n ast.Node) bool {
				if n == nil {
					stack = stack[:len(stack)-1]
					return true
				}
				switch x := n.(type) {
				case *ast.AssignStmt:
					for _, l := range x.Lhs {
						id, through := root(l)
						k := "assign"
						if through {
							k = "store"
						}
						rec(id, k, x)
					}
				case *ast.IncDecStmt:
					id, _ := root(x.X)
					rec(id, "incdec", x)
				case *ast.RangeStmt:
					if x.Tok == token.ASSIGN {
						for _, e := range []ast.Expr{x.Key, x.Value} {
							if e != nil {
								id, _ := root(e)
								rec(id, "range-assign", x.Key)
							}
						}
					}
				case *ast.UnaryExpr:
					if x.Op == token.AND {
						id, _ := root(x.X)
						rec(id, "addr", x)
					}
				case *ast.CallExpr:
					if f, ok := x.Fun.(*ast.Ident); ok && f.Obj == nil && len(x.Args) > 0 {
						switch f.Name {
						case "append", "delete", "clear", "copy":
							id, _ := root(x.Args[0])
							rec(id, f.Name, x)
						}
					}
					if sel, ok := x.Fun.(*ast.SelectorExpr); ok {
						if id, _ := root(sel.X); g.isGlobal(id) {
							methodCalls = append(methodCalls, leanTuple(g.src(sel.X), sel.Sel.Name, fname))
						}
					}
				}
				stack = append(stack, n)
				return true
			})

			// ---- (b) closures: captured locals and how often they are assigned ----
			assignCount := map[*ast.Object]int{}
			bump := func(e ast.Expr, by int) {
				if id, ok := e.(*ast.Ident); ok && id.Obj != nil && id.Obj.Kind == ast.Var {
					assignCount[id.Obj] += by
				}
			}
			if fd.Type.Params != nil {
				for _, fl := range fd.Type.Params.List {
					for _, n := range fl.Names {
						bump(n, 1)
					}
				}
			}
			if fd.Recv != nil {
				for _, fl := range fd.Recv.List {
					for _, n := range fl.Names {
						bump(n, 1)
					}
				}
			}
			ast.Inspect(fd.Body, func(n ast.Node) bool {
				switch x := n.(type) {
				case *ast.AssignStmt:
					for _, l := range x.Lhs {
						bump(l, 1)
					}
				case *ast.IncDecStmt:
					bump(x.X, 1)
				case *ast.ValueSpec:
					for _, n := range x.Names {
						bump(n, 1)
					}
				case *ast.RangeStmt:
					// a loop variable is assigned once per iteration
					if x.Key != nil {
						bump(x.Key, 2)
					}
					if x.Value != nil {
						bump(x.Value, 2)
					}
				case *ast.FuncLit:
					for _, fl := range x.Type.Params.List {
						for _, n := range fl.Names {
							bump(n, 1)
						}
					}
				}
				return true
			})
			litIdx := 0
			var visitLits func(n ast.Node)
			visitLits = func(n ast.Node) {
				ast.Inspect(n, func(m ast.Node) bool {
					lit, ok := m.(*ast.FuncLit)
					if !ok {
						return true
					}
					row := capRow{fn: fname, idx: litIdx}
					litIdx++
					seen := map[*ast.Object]bool{}
					ast.Inspect(lit.Body, func(k ast.Node) bool {
						id, ok := k.(*ast.Ident)
						if !ok || id.Obj == nil || id.Obj.Kind != ast.Var || seen[id.Obj] {
							return true
						}
						p := id.Obj.Pos()
						if p >= lit.Pos() && p < lit.End() {
							return true // the literal's own local or parameter
						}
						if p < fd.Pos() || p >= fd.End() {
							return true // package level
						}
						seen[id.Obj] = true
						row.captured = append(row.captured, id.Name)
						if assignCount[id.Obj] > 1 {
							row.shared = append(row.shared, id.Name)
							sharedCaptures = append(sharedCaptures, leanTuple(fname, id.Name))
						}
						return true
					})
					lits = append(lits, row)
					return true // nested literals are listed on their own as well
				})
			}
			visitLits(fd.Body)

			// ---- Register*Server: reassigned locals, their uses, and the route table ----
			if fd.Recv == nil && strings.HasPrefix(fd.Name.Name, "Register") && strings.HasSuffix(fd.Name.Name, "Server") {
				nRegister++
				var objs []*ast.Object
				for o, c := range assignCount {
					if c > 1 {
						objs = append(objs, o)
					}
				}
				sort.Slice(objs, func(a, b int) bool { return objs[a].Pos() < objs[b].Pos() })
				for _, o := range objs {
					reassigned = append(reassigned, fmt.Sprintf("(%s, %s, %d)", leanStr(fname), leanStr(o.Name), assignCount[o]))
					// classify every read of the variable
					var st []ast.Node
					ast.Inspect(fd.Body, func(n ast.Node) bool {
						if n == nil {
							st = st[:len(st)-1]
							return true
						}
						if id, ok := n.(*ast.Ident); ok && id.Obj == o {
							parent := st[len(st)-1]
							kind := "other:" + fmt.Sprintf("%T", parent)
							switch p := parent.(type) {
							case *ast.AssignStmt:
								kind = "other:assign-rhs"
								for _, l := range p.Lhs {
									if l == ast.Expr(id) {
										kind = "assigned"
									}
								}
							case *ast.CallExpr:
								for _, a := range p.Args {
									if a == ast.Expr(id) {
										kind = "call-argument-by-value"
									}
								}
							case *ast.UnaryExpr:
								if p.Op == token.AND {
									kind = "address-taken"
								}
							}
							for _, s := range st {
								if _, ok := s.(*ast.FuncLit); ok {
									kind = "captured-by-closure"
								}
							}
							reassignedUses = append(reassignedUses, leanTuple(fname, o.Name, kind))
						}
						st = append(st, n)
						return true
					})
				}
				rows, err := g.routeTable(fd)
				if err != nil {
					return "", fmt.Errorf("%s: %w", fd.Name.Name, err)
				}
				routeRows = append(routeRows, rows...)
			}

			// ---- (c) client methods ----
			if fd.Recv != nil && len(fd.Recv.List) == 1 && len(fd.Recv.List[0].Names) == 1 {
				recvT := fd.Recv.List[0].Type
				if s, ok := recvT.(*ast.StarExpr); ok {
					recvT = s.X
				}
				tn, _ := recvT.(*ast.Ident)
				if tn != nil && strings.HasSuffix(tn.Name, "Client") && strings.HasSuffix(gf.name, "_client.pb.go") {
					recv := fd.Recv.List[0].Names[0]
					isRPC := false
					if ps := fd.Type.Params.List; len(ps) > 0 && g.src(ps[0].Type) == "context.Context" {
						isRPC = true
					}
					kind := "helper"
					if isRPC {
						kind = "rpc"
					}
					clientMethods = append(clientMethods, leanTuple(tn.Name, fd.Name.Name, kind))
					// aliases of receiver-reachable values
					alias := map[*ast.Object]string{recv.Obj: recv.Name}
					created := map[*ast.Object]string{}
					fresh := map[*ast.Object]bool{}
					ast.Inspect(fd.Body, func(n ast.Node) bool {
						as, ok := n.(*ast.AssignStmt)
						if !ok {
							return true
						}
						for i, l := range as.Lhs {
							lid, ok := l.(*ast.Ident)
							if !ok || lid.Obj == nil {
								continue
							}
							var r ast.Expr
							if len(as.Rhs) == len(as.Lhs) {
								r = as.Rhs[i]
							} else if len(as.Rhs) == 1 {
								r = as.Rhs[0]
							}
							if r == nil {
								continue
							}
							if _, isCall := r.(*ast.CallExpr); !isCall {
								if rid, _ := root(r); rid != nil && rid.Obj != nil {
									if a, ok := alias[rid.Obj]; ok && lid.Obj != recv.Obj {
										alias[lid.Obj] = a + " via " + g.src(r)
									}
								}
							}
							if _, ok := created[lid.Obj]; !ok {
								if u, ok := r.(*ast.UnaryExpr); ok && u.Op == token.AND {
									if _, ok := u.X.(*ast.CompositeLit); ok {
										fresh[lid.Obj] = true
									}
								}
								s := g.src(r)
								if c, ok := r.(*ast.CallExpr); ok {
									s = "call " + g.src(c.Fun)
								}
								created[lid.Obj] = s
							}
						}
						return true
					})
					recW := func(id *ast.Ident, through bool, kind string, n ast.Node) {
						if id == nil || id.Obj == nil {
							return
						}
						a, ok := alias[id.Obj]
						if !ok {
							return
						}
						if id.Obj != recv.Obj && !through {
							return // re-binding a local that once aliased the receiver writes nothing shared
						}
						clientWrites = append(clientWrites, leanTuple(tn.Name+"."+fd.Name.Name, kind+" ("+a+")", g.src(n)))
					}
					ast.Inspect(fd.Body, func(n ast.Node) bool {
						switch x := n.(type) {
						case *ast.AssignStmt:
							if x.Tok == token.DEFINE {
								return true
							}
							for _, l := range x.Lhs {
								id, through := root(l)
								recW(id, through, "assign", x)
							}
						case *ast.IncDecStmt:
							id, through := root(x.X)
							recW(id, through, "incdec", x)
						case *ast.UnaryExpr:
							if x.Op == token.AND {
								id, through := root(x.X)
								if through {
									recW(id, through, "addr", x)
								}
							}
						case *ast.CallExpr:
							if f, ok := x.Fun.(*ast.Ident); ok && f.Obj == nil && len(x.Args) > 0 {
								switch f.Name {
								case "append", "delete", "clear", "copy":
									id, _ := root(x.Args[0])
									recW(id, true, f.Name, x)
								}
							}
							// per-call option application: opt(target) inside `for _, opt := range opts`
							if f, ok := x.Fun.(*ast.Ident); ok && f.Obj != nil && len(x.Args) == 1 && isRPC {
								if f.Name == "opt" {
									tid, _ := root(x.Args[0])
									how, kind := "?", "other"
									if tid != nil && tid.Obj != nil {
										how = created[tid.Obj]
										if fresh[tid.Obj] {
											kind = "fresh-composite-literal"
										}
										if _, isAlias := alias[tid.Obj]; isAlias {
											how, kind = alias[tid.Obj], "reachable-from-receiver"
										}
									}
									optTargets = append(optTargets, leanTuple(tn.Name+"."+fd.Name.Name, g.src(x.Args[0]), kind, how))
								}
							}
							// header writes
							if sel, ok := x.Fun.(*ast.SelectorExpr); ok && (sel.Sel.Name == "Set" || sel.Sel.Name == "Add" || sel.Sel.Name == "Del") {
								if inner, ok := sel.X.(*ast.SelectorExpr); ok && inner.Sel.Name == "Header" {
									tid, _ := root(inner.X)
									how, kind := "?", "other"
									if tid != nil && tid.Obj != nil {
										how = created[tid.Obj]
										if how == "call http.NewRequestWithContext" || how == "call http.NewRequest" {
											kind = "request-created-in-method"
										}
										if _, isAlias := alias[tid.Obj]; isAlias {
											how, kind = alias[tid.Obj], "reachable-from-receiver"
										}
									}
									headerTargets = append(headerTargets, leanTuple(tn.Name+"."+fd.Name.Name, g.src(sel.X), kind, how))
								}
							}
						}
						return true
					})
				}
			}
		}
	}
	if nRegister < 2 {
		return "", fmt.Errorf("expected at least two Register*Server functions, found %d", nRegister)
	}
	if len(optTargets) == 0 || len(headerTargets) == 0 {
		return "", fmt.Errorf("client RPC shape not recognised (no option application / header writes found)")
	}

	var writeRows, outside []string
	for _, w := range writes {
		writeRows = append(writeRows, leanTuple(w.v, w.fn, w.kind, w.guard, w.text))
		if w.guard == "none" {
			outside = append(outside, leanTuple(w.v, w.fn, w.kind))
		}
	}
	if len(writeRows) == 0 {
		return "", fmt.Errorf("no write to a package-level var found at all: the validator cell must be written under sync.Once")
	}
	var litRows []string
	for _, l := range lits {
		litRows = append(litRows, fmt.Sprintf("(%s, %d, %s, %s)", leanStr(l.fn), l.idx, leanStrList(l.captured), leanStrList(l.shared)))
	}
	dedupe := func(xs []string) []string {
		seen := map[string]bool{}
		var out []string
		for _, x := range xs {
			if !seen[x] {
				seen[x] = true
				out = append(out, x)
			}
		}
		return out
	}

	var b strings.Builder
	b.WriteString(header("Globals", "the Go text protoc-gen-go-http (generate_mock=true) and protoc-gen-go-client EMIT for a probe schema with several services, parsed with go/parser; and internal/httpgen/generator.go"))
	var fileNames []string
	for _, gf := range g.files {
		fileNames = append(fileNames, gf.name)
	}
	fmt.Fprintf(&b, "/-- the emitted Go files that were inspected. -/\ndef files : List String := %s\n", leanStrList(fileNames))
	fmt.Fprintf(&b, "/-- the probe schema: (service, number of RPCs); all services live in one Go package. -/\ndef probeServices : List (String × Nat) := [%s]\n", strings.Join(svcRows, ", "))
	fmt.Fprintf(&b, "/-- every package-level `var`: (file, name, declared type or initialiser). -/\ndef packageVars : List (String × String × String) := %s\n", leanList(varRows))
	fmt.Fprintf(&b, "/-- package-level `sync.Once` variables. -/\ndef onceVars : List String := %s\n", leanStrList(sortedSet(g.once)))
	fmt.Fprintf(&b, "/-- every write to a package-level var inside a function body: (var, function, kind, guard, statement); guard is `once:<var>` (inside the func literal passed to that Once's Do), `init`, or `none`. -/\ndef globalWrites : List (String × String × String × String × String) := %s\n", leanList(writeRows))
	fmt.Fprintf(&b, "/-- the writes whose guard is `none`: (var, function, kind). -/\ndef writesOutsideOnceOrInit : List (String × String × String) := %s\n", leanList(outside))
	fmt.Fprintf(&b, "/-- method calls whose receiver is (reachable from) a package-level var: (receiver, method, calling function). -/\ndef globalMethodCalls : List (String × String × String) := %s\n", leanList(dedupe(methodCalls)))
	fmt.Fprintf(&b, "/-- every func literal: (enclosing function, index, captured locals of the enclosing function, those of them assigned more than once there). -/\ndef funcLits : List (String × Nat × List String × List String) := %s\n", leanList(litRows))
	fmt.Fprintf(&b, "/-- (enclosing function, variable): a closure captures a variable the enclosing function assigns more than once. -/\ndef sharedCaptures : List (String × String) := %s\n", leanList(dedupe(sharedCaptures)))
	fmt.Fprintf(&b, "/-- locals of Register*Server assigned more than once: (function, variable, assignments). -/\ndef reassignedInRegister : List (String × String × Nat) := %s\n", leanList(reassigned))
	fmt.Fprintf(&b, "/-- every occurrence of such a variable: (function, variable, use). -/\ndef reassignedUses : List (String × String × String) := %s\n", leanList(dedupe(reassignedUses)))
	b.WriteString(`/-- one registered route, read by executing Register*Server symbolically: the configuration the
handler was built from at the time of its BindingMiddleware call. The ` + "`…Owner`" + ` fields are the RPC
names the getter / table identifiers are named after. -/
structure Route where
  register : String
  pattern : String
  reqType : String
  method : String
  verb : String
  serviceHeaders : String
  methodHeaders : String
  pathParams : String
  queryParams : String
  methodHeadersOwner : String
  pathParamsOwner : String
  queryParamsOwner : String
  deriving DecidableEq, Repr
`)
	fmt.Fprintf(&b, "def routes : List Route := %s\n", leanList(routeRows))
	fmt.Fprintf(&b, "/-- methods of generated client structs: (type, method, rpc | helper). -/\ndef clientMethods : List (String × String × String) := %s\n", leanList(clientMethods))
	fmt.Fprintf(&b, "/-- writes through the receiver inside client methods (fields, maps/slices reachable from it, local aliases): (method, kind, statement). -/\ndef clientFieldWritesInRpc : List (String × String × String) := %s\n", leanList(clientWrites))
	fmt.Fprintf(&b, "/-- what the per-call option functions are applied to: (method, argument, kind, how that object was created in the method); kind is `fresh-composite-literal` (`x := &T{…}` in the method), `reachable-from-receiver`, or `other`. -/\ndef perCallOptionTargets : List (String × String × String × String) := %s\n", leanList(dedupe(optTargets)))
	fmt.Fprintf(&b, "/-- where header writes (`.Header.Set/Add/Del`) go: (method, target, kind, how the target's root was created in the method); kind is `request-created-in-method`, `reachable-from-receiver`, or `other`. -/\ndef headerWriteTargets : List (String × String × String × String) := %s\n", leanList(dedupe(headerTargets)))
	fmt.Fprintf(&b, "/-- generator side (internal/httpgen/generator.go, loop over service.Methods in the Register emitter): the `methodHeaders` literals printed per iteration, in order: (position, literal). -/\ndef generatorMethodHeaderLits : List (Nat × String) := %s\n", leanList(genRows))
	fmt.Fprintf(&b, "/-- every iteration prints an assignment of `methodHeaders` before the BindingMiddleware call that passes it. -/\ndef generatorAssignsMethodHeadersPerIteration : Bool := %v\n", genOK)
	fmt.Fprintf(&b, "/-- the test under which an iteration of that loop prints the DECLARATION (`:=`) instead of the assignment (loop key written `i`). -/\ndef registerLoopDeclareTest : String := %s\n", leanStr(genLoopTest))
	fmt.Fprintf(&b, "/-- control transfers (continue / break / return / goto) an iteration can take before it reaches that test. -/\ndef registerLoopControlBeforeDeclare : List String := %s\n", leanStrList(genLoopControl))
	b.WriteString("end Sebuf.Gen.Globals\n")
	return b.String(), nil
}

func sortedSet(m map[string]bool) []string {
	var out []string
	for k, v := range m {
		if v {
			out = append(out, k)
		}
	}
	sort.Strings(out)
	return out
}

// routeTable executes the straight-line body of a Register*Server function symbolically.
func (g *gState) routeTable(fd *ast.FuncDecl) ([]string, error) {
	env := map[string]ast.Expr{}
	resolve := func(e ast.Expr) string {
		if id, ok := e.(*ast.Ident); ok {
			if v, ok := env[id.Name]; ok {
				return g.src(v)
			}
		}
		return g.src(e)
	}
	type handler struct{ reqType, method, verb, sh, mh, pp, qp string }
	handlers := map[string]handler{}
	var rows []string
	for _, st := range fd.Body.List {
		switch x := st.(type) {
		case *ast.AssignStmt:
			if len(x.Lhs) != 1 || len(x.Rhs) != 1 {
				return nil, fmt.Errorf("unexpected assignment shape: %s", g.src(x))
			}
			lid, ok := x.Lhs[0].(*ast.Ident)
			if !ok {
				return nil, fmt.Errorf("unexpected assignment target: %s", g.src(x))
			}
			call, isCall := x.Rhs[0].(*ast.CallExpr)
			if isCall {
				fun := call.Fun
				reqType := ""
				if ix, ok := fun.(*ast.IndexExpr); ok {
					fun, reqType = ix.X, g.src(ix.Index)
				}
				if fid, ok := fun.(*ast.Ident); ok && fid.Name == "BindingMiddleware" {
					if len(call.Args) != 7 {
						return nil, fmt.Errorf("BindingMiddleware called with %d arguments", len(call.Args))
					}
					h := handler{reqType: reqType, sh: resolve(call.Args[1]), mh: resolve(call.Args[2]), pp: resolve(call.Args[3]), qp: resolve(call.Args[4]), verb: strings.Trim(g.src(call.Args[5]), `"`)}
					if gh, ok := call.Args[0].(*ast.CallExpr); ok && len(gh.Args) > 0 {
						if sel, ok := gh.Args[0].(*ast.SelectorExpr); ok {
							h.method = sel.Sel.Name
						}
					}
					if h.method == "" {
						return nil, fmt.Errorf("handler of %s is not genericHandler(server.<Method>, …)", lid.Name)
					}
					handlers[lid.Name] = h
					continue
				}
			}
			env[lid.Name] = x.Rhs[0]
		case *ast.ExprStmt:
			call, ok := x.X.(*ast.CallExpr)
			if !ok {
				return nil, fmt.Errorf("unexpected statement: %s", g.src(x))
			}
			if sel, ok := call.Fun.(*ast.SelectorExpr); ok && sel.Sel.Name == "Handle" && len(call.Args) == 2 {
				hid, ok := call.Args[1].(*ast.Ident)
				if !ok {
					return nil, fmt.Errorf("mux.Handle with a non-identifier handler: %s", g.src(x))
				}
				h, ok := handlers[hid.Name]
				if !ok {
					return nil, fmt.Errorf("mux.Handle of %s which is not a BindingMiddleware result", hid.Name)
				}
				owner := func(s, pre, suf string) string {
					if strings.HasPrefix(s, pre) && strings.HasSuffix(s, suf) && len(s) >= len(pre)+len(suf) {
						return upperFirst(s[len(pre) : len(s)-len(suf)])
					}
					return "?" + s
				}
				rows = append(rows, fmt.Sprintf("{ register := %s, pattern := %s, reqType := %s, method := %s, verb := %s, serviceHeaders := %s, methodHeaders := %s, pathParams := %s, queryParams := %s, methodHeadersOwner := %s, pathParamsOwner := %s, queryParamsOwner := %s }",
					leanStr(fd.Name.Name), leanStr(strings.Trim(g.src(call.Args[0]), `"`)), leanStr(h.reqType), leanStr(h.method), leanStr(h.verb), leanStr(h.sh), leanStr(h.mh), leanStr(h.pp), leanStr(h.qp),
					leanStr(owner(h.mh, "get", "Headers()")), leanStr(owner(h.pp, "", "PathParams")), leanStr(owner(h.qp, "", "QueryParams"))))
				continue
			}
			return nil, fmt.Errorf("unexpected call statement: %s", g.src(x))
		case *ast.ReturnStmt:
		default:
			return nil, fmt.Errorf("Register body is not straight-line (%T): the symbolic reading does not apply", st)
		}
	}
	if len(rows) == 0 {
		return nil, fmt.Errorf("no route registered")
	}
	return rows, nil
}

// generatorMethodHeaders reads the generator side of the anchor: inside the function that prints
// `func Register…Server`, the loop over service.Methods.
// set by generatorMethodHeaders
var (
	genLoopTest    string
	genLoopControl []string
)

func generatorMethodHeaders() ([]string, bool, error) {
	fset, f, err := parseFile("internal/httpgen/generator.go")
	if err != nil {
		return nil, false, err
	}
	_ = fset
	var loop *ast.RangeStmt
	for _, d := range f.Decls {
		fd, ok := d.(*ast.FuncDecl)
		if !ok || fd.Body == nil {
			continue
		}
		printsRegister := false
		ast.Inspect(fd.Body, func(n ast.Node) bool {
			if bl, ok := n.(*ast.BasicLit); ok && bl.Kind == token.STRING && strings.Contains(bl.Value, "func Register") {
				printsRegister = true
			}
			return true
		})
		if !printsRegister {
			continue
		}
		ast.Inspect(fd.Body, func(n ast.Node) bool {
			if rs, ok := n.(*ast.RangeStmt); ok && loop == nil && exprString(rs.X) == "service.Methods" {
				uses := false
				ast.Inspect(rs.Body, func(m ast.Node) bool {
					if bl, ok := m.(*ast.BasicLit); ok && bl.Kind == token.STRING && strings.Contains(bl.Value, "BindingMiddleware") {
						uses = true
					}
					return true
				})
				if uses {
					loop = rs
				}
			}
			return true
		})
	}
	if loop == nil {
		return nil, false, fmt.Errorf("internal/httpgen/generator.go: loop over service.Methods in the Register emitter not found")
	}
	// the statement that prints the DECLARATION of methodHeaders (`if <key> == 0 { ":=" } else { "=" }`) and every
	// control transfer (continue / break / return / goto) the loop body can take BEFORE reaching it: an iteration
	// that leaves early must not be the one that declares
	genLoopTest, genLoopControl = "", nil
	keyName := ""
	if id, ok := loop.Key.(*ast.Ident); ok {
		keyName = id.Name
	}
	var declIf *ast.IfStmt
	for _, st := range loop.Body.List {
		if ifs, ok := st.(*ast.IfStmt); ok && declIf == nil {
			has := false
			ast.Inspect(ifs, func(m ast.Node) bool {
				if bl, ok := m.(*ast.BasicLit); ok && bl.Kind == token.STRING && strings.HasPrefix(bl.Value, `"methodHeaders := `) {
					has = true
				}
				return true
			})
			if has {
				declIf = ifs
			}
		}
	}
	if declIf != nil {
		cond := srcOf(declIf.Cond)
		if keyName != "" {
			cond = regexp.MustCompile(`\b`+regexp.QuoteMeta(keyName)+`\b`).ReplaceAllString(cond, "i")
		}
		genLoopTest = cond
		for _, st := range loop.Body.List {
			if st == ast.Stmt(declIf) {
				break
			}
			ast.Inspect(st, func(m ast.Node) bool {
				switch x := m.(type) {
				case *ast.FuncLit:
					return false
				case *ast.BranchStmt:
					genLoopControl = append(genLoopControl, x.Tok.String())
				case *ast.ReturnStmt:
					genLoopControl = append(genLoopControl, "return")
				}
				return true
			})
		}
	}
	var rows []string
	pos := 0
	firstAssign, firstUse := -1, -1
	branchesAssign := 0
	ast.Inspect(loop.Body, func(n ast.Node) bool {
		if ifs, ok := n.(*ast.IfStmt); ok {
			// `if i == 0 { := } else { = }`: both branches must assign
			cnt := 0
			for _, blk := range []ast.Node{ifs.Body, ifs.Else} {
				if blk == nil {
					continue
				}
				has := false
				ast.Inspect(blk, func(m ast.Node) bool {
					if bl, ok := m.(*ast.BasicLit); ok && bl.Kind == token.STRING && (strings.HasPrefix(bl.Value, `"methodHeaders := `) || strings.HasPrefix(bl.Value, `"methodHeaders = `)) {
						has = true
					}
					return true
				})
				if has {
					cnt++
				}
			}
			if cnt > branchesAssign {
				branchesAssign = cnt
			}
		}
		bl, ok := n.(*ast.BasicLit)
		if !ok || bl.Kind != token.STRING || !strings.Contains(bl.Value, "methodHeaders") {
			return true
		}
		v := strings.Trim(bl.Value, "\"`")
		rows = append(rows, fmt.Sprintf("(%d, %s)", pos, leanStr(v)))
		if strings.HasPrefix(v, "methodHeaders := ") || strings.HasPrefix(v, "methodHeaders = ") {
			if firstAssign < 0 {
				firstAssign = pos
			}
		} else if firstUse < 0 {
			firstUse = pos
		}
		pos++
		return true
	})
	ok := firstAssign >= 0 && firstUse > firstAssign && (branchesAssign == 0 || branchesAssign == 2)
	return rows, ok, nil
}
