import Sebuf.TsType
import Sebuf.Lemmas.Mapping
/-!
Lemmas for C07: unfolding of `Ts.inhabits`, the shape of proto3 JSON (`encMsg … false …`) and the
simultaneous induction "proto3 JSON of a well-typed value inhabits the declared interface".
-/
namespace Sebuf.Ts
open Sebuf Sebuf.Mapping Sebuf.Ts.Impl

/-! ### unfolding `inhabits` (structural on the fuel: all by `rfl`) -/

theorem inhabits_ref (env : Env) (n : Nat) (x : Str) (j : Json) :
    inhabits env (n + 1) (.ref x) j = (match envGet env x with | some u => inhabits env n u j | none => false) := rfl

theorem inhabits_arr (env : Env) (n : Nat) (e : Ty) (l : List Json) :
    inhabits env (n + 1) (.arr e) (.arr l) = l.all (inhabits env n e) := rfl

theorem inhabits_record (env : Env) (n : Nat) (e : Ty) (kvs : List (Str × Json)) :
    inhabits env (n + 1) (.record e) (.obj kvs) = kvs.all (fun p => inhabits env n e p.2) := rfl

theorem inhabits_obj (env : Env) (n : Nat) (ps : Props) (kvs : List (Str × Json)) :
    inhabits env (n + 1) (.obj ps) (.obj kvs) =
      objOK (inhabits env n) (fun u => !false && admitsDefault env n u) ps kvs := rfl

theorem inhabits_union (env : Env) (n : Nat) (ts : List Ty) (j : Json) :
    inhabits env (n + 1) (.union ts) j = ts.any (fun u => inhabits env n u j) := rfl

theorem inhabits_lit (env : Env) (n : Nat) (s x : Str) :
    inhabits env (n + 1) (.lit s) (.str x) = (x == s) := rfl

theorem inhabits_str (env : Env) (n : Nat) (x : Str) : inhabits env (n + 1) .str (.str x) = true := rfl
theorem inhabits_num (env : Env) (n : Nat) (x : JNum) : inhabits env (n + 1) .num (.num x) = true := rfl
theorem inhabits_bool (env : Env) (n : Nat) (b : Bool) : inhabits env (n + 1) .bool (.bool b) = true := rfl


/-! ### well-typed values whose encoding fits in the encoder's fuel

The predicates mirror the recursion of `Mapping.encMsg / encFields / encFieldVal / encList / encMap`
(with their fuel arithmetic), so that `WtMsg rq n m vs` certifies both that `vs` is a value of
message type `m` and that `encMsg … n m vs` does not run out of fuel. -/

def Kind.isIntegral : Kind → Bool
  | .int32 | .sint32 | .sfixed32 | .uint32 | .fixed32 | .int64 | .sint64 | .sfixed64 | .uint64 | .fixed64 => true
  | _ => false

/-- a scalar value of the field's kind: finite floats (`NaN` / `±Infinity` are JSON strings in
proto3 JSON: witness `nonfinite_float_not_number`), enum numbers the enum declares (an unknown
number is printed as a JSON number). -/
def scalarOK (rq : Request) (f : Field) : Val → Bool
  | .int _ => Kind.isIntegral f.kind
  | .bool _ => f.kind == .bool
  | .str _ => f.kind == .string
  | .float _ q => (f.kind == .float || f.kind == .double) && !q
  | .bytes _ => f.kind == .bytes
  | .enum n => f.kind == .enum &&
      (match rq.findEnum f.typeName with
       | some e => (e.values.find? (·.1 == n)).isSome
       | none => false)
  | .ts _ _ _ _ => isTs f
  | _ => false

mutual
  inductive WtMsg (rq : Request) : Nat → Message → List (Str × Val) → Prop
    | mk {n : Nat} {m : Message} {vs : List (Str × Val)} :
        (∀ f ∈ m.fields, ∀ v, vs.lookup f.name = some v → WtField rq n f v) → WtMsg rq (n + 2) m vs
  inductive WtField (rq : Request) : Nat → Field → Val → Prop
    | single {n : Nat} {f : Field} {v : Val} :
        (f.card = .singular ∨ f.card = .optional) → WtElem rq n f v → WtField rq n f v
    | list {n : Nat} {f : Field} {l : List Val} :
        f.card = .repeated → (∀ e ∈ l, WtElem rq n f e) → WtField rq (n + 2) f (.list l)
    | map {n : Nat} {f : Field} {kvs : List (Str × Val)} :
        f.card = .map → (∀ p ∈ kvs, WtMapVal rq n f p.2) → WtField rq (n + 2) f (.map kvs)
  inductive WtElem (rq : Request) : Nat → Field → Val → Prop
    | scalar {n : Nat} {f : Field} {s : Val} : scalarOK rq f s = true → WtElem rq (n + 1) f s
    | msg {n : Nat} {f : Field} {vs : List (Str × Val)} {m : Message} :
        f.kind = .message → isTs f = false → rq.findMessage f.typeName = some m →
        WtMsg rq n m vs → WtElem rq (n + 1) f (.msg vs)
  inductive WtMapVal (rq : Request) : Nat → Field → Val → Prop
    | scalar {n : Nat} {f : Field} {s : Val} : scalarOK rq f s = true → WtMapVal rq (n + 1) f s
    | msg {n : Nat} {f : Field} {vs : List (Str × Val)} {m : Message} :
        f.kind = .message → isTs f = false → rq.findMessage f.typeName = some m →
        WtMsg rq n m vs → WtMapVal rq n f (.msg vs)
end

/-! ### the shape of proto3 JSON (`ann = false`) -/

theorem encMsg_pj (rq : Request) (g : Bool) (n : Nat) (m : Message) (vs : List (Str × Val)) :
    encMsg rq false g (n + 1) m vs = Json.obj (encFields rq false g n m m.fields vs) := by
  rw [encMsg]; simp

theorem mem_encFields_pj (rq : Request) (g : Bool) (n : Nat) (m : Message) (vs : List (Str × Val)) :
    ∀ (fs : List Field) (p : Str × Json), p ∈ encFields rq false g (n + 1) m fs vs →
      ∃ f ∈ fs, ∃ v, vs.lookup f.name = some v ∧ p = (f.json, encFieldVal rq false g n f v) := by
  intro fs
  induction fs with
  | nil => intro p hp; rw [Mapping.encFields_nil] at hp; cases hp
  | cons f rest ih =>
    intro p hp
    rw [encFields] at hp
    cases hl : vs.lookup f.name with
    | none =>
      simp only [hl, Bool.false_and, Bool.false_eq_true, if_false, List.nil_append] at hp
      obtain ⟨f', hf', v, hv, he⟩ := ih p hp
      exact ⟨f', List.mem_cons_of_mem _ hf', v, hv, he⟩
    | some v =>
      simp only [hl, Bool.false_and, Bool.false_eq_true, if_false, List.cons_append, List.nil_append,
        List.mem_cons] at hp
      rcases hp with hp | hp
      · exact ⟨f, List.mem_cons_self, v, hl, hp⟩
      · obtain ⟨f', hf', v', hv', he⟩ := ih p hp
        exact ⟨f', List.mem_cons_of_mem _ hf', v', hv', he⟩

theorem encFieldVal_list (rq : Request) (a g : Bool) (n : Nat) (f : Field) (l : List Val) :
    encFieldVal rq a g (n + 1) f (.list l) = Json.arr (encList rq a g n f l) := by
  rw [encFieldVal]

theorem encFieldVal_map (rq : Request) (a g : Bool) (n : Nat) (f : Field) (kvs : List (Str × Val)) :
    encFieldVal rq a g (n + 1) f (.map kvs) = Json.obj (encMap rq a g n f kvs) := by
  rw [encFieldVal]

theorem encList_nil (rq : Request) (a g : Bool) (n : Nat) (f : Field) : encList rq a g n f [] = [] := by
  cases n <;> rw [encList]; simp

theorem encMap_nil (rq : Request) (a g : Bool) (n : Nat) (f : Field) : encMap rq a g n f [] = [] := by
  cases n <;> rw [encMap]; simp

theorem mem_encList (rq : Request) (a g : Bool) (n : Nat) (f : Field) :
    ∀ (l : List Val) (j : Json), j ∈ encList rq a g (n + 1) f l → ∃ e ∈ l, j = encFieldVal rq a g n f e := by
  intro l
  induction l with
  | nil => intro j hj; rw [encList_nil] at hj; cases hj
  | cons v rest ih =>
    intro j hj
    rw [encList] at hj
    rcases List.mem_cons.mp hj with h | h
    · exact ⟨v, List.mem_cons_self, h⟩
    · obtain ⟨e, he, hje⟩ := ih j h
      exact ⟨e, List.mem_cons_of_mem _ he, hje⟩

/-- one map value under `ann = false`. -/
def pjMapVal (rq : Request) (g : Bool) (n : Nat) (f : Field) (v : Val) : Json :=
  match v with
  | .msg vs => (match rq.findMessage f.typeName with | some m => encMsg rq false g n m vs | none => Json.null)
  | s => encFieldVal rq false g n f s

theorem mem_encMap_pj (rq : Request) (g : Bool) (n : Nat) (f : Field) :
    ∀ (kvs : List (Str × Val)) (p : Str × Json), p ∈ encMap rq false g (n + 1) f kvs →
      ∃ q ∈ kvs, p = (q.1, pjMapVal rq g n f q.2) := by
  intro kvs
  induction kvs with
  | nil => intro p hp; rw [encMap_nil] at hp; cases hp
  | cons q rest ih =>
    intro p hp
    obtain ⟨k, v⟩ := q
    by_cases hv : ∃ vs, v = Val.msg vs
    · obtain ⟨vs, rfl⟩ := hv
      rw [encMap] at hp
      rcases List.mem_cons.mp hp with h | h
      · refine ⟨(k, Val.msg vs), List.mem_cons_self, ?_⟩
        rw [h]
        simp only [pjMapVal]
        cases rq.findMessage f.typeName with
        | none => rfl
        | some m' => simp
      · obtain ⟨q, hq, e⟩ := ih p h
        exact ⟨q, List.mem_cons_of_mem _ hq, e⟩
    · have hv' : ∀ vs, v = Val.msg vs → False := fun vs e => hv ⟨vs, e⟩
      rw [encMap.eq_4 _ _ _ _ _ _ _ _ hv'] at hp
      rcases List.mem_cons.mp hp with h | h
      · refine ⟨(k, v), List.mem_cons_self, ?_⟩
        rw [h]
        cases v <;> first | rfl | exact absurd rfl (hv' _)
      · obtain ⟨q, hq, e⟩ := ih p h
        exact ⟨q, List.mem_cons_of_mem _ hq, e⟩


/-! ### declarations of an un-annotated schema -/

/-- `TSFieldType` without annotations. -/
def plainFieldTy (f : Field) : Ty :=
  match f.card with
  | .map => .record (elemTy (mapValueField f))
  | .repeated => .arr (elemTy f)
  | _ => elemTy f

def plainProps (m : Message) : Props := m.fields.map fun f => (f.json, isOptional f, plainFieldTy f)

theorem findUnwrapField_noAnn (m : Message) (h : m.noAnn = true) : findUnwrapField m = none := by
  have ⟨hf, _⟩ := (Message.noAnn_iff m).mp h
  unfold findUnwrapField
  rw [List.find?_eq_none]
  intro x hx
  simp [((Field.noAnn_iff x).mp (hf x hx)).1]

theorem fieldTy_noAnn (rq : Request) (h : rq.noAnn = true) (f : Field) : fieldTy rq f = plainFieldTy f := by
  unfold fieldTy plainFieldTy
  cases f.card with
  | map =>
    simp only
    by_cases hk : (f.kind == Kind.message) = true
    · simp only [hk, if_true]
      cases hfm : rq.findMessage f.typeName with
      | none => rfl
      | some vm =>
        have := findUnwrapField_noAnn vm (Request.noAnn_messages h vm (Request.findMessage_mem hfm))
        simp [this]
    · simp [hk]
  | repeated => rfl
  | singular => rfl
  | optional => rfl

theorem propOf_noAnn (rq : Request) (h : rq.noAnn = true) (f : Field) (hf : f.noAnn = true) :
    propOf rq [] f = (f.json, isOptional f, plainFieldTy f) := by
  have hn := ((Field.noAnn_iff f).mp hf).2.2.2.1
  unfold propOf
  rw [fieldTy_noAnn rq h]
  cases ho : isOptional f <;> simp [hn]

theorem bodyGo_noAnn (rq : Request) (h : rq.noAnn = true) (m : Message) (st : Bool) :
    ∀ (fs : List Field) (em : List Str), (∀ f ∈ fs, f.noAnn = true) →
      bodyGo rq m [] st fs em = fs.map fun f => (f.json, isOptional f, plainFieldTy f) := by
  intro fs
  induction fs with
  | nil => intro em _; rfl
  | cons f rest ih =>
    intro em hfs
    have hf := hfs f List.mem_cons_self
    have hfl := ((Field.noAnn_iff f).mp hf).2.2.2.2.2.2.2.2.1
    rw [bodyGo]
    simp only [List.any_nil, Bool.false_eq_true, if_false, hfl, Bool.false_and, List.map_cons]
    rw [propOf_noAnn rq h f hf, ih em fun x hx => hfs x (List.mem_cons_of_mem _ hx)]

theorem discOneofs_noAnn (m : Message) (h : m.noAnn = true) : discOneofs m = [] := by
  have ⟨_, ho⟩ := (Message.noAnn_iff m).mp h
  unfold discOneofs
  rw [List.filter_eq_nil_iff]
  intro o hom
  simp [ho o hom]

/-- the interface body of an un-annotated message: one property per field. -/
theorem bodyProps_noAnn (rq : Request) (h : rq.noAnn = true) (m : Message) (hm : m ∈ rq.allMessages) :
    bodyProps rq m true = plainProps m := by
  have hmn := Request.noAnn_messages h m hm
  unfold bodyProps plainProps
  rw [discOneofs_noAnn m hmn]
  exact bodyGo_noAnn rq h m true m.fields [] ((Message.noAnn_iff m).mp hmn).1

theorem declsOfMessage_noAnn (rq : Request) (h : rq.noAnn = true) (m : Message) (hm : m ∈ rq.allMessages) :
    declsOfMessage rq m = [(shortName m.fullName, true, .obj (plainProps m))] := by
  have hmn := Request.noAnn_messages h m hm
  unfold declsOfMessage
  simp only [discOneofs_noAnn m hmn, List.map_nil, List.any_nil, Bool.false_eq_true, if_false, List.nil_append]
  rw [bodyProps_noAnn rq h m hm]

theorem lookupProp_map (k : Str) (g : Field → Bool × Ty) :
    ∀ (fs : List Field) (f : Field), f ∈ fs → f.json = k → (fs.map Field.json).Nodup →
      lookupProp k (fs.map fun x => (x.json, g x)) = some (g f) := by
  intro fs
  induction fs with
  | nil => intro f hf; cases hf
  | cons x rest ih =>
    intro f hf hk hnd
    rw [List.map_cons, List.nodup_cons] at hnd
    rcases List.mem_cons.mp hf with rfl | hf'
    · simp [lookupProp, hk]
    · have hne : ¬ x.json = k := by
        intro e
        exact hnd.1 (List.mem_map.mpr ⟨f, hf', by rw [hk, e]⟩)
      simp only [List.map_cons, lookupProp, hne, if_false]
      exact ih f hf' hk hnd.2

theorem lookupProp_plain (m : Message) (hnd : (m.fields.map Field.json).Nodup) (f : Field) (hf : f ∈ m.fields) :
    lookupProp f.json (plainProps m) = some (isOptional f, plainFieldTy f) :=
  lookupProp_map f.json (fun x => (isOptional x, plainFieldTy x)) m.fields f hf rfl hnd


/-! ### leaves -/

theorem elemTy_mapValueField (f : Field) (hf : f.noAnn = true) : elemTy (mapValueField f) = elemTy f := by
  have ⟨_, h64, hen, _, _, hts, _, _, _, _⟩ := (Field.noAnn_iff f).mp hf
  simp [elemTy, mapValueField, isTs, timestampTy, scalarTyForField, h64, hen, hts]

/-- the JSON name of an enum value is one of the literals of the enum's declared union. -/
theorem enumTy_inhabits (env : Env) (e : EnumT) (hc : e.noCustom = true) (n : Int) (name : Str) (custom : Option Str)
    (hv : e.values.find? (fun x => x.1 == n) = some (n', name, custom)) (F : Nat) :
    inhabits env (F + 2) (enumTy e) (Json.str name) = true := by
  have hmem := List.mem_of_find?_eq_some hv
  simp only [EnumT.noCustom, List.all_eq_true] at hc
  have hlit : Ty.lit name ∈ e.values.map (fun v => Ty.lit ((v.2.2.filter (· != [])).getD v.2.1)) := by
    refine List.mem_map.mpr ⟨(n', name, custom), hmem, ?_⟩
    have := hc _ hmem
    cases custom with
    | none => rfl
    | some c => simp at this
  unfold enumTy
  generalize e.values.map (fun v => Ty.lit ((v.2.2.filter (· != [])).getD v.2.1)) = lits at hlit
  match lits, hlit with
  | [x], h =>
    have : x = Ty.lit name := (List.mem_singleton.mp h).symm
    subst this
    show inhabits env (F + 1 + 1) (.lit name) (.str name) = true
    rw [inhabits_lit]; simp
  | x :: y :: r, h =>
    show inhabits env (F + 1 + 1) (.union (x :: y :: r)) (.str name) = true
    rw [inhabits_union, List.any_eq_true]
    exact ⟨Ty.lit name, h, by rw [inhabits_lit]; simp⟩

/-- **leaf table.** proto3 JSON of a scalar / enum / Timestamp value inhabits the element type the
generator declares for an un-annotated field of that kind. -/
theorem leaf_inhabits (rq : Request) (env : Env) (hE : ∀ e ∈ rq.allEnums, e.noCustom = true)
    (f : Field) (hf : f.noAnn = true)
    (henum : f.kind = .enum → ∀ e, rq.findEnum f.typeName = some e → envGet env (shortName f.typeName) = some (enumTy e))
    (s : Val) (hs : scalarOK rq f s = true) (F : Nat) :
    inhabits env (F + 4) (elemTy f) (scalarJson rq false f s) = true := by
  have ⟨_, h64, hen, _, _, hts, _, _, _, _⟩ := (Field.noAnn_iff f).mp hf
  cases s with
  | int i =>
    simp only [scalarOK] at hs
    cases hk : f.kind <;> simp [hk, Kind.isIntegral] at hs <;>
      simp [elemTy, isTs, hk, scalarTyForField, Kind.isInt64, scalarTy, h64, scalarJson, intJson] <;> rfl
  | bool b =>
    simp only [scalarOK, beq_iff_eq] at hs
    simp [elemTy, isTs, hs, scalarTyForField, Kind.isInt64, scalarTy, scalarJson]; rfl
  | str x =>
    simp only [scalarOK, beq_iff_eq] at hs
    simp [elemTy, isTs, hs, scalarTyForField, Kind.isInt64, scalarTy, scalarJson]; rfl
  | float t q =>
    simp only [scalarOK, Bool.and_eq_true, Bool.or_eq_true, beq_iff_eq, Bool.not_eq_true'] at hs
    obtain ⟨hk, hq⟩ := hs
    subst hq
    rcases hk with hk | hk <;>
      (simp [elemTy, isTs, hk, scalarTyForField, Kind.isInt64, scalarTy, scalarJson]; rfl)
  | bytes b =>
    simp only [scalarOK, beq_iff_eq] at hs
    simp [elemTy, isTs, hs, scalarTyForField, Kind.isInt64, scalarTy, scalarJson, bytesJson]; rfl
  | enum n =>
    simp only [scalarOK, Bool.and_eq_true, beq_iff_eq] at hs
    obtain ⟨hk, hv⟩ := hs
    cases hfe : rq.findEnum f.typeName with
    | none => simp [hfe] at hv
    | some e =>
      simp only [hfe] at hv
      cases hfv : e.values.find? (fun x => x.1 == n) with
      | none => simp [hfv] at hv
      | some p =>
        obtain ⟨n', name, custom⟩ := p
        have hty : elemTy f = .ref (shortName f.typeName) := by simp [elemTy, isTs, hk, hen]
        have hj : scalarJson rq false f (Val.enum n) = Json.str name := by
          simp only [scalarJson, enumJson, Bool.false_and, Bool.false_eq_true, if_false, hfe, hfv]
          cases custom <;> rfl
        rw [hty, hj]
        show inhabits env (F + 3 + 1) _ _ = true
        rw [inhabits_ref, henum hk e hfe]
        exact enumTy_inhabits env e (hE e (Request.findEnum_mem hfe)) n name custom hfv (F + 1)
  | ts a b c d =>
    simp only [scalarOK] at hs
    simp [elemTy, hs, timestampTy, hts, scalarJson, tsJson]; rfl
  | msg vs => simp [scalarOK] at hs
  | list l => simp [scalarOK] at hs
  | map kvs => simp [scalarOK] at hs

/-- a scalar (non-message, non-collection) value is encoded by `scalarJson`. -/
theorem encFieldVal_scalar (rq : Request) (a g : Bool) (n : Nat) (f : Field) (s : Val) (hs : scalarOK rq f s = true) :
    encFieldVal rq a g (n + 1) f s = scalarJson rq a f s := by
  cases s with
  | msg vs => simp [scalarOK] at hs
  | list l => simp [scalarOK] at hs
  | map kvs => simp [scalarOK] at hs
  | _ => rw [encFieldVal] <;> (intros; contradiction)


/-! ### the declarations an environment must contain -/

/-- `env` declares a set `S` of messages of an un-annotated request the way the generator does:
`S` is closed under message-typed fields, every message of `S` is declared under its short name
with one property per field, every enum a field of `S` uses is declared under its short name as
the union of its value names, and JSON names are distinct inside a message. (All five conditions
are decidable; the harness checks the first three on the REAL parsed declarations by comparing
them with `Impl.tsDecls`.) -/
structure Declares (rq : Request) (env : Env) (S : List Message) : Prop where
  inRq : ∀ m ∈ S, m ∈ rq.allMessages
  closed : ∀ m ∈ S, ∀ f ∈ m.fields, f.kind = .message → isTs f = false →
    ∀ m', rq.findMessage f.typeName = some m' → m' ∈ S
  msgDecl : ∀ m ∈ S, envGet env (shortName m.fullName) = some (.obj (plainProps m))
  enumDecl : ∀ m ∈ S, ∀ f ∈ m.fields, f.kind = .enum →
    ∃ e, rq.findEnum f.typeName = some e ∧ envGet env (shortName f.typeName) = some (enumTy e)
  jsonDistinct : ∀ m ∈ S, (m.fields.map Field.json).Nodup

theorem findMessage_fullName {rq : Request} {t : Str} {m : Message} (h : rq.findMessage t = some m) :
    m.fullName = t := by
  have := List.find?_some h
  simpa using this

theorem admitsDefault_ref_enum (env : Env) (x : Str) (e : EnumT) (h : envGet env x = some (enumTy e)) (F : Nat) :
    admitsDefault env (F + 3) (.ref x) = true := by
  have hl : ∀ y ∈ e.values.map (fun v => Ty.lit ((v.2.2.filter (· != [])).getD v.2.1)), ∃ s, y = Ty.lit s := by
    intro y hy
    obtain ⟨v, _, rfl⟩ := List.mem_map.mp hy
    exact ⟨_, rfl⟩
  unfold enumTy at h
  generalize e.values.map (fun v => Ty.lit ((v.2.2.filter (· != [])).getD v.2.1)) = lits at h hl
  match lits, h, hl with
  | [], h, _ => simp [admitsDefault, h]
  | [y], h, hl =>
    obtain ⟨s, rfl⟩ := hl y List.mem_cons_self
    simp [admitsDefault, h]
  | y :: z :: r, h, hl =>
    obtain ⟨s, rfl⟩ := hl y List.mem_cons_self
    simp [admitsDefault, h, Ty.isLit]

/-- every declared property of an un-annotated message is optional or admits the proto3 default. -/
theorem field_optional_or_default (rq : Request) (env : Env) (S : List Message) (hD : Declares rq env S)
    (m : Message) (hm : m ∈ S) (f : Field) (hf : f ∈ m.fields) (hfa : f.noAnn = true) (F : Nat) :
    (isOptional f || admitsDefault env (F + 3) (plainFieldTy f)) = true := by
  have ⟨_, h64, hen, _, _, hts, _, _, _, _⟩ := (Field.noAnn_iff f).mp hfa
  cases hc : f.card with
  | map => simp [plainFieldTy, hc, admitsDefault]
  | repeated => simp [plainFieldTy, hc, admitsDefault]
  | optional => simp [isOptional, hc]
  | singular =>
    cases hk : f.kind <;>
      try (simp [isOptional, hc, hk, plainFieldTy, elemTy, isTs, scalarTyForField, Kind.isInt64, scalarTy, h64,
        admitsDefault]; done)
    -- enum
    obtain ⟨e, hfe, hget⟩ := hD.enumDecl m hm f hf hk
    have hty : plainFieldTy f = .ref (shortName f.typeName) := by
      simp [plainFieldTy, hc, elemTy, isTs, hk, hen]
    rw [hty, admitsDefault_ref_enum env _ e hget F]
    simp


/-! ### the induction: proto3 JSON of a well-typed value inhabits the declared interface -/

/-- the statement for messages at encoder fuel `k`. -/
def MsgOK (rq : Request) (env : Env) (S : List Message) (g : Bool) (k : Nat) : Prop :=
  ∀ m ∈ S, ∀ vs, WtMsg rq k m vs → ∀ F, k + 4 ≤ F →
    inhabits env F (.ref (shortName m.fullName)) (encMsg rq false g k m vs) = true

theorem elem_inhabits (rq : Request) (h : rq.noAnn = true) (env : Env) (S : List Message) (hD : Declares rq env S)
    (g : Bool) (k : Nat) (ih : ∀ k', k' < k → MsgOK rq env S g k')
    (m : Message) (hm : m ∈ S) (f : Field) (hf : f ∈ m.fields) (v : Val) (hw : WtElem rq k f v)
    (F : Nat) (hF : k + 3 ≤ F) :
    inhabits env F (elemTy f) (encFieldVal rq false g k f v) = true := by
  have hfa : f.noAnn = true :=
    ((Message.noAnn_iff m).mp (Request.noAnn_messages h m (hD.inRq m hm))).1 f hf
  cases hw with
  | @scalar k1 _ _ hs =>
    rw [encFieldVal_scalar rq false g k1 f v hs]
    obtain ⟨F', rfl⟩ : ∃ F', F = F' + 4 := ⟨F - 4, by omega⟩
    refine leaf_inhabits rq env (Request.noAnn_enums h) f hfa ?_ v hs F'
    intro hk e he
    obtain ⟨e', he', hget⟩ := hD.enumDecl m hm f hf hk
    rw [he] at he'
    cases he'
    exact hget
  | @msg k1 _ vs m' hk hts hfm hwm =>
    rw [Mapping.encFieldVal_msg rq false g k1 f vs m' hfm]
    have hty : elemTy f = .ref (shortName m'.fullName) := by
      rw [findMessage_fullName hfm]
      simp [elemTy, hts, hk]
    rw [hty]
    exact ih k1 (by omega) m' (hD.closed m hm f hf hk hts m' hfm) vs hwm F (by omega)

theorem field_inhabits (rq : Request) (h : rq.noAnn = true) (env : Env) (S : List Message) (hD : Declares rq env S)
    (g : Bool) (k : Nat) (ih : ∀ k', k' < k → MsgOK rq env S g k')
    (m : Message) (hm : m ∈ S) (f : Field) (hf : f ∈ m.fields) (v : Val) (hw : WtField rq k f v)
    (F : Nat) (hF : k + 4 ≤ F) :
    inhabits env F (plainFieldTy f) (encFieldVal rq false g k f v) = true := by
  have hfa : f.noAnn = true :=
    ((Message.noAnn_iff m).mp (Request.noAnn_messages h m (hD.inRq m hm))).1 f hf
  cases hw with
  | single hc hwe =>
    have hty : plainFieldTy f = elemTy f := by
      rcases hc with hc | hc <;> simp [plainFieldTy, hc]
    rw [hty]
    exact elem_inhabits rq h env S hD g k ih m hm f hf v hwe F (by omega)
  | @list k2 _ l hc hl =>
    have hty : plainFieldTy f = .arr (elemTy f) := by simp [plainFieldTy, hc]
    rw [hty, encFieldVal_list]
    obtain ⟨F', rfl⟩ : ∃ F', F = F' + 1 := ⟨F - 1, by omega⟩
    rw [inhabits_arr, List.all_eq_true]
    intro j hj
    obtain ⟨e, he, rfl⟩ := mem_encList rq false g k2 f l j hj
    exact elem_inhabits rq h env S hD g k2 (fun k' hk' => ih k' (by omega)) m hm f hf e (hl e he) F' (by omega)
  | @map k2 _ kvs hc hkv =>
    have hty : plainFieldTy f = .record (elemTy f) := by
      simp [plainFieldTy, hc, elemTy_mapValueField f hfa]
    rw [hty, encFieldVal_map]
    obtain ⟨F', rfl⟩ : ∃ F', F = F' + 1 := ⟨F - 1, by omega⟩
    rw [inhabits_record, List.all_eq_true]
    intro p hp
    obtain ⟨q, hq, rfl⟩ := mem_encMap_pj rq g k2 f kvs p hp
    obtain ⟨qk, qv⟩ := q
    have hwv : WtMapVal rq k2 f qv := hkv (qk, qv) hq
    show inhabits env F' (elemTy f) (pjMapVal rq g k2 f qv) = true
    cases hwv with
    | @scalar k3 _ _ hs =>
      have : pjMapVal rq g (k3 + 1) f qv = encFieldVal rq false g (k3 + 1) f qv := by
        unfold pjMapVal
        cases qv <;> first | rfl | simp [scalarOK] at hs
      rw [this]
      exact elem_inhabits rq h env S hD g (k3 + 1) (fun k' hk' => ih k' (by omega)) m hm f hf qv
        (WtElem.scalar hs) F' (by omega)
    | @msg _ _ vs m' hk hts hfm hwm =>
      have hj : pjMapVal rq g k2 f (Val.msg vs) = encMsg rq false g k2 m' vs := by simp [pjMapVal, hfm]
      have hty : elemTy f = .ref (shortName m'.fullName) := by
        rw [findMessage_fullName hfm]
        simp [elemTy, hts, hk]
      rw [hj, hty]
      exact ih k2 (by omega) m' (hD.closed m hm f hf hk hts m' hfm) vs hwm F' (by omega)

/-- **main induction.** For an un-annotated request whose messages `S` are declared in `env` as the
generator declares them, the proto3 JSON of every well-typed value of every message of `S`
inhabits the message's interface, at every fuel that suffices. -/
theorem pj_inhabits_all (rq : Request) (h : rq.noAnn = true) (env : Env) (S : List Message) (hD : Declares rq env S)
    (g : Bool) : ∀ k, MsgOK rq env S g k := by
  intro k
  induction k using Nat.strongRecOn with
  | ind k ih =>
    intro m hm vs hw F hF
    cases hw with
    | @mk n _ _ hfields =>
      obtain ⟨F', rfl⟩ : ∃ F', F = F' + 2 := ⟨F - 2, by omega⟩
      rw [encMsg_pj]
      show inhabits env (F' + 1 + 1) _ _ = true
      rw [inhabits_ref, hD.msgDecl m hm]
      show inhabits env (F' + 1) _ _ = true
      rw [inhabits_obj]
      unfold objOK
      rw [Bool.and_eq_true]
      constructor
      · rw [List.all_eq_true]
        intro p hp
        obtain ⟨f, hf, v, hv, rfl⟩ := mem_encFields_pj rq g n m vs m.fields p hp
        simp only [lookupProp_plain m (hD.jsonDistinct m hm) f hf]
        exact field_inhabits rq h env S hD g n (fun k' hk' => ih k' (by omega)) m hm f hf v
          (hfields f hf v hv) F' (by omega)
      · rw [List.all_eq_true]
        intro p hp
        obtain ⟨f, hf, rfl⟩ := List.mem_map.mp hp
        have hfa : f.noAnn = true :=
          ((Message.noAnn_iff m).mp (Request.noAnn_messages h m (hD.inRq m hm))).1 f hf
        obtain ⟨F'', rfl⟩ : ∃ F'', F' = F'' + 3 := ⟨F' - 3, by omega⟩
        have := field_optional_or_default rq env S hD m hm f hf hfa F''
        simp only [Bool.or_eq_true] at this ⊢
        rcases this with h1 | h2
        · exact Or.inl (Or.inl h1)
        · exact Or.inr (by simp [h2])


/-! ### corollaries: contract form (`Mapping.enc`) and what the Go server sends (`WireEnc.wireEnc`) -/

theorem annotatedOnlyAtTop_of_noAnn (rq : Request) (h : rq.noAnn = true) (m : Message) (hm : m ∈ rq.allMessages)
    (hnd : (rq.allMessages.map (·.fullName)).Nodup) : WireEnc.AnnotatedOnlyAtTop rq m := by
  refine ⟨fun x hx _ => Request.noAnn_messages h x hx, Request.noAnn_enums h, ?_, hnd, hm⟩
  intro f hf
  exact ((Field.noAnn_iff f).mp (((Message.noAnn_iff m).mp (Request.noAnn_messages h m hm)).1 f hf)).2.2.1

/-- on an un-annotated request the Go server sends plain proto3 JSON. -/
theorem wireEnc_eq_pj_of_noAnn (rq : Request) (h : rq.noAnn = true) (m : Message) (hm : m ∈ rq.allMessages)
    (hnd : (rq.allMessages.map (·.fullName)).Nodup) (n : Nat) (vs : List (Str × Val)) :
    WireEnc.wireEnc rq n m vs = encMsg rq false true n m vs := by
  rw [WireEnc.wireEnc_eq_spec_top_only rq m (annotatedOnlyAtTop_of_noAnn rq h m hm hnd)]
  exact (Mapping.enc_eq_pj_all rq h true n).1 m hm vs

/-! ### the annotated leaf table (documented mapping, `ann = true`) -/

/-- no `enum_value` annotation carries the empty string (the generator treats `""` as absent). -/
def customNonEmpty (e : EnumT) : Bool := e.values.all fun v => v.2.2 != some []

theorem enumTy_inhabits_custom (env : Env) (e : EnumT) (n' : Int) (name : Str) (custom : Option Str)
    (hmem : (n', name, custom) ∈ e.values) (F : Nat) :
    inhabits env (F + 2) (enumTy e) (Json.str ((custom.filter (· != [])).getD name)) = true := by
  have hlit : Ty.lit ((custom.filter (· != [])).getD name) ∈
      e.values.map (fun v => Ty.lit ((v.2.2.filter (· != [])).getD v.2.1)) :=
    List.mem_map.mpr ⟨(n', name, custom), hmem, rfl⟩
  unfold enumTy
  generalize e.values.map (fun v => Ty.lit ((v.2.2.filter (· != [])).getD v.2.1)) = lits at hlit
  generalize (custom.filter (· != [])).getD name = w at hlit
  match lits, hlit with
  | [x], h =>
    have : x = Ty.lit w := (List.mem_singleton.mp h).symm
    subst this
    show inhabits env (F + 1 + 1) (.lit w) (.str w) = true
    rw [inhabits_lit]; simp
  | x :: y :: r, h =>
    show inhabits env (F + 1 + 1) (.union (x :: y :: r)) (.str w) = true
    rw [inhabits_union, List.any_eq_true]
    exact ⟨Ty.lit w, h, by rw [inhabits_lit]; simp⟩

/-- **annotated leaf table.** For EVERY combination of the leaf annotations (`int64_encoding`,
`enum_encoding`, `enum_value`, `timestamp_format`, `bytes_encoding`) the JSON the documented mapping
prescribes for a scalar / enum / Timestamp value inhabits the element type `TSElementType` declares. -/
theorem annotated_leaf_inhabits (rq : Request) (env : Env) (f : Field)
    (henum : f.kind = .enum → ∀ e, rq.findEnum f.typeName = some e →
      customNonEmpty e = true ∧ envGet env (shortName f.typeName) = some (enumTy e))
    (s : Val) (hs : scalarOK rq f s = true) (F : Nat) :
    inhabits env (F + 4) (elemTy f) (scalarJson rq true f s) = true := by
  cases s with
  | int i =>
    simp only [scalarOK] at hs
    cases hk : f.kind <;> simp [hk, Kind.isIntegral] at hs <;>
      (by_cases h2 : f.int64Enc = 2 <;>
        simp [elemTy, isTs, hk, scalarTyForField, Kind.isInt64, scalarTy, h2, scalarJson, intJson] <;> rfl)
  | bool b =>
    simp only [scalarOK, beq_iff_eq] at hs
    simp [elemTy, isTs, hs, scalarTyForField, Kind.isInt64, scalarTy, scalarJson]; rfl
  | str x =>
    simp only [scalarOK, beq_iff_eq] at hs
    simp [elemTy, isTs, hs, scalarTyForField, Kind.isInt64, scalarTy, scalarJson]; rfl
  | float t q =>
    simp only [scalarOK, Bool.and_eq_true, Bool.or_eq_true, beq_iff_eq, Bool.not_eq_true'] at hs
    obtain ⟨hk, hq⟩ := hs
    subst hq
    rcases hk with hk | hk <;>
      (simp [elemTy, isTs, hk, scalarTyForField, Kind.isInt64, scalarTy, scalarJson]; rfl)
  | bytes b =>
    simp only [scalarOK, beq_iff_eq] at hs
    simp [elemTy, isTs, hs, scalarTyForField, Kind.isInt64, scalarTy, scalarJson, bytesJson]; rfl
  | enum n =>
    simp only [scalarOK, Bool.and_eq_true, beq_iff_eq] at hs
    obtain ⟨hk, hv⟩ := hs
    by_cases h2 : f.enumEnc = 2
    · simp [elemTy, isTs, hk, h2, scalarJson, enumJson]; rfl
    · cases hfe : rq.findEnum f.typeName with
      | none => simp [hfe] at hv
      | some e =>
        simp only [hfe] at hv
        cases hfv : e.values.find? (fun x => x.1 == n) with
        | none => simp [hfv] at hv
        | some p =>
          obtain ⟨n', name, custom⟩ := p
          obtain ⟨hne, hget⟩ := henum hk e hfe
          have hmem := List.mem_of_find?_eq_some hfv
          have hty : elemTy f = .ref (shortName f.typeName) := by simp [elemTy, isTs, hk, h2]
          have hj : scalarJson rq true f (Val.enum n) = Json.str ((custom.filter (· != [])).getD name) := by
            have hb : (f.enumEnc == 2) = false := by simpa using h2
            simp only [scalarJson, enumJson, Bool.true_and, hb, Bool.false_eq_true, if_false, hfe, hfv, if_true]
            cases custom with
            | none => rfl
            | some c =>
              have : c ≠ [] := by
                simp only [customNonEmpty, List.all_eq_true] at hne
                have hc := hne _ hmem
                simpa using hc
              simp [Option.filter, this]
          rw [hty, hj]
          show inhabits env (F + 3 + 1) _ _ = true
          rw [inhabits_ref, hget]
          exact enumTy_inhabits_custom env e n' name custom hmem (F + 1)
  | ts a b c d =>
    simp only [scalarOK] at hs
    by_cases h2 : f.tsFormat = 2
    · simp [elemTy, hs, timestampTy, h2, scalarJson, tsJson]; rfl
    · by_cases h3 : f.tsFormat = 3
      · simp [elemTy, hs, timestampTy, h3, scalarJson, tsJson]; rfl
      · have : timestampTy f = .str := by simp [timestampTy, h2, h3]
        simp only [elemTy, hs, if_true, this, scalarJson, tsJson, Bool.not_true, Bool.false_eq_true, if_false]
        split <;> first | rfl | contradiction
  | msg vs => simp [scalarOK] at hs
  | list l => simp [scalarOK] at hs
  | map kvs => simp [scalarOK] at hs


/-! ### unfolding lemmas for closed witnesses (the encoders do not reduce by `rfl` / `decide`) -/

theorem encFields_cons_absent (rq : Request) (a g : Bool) (n : Nat) (m : Message) (f : Field) (rest : List Field)
    (vs : List (Str × Val)) (hl : vs.lookup f.name = none) (hn : f.nullable = false) :
    encFields rq a g (n + 1) m (f :: rest) vs = encFields rq a g (n + 1) m rest vs := by
  rw [encFields, hl]; simp [hn]

theorem encFields_cons_disc (rq : Request) (g : Bool) (n : Nat) (m : Message) (f : Field) (rest : List Field)
    (vs : List (Str × Val)) (v : Val) (d : OneofDecl) (hl : vs.lookup f.name = some v)
    (ho : (f.oneof.bind fun o => m.oneofs.find? (fun d => d.name == o && d.hasConfig && d.discriminator != [])) = some d)
    (hfl : d.flatten = false) :
    encFields rq true g (n + 1) m (f :: rest) vs =
      (d.discriminator, Json.str (f.oneofValue.getD f.name)) :: (f.json, encFieldVal rq true g n f v) ::
        encFields rq true g (n + 1) m rest vs := by
  rw [encFields, hl]
  simp [ho, hfl]

theorem encMsg_root (rq : Request) (g : Bool) (n : Nat) (m : Message) (f : Field) (vs : List (Str × Val)) (v : Val)
    (hm : m.fields = [f]) (hu : f.unwrap = true) (hl : vs.lookup f.name = some v) :
    encMsg rq true g (n + 1) m vs = encFieldVal rq true g n f v := by
  rw [encMsg]; simp [hm, hu, hl]

theorem encMsg_root_absent_goNil (rq : Request) (n : Nat) (m : Message) (f : Field) (vs : List (Str × Val))
    (hm : m.fields = [f]) (hu : f.unwrap = true) (hl : vs.lookup f.name = none) (hk : (f.kind != Kind.message) = true) :
    encMsg rq true true (n + 1) m vs = Json.null := by
  rw [encMsg]; simp [hm, hu, hl, hk]

theorem encList_cons (rq : Request) (a g : Bool) (n : Nat) (f : Field) (v : Val) (rest : List Val) :
    encList rq a g (n + 1) f (v :: rest) = encFieldVal rq a g n f v :: encList rq a g (n + 1) f rest := by
  rw [encList]

theorem encFields_cons_empty_null (rq : Request) (g : Bool) (n : Nat) (m : Message) (f : Field) (rest : List Field)
    (vs : List (Str × Val)) (hl : vs.lookup f.name = some (Val.msg [])) (ho : f.oneof = none) (hf : f.flatten = false)
    (he : f.emptyBehavior = 2) (hc : f.card = .singular) (hk : f.kind = .message) :
    encFields rq true g (n + 1) m (f :: rest) vs = (f.json, Json.null) :: encFields rq true g (n + 1) m rest vs := by
  rw [encFields, hl]
  simp [ho, hf, he, hc, hk]

/-- an un-annotated message is never a root unwrap: its result type is its interface. -/
theorem resultTy_noAnn (rq : Request) (h : rq.noAnn = true) (m : Message) (hm : m ∈ rq.allMessages) :
    resultTy rq m = .ref (shortName m.fullName) := by
  have hf := ((Message.noAnn_iff m).mp (Request.noAnn_messages h m hm)).1
  unfold resultTy isRootUnwrap
  cases hfs : m.fields with
  | nil => rfl
  | cons f rest =>
    cases rest with
    | nil =>
      have := ((Field.noAnn_iff f).mp (hf f (by rw [hfs]; exact List.mem_cons_self))).1
      simp [this]
    | cons _ _ => rfl



/-! ### the emitted declaration block satisfies `Declares` (decidable side conditions) -/

theorem orderedMessages_eq (rq : Request) (fl : File) :
    orderedMessages rq fl = (visited rq fl).filterMap rq.findMessage := rfl

theorem orderedEnums_eq (rq : Request) (fl : File) :
    Impl.orderedEnums rq fl = (sortedEnumNames rq fl).filterMap rq.findEnum := rfl

theorem envGet_of_mem_nodup : ∀ (l : Env), (l.map Prod.fst).Nodup → ∀ k v, (k, v) ∈ l → envGet l k = some v := by
  intro l
  induction l with
  | nil => intro _ k v h; cases h
  | cons p rest ih =>
    intro hnd k v hm
    obtain ⟨pk, pv⟩ := p
    rw [List.map_cons, List.nodup_cons] at hnd
    rcases List.mem_cons.mp hm with h | h
    · cases h; simp [envGet]
    · have hne : ¬ pk = k := by
        intro e
        exact hnd.1 (List.mem_map.mpr ⟨(k, v), h, e.symm⟩)
      simp only [envGet, hne, if_false]
      exact ih hnd.2 k v h

theorem flatMap_decls_noAnn (rq : Request) (h : rq.noAnn = true) :
    ∀ (S : List Message), (∀ m ∈ S, m ∈ rq.allMessages) →
      S.flatMap (declsOfMessage rq) = S.map fun m => ((shortName m.fullName, true, Ty.obj (plainProps m)) : Decl) := by
  intro S
  induction S with
  | nil => intro _; rfl
  | cons m rest ih =>
    intro hS
    rw [List.flatMap_cons, List.map_cons, declsOfMessage_noAnn rq h m (hS m List.mem_cons_self),
      ih fun x hx => hS x (List.mem_cons_of_mem _ hx)]
    rfl

theorem findEnum_fullName {rq : Request} {t : Str} {e : EnumT} (h : rq.findEnum t = some e) : e.fullName = t := by
  have := List.find?_some h
  simpa using this

/-- **the emitted block declares its messages.** -/
theorem declares_of_check (rq : Request) (h : rq.noAnn = true) (fl : File) (hc : declCheck rq fl = true) :
    Declares rq (envOf (tsDecls rq fl)) (orderedMessages rq fl) := by
  simp only [declCheck, Bool.and_eq_true, decide_eq_true_eq, List.all_eq_true] at hc
  obtain ⟨⟨hvis, hnd⟩, hjson⟩ := hc
  have hin : ∀ m ∈ orderedMessages rq fl, m ∈ rq.allMessages := by
    intro m hm
    rw [orderedMessages_eq] at hm
    obtain ⟨x, _, hx⟩ := List.mem_filterMap.mp hm
    exact Request.findMessage_mem hx
  have henv : envOf (tsDecls rq fl) =
      ((orderedMessages rq fl).map fun m => (shortName m.fullName, Ty.obj (plainProps m))) ++
      ((Impl.orderedEnums rq fl).map fun e => (shortName e.fullName, enumTy e)) ++
      [("FieldViolation".toList, fieldViolation.2.2)] := by
    unfold envOf tsDecls
    rw [flatMap_decls_noAnn rq h _ hin]
    simp [List.map_append, List.map_map, declOfEnum, Function.comp_def]
    rfl
  have hkeys : (envOf (tsDecls rq fl)).map Prod.fst = declNames rq fl := by
    rw [henv]
    simp [declNames, List.map_append, List.map_map, Function.comp_def]
  have hget : ∀ k v, (k, v) ∈ envOf (tsDecls rq fl) → envGet (envOf (tsDecls rq fl)) k = some v :=
    envGet_of_mem_nodup _ (by rw [hkeys]; exact hnd)
  refine ⟨hin, ?_, ?_, ?_, ?_⟩
  · -- closed
    intro m hm f hf hk hts m' hfm
    rw [orderedMessages_eq] at hm ⊢
    obtain ⟨x, hx, hxm⟩ := List.mem_filterMap.mp hm
    have := hvis x hx
    simp only [hxm, List.all_eq_true] at this
    have hfc := (this f hf)
    simp only [Bool.and_eq_true, Bool.or_eq_true, Bool.not_eq_true', Bool.and_eq_false_imp] at hfc
    have hcont : (visited rq fl).contains f.typeName = true := by
      rcases hfc.1 with h1 | h1
      · have hk' : (f.kind == Kind.message) = true := by simp [hk]
        have := h1 hk'
        simp [hts] at this
      · exact h1
    exact List.mem_filterMap.mpr ⟨f.typeName, by simpa using hcont, hfm⟩
  · -- msgDecl
    intro m hm
    apply hget
    rw [henv]
    exact List.mem_append_left _ (List.mem_append_left _ (List.mem_map.mpr ⟨m, hm, rfl⟩))
  · -- enumDecl
    intro m hm f hf hk
    rw [orderedMessages_eq] at hm
    obtain ⟨x, hx, hxm⟩ := List.mem_filterMap.mp hm
    have := hvis x hx
    simp only [hxm, List.all_eq_true] at this
    have hfc := (this f hf)
    simp only [Bool.and_eq_true, Bool.or_eq_true, Bool.not_eq_true'] at hfc
    have hk' : (f.kind == Kind.enum) = true := by simp [hk]
    rcases hfc.2 with h1 | h1
    · rw [hk'] at h1; cases h1
    · obtain ⟨hcont, hsome⟩ := h1
      cases hfe : rq.findEnum f.typeName with
      | none => simp [hfe] at hsome
      | some e =>
        refine ⟨e, rfl, ?_⟩
        apply hget
        rw [henv]
        refine List.mem_append_left _ (List.mem_append_right _ (List.mem_map.mpr ⟨e, ?_, ?_⟩))
        · rw [orderedEnums_eq]
          exact List.mem_filterMap.mpr ⟨f.typeName, by simpa using hcont, hfe⟩
        · rw [findEnum_fullName hfe]
  · -- jsonDistinct
    intro m hm
    exact hjson m hm

end Sebuf.Ts
