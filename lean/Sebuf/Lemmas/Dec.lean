/-
Round-trip theorems for the decimal / boolean text conversions of `Sebuf.Dec`:
what the clients print (`fmt.Sprint`) is read back unchanged by the `strconv` call the
emitted server code uses for the same protobuf kind, and out-of-range text is rejected.
-/
import Sebuf.Dec

namespace Sebuf

/-! ### Digits -/

theorem digitChar_isDigit (d : Nat) : '0' ≤ digitChar d ∧ digitChar d ≤ '9' := by
  unfold digitChar
  split <;> decide

theorem charDigit_digitChar (d : Nat) (h : d < 10) : charDigit (digitChar d) = some d := by
  have : d = 0 ∨ d = 1 ∨ d = 2 ∨ d = 3 ∨ d = 4 ∨ d = 5 ∨ d = 6 ∨ d = 7 ∨ d = 8 ∨ d = 9 := by
    omega
  rcases this with rfl | rfl | rfl | rfl | rfl | rfl | rfl | rfl | rfl | rfl <;> decide

/-! ### `natToDec` structure -/

theorem natToDecAux_append (fuel n : Nat) (acc : Str) :
    natToDecAux fuel n acc = natToDecAux fuel n [] ++ acc := by
  induction fuel generalizing n acc with
  | zero => simp [natToDecAux]
  | succ fuel ih =>
    unfold natToDecAux
    split
    · simp
    · rw [ih (n / 10) (digitChar (n % 10) :: acc), ih (n / 10) [digitChar (n % 10)]]
      simp

theorem natToDec_ne_nil (n : Nat) : natToDec n ≠ [] := by
  unfold natToDec natToDecAux
  split
  · simp
  · rw [natToDecAux_append]
    simp

theorem natToDecAux_digits (fuel n : Nat) (acc : Str)
    (hacc : ∀ c ∈ acc, '0' ≤ c ∧ c ≤ '9') :
    ∀ c ∈ natToDecAux fuel n acc, '0' ≤ c ∧ c ≤ '9' := by
  induction fuel generalizing n acc with
  | zero => simpa [natToDecAux] using hacc
  | succ fuel ih =>
    unfold natToDecAux
    split
    · intro c hc
      rcases List.mem_cons.mp hc with rfl | hc
      · exact digitChar_isDigit n
      · exact hacc c hc
    · apply ih
      intro c hc
      rcases List.mem_cons.mp hc with rfl | hc
      · exact digitChar_isDigit (n % 10)
      · exact hacc c hc

theorem natToDec_digits (n : Nat) : ∀ c ∈ natToDec n, '0' ≤ c ∧ c ≤ '9' :=
  natToDecAux_digits (n + 1) n [] (by simp)

/-! ### `parseDigits ∘ natToDec` -/

theorem parseDigitsAcc_append (a : Nat) (s t : Str) :
    parseDigitsAcc a (s ++ t) = (parseDigitsAcc a s).bind fun v => parseDigitsAcc v t := by
  induction s generalizing a with
  | nil => simp [parseDigitsAcc]
  | cons c r ih =>
    simp only [List.cons_append, parseDigitsAcc]
    cases charDigit c with
    | none => simp
    | some d => simp [ih]

theorem parseDigitsAcc_natToDecAux (fuel n : Nat) (h : n < fuel) :
    parseDigitsAcc 0 (natToDecAux fuel n []) = some n := by
  induction fuel generalizing n with
  | zero => omega
  | succ fuel ih =>
    unfold natToDecAux
    split
    · next hlt => simp [parseDigitsAcc, charDigit_digitChar n hlt]
    · next hge =>
      rw [natToDecAux_append, parseDigitsAcc_append, ih (n / 10) (by omega)]
      simp only [Option.bind_some, parseDigitsAcc, charDigit_digitChar (n % 10) (by omega)]
      congr 1
      omega

theorem parseDigits_natToDec (n : Nat) : parseDigits (natToDec n) = some n := by
  have hne := natToDec_ne_nil n
  have hp : parseDigitsAcc 0 (natToDec n) = some n :=
    parseDigitsAcc_natToDecAux (n + 1) n (by omega)
  cases hs : natToDec n with
  | nil => exact absurd hs hne
  | cons c r =>
    rw [hs] at hp
    simpa [parseDigits] using hp

theorem natToDec_injective (a b : Nat) : natToDec a = natToDec b → a = b := by
  intro h
  have ha := parseDigits_natToDec a
  rw [h, parseDigits_natToDec b] at ha
  exact (Option.some.inj ha).symm

theorem parseUint_natToDec (bits n : Nat) (h : n < 2 ^ bits) :
    parseUint bits (natToDec n) = some n := by
  simp [parseUint, parseDigits_natToDec, h]

/-! ### Signed -/

theorem parseSigned_of_digits (s : Str) (h : ∀ c ∈ s, '0' ≤ c ∧ c ≤ '9') :
    parseSigned s = (parseDigits s).map Int.ofNat := by
  unfold parseSigned
  split
  · next r => exact absurd (h '-' (by simp)) (by decide)
  · next r => exact absurd (h '+' (by simp)) (by decide)
  · rfl

theorem parseSigned_intToDec (v : Int) : parseSigned (intToDec v) = some v := by
  cases v with
  | ofNat n =>
    simp only [intToDec]
    rw [parseSigned_of_digits _ (natToDec_digits n), parseDigits_natToDec]
    rfl
  | negSucc n =>
    simp only [intToDec, parseSigned, parseDigits_natToDec, Option.map_some]
    rfl

theorem intToDec_injective (a b : Int) : intToDec a = intToDec b → a = b := by
  intro h
  have ha := parseSigned_intToDec a
  rw [h, parseSigned_intToDec b] at ha
  exact (Option.some.inj ha).symm

theorem parseInt_intToDec (bits : Nat) (hb : 0 < bits) (v : Int)
    (h : -(2 ^ (bits - 1) : Int) ≤ v ∧ v ≤ 2 ^ (bits - 1) - 1) :
    parseInt bits (intToDec v) = some v := by
  have _ := hb
  simp only [parseInt, parseSigned_intToDec, Option.bind_some]
  exact if_pos h

theorem parseInt_out_of_range (bits : Nat) (v : Int)
    (h : v > 2 ^ (bits - 1) - 1 ∨ v < -(2 ^ (bits - 1) : Int)) :
    parseInt bits (intToDec v) = none := by
  simp only [parseInt, parseSigned_intToDec, Option.bind_some]
  apply if_neg
  intro hr
  rcases h with h | h
  · exact absurd hr.2 (Int.not_le.mpr h)
  · exact absurd hr.1 (Int.not_le.mpr h)

/-! ### The per-kind table -/

theorem parseKind_printKind (k : NumKind) (v : Int) (h : inRange k v) :
    parseKind k (printKind v) = some v := by
  cases k with
  | i32 => exact parseInt_intToDec 32 (by decide) v h
  | i64 => exact parseInt_intToDec 64 (by decide) v h
  | u32 =>
    obtain ⟨h0, h1⟩ := h
    cases v with
    | ofNat n =>
      have hn : n < 2 ^ 32 := by
        have : (n : Int) < 2 ^ 32 := h1
        omega
      simp [parseKind, printKind, intToDec, parseUint_natToDec 32 n hn]
    | negSucc n => exact absurd h0 (by simp)
  | u64 =>
    obtain ⟨h0, h1⟩ := h
    cases v with
    | ofNat n =>
      have hn : n < 2 ^ 64 := by
        have : (n : Int) < 2 ^ 64 := h1
        omega
      simp [parseKind, printKind, intToDec, parseUint_natToDec 64 n hn]
    | negSucc n => exact absurd h0 (by simp)

/-! ### Booleans -/

theorem parseBool_formatBool (b : Bool) : parseBool (formatBool b) = some b := by
  cases b <;> rfl

/-! ### Sanity checks against Go's documented behaviour -/

example : parseInt 32 "2147483648".toList = none := by decide
example : parseInt 32 "2147483647".toList = some 2147483647 := by decide
example : parseInt 32 "-2147483648".toList = some (-2147483648) := by decide
example : parseInt 32 "-2147483649".toList = none := by decide
example : parseUint 32 "-1".toList = none := by decide
example : parseUint 32 "+1".toList = none := by decide
example : parseUint 32 "4294967295".toList = some 4294967295 := by decide
example : parseUint 32 "4294967296".toList = none := by decide
example : parseUint 64 "18446744073709551615".toList = some 18446744073709551615 := by decide
example : parseUint 64 "18446744073709551616".toList = none := by decide
example : parseInt 64 "+7".toList = some 7 := by decide
example : parseInt 64 "-0".toList = some 0 := by decide
example : parseInt 64 "007".toList = some 7 := by decide
example : parseInt 64 "".toList = none := by decide
example : parseInt 64 "+".toList = none := by decide
example : parseInt 64 "-".toList = none := by decide
example : parseInt 64 "+-5".toList = none := by decide
example : parseInt 64 "1_000".toList = none := by decide
example : parseInt 64 " 1".toList = none := by decide
example : parseInt 64 "9223372036854775807".toList = some 9223372036854775807 := by decide
example : parseInt 64 "9223372036854775808".toList = none := by decide
example : parseInt 64 "-9223372036854775808".toList = some (-9223372036854775808) := by decide
example : parseBool "yes".toList = none := by decide
example : parseBool "TRUE".toList = some true := by decide
example : parseBool "tRUE".toList = none := by decide
example : parseBool "".toList = none := by decide
example : natToDec 0 = "0".toList := by decide
example : natToDec 1234567890 = "1234567890".toList := by decide
example : intToDec (-2147483648) = "-2147483648".toList := by decide
example : intToDec 0 = "0".toList := by decide
example : parseKind .u32 "-1".toList = none := by decide
example : parseKind .i32 (printKind 2147483648) = none := by decide

end Sebuf
