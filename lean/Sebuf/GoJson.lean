import Sebuf.WireEnc
import Sebuf.Dec
/-!
`Impl`, encode side, for the templates that encode through Go's `encoding/json`.

Three generated `MarshalJSON` families hand protoc-gen-go structs to `encoding/json`:

* flatten (`flatten.go`): `protojson.Marshal(x)`, then for every flatten field the CHILD is
  encoded with `json.Marshal(x.Child)` and its members are copied into the parent under
  `prefix + key`;
* discriminated oneof (`oneof_discriminator.go`): `protojson.Marshal(x)`, the discriminator is
  added, and a flattened message variant is encoded with `json.Marshal(inner)` and merged
  (a marshal error is silently dropped);
* map-value-unwrap container (`unwrap.go`): every field of the container is encoded on its own:
  messages with protojson, scalars, repeated scalars and regular maps with `json.Marshal`.

`json.Marshal` of a protoc-gen-go struct (`goMsg`) is NOT the proto3 JSON mapping: keys are the
struct tags `json:"proto_name,omitempty"`, 64-bit integers and enums are numbers (an enum whose
Go type got a `MarshalJSON` from `enum_value` annotations prints its string), `omitempty` drops
zero scalars / empty lists and maps / nil pointers (proto3 `optional` scalars are pointers and are
printed when present, even zero; `optional bytes` is a plain slice), NaN and ±Inf and
`map<bool, _>` make the call FAIL, a `google.protobuf.Timestamp` is the struct
`{seconds, nanos}`, a oneof is the untagged interface field (key = Go field name, always
present, `null` when unset, else the wrapper struct `{"GoMemberName": value}`), and a child whose
type has its own generated `MarshalJSON` is encoded by that method (`serverEnc`).

Everything here is structurally recursive on a fuel argument so that closed witnesses reduce
by `decide` / `rfl`. `pjMsg` is this file's structural copy of plain protojson (`Mapping.pj`).
-/
namespace Sebuf.GoJson
open Sebuf Sebuf.Mapping Sebuf.Json Sebuf.WireEnc

def optMapM {α β : Type} (f : α → Option β) : List α → Option (List β)
  | [] => some []
  | a :: t => match f a, optMapM f t with
    | some b, some r => some (b :: r)
    | _, _ => none

/-! ### plain protojson (structural) -/

mutual
  def pjMsg (rq : Request) : Nat → Message → List (Str × Val) → Json
    | 0, _, _ => Json.null
    | n + 1, m, vs =>
      Json.obj (m.fields.filterMap fun f => (vs.lookup f.name).map fun v => (f.json, pjVal rq n f v))
  def pjVal (rq : Request) : Nat → Field → Val → Json
    | 0, _, _ => Json.null
    | n + 1, f, v =>
      match v with
      | .list l => Json.arr (l.map fun e => pjVal rq n f e)
      | .map kvs => Json.obj (kvs.map fun p => (p.1, pjVal rq n f p.2))
      | .msg vs => (match rq.findMessage f.typeName with
          | some m => pjMsg rq n m vs
          | none => Json.null)
      | s => scalarJson rq false f s
end

/-! ### leaves of `encoding/json` -/

def isZeroFloatTok (t : Str) : Bool := t == "0".toList || t == "-0".toList

/-- Go's `isEmptyValue` / the container template's `!= 0`, `!= ""`, `len(..) > 0` checks. -/
def isZeroScalar : Val → Bool
  | .int i => i == 0
  | .bool b => !b
  | .str s => s.isEmpty
  | .float t q => !q && isZeroFloatTok t
  | .bytes b => b.isEmpty
  | .enum n => n == 0
  | _ => false

/-- an enum under `encoding/json`: the number, unless the enum type carries the `MarshalJSON`
generated for `enum_value` annotations (custom value, else the proto name, else the decimal text). -/
def goEnum (rq : Request) (f : Field) (n : Int) : Json :=
  match rq.findEnum f.typeName with
  | some e =>
    if e.hasCustom then
      match e.values.find? (·.1 == n) with
      | some (_, name, custom) => Json.str (custom.getD name)
      | none => Json.str (intToDec n)
    else Json.num (JNum.int n)
  | none => Json.num (JNum.int n)

def tsStruct (secs : Int) (nanos : Nat) : Json :=
  Json.obj ((if secs == 0 then [] else [("seconds".toList, Json.num (JNum.int secs))]) ++
            (if nanos == 0 then [] else [("nanos".toList, Json.num (JNum.int nanos))]))

/-- `json.Marshal` of one scalar Go value of field `f` (`none`: the call fails). -/
def goScalar (rq : Request) (f : Field) : Val → Option Json
  | .int i => some (Json.num (JNum.int i))
  | .bool b => some (Json.bool b)
  | .str s => some (Json.str s)
  | .float t q => if q then none else some (Json.num (JNum.float t))
  | .bytes b => some (Json.str (bytesToStr (b64Encode .std b)))
  | .enum n => some (goEnum rq f n)
  | .ts s n _ _ => some (tsStruct s n)
  | _ => none

/-- the value type of map field `f` has a repeated field annotated `unwrap`. -/
def unwrapValueField (rq : Request) (f : Field) : Option Field :=
  if f.card == .map && f.kind == .message then
    (rq.findMessage f.typeName).bind fun v => v.fields.find? (·.unwrap)
  else none

def isRootUnwrap (m : Message) : Bool := m.fields.length == 1 && m.fields.any (·.unwrap)

/-- the map-value-unwrap container template owns the type's `MarshalJSON` (root unwrap messages
are emitted by the root template instead). -/
def isContainer (rq : Request) (m : Message) : Bool := !(isRootUnwrap m) && isUnwrapContainer rq m

/-- `WireEnc.encodeFails`, plus the combined root-map + value-unwrap template
(`json.Marshal(wrapper.GetItems())` on a float slice holding NaN / ±Inf). -/
def encodeFailsRq (rq : Request) (m : Message) (vs : List (Str × Val)) : Bool :=
  encodeFails m vs ||
  (match m.fields with
   | [f] =>
     f.unwrap &&
     (match unwrapValueField rq f, vs.lookup f.name with
      | some uf, some (.map kvs) =>
        uf.kind != .message && kvs.any fun p =>
          match p.2 with
          | .msg wvs => (match wvs.lookup uf.name with
              | some (.list l) => l.any fun v => match v with | .float _ q => q | _ => false
              | _ => false)
          | _ => false
      | _, _ => false)
   | _ => false)

def discriminated (m : Message) : List OneofDecl := m.oneofs.filter fun o => o.hasConfig && o.discriminator != []

def discValue (f : Field) : Str :=
  match f.oneofValue with
  | some v => if v.isEmpty then f.name else v
  | none => f.name

/-- members of a JSON value copied into a Go map under `prefix + key`. -/
def mergeInto (pre : Str) (kvs : List (Str × Json)) (raw : List (Str × Json)) : List (Str × Json) :=
  kvs.foldl (fun r p => oset (pre ++ p.1) p.2 r) raw

/-! ### `json.Marshal` of protoc-gen-go structs and the three templates -/

mutual
  /-- what the Go server sends for a value of type `m` at top level: the type's own generated
  `MarshalJSON` when there is one, else protojson (`none`: the encoder returns an error). -/
  def serverEnc (rq : Request) : Nat → Message → List (Str × Val) → Option Json
    | 0, _, _ => none
    | n + 1, m, vs =>
      if Impl.hasFlatten m then flattenEnc rq n m vs
      else if Impl.needsOneofMarshal m then some (oneofEnc rq n m vs)
      else if isRootUnwrap m then rootEnc rq n m vs
      else if isContainer rq m then containerEnc rq n m vs
      else if encodeFailsRq rq m vs then none
      else some (wireEnc rq (n + 1) m vs)

  /-- `json.Marshal(ptr)` for a message pointer of the type named `ty`. -/
  def goMsgAt (rq : Request) : Nat → Str → List (Str × Val) → Option Json
    | 0, _, _ => none
    | n + 1, ty, vs =>
      match rq.findMessage ty with
      | some c => if hasCustomMarshal rq c then serverEnc rq n c vs else goMsg rq n c vs
      | none => none

  /-- a list element / map value / oneof member: no `omitempty`. -/
  def goElem (rq : Request) : Nat → Field → Val → Option Json
    | 0, _, _ => none
    | n + 1, f, v =>
      match v with
      | .msg vs => goMsgAt rq n f.typeName vs
      | s => goScalar rq f s

  /-- the struct of a message type WITHOUT generated `MarshalJSON`. -/
  def goMsg (rq : Request) : Nat → Message → List (Str × Val) → Option Json
    | 0, _, _ => none
    | n + 1, m, vs =>
      match optMapM (fun f => goField rq n f (vs.lookup f.name)) (m.fields.filter fun f => f.oneof.isNone),
            optMapM (fun o => goOneof rq n m o vs) m.oneofs with
      | some fs, some os => some (Json.obj (fs.flatten ++ os))
      | _, _ => none

  /-- one tagged struct field (`json:"name,omitempty"`): the members it contributes. -/
  def goField (rq : Request) : Nat → Field → Option Val → Option (List (Str × Json))
    | 0, _, _ => none
    | _, _, none => some []
    | n + 1, f, some v =>
      match v with
      | .map kvs =>
        if kvs.isEmpty then some []
        else if f.mapKey == .bool then none
        else (optMapM (fun p => (goElem rq n f p.2).map fun j => (p.1, j)) kvs).map fun o => [(f.name, Json.obj o)]
      | .list l =>
        if l.isEmpty then some []
        else (optMapM (fun e => goElem rq n f e) l).map fun a => [(f.name, Json.arr a)]
      | .msg vs => (goMsgAt rq n f.typeName vs).map fun j => [(f.name, j)]
      | .ts s ns _ _ => some [(f.name, tsStruct s ns)]
      | s =>
        if f.card == .optional then
          (match s with
           | .bytes b => if b.isEmpty then some [] else (goScalar rq f s).map fun j => [(f.name, j)]
           | _ => (goScalar rq f s).map fun j => [(f.name, j)])
        else if isZeroScalar s then some []
        else (goScalar rq f s).map fun j => [(f.name, j)]

  /-- the untagged interface field of a oneof. -/
  def goOneof (rq : Request) : Nat → Message → OneofDecl → List (Str × Val) → Option (Str × Json)
    | 0, _, _, _ => none
    | n + 1, m, o, vs =>
      match (m.fields.filter fun f => f.oneof == some o.name).find? fun f => (vs.lookup f.name).isSome with
      | none => some (goCamelCase o.name, Json.null)
      | some f =>
        match vs.lookup f.name with
        | some v => (goElem rq n f v).map fun j => (goCamelCase o.name, Json.obj [(goCamelCase f.name, j)])
        | none => some (goCamelCase o.name, Json.null)

  /-- `flatten.go`, `MarshalJSON`. -/
  def flattenEnc (rq : Request) : Nat → Message → List (Str × Val) → Option Json
    | 0, _, _ => none
    | n + 1, m, vs =>
      let base : List (Str × Json) := match pjMsg rq (n + 1) m vs with | Json.obj kvs => kvs | _ => []
      ((m.fields.filter (·.flatten)).foldl (fun acc f => acc.bind fun raw =>
          match vs.lookup f.name with
          | some (.msg cvs) =>
            (match goMsgAt rq n f.typeName cvs with
             | none => none
             | some (Json.obj kvs) => some (mergeInto f.flattenPrefix kvs (odel f.json raw))
             | some Json.null => some (odel f.json raw)
             | some _ => none)
          | _ => some raw) (some base)).map Json.obj

  /-- `oneof_discriminator.go`, `MarshalJSON` (never fails: a marshal error of a flattened
  variant is dropped together with the variant's members). -/
  def oneofEnc (rq : Request) : Nat → Message → List (Str × Val) → Json
    | 0, _, _ => Json.null
    | n + 1, m, vs =>
      let base : List (Str × Json) := match pjMsg rq (n + 1) m vs with | Json.obj kvs => kvs | _ => []
      Json.obj ((discriminated m).foldl (fun raw d =>
        match (m.fields.filter fun f => f.oneof == some d.name).find? fun f => (vs.lookup f.name).isSome with
        | none => raw
        | some f =>
          let raw1 := oset d.discriminator (Json.str (discValue f)) raw
          if d.flatten && f.kind == .message then
            match vs.lookup f.name with
            | some v =>
              let merged := match goElem rq n f v with
                | some (Json.obj kvs) => mergeInto [] kvs raw1
                | _ => raw1
              odel f.json merged
            | none => raw1
          else raw1) base)

  /-- `unwrap.go`, `MarshalJSON` of a root-unwrap message (its single field is annotated `unwrap`):
  the bare array / object. Message items go through protojson, scalar slices and maps through
  `json.Marshal` (nil slice / map: `null`; 64-bit integers and enums as numbers). -/
  def rootEnc (rq : Request) : Nat → Message → List (Str × Val) → Option Json
    | 0, _, _ => none
    | n + 1, m, vs =>
      match m.fields with
      | [f] =>
        if f.card == .map then
          let kvs : List (Str × Val) := match vs.lookup f.name with | some (.map kvs) => kvs | _ => []
          match unwrapValueField rq f with
          | some uf => (optMapM (fun p => unwrapEntry rq n uf p) kvs).map Json.obj
          | none =>
            if f.kind == .message then some (Json.obj (kvs.map fun p => (p.1, pjVal rq (n + 1) f p.2)))
            else if kvs.isEmpty then some Json.null
            else if f.mapKey == .bool then none
            else (optMapM (fun p => (goScalar rq f p.2).map fun j => (p.1, j)) kvs).map Json.obj
        else
          let l : List Val := match vs.lookup f.name with | some (.list l) => l | _ => []
          if f.kind == .message then some (Json.arr (l.map fun e => pjVal rq (n + 1) f e))
          else if l.isEmpty then some Json.null
          else (optMapM (fun e => goScalar rq f e) l).map Json.arr
      | _ => none

  /-- one entry of a map whose value type unwraps to its repeated field `uf`. -/
  def unwrapEntry (rq : Request) : Nat → Field → Str × Val → Option (Str × Json)
    | 0, _, _ => none
    | n + 1, uf, p =>
      match p.2 with
      | .msg wvs =>
        (match wvs.lookup uf.name with
         | some (.list l) =>
           if uf.kind == .message then some (p.1, Json.arr (l.map fun e => pjVal rq (n + 1) uf e))
           else (optMapM (fun e => goScalar rq uf e) l).map fun a => (p.1, Json.arr a)
         | _ => some (p.1, if uf.kind == .message then Json.arr [] else Json.null))
      | _ => none

  /-- `unwrap.go`, `MarshalJSON` of a message holding a map whose value type unwraps. -/
  def containerEnc (rq : Request) : Nat → Message → List (Str × Val) → Option Json
    | 0, _, _ => none
    | n + 1, m, vs =>
      (optMapM (fun f => containerField rq n f (vs.lookup f.name)) m.fields).map fun l => Json.obj l.flatten

  def containerField (rq : Request) : Nat → Field → Option Val → Option (List (Str × Json))
    | 0, _, _ => none
    | _, _, none => some []
    | n + 1, f, some v =>
      match unwrapValueField rq f, v with
      | some uf, .map kvs => (optMapM (fun p => unwrapEntry rq n uf p) kvs).map fun o => [(f.json, Json.obj o)]
      | _, .map kvs =>
        if kvs.isEmpty then some []
        else if f.mapKey == .bool then none
        else (optMapM (fun p => (goElem rq n f p.2).map fun j => (p.1, j)) kvs).map fun o => [(f.json, Json.obj o)]
      | _, .list l =>
        if l.isEmpty then some []
        else if f.kind == .message then some [(f.json, Json.arr (l.map fun e => pjVal rq (n + 1) f e))]
        else (optMapM (fun e => goScalar rq f e) l).map fun a => [(f.json, Json.arr a)]
      | _, .msg cvs => some [(f.json, pjVal rq (n + 1) f (.msg cvs))]
      | _, .ts s ns r d => some [(f.json, pjVal rq (n + 1) f (.ts s ns r d))]
      | _, s => if isZeroScalar s then some [] else (goScalar rq f s).map fun j => [(f.json, j)]
end

/-- `json.Marshal` of a struct of type `m` (a type without generated `MarshalJSON`). -/
def goJson (rq : Request) (fuel : Nat) (m : Message) (vs : List (Str × Val)) : Option Json := goMsg rq fuel m vs

/-- does the value hold a negative zero in a place `omitempty` / `!= 0` drops? (the decoded
message then holds +0). -/
def negZeroScalar : Val → Bool
  | .float t q => !q && t == "-0".toList
  | _ => false

end Sebuf.GoJson
