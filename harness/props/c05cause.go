package props

import (
	"fmt"
	"math"
	"strings"

	"google.golang.org/protobuf/proto"
	"google.golang.org/protobuf/reflect/protoreflect"

	"verif/harness/ir"
)

// Root-cause names for the divergences of the codec checks (C04 / C05). Whether a divergence is
// a known finding is decided by the exact agreement of the real behaviour with the Lean Impl
// model (codecCtx.decodeCheck / codecCheck); the functions here only choose the KEY it is filed
// under: one key per root cause, derived from the template that owns the differing place (the
// top-level message's, or that of a nested message reached through encoding/json), the model's
// error explanation and the place where the values differ.

// codecCtx carries what the divergence classifiers need about one case.
type codecCtx struct {
	res interface {
		Corr(key, what string, replay any)
		CorrAgree()
		Divergence(key, what string, implAgrees bool, replay any)
		Violation(key, what string, replay any)
	}
	k        *codecCase
	prop     string
	feat     string
	template string // flatten | oneof | container | root | surgery (the Lean model's dispatch)
	replay   map[string]any
	realJSON any // the real encoder's output
	// unknownKeys: every member key the model calls unknown somewhere in the contract-form document
	unknownKeys []string
}

func (cc *codecCtx) msg() *ir.Message {
	m, _ := cc.k.x.req.FindMessage(cc.k.full)
	return m
}

func (cc *codecCtx) find(full string) *ir.Message {
	m, _ := cc.k.x.req.FindMessage(full)
	return m
}

// goCamel is protogen's GoCamelCase for the identifiers the codec files use (snake_case names).
func goCamel(s string) string {
	var b strings.Builder
	up := true
	for _, c := range s {
		if c == '_' {
			up = true
			continue
		}
		if up && c >= 'a' && c <= 'z' {
			c -= 'a' - 'A'
		}
		up = c >= '0' && c <= '9'
		b.WriteRune(c)
	}
	return b.String()
}

func hasNonFiniteFloat(m protoreflect.Message) bool {
	found := false
	var walk func(m protoreflect.Message)
	isBad := func(fd protoreflect.FieldDescriptor, v protoreflect.Value) bool {
		if fd.Kind() != protoreflect.FloatKind && fd.Kind() != protoreflect.DoubleKind {
			return false
		}
		f := v.Float()
		return f != f || f > 1.7976931348623157e308 || f < -1.7976931348623157e308
	}
	walk = func(m protoreflect.Message) {
		m.Range(func(fd protoreflect.FieldDescriptor, v protoreflect.Value) bool {
			switch {
			case fd.IsMap():
				v.Map().Range(func(_ protoreflect.MapKey, e protoreflect.Value) bool {
					if fd.MapValue().Kind() == protoreflect.MessageKind {
						walk(e.Message())
					} else if isBad(fd.MapValue(), e) {
						found = true
					}
					return true
				})
			case fd.IsList():
				for i := 0; i < v.List().Len(); i++ {
					if fd.Kind() == protoreflect.MessageKind {
						walk(v.List().Get(i).Message())
					} else if isBad(fd, v.List().Get(i)) {
						found = true
					}
				}
			case fd.Kind() == protoreflect.MessageKind:
				walk(v.Message())
			default:
				if isBad(fd, v) {
					found = true
				}
			}
			return true
		})
	}
	walk(m)
	return found
}

// encodeErrorCause names the root cause of an encoder error.
func (cc *codecCtx) encodeErrorCause(e string) string {
	what := "encoding_json_error"
	switch {
	case strings.Contains(e, "unsupported value"):
		what = "non_finite_float"
	case strings.Contains(e, "unsupported type: map[bool]"):
		what = "bool_key_map"
	}
	switch cc.template {
	case "flatten":
		return "flatten_child_" + what
	case "container":
		return "unwrap_container_" + what
	case "oneof":
		return "oneof_" + what
	}
	if m := cc.msg(); m != nil && len(m.Fields) == 1 && m.Fields[0].Ann.Unwrap {
		if m.Fields[0].Card == "map" && m.Fields[0].Kind == "message" {
			return "root_map_value_unwrap_" + what
		}
		return "root_unwrap_" + what
	}
	return cc.feat + ":" + what
}

// templateOf: which generated codec template owns messages of type m (the Lean model's dispatch,
// GoJson.serverEnc).
func (cc *codecCtx) templateOf(m *ir.Message) string {
	if m == nil {
		return "surgery"
	}
	for _, f := range m.Fields {
		if f.Ann.Flatten != nil && *f.Ann.Flatten {
			return "flatten"
		}
	}
	for _, o := range m.Oneofs {
		if o.Discriminator != nil && *o.Discriminator != "" {
			return "oneof"
		}
	}
	if len(m.Fields) == 1 && m.Fields[0].Ann.Unwrap {
		return "root"
	}
	for _, f := range m.Fields {
		if f.Card == "map" && f.Kind == "message" && cc.unwrapFieldOf(f) != nil {
			return "container"
		}
	}
	return "surgery"
}

// unwrapFieldOf: the repeated field annotated unwrap of map field f's value type (nil if none).
func (cc *codecCtx) unwrapFieldOf(f *ir.Field) *ir.Field {
	if f.Card != "map" || f.Kind != "message" {
		return nil
	}
	if w := cc.find(f.TypeName); w != nil {
		for _, wf := range w.Fields {
			if wf.Ann.Unwrap {
				return wf
			}
		}
	}
	return nil
}

func (cc *codecCtx) allMessages() []*ir.Message {
	var out []*ir.Message
	var walk func(ms []*ir.Message)
	walk = func(ms []*ir.Message) {
		for _, m := range ms {
			out = append(out, m)
			walk(m.Nested)
		}
	}
	// the case's own type first
	if m := cc.msg(); m != nil {
		out = append(out, m)
	}
	for _, f := range cc.k.x.req.Files {
		walk(f.Messages)
	}
	return out
}

// flattenKeySpace says whether a top-level JSON key of m belongs to one of m's flattened children:
// how it is spelled there ("snake": prefix + proto name, as encoding/json writes it; "camel":
// prefix + JSON name, the documented form; "oneof": prefix + the Go name of a oneof of the child).
func (cc *codecCtx) flattenKeySpace(m *ir.Message, seg string) (childField *ir.Field, spelling string, ok bool) {
	if m == nil {
		return nil, "", false
	}
	for _, f := range m.Fields {
		if f.Ann.Flatten == nil || !*f.Ann.Flatten {
			continue
		}
		prefix := ""
		if f.Ann.FlattenPrefix != nil {
			prefix = *f.Ann.FlattenPrefix
		}
		c := cc.find(f.TypeName)
		if c == nil || !strings.HasPrefix(seg, prefix) {
			continue
		}
		rest := strings.TrimPrefix(seg, prefix)
		for _, cf := range c.Fields {
			if rest == cf.JSON() {
				return cf, "camel", true
			}
			if rest == cf.Name {
				return cf, "snake", true
			}
		}
		for _, o := range c.Oneofs {
			if rest == goCamel(o.Name) {
				return nil, "oneof", true
			}
		}
	}
	return nil, "", false
}

// selectedVariant is the populated member of m's discriminated oneof in value v (nil when unset).
func (cc *codecCtx) selectedVariant(m *ir.Message, v protoreflect.Message) (*ir.Oneof, *ir.Field) {
	if m == nil {
		return nil, nil
	}
	for _, o := range m.Oneofs {
		if o.Discriminator == nil || *o.Discriminator == "" {
			continue
		}
		for _, f := range m.Fields {
			if f.Oneof != o.Name {
				continue
			}
			fd := v.Descriptor().Fields().ByName(protoreflect.Name(f.Name))
			if fd != nil && v.Has(fd) {
				return o, f
			}
		}
		return o, nil
	}
	return nil, nil
}

// variantKeySpace: is seg a member a flattened variant of m's oneof hoists to m's level?
func (cc *codecCtx) variantKeySpace(m *ir.Message, seg string) (childField *ir.Field, spelling string, ok bool) {
	if m == nil {
		return nil, "", false
	}
	for _, o := range m.Oneofs {
		if o.Discriminator == nil || !o.Flatten {
			continue
		}
		for _, f := range m.Fields {
			if f.Oneof != o.Name || f.Kind != "message" {
				continue
			}
			c := cc.find(f.TypeName)
			if c == nil {
				continue
			}
			for _, cf := range c.Fields {
				if seg == cf.JSON() {
					return cf, "camel", true
				}
				if seg == cf.Name {
					return cf, "snake", true
				}
			}
			for _, co := range c.Oneofs {
				if seg == goCamel(co.Name) {
					return nil, "oneof", true
				}
			}
		}
	}
	return nil, "", false
}

func plainIdent(s string) bool {
	if s == "" {
		return false
	}
	for _, c := range s {
		if !(c == '_' || c >= '0' && c <= '9' || c >= 'a' && c <= 'z' || c >= 'A' && c <= 'Z') {
			return false
		}
	}
	return true
}

// underKey: diff lies at or below "/key" — the remainder after it ("" = at the key itself).
func underKey(diff, key string) (string, bool) {
	p := "/" + key
	if diff == p {
		return "", true
	}
	if strings.HasPrefix(diff, p+"/") {
		return diff[len(p):], true
	}
	return "", false
}

// underLongestKey finds the member of obj the diff path enters (member names may hold '/').
func underLongestKey(diff string, obj map[string]any) (key, rest string, ok bool) {
	for k := range obj {
		if r, in := underKey(diff, k); in && (!ok || len(k) > len(key)) {
			key, rest, ok = k, r, true
		}
	}
	return
}

// annotationOf names the codec feature a field's annotations select ("" when it has none).
func annotationOf(req *ir.Request, f *ir.Field) string {
	switch {
	case f.Ann.Int64Enc == "NUMBER":
		return "int64"
	case f.Ann.EnumEnc == "NUMBER":
		return "enumnum"
	case f.Ann.Nullable != nil && *f.Ann.Nullable:
		return "nullable"
	case f.Ann.EmptyBehavior != "":
		return "empty"
	case f.Ann.TsFormat != "" && f.Ann.TsFormat != "RFC3339":
		return "ts"
	case f.Ann.BytesEnc != "" && f.Ann.BytesEnc != "BASE64":
		return "bytes"
	case f.Ann.Flatten != nil && *f.Ann.Flatten:
		return "flatten"
	case f.Ann.Unwrap:
		return "unwrap"
	}
	if f.Kind == "enum" {
		if e := req.FindEnum(f.TypeName); e != nil {
			for _, v := range e.Values {
				if v.Custom != nil {
					return "enumval"
				}
			}
		}
	}
	return ""
}

// deepContext walks a diff path through the schema and the real JSON down to the field it ends
// at: "<feature>@<context>", the feature being the annotation of that field (else the feature
// its message is named after) and the context how the message holding it is embedded (top /
// child / list_element / map_value / oneof_variant).
func (cc *codecCtx) deepContext(diff string) string {
	cur := cc.msg()
	if cur == nil {
		return "?"
	}
	ctx := "top"
	var node any = cc.realJSON
	rest := diff
	var leaf *ir.Field
	for rest != "" {
		var f *ir.Field
		var fr string
		for _, x := range cur.Fields {
			if r, in := underKey(rest, x.JSON()); in && (f == nil || len(x.Name) > len(f.Name)) {
				f, fr = x, r
			}
		}
		if f == nil {
			break
		}
		leaf = f
		rest = fr
		if obj, _ := node.(map[string]any); obj != nil {
			node = obj[f.JSON()]
		} else {
			node = nil
		}
		if f.Kind != "message" || f.TypeName == ".google.protobuf.Timestamp" || rest == "" {
			break
		}
		next := "child"
		switch f.Card {
		case "repeated":
			next = "list_element"
			i := 1
			for i < len(rest) && rest[i] != '/' {
				i++
			}
			if arr, _ := node.([]any); arr != nil {
				var idx int
				fmt.Sscan(rest[1:i], &idx)
				if idx < len(arr) {
					node = arr[idx]
				}
			}
			rest = rest[i:]
		case "map":
			next = "map_value"
			obj, _ := node.(map[string]any)
			k, r, ok := underLongestKey(rest, obj)
			if !ok {
				rest = ""
				break
			}
			node, rest = obj[k], r
		}
		if f.Oneof != "" {
			next = "oneof_variant"
		}
		child := cc.find(f.TypeName)
		if child == nil {
			break
		}
		cur, ctx, leaf = child, next, nil
	}
	feature := featureOf(cur.Name)
	if leaf != nil {
		if a := annotationOf(cc.k.x.req, leaf); a != "" {
			feature = a
		}
	}
	return feature + "@" + ctx
}

func firstSeg(diff string) (string, []string) {
	parts := strings.Split(strings.TrimPrefix(diff, "/"), "/")
	if len(parts) == 0 {
		return "", nil
	}
	return parts[0], parts[1:]
}

// mappingCause names the root cause of a server-JSON-vs-documented-mapping difference at diff.
func (cc *codecCtx) mappingCause(diff string) string {
	seg, _ := firstSeg(diff)
	m := cc.msg()
	switch cc.template {
	case "root":
		if m != nil && len(m.Fields) == 1 && diff != "/" {
			f := m.Fields[0]
			if f.Card == "map" && f.Kind == "message" {
				if w := cc.find(f.TypeName); w != nil {
					for _, wf := range w.Fields {
						if wf.Ann.Unwrap && wf.Kind != "message" {
							entries, _ := cc.realJSON.(map[string]any)
							if _, er, ok := underLongestKey(diff, entries); ok && er == "" {
								return "unwrap_map_value_nil_scalar_list_as_null"
							}
							return "root_unwrap_scalar_via_encoding_json"
						}
					}
				}
			} else if f.Kind != "message" {
				return "root_unwrap_scalar_via_encoding_json"
			}
		}
		if diff == "/" {
			return "unwrap@top"
		}
	case "flatten":
		if _, _, ok := cc.flattenKeySpace(m, seg); ok {
			return "flatten_child_via_encoding_json"
		}
	case "oneof":
		if _, _, ok := cc.variantKeySpace(m, seg); ok {
			if _, f := cc.selectedVariant(m, cc.k.val); f != nil {
				fd := cc.k.val.Descriptor().Fields().ByName(protoreflect.Name(f.Name))
				if fd != nil && fd.Kind() == protoreflect.MessageKind && hasNonFiniteFloat(cc.k.val.Get(fd).Message()) {
					return "oneof_flatten_variant_dropped_on_marshal_error"
				}
			}
			return "oneof_flatten_variant_via_encoding_json"
		}
	case "container":
		if m != nil {
			for _, f := range m.Fields {
				if f.JSON() != seg {
					continue
				}
				if f.Card == "map" && f.Kind == "message" {
					if w := cc.find(f.TypeName); w != nil {
						for _, wf := range w.Fields {
							if wf.Ann.Unwrap && wf.Kind != "message" {
								obj, _ := cc.realJSON.(map[string]any)
								entries, _ := obj[seg].(map[string]any)
								if r, in := underKey(diff, seg); in {
									if _, er, ok := underLongestKey(r, entries); ok && er == "" {
										return "unwrap_map_value_nil_scalar_list_as_null"
									}
								}
								return "unwrap_map_value_scalar_via_encoding_json"
							}
							if wf.Ann.Unwrap {
								return cc.fallbackContext(diff)
							}
						}
					}
					return "unwrap_container_sibling_via_encoding_json"
				}
				if f.Kind != "message" || f.Card == "map" {
					return "unwrap_container_sibling_via_encoding_json"
				}
			}
		}
	}
	return cc.fallbackContext(diff)
}

// fallbackContext: the (feature, context) naming of the nested-annotation findings. Files of the
// first generator name messages after their feature (contextOf reads the names); codec files are
// walked down to the annotated field.
func (cc *codecCtx) fallbackContext(diff string) string {
	if cc.k.x.file.Package == "codec.v1" {
		return cc.deepContext(diff)
	}
	return contextOf(cc.k.x.req, cc.k.full, diff)
}

// decodeErrorCause names the root cause of a decoder error from the model's explanation
// (class, key) — or from the real error text when the model has none.
func (cc *codecCtx) decodeErrorCause(class, key, realErr string) string {
	if class == "" {
		switch {
		case strings.Contains(realErr, "unknown field"):
			class = "unknown_field"
			if i := strings.Index(realErr, "unknown field \""); i >= 0 {
				key = strings.TrimSuffix(strings.TrimSpace(realErr[i+len("unknown field \""):]), "\"")
			}
		case strings.Contains(realErr, "cannot unmarshal"):
			class = "go_type"
		default:
			class = "bad_value"
		}
	}
	if class == "bad_value" && cc.customEnumField(key) {
		return "enumval"
	}
	top := cc.msg()
	switch class {
	case "unknown_field":
		// a member the generated ENCODER wrote under the struct tag / Go name and no decoder step
		// consumes: at the top level or in a nested message decoded through its own UnmarshalJSON
		for _, m := range cc.allMessages() {
			if cf, sp, ok := cc.flattenKeySpace(m, key); ok {
				if sp == "oneof" {
					return "flatten_child_oneof_key"
				}
				if sp == "snake" && cf != nil && cf.Name != cf.JSON() {
					return "flatten_multiword_child_key"
				}
			}
			if cf, sp, ok := cc.variantKeySpace(m, key); ok {
				if sp == "oneof" {
					return "oneof_flatten_variant_oneof_key"
				}
				if sp == "snake" && cf != nil && cf.Name != cf.JSON() {
					return "oneof_flatten_multiword_variant_key"
				}
			}
		}
		// otherwise protojson met a member of a nested annotated message's documented form
		return cc.feat
	case "go_type":
		switch cc.template {
		case "root":
			return "root_unwrap_scalar_via_encoding_json"
		case "flatten":
			return "flatten_child_via_encoding_json"
		case "oneof":
			if o, _ := cc.selectedVariant(top, cc.k.val); o != nil && o.Flatten {
				return "oneof_flatten_variant_via_encoding_json"
			}
			return "oneof_nested_variant_via_encoding_json"
		case "container":
			return "unwrap_container_sibling_via_encoding_json"
		}
	}
	return cc.feat
}

// customEnumField: is name a field of some message of the case's file whose enum type carries
// enum_value annotations? (protojson knows only the proto value names.)
func (cc *codecCtx) customEnumField(name string) bool {
	for _, f := range cc.k.x.req.Files {
		var walk func(ms []*ir.Message) bool
		walk = func(ms []*ir.Message) bool {
			for _, m := range ms {
				for _, fl := range m.Fields {
					if fl.Name == name && fl.Kind == "enum" {
						if e := cc.k.x.req.FindEnum(fl.TypeName); e != nil {
							for _, v := range e.Values {
								if v.Custom != nil {
									return true
								}
							}
						}
					}
				}
				if walk(m.Nested) {
					return true
				}
			}
			return false
		}
		if walk(f.Messages) {
			return true
		}
	}
	return false
}

// leafDiff is the first place two messages of one type differ: the field path down to it, the
// original-side message holding each field of the path, and what each side has at the leaf.
type leafDiff struct {
	path            []protoreflect.FieldDescriptor
	msgs            []protoreflect.Message
	origHas, gotHas bool
	orig            protoreflect.Value
}

func scalarEq(fd protoreflect.FieldDescriptor, a, b protoreflect.Value) bool {
	switch fd.Kind() {
	case protoreflect.FloatKind, protoreflect.DoubleKind:
		x, y := a.Float(), b.Float()
		return math.Float64bits(x) == math.Float64bits(y) || (x != x && y != y)
	case protoreflect.BytesKind:
		return string(a.Bytes()) == string(b.Bytes())
	}
	return a.Interface() == b.Interface()
}

func firstLeafDiff(a, b protoreflect.Message) *leafDiff {
	fds := a.Descriptor().Fields()
	for i := 0; i < fds.Len(); i++ {
		fd := fds.Get(i)
		ha, hb := a.Has(fd), b.Has(fd)
		if !ha && !hb {
			continue
		}
		here := &leafDiff{path: []protoreflect.FieldDescriptor{fd}, msgs: []protoreflect.Message{a}, origHas: ha, gotHas: hb}
		if ha {
			here.orig = a.Get(fd)
		}
		if ha != hb {
			return here
		}
		sub := func(x, y protoreflect.Message) *leafDiff {
			if d := firstLeafDiff(x, y); d != nil {
				d.path = append([]protoreflect.FieldDescriptor{fd}, d.path...)
				d.msgs = append([]protoreflect.Message{a}, d.msgs...)
				return d
			}
			return nil
		}
		switch {
		case fd.IsMap():
			ma, mb := a.Get(fd).Map(), b.Get(fd).Map()
			if ma.Len() != mb.Len() {
				return here
			}
			var out *leafDiff
			ma.Range(func(k protoreflect.MapKey, va protoreflect.Value) bool {
				if !mb.Has(k) {
					out = here
					return false
				}
				if fd.MapValue().Kind() == protoreflect.MessageKind {
					out = sub(va.Message(), mb.Get(k).Message())
				} else if !scalarEq(fd.MapValue(), va, mb.Get(k)) {
					out = here
				}
				return out == nil
			})
			if out != nil {
				return out
			}
		case fd.IsList():
			la, lb := a.Get(fd).List(), b.Get(fd).List()
			if la.Len() != lb.Len() {
				return here
			}
			for j := 0; j < la.Len(); j++ {
				if fd.Kind() == protoreflect.MessageKind {
					if d := sub(la.Get(j).Message(), lb.Get(j).Message()); d != nil {
						return d
					}
				} else if !scalarEq(fd, la.Get(j), lb.Get(j)) {
					return here
				}
			}
		case fd.Kind() == protoreflect.MessageKind:
			if d := sub(a.Get(fd).Message(), b.Get(fd).Message()); d != nil {
				return d
			}
		default:
			if !scalarEq(fd, a.Get(fd), b.Get(fd)) {
				return here
			}
		}
	}
	return nil
}

func multiWord(fd protoreflect.FieldDescriptor) bool { return string(fd.Name()) != fd.JSONName() }

// omitemptyCause: a leaf that encoding/json's omitempty (or the container's `!= 0`) dropped.
func omitemptyCause(d *leafDiff) string {
	leaf := d.path[len(d.path)-1]
	if !d.origHas || d.gotHas || leaf.IsList() || leaf.IsMap() {
		return ""
	}
	switch leaf.Kind() {
	case protoreflect.FloatKind, protoreflect.DoubleKind:
		if v := d.orig.Float(); v == 0 && math.Signbit(v) {
			return "negative_zero_dropped_by_omitempty"
		}
	case protoreflect.BytesKind:
		if leaf.HasOptionalKeyword() && len(d.orig.Bytes()) == 0 {
			return "optional_empty_bytes_dropped_by_omitempty"
		}
	}
	return ""
}

// valueCauseAt applies the rules of the template that owns message level i of the diff path
// ("" when none of them explains the difference).
func (cc *codecCtx) valueCauseAt(d *leafDiff, i int, tmpl string) string {
	orig := d.msgs[i]
	m := cc.find("." + string(orig.Descriptor().FullName()))
	if m == nil {
		return ""
	}
	top := d.path[i]
	var topIR *ir.Field
	for _, f := range m.Fields {
		if f.Name == string(top.Name()) {
			topIR = f
		}
	}
	if topIR == nil {
		return ""
	}
	sub := d.path[i:]
	viaGoJSON := false // the differing leaf sits in a subtree this template hands to encoding/json
	switch tmpl {
	case "flatten":
		if topIR.Ann.Flatten != nil && *topIR.Ann.Flatten {
			return "flatten_child_lost"
		}
	case "oneof":
		if o, f := cc.selectedVariant(m, orig); o != nil && f != nil && f.Name == topIR.Name && o.Flatten && top.Kind() == protoreflect.MessageKind {
			if orig.Has(top) && hasNonFiniteFloat(orig.Get(top).Message()) {
				return "oneof_flatten_variant_dropped_on_marshal_error"
			}
			viaGoJSON = true
		}
	case "container":
		switch {
		case cc.unwrapFieldOf(topIR) != nil:
			return "unwrap_map_value"
		case topIR.Card == "map" && topIR.Kind == "message", topIR.Kind != "message":
			viaGoJSON = true
		}
	}
	if !viaGoJSON {
		return ""
	}
	if c := omitemptyCause(d); c != "" {
		return c
	}
	if len(sub) >= 2 && d.origHas && !d.gotHas && multiWord(sub[1]) {
		// a member written lowerCamel (proto3 JSON) never matches the struct tag (snake_case)
		if tmpl == "oneof" {
			return "oneof_flatten_multiword_variant_field_dropped"
		}
		return "unwrap_container_map_value_member_dropped"
	}
	return tmpl + "_value"
}

// decodeValueCause names the root cause of "decodes, but to a different message" from where the
// original and the decoded message first differ: the innermost message on that path whose type
// has an encoding/json template decides.
func (cc *codecCtx) decodeValueCause(got proto.Message) string {
	x := proto.Clone(cc.k.val).ProtoReflect()
	y := proto.Clone(got).ProtoReflect()
	lossyAll(cc.k.x.req, cc.k.full, x)
	lossyAll(cc.k.x.req, cc.k.full, y)
	dropEmptyFlattenChildren(cc.k.x.req, cc.k.full, x)
	dropEmptyFlattenChildren(cc.k.x.req, cc.k.full, y)
	d := firstLeafDiff(x, y)
	if d == nil {
		return cc.feat
	}
	for i := len(d.path) - 1; i >= 0; i-- {
		tmpl := cc.templateOf(cc.find("." + string(d.msgs[i].Descriptor().FullName())))
		if i == 0 && cc.template != "" {
			tmpl = cc.template
		}
		if tmpl == "surgery" || tmpl == "root" {
			continue
		}
		if c := cc.valueCauseAt(d, i, tmpl); c != "" {
			return c
		}
	}
	return cc.feat
}
