import Sebuf.Str
import Sebuf.Gen.Verbs
/-!
Route derivation in the five generators (`Impl`), transcribed from
`httpgen.getMethodPath/getHTTPMethod`, `clientgen/tsclientgen.buildRPCMethodConfig`,
`tsservergen.buildRPCRouteConfig`, `openapiv3.extractMethodHTTPInfo/processMethod`.
The verb table is the regenerated fact `Gen.Verbs`.
-/
namespace Sebuf

inductive Generator | goHttp | goClient | tsClient | tsServer | openapi
deriving DecidableEq, Repr

def Generator.all : List Generator := [.goHttp, .goClient, .tsClient, .tsServer, .openapi]

/-- What the generators read of one RPC. -/
structure MethodIn where
  svcName    : Str          -- proto service name
  methName   : Str          -- proto method name
  methGoName : Str          -- protogen GoName of the method
  goPkg      : Str          -- Go package name of the file
  base       : Str          -- service base_path ("" when absent)
  hasConfig  : Bool         -- method has (sebuf.http.config)
  path       : Str          -- config.path
  verbNum    : Nat          -- config.method enum number
  queryNames : List Str     -- query parameter names of query-annotated input fields, in field order
  queryRequired : List Str := []  -- the query parameter names annotated `required: true`, in field order
deriving Repr

structure Route where
  verb       : Str
  template   : Str
  pathVars   : List Str
  queryNames : List Str
  hasBody    : Bool
  /-- query parameters the artefact marks REQUIRED (go-http: `QueryParamConfig.Required`, OpenAPI:
  `required: true`); the clients and the TS server carry no such flag (always `[]`). -/
  queryRequired : List Str := []
deriving DecidableEq, Repr

/-- `annotations.HTTPMethodToString` over the regenerated switch table. -/
def verbOfNum (n : Nat) : Str :=
  match Gen.Verbs.table.lookup n with
  | some s => s.toList
  | none => Gen.Verbs.fallback.toList

/-- the verb every Go/TS generator uses: config.Method when a config exists (never empty), else POST. -/
def verbOf (m : MethodIn) : Str :=
  if m.hasConfig then
    (let v := verbOfNum m.verbNum; if v = [] then "POST".toList else v)
  else "POST".toList

def isBodyVerb (v : Str) : Bool := v = "POST".toList ∨ v = "PUT".toList ∨ v = "PATCH".toList
def isQueryVerb (v : Str) : Bool := v = "GET".toList ∨ v = "DELETE".toList

/-- custom path: config.path when a config exists and it is non-empty. -/
def customPath (m : MethodIn) : Str := if m.hasConfig then m.path else []

/-- `httpgen.getMethodPath`. -/
def goHttpPath (m : MethodIn) : Str :=
  let c := customPath m
  if m.base ≠ [] ∧ c ≠ [] then
    trimSuffixSlash m.base ++ (if hasPrefixSlash c then c else '/' :: c)
  else if c ≠ [] then c
  else if m.base ≠ [] then trimSuffixSlash m.base ++ '/' :: camelToSnake m.methGoName
  else '/' :: m.goPkg ++ '/' :: camelToSnake m.methGoName

/-- `buildRPCMethodConfig` (go-client, ts-client) and `buildRPCRouteConfig` (ts-server). -/
def clientPath (m : MethodIn) : Str :=
  let c := customPath m
  buildHTTPPath m.base (if c ≠ [] then c else '/' :: lowerFirst m.methGoName)

/-- `openapiv3.extractMethodHTTPInfo`. -/
def openapiPath (m : MethodIn) : Str :=
  if m.base ≠ [] ∨ m.hasConfig then buildHTTPPath m.base (customPath m)
  else '/' :: m.svcName ++ '/' :: m.methName

def toLowerStr (s : Str) : Str := s.map toLowerAscii
def toUpperStr (s : Str) : Str := s.map toUpperAscii

/-- OpenAPI files the operation under the lower-cased verb; an unknown verb goes to `post`. -/
def openapiVerbLower (m : MethodIn) : Str :=
  let v := if m.hasConfig then toLowerStr (verbOfNum m.verbNum) else []
  let v := if v = [] then "post".toList else v
  if v = "get".toList ∨ v = "post".toList ∨ v = "put".toList ∨ v = "delete".toList ∨ v = "patch".toList
  then v else "post".toList

def pathVarsOf (m : MethodIn) : List Str := if m.hasConfig then extractPathParams m.path else []

/-- first occurrences only (`uniquePathParams` in `internal/openapiv3/generator.go`). -/
def uniqueFirst : List Str → List Str
  | [] => []
  | x :: xs => x :: (uniqueFirst xs).filter (fun y => !(y == x))

/-- OpenAPI path parameters: every variable of the FULL template (base path included), once
(`fix: openapi: declare every variable of the full path template exactly once`). -/
def openapiPathVars (m : MethodIn) : List Str :=
  if m.base ≠ [] ∨ m.hasConfig then uniqueFirst (extractPathParams (buildHTTPPath m.base (customPath m))) else []

def route (g : Generator) (m : MethodIn) : Route :=
  match g with
  | .goHttp =>
    let v := verbOf m
    { verb := v, template := goHttpPath m, pathVars := pathVarsOf m, queryNames := m.queryNames,
      hasBody := isBodyVerb v, queryRequired := m.queryRequired }
  | .goClient | .tsClient | .tsServer =>
    let v := verbOf m
    { verb := v, template := clientPath m, pathVars := pathVarsOf m,
      queryNames := if isQueryVerb v then m.queryNames else [], hasBody := isBodyVerb v }
  | .openapi =>
    let v := toUpperStr (openapiVerbLower m)
    { verb := v, template := openapiPath m, pathVars := openapiPathVars m, queryNames := m.queryNames,
      hasBody := isBodyVerb v, queryRequired := m.queryRequired }

end Sebuf
