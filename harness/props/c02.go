package props

import (
	"encoding/json"
	"fmt"
	"net/url"
	"strings"
	"sync"

	"google.golang.org/protobuf/reflect/protoreflect"
	"google.golang.org/protobuf/types/dynamicpb"

	"verif/harness/drv"
	"verif/harness/gen"
	"verif/harness/ir"
	"verif/harness/scratch"
)

func init() { Registry["C02"] = C02 }

type urlVal struct {
	field    *ir.Field
	name     string // query parameter name or path variable
	text     string
	present  bool
	class    string // valid | out_of_range | malformed | percent | repeated | absent | empty
	extra    string // second occurrence for "repeated"
	// texts: every occurrence, for a `repeated` field (each occurrence is one element)
	texts []string
	required bool
}

var badInts = []string{"abc", "1.5", "0x10", " 1", "1e3", "9999999999999999999999", "--1", "１"}

func urlValueFor(r *gen.R, f *ir.Field, sample string, isPath bool) urlVal {
	uv := urlVal{field: f, present: true, text: sample, class: "valid"}
	pick := r.Intn(10)
	switch f.Kind {
	case "string":
		switch pick {
		case 0:
			uv.text, uv.class = "a%2Fb c&d=e", "percent"
		case 1:
			uv.text, uv.class = "%41%zz", "percent"
		case 2:
			uv.text, uv.class = "x y+z", "percent"
		}
	case "bool":
		switch pick {
		case 0:
			uv.text, uv.class = "yes", "malformed"
		case 1:
			uv.text, uv.class = "T", "valid"
		case 2:
			uv.text, uv.class = "2", "malformed"
		}
	case "float", "double":
		switch pick {
		case 0:
			uv.text, uv.class = "abc", "malformed"
		case 1:
			uv.text, uv.class = "1e400", "out_of_range"
		case 2:
			uv.text, uv.class = "NaN", "valid"
		case 3:
			// beyond the float32 range, inside the float64 range: out of range for `float` only
			uv.text, uv.class = gen.Pick(r, []string{"1e39", "-4e38", "3.5e38"}), "valid"
			if f.Kind == "float" {
				uv.class = "out_of_range"
			}
		case 4:
			uv.text, uv.class = gen.Pick(r, []string{"3.4028235e38", "-3.4028235e38", "1e-46"}), "valid" // the float32 edges
		}
	default:
		switch pick {
		case 0:
			uv.text, uv.class = gen.Pick(r, badInts), "malformed"
		case 1:
			switch f.Kind {
			case "int32", "sint32", "sfixed32":
				uv.text = gen.Pick(r, []string{"2147483648", "-2147483649"})
			case "uint32", "fixed32":
				uv.text = gen.Pick(r, []string{"4294967296", "-1"})
			case "uint64", "fixed64":
				uv.text = gen.Pick(r, []string{"18446744073709551616", "-1"})
			default:
				uv.text = gen.Pick(r, []string{"9223372036854775808", "-9223372036854775809"})
			}
			uv.class = "out_of_range"
		case 2:
			uv.text, uv.class = "+7", "valid"
		case 3:
			// decimal only: a leading zero is not octal, a prefix or a digit separator is malformed
			uv.text, uv.class = gen.Pick(r, []string{"0010", "0100", "007", "08"}), "valid"
		case 4:
			uv.text, uv.class = gen.Pick(r, []string{"0x1F", "0b11", "0o17", "1_000", "0X10"}), "malformed"
		}
	}
	if !isPath && f.Card == "repeated" {
		// 0..3 occurrences; string elements may contain commas (an element, not a separator), a
		// numeric element "1,2" is malformed
		n := r.Intn(4)
		uv.texts, uv.class, uv.present = nil, "list", n > 0
		for i := 0; i < n; i++ {
			e := urlValueFor(r, &ir.Field{Name: f.Name, Kind: f.Kind}, sample, true)
			if r.P(1, 4) {
				if f.Kind == "string" {
					e.text = gen.Pick(r, []string{"Doe, John", "a,b", ",", "x,"})
				} else {
					e.text, e.class = "1,2", "malformed"
				}
			}
			if e.class != "valid" && e.class != "percent" {
				uv.class = "list_bad_element"
			}
			uv.texts = append(uv.texts, e.text)
		}
		if n > 0 {
			uv.text = uv.texts[0]
		}
		if n == 0 {
			uv.class = "absent"
		}
		return uv
	}
	if !isPath {
		switch r.Intn(12) {
		case 0:
			uv.present, uv.class = false, "absent"
		case 1:
			uv.extra, uv.class = "999", "repeated"
		case 2:
			if f.Kind != "string" {
				uv.text, uv.class = "", "empty"
			}
		}
	}
	return uv
}

// C02: URL-carried fields reach the handler with the URL's value, for every verb.
func C02(c *Ctx) error {
	res := c.Res
	res.Rule = "raw HTTP requests against the really compiled generated Go server: every RPC with path variables / query parameters x body in {absent, empty, {}, object with other fields} x URL values in {valid incl. boundary, out of range, malformed, percent-encoded, repeated, absent, empty}; " +
		"a case is one request; non-trivial = it carries at least one URL-bound value; distinct by (verb, body class, per-field (kind, value class))"
	res.Assumptions = append(res.Assumptions, "the oracle's conversion of URL text uses Go strconv with the protobuf bit size of the kind", "requests are parsed by net/http.ReadRequest and served in process by the generated mux")
	r := gen.New(c.Seed)
	n := c.N(6, 40)
	perMethod := c.N(25, 120)
	bt, items, err := buildBatch(n, func(i int) *ir.Request {
		return gen.GenRuntimeFile(r.Fork(fmt.Sprint("c02-", i)), i, gen.RuntimeOpts{ManyMethods: i%2 == 1, RepeatedQuery: true, JSONNames: i%3 == 0, OptionalQuery: true, BareMethod: true})
	}, scratch.AddOpts{GoHTTP: true}, false)
	if err != nil {
		return err
	}
	defer bt.Close()
	type kase struct {
		x        *rtItem
		mi       *methodInfo
		op       map[string]any
		pathVals []urlVal
		qVals    []urlVal
		bodyCls  string
		bodyMsg  *dynamicpb.Message // what the body decodes to (nil: no decode)
		bodyHas  map[string]bool
		dop      map[string]any
	}
	var all []*kase
	for xi, x := range items {
		if !x.it.Built {
			res.Violation("build", "a schema generated to be valid does not build: "+x.it.GenErr+firstLines(x.it.BuildLog, 8), map[string]any{"schema": x.req})
			continue
		}
		rr := r.Fork(fmt.Sprint("cases-", xi))
		for _, mi := range x.methods() {
			if len(mi.pathVars)+len(mi.query) == 0 {
				continue
			}
			md := x.msgDesc(mi.m.Input)
			for k := 0; k < perMethod; k++ {
				ks := &kase{x: x, mi: mi, bodyHas: map[string]bool{}}
				pb := map[string]bool{}
				for _, v := range mi.pathVars {
					pb[v] = true
				}
				sample := gen.RandomMessage(rr, md, &gen.ValOpts{PathBound: pb, SparseP: 0}, 0)
				// URL values
				target := strings.TrimSuffix(mi.svc.BasePath, "/")
				ownPath := ""
				if mi.m.Config != nil {
					ownPath = mi.m.Config.Path
				} else {
					// no (sebuf.http.config): the default route under the base path
					ownPath = strings.TrimPrefix(mi.template, strings.TrimSuffix(mi.svc.BasePath, "/"))
				}
				for _, seg := range strings.Split(ownPath, "/")[1:] {
					if strings.HasPrefix(seg, "{") {
						name := seg[1 : len(seg)-1]
						f := mi.in.Field(name)
						fd := md.Fields().ByName(protoreflect.Name(name))
						uv := urlValueFor(rr, f, sprintField(fd, sample.Get(fd)), true)
						uv.name = name
						if uv.text == "" || uv.text == "." || uv.text == ".." {
							uv.text, uv.class = "x", "valid"
							if f.Kind != "string" {
								uv.text = "1"
							}
						}
						ks.pathVals = append(ks.pathVals, uv)
						target += "/" + url.PathEscape(uv.text)
					} else {
						target += "/" + seg
					}
				}
				var qs []string
				for _, f := range mi.query {
					fd := md.Fields().ByName(protoreflect.Name(f.Name))
					uv := urlValueFor(rr, f, sprintField(fd, sample.Get(fd)), false)
					uv.name = mi.queryName(f)
					uv.required = f.Ann.Query.Required
					ks.qVals = append(ks.qVals, uv)
					if f.Card == "repeated" {
						for _, t := range uv.texts {
							qs = append(qs, url.QueryEscape(uv.name)+"="+url.QueryEscape(t))
						}
					} else if uv.present {
						qs = append(qs, url.QueryEscape(uv.name)+"="+url.QueryEscape(uv.text))
						if uv.extra != "" {
							qs = append(qs, url.QueryEscape(uv.name)+"="+url.QueryEscape(uv.extra))
						}
					}
				}
				if len(qs) > 0 {
					target += "?" + strings.Join(qs, "&")
				}
				op := map[string]any{"op": "serve", "method": mi.verb, "url": target, "handler": map[string]any{"kind": "ok"},
					"headers": [][2]string{{"Content-Type", "application/json"}}}
				// body
				switch bc := rr.Intn(5); bc {
				case 0:
					ks.bodyCls = "absent"
					op["no_body"] = true
				case 1:
					ks.bodyCls = "empty"
					op["body"] = ""
				case 2:
					ks.bodyCls = "{}"
					op["body"] = b64([]byte("{}"))
					ks.bodyMsg = dynamicpb.NewMessage(md)
				default:
					ks.bodyCls = "other_fields"
					bm := dynamicpb.NewMessage(md)
					full := gen.RandomMessage(rr, md, &gen.ValOpts{SparseP: 3}, 0)
					full.Range(func(fd protoreflect.FieldDescriptor, v protoreflect.Value) bool {
						if !mi.isURLBound(string(fd.Name())) {
							bm.Set(fd, v)
							ks.bodyHas[string(fd.Name())] = true
						}
						return true
					})
					op["body"] = b64(gen.PJ(bm))
					ks.bodyMsg = bm
					if len(ks.bodyHas) == 0 {
						ks.bodyCls = "{}"
					}
				}
				ks.op = op
				// model digest
				mk := func(uv urlVal, isPath bool) map[string]any {
					_, fok := specConvert(uv.field.Kind, uv.text)
					d := map[string]any{"f": uv.field.Name, "kind": uv.field.Kind, "required": uv.required, "float_ok": fok, "is_list": uv.field.Card == "repeated"}
					if uv.present {
						d["text"] = uv.text
					}
					if uv.field.Card == "repeated" {
						ts, oks := []string{}, []bool{}
						for _, t := range uv.texts {
							_, ok := specConvert(uv.field.Kind, t)
							ts, oks = append(ts, t), append(oks, ok)
						}
						d["texts"], d["floats_ok"] = ts, oks
					}
					return d
				}
				var dp, dq []any
				for _, uv := range ks.pathVals {
					dp = append(dp, mk(uv, true))
				}
				for _, uv := range ks.qVals {
					dq = append(dq, mk(uv, false))
				}
				dop := map[string]any{"op": "bind_case", "body_verb": mi.bodyVerb(), "path": dp, "query": dq}
				if ks.bodyMsg != nil && mi.bodyVerb() {
					names := []string{}
					for k := range ks.bodyHas {
						names = append(names, k)
					}
					dop["body"] = names
				}
				ks.dop = dop
				all = append(all, ks)
			}
		}
	}
	// run
	byItem := map[*rtItem][]*kase{}
	for _, k := range all {
		byItem[k.x] = append(byItem[k.x], k)
	}
	outs := map[*kase]map[string]any{}
	var outsMu sync.Mutex
	var runErr error
	var its []*rtItem
	for x := range byItem {
		its = append(its, x)
	}
	parallel(len(its), func(i int) {
		x := its[i]
		var ops []any
		for _, k := range byItem[x] {
			ops = append(ops, k.op)
		}
		o, err := runItem(x, ops)
		if err != nil {
			runErr = err
			return
		}
		outsMu.Lock()
		for j, k := range byItem[x] {
			outs[k] = o[j]
		}
		outsMu.Unlock()
	})
	if runErr != nil {
		return runErr
	}
	var dops []map[string]any
	for _, k := range all {
		dops = append(dops, k.dop)
	}
	var douts []map[string]any
	if drv.Available() {
		if douts, err = drv.Run(dops); err != nil {
			res.Corr("driver", "Lean driver failed: "+err.Error(), nil)
			douts = nil
		}
	} else {
		res.Corr("driver", "Lean driver binary missing (model did not build)", nil)
	}
	for i, k := range all {
		o := outs[k]
		canon := map[string]any{"verb": k.mi.verb, "body": k.bodyCls}
		var fc []string
		for _, uv := range append(append([]urlVal{}, k.pathVals...), k.qVals...) {
			fc = append(fc, uv.field.Kind+":"+uv.class)
			res.Count("url:" + uv.class)
		}
		canon["fields"] = fc
		res.Case(canon, true)
		res.Count("body:" + k.bodyCls)
		res.Count("verb:" + k.mi.verb)
		replay := map[string]any{"schema": k.x.req, "request": k.op, "real": o}
		status := jsonInt(o["status"])
		called := jsonInt(o["called"])
		seen, _ := o["seen"].(map[string]any)
		if fault, ok := o["fault"].(string); ok && fault != "" {
			res.Violation("fault", k.mi.verb+" "+fmt.Sprint(k.op["url"])+": server "+fault, replay)
			continue
		}
		md := k.x.msgDesc(k.mi.m.Input)
		// ---- Spec ----
		var failing []string
		for _, uv := range k.pathVals {
			if _, ok := specConvert(uv.field.Kind, uv.text); !ok {
				failing = append(failing, uv.field.Name)
			}
		}
		for _, uv := range k.qVals {
			if !uv.present {
				if uv.required {
					failing = append(failing, uv.field.Name)
				}
				continue
			}
			if uv.field.Card == "repeated" {
				for _, t := range uv.texts {
					if _, ok := specConvert(uv.field.Kind, t); !ok {
						failing = append(failing, uv.field.Name)
						break
					}
				}
				continue
			}
			if _, ok := specConvert(uv.field.Kind, uv.text); !ok {
				failing = append(failing, uv.field.Name)
			}
		}
		bodyDecoded := k.bodyMsg != nil && k.mi.bodyVerb()
		// ---- Impl (Lean) ----
		implAgrees := false
		var d map[string]any
		if douts != nil {
			d = douts[i]
			replay["impl"] = d
			implStatus := jsonInt(d["status"])
			implAgrees = implStatus == status || (implStatus == 200 && status == 200)
			if implStatus != status {
				implAgrees = false
			}
			if implStatus == 400 && status == 400 {
				bf, _ := d["bad_field"].(string)
				if rf := firstViolationField(o); rf != bf {
					implAgrees = false
				}
			}
			if implStatus == 200 && status == 200 {
				fields, _ := d["fields"].(map[string]any)
				for _, uv := range append(append([]urlVal{}, k.pathVals...), k.qVals...) {
					fd := md.Fields().ByName(protoreflect.Name(uv.field.Name))
					_, inImpl := fields[uv.field.Name]
					key, val := "", any(nil)
					if uv.present {
						key, val = urlFieldJSON(md, fd, uv)
					}
					got, inSeen := seen[fd.JSONName()]
					// the model says the field holds the URL value iff it is in `fields` and not from_body
					if inImpl {
						if fm, _ := fields[uv.field.Name].(map[string]any); fm["from_body"] == nil {
							if key == "" {
								if inSeen {
									implAgrees = false
								}
							} else if !inSeen || !jsonEq(got, val) {
								implAgrees = false
							}
						}
					} else if inSeen && !k.bodyHas[uv.field.Name] {
						implAgrees = false
					}
				}
			}
			if implAgrees {
				res.CorrAgree()
			} else {
				res.Corr("bind", fmt.Sprintf("%s %v: real (status %d, seen %v) differs from the model %v", k.mi.verb, k.op["url"], status, seen, d), replay)
			}
		}
		// ---- oracle ----
		if len(failing) > 0 {
			if status != 400 || called != 0 {
				res.Violation("bad_url_value_dispatched", fmt.Sprintf("%s %v: fields %v cannot be converted / are missing, yet status=%d handler calls=%d", k.mi.verb, k.op["url"], failing, status, called), replay)
				continue
			}
			rf := firstViolationField(o)
			ok := false
			for _, f := range failing {
				if f == rf {
					ok = true
				}
			}
			if !ok {
				res.Violation("violation_names_wrong_field", fmt.Sprintf("%s %v: 400 names %q, offending fields are %v", k.mi.verb, k.op["url"], rf, failing), replay)
			}
			continue
		}
		if status != 200 || called != 1 {
			res.Violation("valid_url_rejected", fmt.Sprintf("%s %v: every URL value converts, yet status=%d calls=%d body=%s", k.mi.verb, k.op["url"], status, called, bodyText(o)), replay)
			continue
		}
		for _, uv := range append(append([]urlVal{}, k.pathVals...), k.qVals...) {
			if !uv.present {
				continue
			}
			fd := md.Fields().ByName(protoreflect.Name(uv.field.Name))
			key, val := urlFieldJSON(md, fd, uv)
			got, inSeen := seen[fd.JSONName()]
			good := (key == "" && !inSeen) || (key != "" && inSeen && jsonEq(got, val))
			if good {
				continue
			}
			what := fmt.Sprintf("%s %v (body %s): field %s should be %v from the URL, handler saw %v", k.mi.verb, k.op["url"], k.bodyCls, uv.field.Name, val, got)
			if bodyDecoded {
				res.Divergence("body_resets_url_fields", what, implAgrees, replay)
			} else {
				res.Violation("url_value_lost", what, replay)
			}
			break
		}
	}
	res.Programs = len(items)
	return nil
}

// urlFieldJSON is the proto3 JSON member the handler-visible request must show for a URL-bound
// field: the converted value, or for a `repeated` field the list of every converted occurrence.
func urlFieldJSON(md protoreflect.MessageDescriptor, fd protoreflect.FieldDescriptor, uv urlVal) (string, any) {
	if uv.field.Card != "repeated" {
		want, _ := specConvert(uv.field.Kind, uv.text)
		if !want.IsValid() {
			return "", nil
		}
		return singleFieldJSON(md, fd, want)
	}
	m := dynamicpb.NewMessage(md)
	l := m.Mutable(fd).List()
	for _, t := range uv.texts {
		v, ok := specConvert(uv.field.Kind, t)
		if !ok {
			return "", nil
		}
		l.Append(v)
	}
	if l.Len() == 0 {
		return "", nil
	}
	var mm map[string]any
	d := json.NewDecoder(strings.NewReader(string(gen.PJ(m))))
	d.UseNumber()
	if d.Decode(&mm) != nil {
		return "", nil
	}
	for k, val := range mm {
		return k, val
	}
	return "", nil
}

func jsonInt(v any) int {
	switch x := v.(type) {
	case json.Number:
		n, _ := x.Int64()
		return int(n)
	case float64:
		return int(x)
	case int:
		return x
	}
	return -1
}

func firstViolationField(o map[string]any) string {
	bj, _ := o["body_json"].(map[string]any)
	vs, _ := bj["violations"].([]any)
	if len(vs) == 0 {
		return ""
	}
	v, _ := vs[0].(map[string]any)
	f, _ := v["field"].(string)
	return f
}

func bodyText(o map[string]any) string {
	b, _ := json.Marshal(o["body_json"])
	if len(b) > 300 {
		b = b[:300]
	}
	return string(b)
}
