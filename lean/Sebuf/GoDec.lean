import Sebuf.GoJson
import Sebuf.Decode
/-!
`Impl`, decode side: what the generated `UnmarshalJSON` of the flatten, discriminated-oneof and
map-value-unwrap-container templates yields for a JSON value — a decoded message or an error.

Two library decoders are modelled as far as the generated code drives them:

* `pjDecMsg`: `protojson.Unmarshal` (members by JSON name or proto name, `null` = unset, 64-bit
  integers as number or decimal string, enums by proto value name or number, bytes in any base64
  alphabet, Timestamps as RFC 3339 `…Z` strings, unknown member = error, two members of one oneof
  = error);
* `goDecMsg`: `json.Unmarshal` into a protoc-gen-go struct (members matched to the struct tags
  `json:"proto_name"` exactly or ASCII-case-insensitively, unmatched members DROPPED, integers
  only from integer literals, enums from numbers — or through the enum type's generated
  `UnmarshalJSON` —, bytes from padded standard base64, a Timestamp from `{seconds, nanos}`, a
  non-null member for a oneof's interface field = error, a child type with its own generated
  `UnmarshalJSON` decoded by that method).

The decoded message is a `Val` field list in field order with proto3 presence applied (zero
scalars without presence, empty lists and maps are absent). `DErr.unsupported` marks inputs
outside the model (never accepted as agreement by the harness).
-/
namespace Sebuf.GoDec
open Sebuf Sebuf.Mapping Sebuf.Json Sebuf.WireEnc Sebuf.GoJson

inductive DErr
  | unknownField (k : Str)     -- protojson: unknown field
  | badValue (k : Str)         -- protojson: invalid value / duplicate / oneof already set
  | goType (k : Str)           -- encoding/json: cannot unmarshal … into Go struct field / Go value
  | notObject
  | unsupported (what : Str)
deriving DecidableEq, Repr

abbrev R (α : Type) := Except DErr α

def exMapM {α β : Type} (f : α → R β) : List α → R (List β)
  | [] => .ok []
  | a :: t => match f a, exMapM f t with
    | .ok b, .ok r => .ok (b :: r)
    | .error e, _ => .error e
    | _, .error e => .error e

/-! ### leaves -/

def intRange (k : Kind) (i : Int) : Bool :=
  match k with
  | .int32 | .sint32 | .sfixed32 => decide (-(2 ^ 31 : Int) ≤ i ∧ i < 2 ^ 31)
  | .uint32 | .fixed32 => decide (0 ≤ i ∧ i < 2 ^ 32)
  | .int64 | .sint64 | .sfixed64 => decide (-(2 ^ 63 : Int) ≤ i ∧ i < 2 ^ 63)
  | .uint64 | .fixed64 => decide (0 ≤ i ∧ i < 2 ^ 64)
  | _ => false

def isIntKind : Kind → Bool
  | .int32 | .sint32 | .sfixed32 | .uint32 | .fixed32 | .int64 | .sint64 | .sfixed64 | .uint64 | .fixed64 => true
  | _ => false

def fracNanos (ds : Str) : Option Nat :=
  if ds.isEmpty || ds.length > 9 then none
  else (parseDigits ds).map fun n => n * 10 ^ (9 - ds.length)

/-- RFC 3339 in the form protojson prints (`YYYY-MM-DDTHH:MM:SS[.fraction]Z`). -/
def parseRfc (s : Str) : Option (Int × Nat) :=
  match s with
  | y1 :: y2 :: y3 :: y4 :: '-' :: m1 :: m2 :: '-' :: d1 :: d2 :: 'T' :: h1 :: h2 :: ':' :: i1 :: i2 :: ':' :: s1 :: s2 :: rest =>
    match Decode.parseDate [y1, y2, y3, y4, '-', m1, m2, '-', d1, d2], Decode.digits2 h1 h2, Decode.digits2 i1 i2, Decode.digits2 s1 s2 with
    | some days, some hh, some mi, some ss =>
      if hh < 24 ∧ mi < 60 ∧ ss < 60 then
        let secs : Int := days * 86400 + (hh * 3600 + mi * 60 + ss : Nat)
        match rest with
        | ['Z'] => some (secs, 0)
        | '.' :: fr =>
          (match fr.reverse with
           | 'Z' :: rd => (fracNanos rd.reverse).map fun n => (secs, n)
           | _ => none)
        | _ => none
      else none
    | _, _, _, _ => none
  | _ => none

/-- smallest key (byte order) — `json.Marshal` of a Go map sorts the keys, protojson stops at the
first offending member. -/
def strLt : Str → Str → Bool
  | [], [] => false
  | [], _ :: _ => true
  | _ :: _, [] => false
  | a :: s, b :: t => if a.toNat < b.toNat then true else if b.toNat < a.toNat then false else strLt s t

def minKey : List Str → Option Str
  | [] => none
  | k :: t => match minKey t with
    | none => some k
    | some k' => if strLt k' k then some k' else some k

/-- proto3 presence: is a decoded singular value kept in the populated-field list? -/
def keepField (f : Field) (v : Val) : Bool :=
  match v with
  | .list l => !l.isEmpty
  | .map kvs => !kvs.isEmpty
  | .msg _ => true
  | .ts _ _ _ _ => true
  | s => f.card == .optional || f.oneof.isSome || !(isZeroScalar s && !negZeroScalar s)

def mapKeyOk (k : Kind) (s : Str) : Option Str :=
  match k with
  | .string => some s
  | .bool => if s == "true".toList || s == "false".toList then some s else none
  | kk => (parseSigned s).bind fun i => if intRange kk i && s == intToDec i then some s else none

/-! ### protojson.Unmarshal -/

def pjScalar (rq : Request) (f : Field) (j : Json) : R Val :=
  match f.kind, j with
  | .string, .str s => .ok (.str s)
  | .bool, .bool b => .ok (.bool b)
  | .bytes, .str s => (match Decode.pjBytes s with | some b => .ok (.bytes b) | none => .error (.badValue f.name))
  | .float, .num (.float t) | .double, .num (.float t) => .ok (.float t false)
  | .float, .num (.int i) | .double, .num (.int i) => .ok (.float (intToDec i) false)
  | .float, .str s | .double, .str s =>
    if s == "NaN".toList || s == "Infinity".toList || s == "-Infinity".toList then .ok (.float s true)
    else .error (.unsupported "numeric string for a float".toList)
  | .enum, .str s =>
    (match rq.findEnum f.typeName with
     | some e => (match e.values.find? (fun v => v.2.1 == s) with
         | some (n, _, _) => .ok (.enum n)
         | none => .error (.badValue f.name))
     | none => .error (.badValue f.name))
  | .enum, .num (.int n) => if intRange .int32 n then .ok (.enum n) else .error (.badValue f.name)
  | k, .num (.int i) => if isIntKind k then (if intRange k i then .ok (.int i) else .error (.badValue f.name)) else .error (.badValue f.name)
  | k, .str s =>
    if isIntKind k then
      (match parseSigned s with
       | some i => if intRange k i && s == intToDec i then .ok (.int i) else .error (.unsupported "non-canonical integer string".toList)
       | none => .error (.badValue f.name))
    else .error (.badValue f.name)
  | k, .num (.float _) => if isIntKind k then .error (.unsupported "float literal for an integer".toList) else .error (.badValue f.name)
  | _, _ => .error (.badValue f.name)

mutual
  def pjDecMsg (rq : Request) : Nat → Message → Json → R (List (Str × Val))
    | 0, _, _ => .error (.unsupported "fuel".toList)
    | n + 1, m, j =>
      match j with
      | .obj kvs =>
        match minKey ((kvs.filter fun p => !(m.fields.any fun f => f.json == p.1 || f.name == p.1)).map (·.1)) with
        | some k => .error (.unknownField k)
        | none =>
          -- at most one member of a real oneof
          if m.oneofs.any (fun o => ((m.fields.filter fun f => f.oneof == some o.name).filter fun f =>
                (match oget f.json kvs with | some v => !v.isNull | none => false) ||
                (f.name != f.json && (match oget f.name kvs with | some v => !v.isNull | none => false))).length > 1) then
            .error (.badValue "oneof".toList)
          else
            (exMapM (fun f => pjDecField rq n f (oget f.json kvs) (if f.name == f.json then none else oget f.name kvs)) m.fields).map
              fun l => l.filterMap id
      | _ => .error .notObject

  def pjDecField (rq : Request) : Nat → Field → Option Json → Option Json → R (Option (Str × Val))
    | 0, _, _, _ => .error (.unsupported "fuel".toList)
    | _, _, none, none => .ok none
    | _, f, some _, some _ => .error (.badValue f.name)
    | n + 1, f, some j, none | n + 1, f, none, some j =>
      match j with
      | .null => .ok none
      | _ =>
        match f.card with
        | .map =>
          (match j with
           | .obj kvs =>
             (exMapM (fun p => match mapKeyOk f.mapKey p.1 with
                | some k => (pjDecElem rq n f p.2).map fun v => (k, v)
                | none => .error (.badValue f.name)) kvs).map fun l => if l.isEmpty then none else some (f.name, .map l)
           | _ => .error (.badValue f.name))
        | .repeated =>
          (match j with
           | .arr l => (exMapM (fun e => pjDecElem rq n f e) l).map fun r => if r.isEmpty then none else some (f.name, .list r)
           | _ => .error (.badValue f.name))
        | _ => (pjDecElem rq n f j).map fun v => if keepField f v then some (f.name, v) else none

  def pjDecElem (rq : Request) : Nat → Field → Json → R Val
    | 0, _, _ => .error (.unsupported "fuel".toList)
    | n + 1, f, j =>
      if f.kind == .message then
        if isTimestampName f.typeName then
          match j with
          | .str s => (match parseRfc s with
              | some (secs, ns) => if Decode.tsInRange secs then .ok (.ts secs ns s (s.take 10)) else .error (.badValue f.name)
              | none => .error (.badValue f.name))
          | _ => .error (.badValue f.name)
        else
          match rq.findMessage f.typeName, j with
          | some c, .obj kvs => (pjDecMsg rq n c (.obj kvs)).map .msg
          | _, _ => .error (.badValue f.name)
      else pjScalar rq f j
end

/-! ### the surgery family: per-field edits of the object, then protojson -/

/-- a member of an annotated field after the generated edit: left alone, replaced, deleted, or
(a Timestamp given as unix number / date) decoded on the spot. A failing conversion leaves the
member as it is — the error is dropped and protojson decides (cf. `Decode.Impl.editMember`). -/
inductive SEdit
  | keep
  | replace (j : Json)
  | delete
  | ts (secs : Int) (nanos : Nat)
  | outside                        -- a template this model does not cover

def surgeryEdit (f : Field) (j : Json) : SEdit :=
  if f.kind.isInt64 && f.int64Enc == 2 && f.card != .map then
    if f.card == .repeated then
      match Decode.goIntList (f.kind == .uint64 || f.kind == .fixed64) j with
      | some l => .replace (.arr (l.map fun n => .str (intToDec n)))
      | none => .keep
    else
      match Decode.goInt (f.kind == .uint64 || f.kind == .fixed64) j with
      | some n => .replace (.str (intToDec n))
      | none => .keep
  else if f.nullable then (if j.isNull then .delete else .keep)
  else if f.emptyBehavior == 2 then (if j.isNull then .replace (.obj []) else .keep)
  else if f.kind == .message && isTimestampName f.typeName && (f.tsFormat == 2 || f.tsFormat == 3 || f.tsFormat == 4) then
    if f.card != .singular then .outside else
    match f.tsFormat with
    | 2 => (match Decode.goInt false j with | some n => .ts n 0 | none => .keep)
    | 3 => (match Decode.goInt false j with | some n => .ts (n / 1000) ((n % 1000).toNat * 1000000) | none => .keep)
    | _ => (match Decode.goStr j with
        | some t => (match Decode.parseDate t with | some d => .ts (d * 86400) 0 | none => .keep)
        | none => .keep)
  else if f.kind == .bytes && f.bytesEnc ≥ 2 && f.bytesEnc ≤ 5 then
    if f.card != .singular then .outside else
    match Decode.goStr j with
    | some t => (match sebufBytesDecode f.bytesEnc (Decode.toBytes t) with
        | some b => .replace (.str (Decode.ofBytes (b64Encode .std b)))
        | none => .keep)
    | none => .keep
  else .keep

/-- `UnmarshalJSON` of the surgery family (int64 NUMBER, nullable, empty_behavior, timestamp_format,
bytes_encoding): one edit per annotated field, then `protojson.Unmarshal`. -/
def surgeryDec (rq : Request) (fuel : Nat) (m : Message) (j : Json) : R (List (Str × Val)) :=
  match j with
  | .obj kvs =>
    let raw := Decode.Impl.goMap kvs
    let edits : List (Field × SEdit) := m.fields.filterMap fun f => (oget f.json raw).map fun v => (f, surgeryEdit f v)
    if edits.any (fun e => match e.2 with | .outside => true | _ => false) then .error (.unsupported "generated decoder outside the model".toList)
    else
      match edits.find? (fun e => match e.2 with | .ts secs _ => !Decode.tsInRange secs | _ => false) with
      | some e => .error (.badValue e.1.name)
      | none =>
        let raw' := edits.foldl (fun r e => match e.2 with
          | .replace v => oset e.1.json v r
          | .delete => odel e.1.json r
          | .ts _ _ => odel e.1.json r
          | _ => r) raw
        (pjDecMsg rq fuel m (.obj raw')).map fun vs =>
          m.fields.filterMap fun f =>
            match edits.find? (fun e => e.1.name == f.name) with
            | some (_, .ts secs ns) => some (f.name, .ts secs ns [] [])
            | _ => (vs.lookup f.name).map fun v => (f.name, v)
  | _ => .error .notObject

/-! ### json.Unmarshal into protoc-gen-go structs -/

def goEnumDec (rq : Request) (f : Field) (j : Json) : R Val :=
  match rq.findEnum f.typeName with
  | some e =>
    if e.hasCustom then
      match j with
      | .str s =>
        -- `xFromJSON`: custom value or proto name of every value, then the proto names of the customised ones
        (match e.values.find? (fun v => (v.2.2.getD v.2.1) == s) with
         | some (n, _, _) => .ok (.enum n)
         | none => (match e.values.find? (fun v => v.2.2.isSome && v.2.1 == s) with
             | some (n, _, _) => .ok (.enum n)
             | none => .error (.goType f.name)))
      | .num (.int n) => if intRange .int32 n then .ok (.enum n) else .error (.goType f.name)
      | _ => .error (.goType f.name)
    else
      match j with
      | .num (.int n) => if intRange .int32 n then .ok (.enum n) else .error (.goType f.name)
      | _ => .error (.goType f.name)
  | none => .error (.goType f.name)

/-- one scalar Go value (`string`, `bool`, sized integers, floats, `[]byte`, enum types). -/
def goScalarDec (rq : Request) (f : Field) (j : Json) : R Val :=
  match f.kind, j with
  | .string, .str s => .ok (.str s)
  | .bool, .bool b => .ok (.bool b)
  | .bytes, .str s => (match b64Decode .std (Decode.toBytes s) with | some b => .ok (.bytes b) | none => .error (.goType f.name))
  | .float, .num (.float t) | .double, .num (.float t) => .ok (.float t false)
  | .float, .num (.int i) | .double, .num (.int i) => .ok (.float (intToDec i) false)
  | .enum, j => goEnumDec rq f j
  | k, .num (.int i) => if isIntKind k && intRange k i then .ok (.int i) else .error (.goType f.name)
  | _, _ => .error (.goType f.name)

def lowerStr (s : Str) : Str := s.map toLowerAscii

/-- the struct field a member key selects: an exact tag match, else the first field whose tag
matches ASCII-case-insensitively. `inl f`: a tagged field; `inr o`: a oneof's interface field. -/
def goFieldOf (m : Message) (k : Str) : Option (Field ⊕ OneofDecl) :=
  let plain := m.fields.filter fun f => f.oneof.isNone
  match plain.find? (fun f => f.name == k) with
  | some f => some (.inl f)
  | none =>
    match m.oneofs.find? (fun o => goCamelCase o.name == k) with
    | some o => some (.inr o)
    | none =>
      match plain.find? (fun f => lowerStr f.name == lowerStr k) with
      | some f => some (.inl f)
      | none => (m.oneofs.find? (fun o => lowerStr (goCamelCase o.name) == lowerStr k)).map .inr

/-- last binding of a key in an update list. -/
def lastOf (k : Str) : List (Str × Val) → Option Val
  | [] => none
  | (k', v) :: t => match lastOf k t with
    | some r => some r
    | none => if k' == k then some v else none

def tsOfStruct (kvs : List (Str × Json)) : R Val :=
  let get (name : Str) (k : Kind) : R Int :=
    match kvs.find? (fun p => lowerStr p.1 == name) with
    | none => .ok 0
    | some (_, .null) => .ok 0
    | some (_, .num (.int i)) => if intRange k i then .ok i else .error (.goType name)
    | some _ => .error (.goType name)
  match get "seconds".toList .int64, get "nanos".toList .int32 with
  | .ok s, .ok n => if 0 ≤ n then .ok (.ts s n.toNat [] []) else .error (.unsupported "negative nanos".toList)
  | .error e, _ => .error e
  | _, .error e => .error e

mutual
  /-- `UnmarshalJSON` of type `m` when generated, else `protojson.Unmarshal` (what the server's
  `bindDataFromJSONRequest` runs). -/
  def serverDec (rq : Request) : Nat → Message → Json → R (List (Str × Val))
    | 0, _, _ => .error (.unsupported "fuel".toList)
    | n + 1, m, j =>
      if Impl.hasFlatten m then flattenDec rq n m j
      else if Impl.needsOneofMarshal m then oneofDec rq n m j
      else if isRootUnwrap m then rootDec rq n m j
      else if isContainer rq m then containerDec rq n m j
      else if hasCustomMarshal rq m then surgeryDec rq (n + 1) m j
      else pjDecMsg rq (n + 1) m j

  /-- `json.Unmarshal(data, ptr)` for a pointer to the message type named `ty`. -/
  def goDecAt (rq : Request) : Nat → Str → Json → R (List (Str × Val))
    | 0, _, _ => .error (.unsupported "fuel".toList)
    | n + 1, ty, j =>
      match rq.findMessage ty with
      | some c => if hasCustomMarshal rq c then serverDec rq n c j else goDecMsg rq n c j
      | none => .error (.unsupported "unknown type".toList)

  def goDecMsg (rq : Request) : Nat → Message → Json → R (List (Str × Val))
    | 0, _, _ => .error (.unsupported "fuel".toList)
    | n + 1, m, j =>
      match j with
      | .null => .ok []
      | .obj kvs =>
        (exMapM (fun p =>
            match goFieldOf m p.1 with
            | none => .ok none
            | some (.inr o) => if p.2.isNull then .ok none else .error (.goType (goCamelCase o.name))
            | some (.inl f) => (goDecField rq n f p.2).map fun ov => ov.map fun v => (f.name, v)) kvs).map
          fun ups =>
            let ups := ups.filterMap id
            m.fields.filterMap fun f => (lastOf f.name ups).bind fun v => if keepField f v then some (f.name, v) else none
      | _ => .error (.goType m.name)

  /-- a member decoded into the struct field of `f` (`none`: JSON null, the field keeps its zero value). -/
  def goDecField (rq : Request) : Nat → Field → Json → R (Option Val)
    | 0, _, _ => .error (.unsupported "fuel".toList)
    | n + 1, f, j =>
      match j with
      | .null => .ok none
      | _ =>
        match f.card with
        | .map =>
          if f.mapKey == .bool then .error (.goType f.name) else
          (match j with
           | .obj kvs =>
             (exMapM (fun p => match mapKeyOk f.mapKey p.1 with
                | some k => (goDecElem rq n f p.2).map fun v => (k, v)
                | none => .error (.goType f.name)) kvs).map fun l => some (.map l)
           | _ => .error (.goType f.name))
        | .repeated =>
          (match j with
           | .arr l => (exMapM (fun e => goDecElem rq n f e) l).map fun r => some (.list r)
           | _ => .error (.goType f.name))
        | _ => (goDecElem rq n f j).map some

  def goDecElem (rq : Request) : Nat → Field → Json → R Val
    | 0, _, _ => .error (.unsupported "fuel".toList)
    | n + 1, f, j =>
      if f.kind == .message then
        if isTimestampName f.typeName then
          match j with
          | .obj kvs => tsOfStruct kvs
          | _ => .error (.goType f.name)
        else
          match j with
          | .obj kvs => (goDecAt rq n f.typeName (.obj kvs)).map .msg
          | .null => .error (.unsupported "null message element".toList)
          | other =>
            -- a child with its own UnmarshalJSON sees any JSON value; a plain struct needs an object
            (match rq.findMessage f.typeName with
             | some c => if hasCustomMarshal rq c then (goDecAt rq n f.typeName other).map .msg else .error (.goType f.name)
             | none => .error (.goType f.name))
      else goScalarDec rq f j

  /-- `flatten.go`, `UnmarshalJSON`: the child's members are moved out of the object and decoded
  into `x.Child`; then `protojson.Unmarshal(remaining, x)` RESETS `x`. -/
  def flattenDec (rq : Request) : Nat → Message → Json → R (List (Str × Val))
    | 0, _, _ => .error (.unsupported "fuel".toList)
    | n + 1, m, j =>
      match j with
      | .obj kvs =>
        let step (acc : R (List (Str × Json))) (f : Field) : R (List (Str × Json)) :=
          match acc with
          | .error e => .error e
          | .ok raw =>
            match rq.findMessage f.typeName with
            | none => .ok raw
            | some c =>
              let childRaw := c.fields.filterMap fun cf => (oget (f.flattenPrefix ++ cf.json) raw).map fun v => (cf.json, v)
              let rest := c.fields.foldl (fun r cf => odel (f.flattenPrefix ++ cf.json) r) raw
              if childRaw.isEmpty then .ok rest
              else match goDecAt rq n f.typeName (.obj childRaw) with
                | .ok _ => .ok rest
                | .error e => .error e
        match (m.fields.filter (·.flatten)).foldl step (.ok (Decode.Impl.goMap kvs)) with
        | .ok rest => pjDecMsg rq (n + 1) m (.obj rest)
        | .error e => .error e
      | _ => .error .notObject

  /-- `oneof_discriminator.go`, `UnmarshalJSON`. -/
  def oneofDec (rq : Request) : Nat → Message → Json → R (List (Str × Val))
    | 0, _, _ => .error (.unsupported "fuel".toList)
    | n + 1, m, j =>
      match j with
      | .obj kvs =>
        let step (acc : R (List (Str × Json))) (d : OneofDecl) : R (List (Str × Json)) :=
          match acc with
          | .error e => .error e
          | .ok raw =>
            match oget d.discriminator raw with
            | none => .ok raw
            | some dj =>
              match (match dj with | .str s => some s | .null => some [] | _ => none) with
              | none => .error (.goType d.discriminator)
              | some tag =>
                match (m.fields.filter fun f => f.oneof == some d.name).find? fun f => discValue f == tag with
                | none => .ok raw
                | some f =>
                  if f.kind != .message then .ok raw
                  else if d.flatten then
                    match rq.findMessage f.typeName with
                    | none => .error (.unsupported "variant type".toList)
                    | some c =>
                      let variantMap := c.fields.filterMap fun cf => (oget cf.json raw).map fun v => (cf.json, v)
                      let rest := c.fields.foldl (fun r cf => odel cf.json r) raw
                      match goDecAt rq n f.typeName (.obj variantMap) with
                      | .error e => .error e
                      | .ok vvs =>
                        -- `raw[variantKey], _ = json.Marshal(variant)`: a marshal error leaves a nil RawMessage (null)
                        .ok (oset f.json ((goMsgAt rq (n + 1) f.typeName vvs).getD Json.null) rest)
                  else
                    match oget f.json raw with
                    | none => .ok raw
                    | some vj =>
                      match (if vj.isNull then .ok [] else goDecAt rq n f.typeName vj) with
                      | .ok _ => .ok raw
                      | .error e => .error e
        match (discriminated m).foldl step (.ok (Decode.Impl.goMap kvs)) with
        | .ok raw => pjDecMsg rq (n + 1) m (.obj ((discriminated m).foldl (fun r d => odel d.discriminator r) raw))
        | .error e => .error e
      | _ => .error .notObject

  /-- `unwrap.go`, `UnmarshalJSON` of a map-value-unwrap container: the known members are read
  one by one; there is no protojson pass over the object (unknown members are ignored). -/
  def containerDec (rq : Request) : Nat → Message → Json → R (List (Str × Val))
    | 0, _, _ => .error (.unsupported "fuel".toList)
    | n + 1, m, j =>
      match j with
      | .null => .ok []
      | .obj kvs =>
        (exMapM (fun f => match oget f.json (Decode.Impl.goMap kvs) with
            | none => .ok none
            | some fj => (containerFieldDec rq n f fj).map fun ov => ov.bind fun v => if keepField f v then some (f.name, v) else none)
          m.fields).map fun l => l.filterMap id
      | _ => .error .notObject

  /-- a map whose value type unwraps to its repeated field `uf`: `{key: [items]}`. -/
  def unwrapMapDec (rq : Request) : Nat → Field → Field → Json → R (Option Val)
    | 0, _, _, _ => .error (.unsupported "fuel".toList)
    | n + 1, f, uf, j =>
      match j with
      | .null => .ok none
      | .obj kvs =>
        (exMapM (fun p =>
           match p.2 with
           | .null => .ok (p.1, Val.msg [])
           | .arr l =>
             if uf.kind == .message then
               (exMapM (fun e => pjDecElem rq (n + 1) uf e) l).map fun r => (p.1, Val.msg (if r.isEmpty then [] else [(uf.name, .list r)]))
             else
               (exMapM (fun e => if e.isNull then .error (.unsupported "null scalar element".toList) else goScalarDec rq uf e) l).map
                 fun r => (p.1, Val.msg (if r.isEmpty then [] else [(uf.name, .list r)]))
           | _ => .error (.goType f.name)) (Decode.Impl.goMap kvs)).map fun l => some (.map l)
      | _ => .error (.goType f.name)

  /-- `unwrap.go`, `UnmarshalJSON` of a root-unwrap message. -/
  def rootDec (rq : Request) : Nat → Message → Json → R (List (Str × Val))
    | 0, _, _ => .error (.unsupported "fuel".toList)
    | n + 1, m, j =>
      match m.fields with
      | [f] =>
        let wrap (r : R (Option Val)) : R (List (Str × Val)) :=
          r.map fun ov => match ov with
            | some v => if keepField f v then [(f.name, v)] else []
            | none => []
        if f.card == .map then
          match unwrapValueField rq f with
          | some uf => wrap (unwrapMapDec rq n f uf j)
          | none =>
            if f.kind == .message then
              match j with
              | .null => .ok []
              | .obj kvs => wrap ((exMapM (fun p => (pjDecElem rq (n + 1) f p.2).map fun v => (p.1, v)) (Decode.Impl.goMap kvs)).map fun l => some (.map l))
              | _ => .error (.goType f.name)
            else wrap (goDecField rq n f j)
        else if f.kind == .message then
          match j with
          | .null => .ok []
          | .arr l => wrap ((exMapM (fun e => pjDecElem rq (n + 1) f e) l).map fun r => some (.list r))
          | _ => .error (.goType f.name)
        else wrap (goDecField rq n f j)
      | _ => .error (.unsupported "root unwrap".toList)

  def containerFieldDec (rq : Request) : Nat → Field → Json → R (Option Val)
    | 0, _, _ => .error (.unsupported "fuel".toList)
    | n + 1, f, j =>
      match unwrapValueField rq f with
      | some uf => unwrapMapDec rq n f uf j
      | none =>
        match f.card with
        | .map => goDecField rq n f j
        | .repeated =>
          if f.kind == .message then
            (match j with
             | .null => .ok none
             | .arr l => (exMapM (fun e => pjDecElem rq (n + 1) f e) l).map fun r => some (.list r)
             | _ => .error (.goType f.name))
          else goDecField rq n f j
        | _ =>
          if f.kind == .message then (pjDecElem rq (n + 1) f j).map some
          else goDecField rq n f j
end

/-! ### what went wrong, by root cause (the harness files a divergence under these names) -/

/-- members of the flat object that belong to no field of `m` as protojson sees it. -/
def flatUnknown (m : Message) (kvs : List (Str × Json)) : List Str :=
  (kvs.filter fun p => !(m.fields.any fun f => f.json == p.1 || f.name == p.1)).map (·.1)

end Sebuf.GoDec
