/-
Theorems about `Sebuf/Query.lean`: what the client writes into the URL (`Values.Encode`, the
`?`, `PathEscape`d path variables) is what the server reads back (`ParseQuery`, `ServeMux`
pattern matching with `PathValue`), and the one place where it is not (dot segments).
-/
import Sebuf.Query
import Sebuf.Lemmas.Url

namespace Sebuf

/-! ## `splitByte`, `cutByte`, `joinWith` -/

theorem splitByte_append_sep (sep : Nat) (a r : Bytes) (h : sep ∉ a) :
    splitByte sep (a ++ sep :: r) = a :: splitByte sep r := by
  induction a with
  | nil => simp [splitByte]
  | cons b a ih =>
    have hb : b ≠ sep := fun e => h (e ▸ List.mem_cons_self ..)
    have ha : sep ∉ a := fun m => h (List.mem_cons_of_mem _ m)
    simp [splitByte, hb, ih ha, consHead]

theorem splitByte_no_sep (sep : Nat) (a : Bytes) (h : sep ∉ a) : splitByte sep a = [a] := by
  induction a with
  | nil => simp [splitByte]
  | cons b a ih =>
    have hb : b ≠ sep := fun e => h (e ▸ List.mem_cons_self ..)
    have ha : sep ∉ a := fun m => h (List.mem_cons_of_mem _ m)
    simp [splitByte, hb, ih ha, consHead]

/-- `strings.Split(strings.Join(xs, sep), sep) = xs` for a non-empty list of pieces that do not
contain the separator. -/
theorem splitByte_joinWith (sep : Nat) (xs : List Bytes) (hne : xs ≠ [])
    (h : ∀ x ∈ xs, sep ∉ x) : splitByte sep (joinWith sep xs) = xs := by
  induction xs with
  | nil => exact absurd rfl hne
  | cons x xs ih =>
    cases xs with
    | nil => simpa [joinWith] using splitByte_no_sep sep x (h x (List.mem_cons_self ..))
    | cons y r =>
      have ih' := ih (List.cons_ne_nil _ _) (fun z hz => h z (List.mem_cons_of_mem _ hz))
      simp only [joinWith]
      rw [splitByte_append_sep sep x _ (h x (List.mem_cons_self ..)), ih']

theorem cutByte_append_sep (sep : Nat) (a r : Bytes) (h : sep ∉ a) :
    cutByte sep (a ++ sep :: r) = (a, r) := by
  induction a with
  | nil => simp [cutByte]
  | cons b a ih =>
    have hb : b ≠ sep := fun e => h (e ▸ List.mem_cons_self ..)
    have ha : sep ∉ a := fun m => h (List.mem_cons_of_mem _ m)
    simp [cutByte, hb, ih ha]

theorem cutByte_no_sep (sep : Nat) (a : Bytes) (h : sep ∉ a) : cutByte sep a = (a, []) := by
  induction a with
  | nil => simp [cutByte]
  | cons b a ih =>
    have hb : b ≠ sep := fun e => h (e ▸ List.mem_cons_self ..)
    have ha : sep ∉ a := fun m => h (List.mem_cons_of_mem _ m)
    simp [cutByte, hb, ih ha]

/-! ## Request target -/

/-- The server recovers exactly the path and the raw query the client concatenated (the client
writes the `?` only when there is a query). -/
theorem splitTarget_render (path q : Bytes) (hp : 63 ∉ path) :
    splitTarget (path ++ (if q = [] then [] else 63 :: q)) = (path, q) := by
  unfold splitTarget
  by_cases hq : q = []
  · subst hq
    simpa using cutByte_no_sep 63 path hp
  · rw [if_neg hq]
    exact cutByte_append_sep 63 path q hp

/-! ## Query strings -/

/-- `;` never occurs in a query-escaped component. -/
theorem queryEscape_no_semicolon (bs : Bytes) : 59 ∉ queryEscape bs :=
  not_mem_escapeWith queryKeep true 59 (by decide) (by decide) (by decide) (fun _ => by decide) bs

theorem encodePair_no_amp (p : Bytes × Bytes) : 38 ∉ encodePair p := by
  unfold encodePair
  have h1 := (queryEscape_no_amp_eq p.1).1
  have h2 := (queryEscape_no_amp_eq p.2).1
  simp [h1, h2]

theorem pieceOK_encodePair (p : Bytes × Bytes) : pieceOK (encodePair p) = true := by
  unfold pieceOK encodePair
  have h1 := queryEscape_no_semicolon p.1
  have h2 := queryEscape_no_semicolon p.2
  simp [h1, h2]

theorem parsePiece_encodePair (p : Bytes × Bytes)
    (hb : (∀ b ∈ p.1, b < 256) ∧ (∀ b ∈ p.2, b < 256)) :
    parsePiece (encodePair p) = some p := by
  unfold parsePiece encodePair
  rw [cutByte_append_sep 61 _ _ (queryEscape_no_amp_eq p.1).2]
  simp only [queryUnescape_queryEscape _ hb.1, queryUnescape_queryEscape _ hb.2]

/-- Parsing the joined pairs gives back the pairs, in the same order (no hypothesis on the keys
at all: an empty key is written as `=v` and read back as the empty key). -/
theorem parseQuery_encodeValuesUnsorted (kvs : List (Bytes × Bytes))
    (hb : ∀ p ∈ kvs, (∀ b ∈ p.1, b < 256) ∧ (∀ b ∈ p.2, b < 256)) :
    parseQuery (encodeValuesUnsorted kvs) = kvs := by
  unfold parseQuery encodeValuesUnsorted
  cases hkvs : kvs with
  | nil => simp [joinWith, splitByte, pieceOK]
  | cons p ps =>
    rw [← hkvs]
    have hne : kvs.map encodePair ≠ [] := by simp [hkvs]
    rw [splitByte_joinWith 38 _ hne (by
      intro x hx
      obtain ⟨p, _, rfl⟩ := List.mem_map.1 hx
      exact encodePair_no_amp p)]
    have hf : (kvs.map encodePair).filter pieceOK = kvs.map encodePair := by
      rw [List.filter_eq_self]
      intro x hx
      obtain ⟨p, _, rfl⟩ := List.mem_map.1 hx
      exact pieceOK_encodePair p
    rw [hf]
    clear hne hf hkvs
    induction kvs with
    | nil => rfl
    | cons q qs ih =>
      simp only [List.map_cons, List.filterMap_cons,
        parsePiece_encodePair q (hb q (List.mem_cons_self ..))]
      rw [ih (fun r hr => hb r (List.mem_cons_of_mem _ hr))]

/-! ### Sorting is a permutation; lookups on distinct keys do not see the order -/

theorem insertPair_perm (p : Bytes × Bytes) (l : List (Bytes × Bytes)) :
    (insertPair p l).Perm (p :: l) := by
  induction l with
  | nil => exact List.Perm.refl _
  | cons q qs ih =>
    unfold insertPair
    by_cases h : bytesLt q.1 p.1 = true
    · rw [if_pos h]
      exact ((List.Perm.cons q ih).trans (List.Perm.swap p q qs))
    · rw [if_neg h]

theorem sortPairs_perm (kvs : List (Bytes × Bytes)) : (sortPairs kvs).Perm kvs := by
  induction kvs with
  | nil => exact List.Perm.refl _
  | cons p ps ih =>
    show (insertPair p (sortPairs ps)).Perm (p :: ps)
    exact (insertPair_perm p _).trans (List.Perm.cons p ih)

theorem queryGet_of_mem (l : List (Bytes × Bytes)) (hk : (l.map Prod.fst).Nodup)
    (p : Bytes × Bytes) (hp : p ∈ l) : queryGet p.1 l = some p.2 := by
  induction l with
  | nil => cases hp
  | cons q qs ih =>
    rw [List.map_cons, List.nodup_cons] at hk
    unfold queryGet
    rcases List.mem_cons.1 hp with rfl | hmem
    · simp
    · have hne : q.1 ≠ p.1 := by
        intro e
        exact hk.1 (e ▸ List.mem_map_of_mem (f := Prod.fst) hmem)
      rw [if_neg hne]
      exact ih hk.2 hmem

theorem queryGet_of_not_mem (l : List (Bytes × Bytes)) (k : Bytes)
    (hk : k ∉ l.map Prod.fst) : queryGet k l = none := by
  induction l with
  | nil => rfl
  | cons q qs ih =>
    rw [List.map_cons, List.mem_cons, not_or] at hk
    unfold queryGet
    rw [if_neg (fun e => hk.1 e.symm)]
    exact ih hk.2

/-- On distinct keys `queryGet` is insensitive to the order of the pairs. -/
theorem queryGet_perm (l l' : List (Bytes × Bytes)) (hperm : l.Perm l')
    (hk : (l.map Prod.fst).Nodup) (k : Bytes) : queryGet k l = queryGet k l' := by
  have hk' : (l'.map Prod.fst).Nodup := (hperm.map Prod.fst).nodup_iff.1 hk
  by_cases hmem : k ∈ l.map Prod.fst
  · obtain ⟨p, hp, rfl⟩ := List.mem_map.1 hmem
    rw [queryGet_of_mem l hk p hp, queryGet_of_mem l' hk' p (hperm.mem_iff.1 hp)]
  · have hmem' : k ∉ l'.map Prod.fst := fun m => hmem ((hperm.map Prod.fst).mem_iff.2 m)
    rw [queryGet_of_not_mem l k hmem, queryGet_of_not_mem l' k hmem']

theorem parseQuery_encodeValues (kvs : List (Bytes × Bytes))
    (hb : ∀ p ∈ kvs, (∀ b ∈ p.1, b < 256) ∧ (∀ b ∈ p.2, b < 256)) :
    parseQuery (encodeValues kvs) = sortPairs kvs := by
  unfold encodeValues
  exact parseQuery_encodeValuesUnsorted _
    (fun p hp => hb p ((sortPairs_perm kvs).mem_iff.1 hp))

/-- Every parameter the client put in the URL is read back by the server with the same value.
(`hne` is not needed by the proof; it is kept because the generated clients never emit an empty
parameter name.) -/
theorem parseQuery_encodeValues_get (kvs : List (Bytes × Bytes))
    (hk : (kvs.map Prod.fst).Nodup)
    (hb : ∀ p ∈ kvs, (∀ b ∈ p.1, b < 256) ∧ (∀ b ∈ p.2, b < 256))
    (_hne : ∀ p ∈ kvs, p.1 ≠ []) :
    ∀ p ∈ kvs, queryGet p.1 (parseQuery (encodeValues kvs)) = some p.2 := by
  intro p hp
  rw [parseQuery_encodeValues kvs hb, queryGet_perm _ _ (sortPairs_perm kvs)
    (((sortPairs_perm kvs).map Prod.fst).nodup_iff.2 hk)]
  exact queryGet_of_mem kvs hk p hp

/-- A parameter the client did not put in the URL is absent on the server. -/
theorem parseQuery_encodeValues_absent (kvs : List (Bytes × Bytes))
    (hk : (kvs.map Prod.fst).Nodup)
    (hb : ∀ p ∈ kvs, (∀ b ∈ p.1, b < 256) ∧ (∀ b ∈ p.2, b < 256))
    (_hne : ∀ p ∈ kvs, p.1 ≠ [])
    (k : Bytes) (hk' : k ∉ kvs.map Prod.fst) :
    queryGet k (parseQuery (encodeValues kvs)) = none := by
  rw [parseQuery_encodeValues kvs hb, queryGet_perm _ _ (sortPairs_perm kvs)
    (((sortPairs_perm kvs).map Prod.fst).nodup_iff.2 hk)]
  exact queryGet_of_not_mem kvs k hk'

/-- All values under a key: exactly the one the client wrote. -/
theorem parseQuery_encodeValuesUnsorted_getAll (kvs : List (Bytes × Bytes))
    (hb : ∀ p ∈ kvs, (∀ b ∈ p.1, b < 256) ∧ (∀ b ∈ p.2, b < 256)) (k : Bytes) :
    queryGetAll k (parseQuery (encodeValuesUnsorted kvs)) = queryGetAll k kvs := by
  rw [parseQuery_encodeValuesUnsorted kvs hb]

/-! ## Path templates -/

/-- A string without `%` unescapes to itself. -/
theorem pathUnescape_no_pct (s : Bytes) (h : 37 ∉ s) : pathUnescape s = some s := by
  unfold pathUnescape
  induction s with
  | nil => exact unescapeWith_nil _
  | cons b s ih =>
    have hb : b ≠ 37 := fun e => h (e ▸ List.mem_cons_self ..)
    have hs : 37 ∉ s := fun m => h (List.mem_cons_of_mem _ m)
    rw [unescapeWith_cons_ne _ _ _ hb, ih hs]
    simp

theorem segUnescape_lit (s : Bytes) (h : LitOK s) : segUnescape s = s := by
  unfold segUnescape
  rw [pathUnescape_no_pct s h.2.2.1]
  rfl

theorem segUnescape_pathEscape (v : Bytes) (h : ∀ b ∈ v, b < 256) :
    segUnescape (pathEscape v) = v := by
  unfold segUnescape
  rw [pathUnescape_pathEscape v h]
  rfl

theorem renderSeg_no_slash (vals : Bytes → Bytes) (s : Seg)
    (hl : ∀ t, s = Seg.lit t → LitOK t) : 47 ∉ renderSeg vals s := by
  cases s with
  | lit t => exact (hl t rfl).1
  | var n => exact pathEscape_no_slash _

theorem splitSlash_renderPath (tpl : List Seg) (vals : Bytes → Bytes)
    (hl : ∀ s, Seg.lit s ∈ tpl → LitOK s) (hne : tpl ≠ []) :
    splitSlash (renderPath tpl vals) = [] :: tpl.map (renderSeg vals) := by
  have hne' : tpl.map (renderSeg vals) ≠ [] := by simpa using hne
  unfold splitSlash renderPath joinSlash
  rw [show (47 :: joinWith 47 (tpl.map (renderSeg vals)))
        = [] ++ 47 :: joinWith 47 (tpl.map (renderSeg vals)) from rfl,
    splitByte_append_sep 47 [] _ (by simp), splitByte_joinWith 47 _ hne']
  intro x hx
  obtain ⟨sg, hsg, rfl⟩ := List.mem_map.1 hx
  exact renderSeg_no_slash vals sg (fun t ht => hl t (ht ▸ hsg))

theorem matchSegs_render (tpl : List Seg) (vals : Bytes → Bytes)
    (hl : ∀ s, Seg.lit s ∈ tpl → LitOK s)
    (hv : ∀ n, Seg.var n ∈ tpl → vals n ≠ [] ∧ ∀ b ∈ vals n, b < 256) :
    matchSegs tpl (tpl.map (renderSeg vals)) = some (pathBindings tpl vals) := by
  induction tpl with
  | nil => rfl
  | cons s tpl ih =>
    have ih' := ih (fun t ht => hl t (List.mem_cons_of_mem _ ht))
      (fun n hn => hv n (List.mem_cons_of_mem _ hn))
    cases s with
    | lit t =>
      have ht := hl t (List.mem_cons_self ..)
      simp only [List.map_cons, renderSeg, matchSegs, segUnescape_lit t ht, if_true, ih']
      rfl
    | var n =>
      have hn := hv n (List.mem_cons_self ..)
      simp only [List.map_cons, renderSeg, matchSegs, segUnescape_pathEscape _ hn.2,
        if_neg hn.1, ih']
      rfl

/-- A path variable's value survives escaping, routing and unescaping, for EVERY non-empty byte
string (including `/`, `?`, `%`, non-ASCII bytes). Stated with the bindings as a list in template
order, so the variable names need not be distinct. -/
theorem matchPath_renderPath (tpl : List Seg) (vals : Bytes → Bytes)
    (hl : ∀ s, Seg.lit s ∈ tpl → LitOK s)
    (hv : ∀ n, Seg.var n ∈ tpl → vals n ≠ [] ∧ ∀ b ∈ vals n, b < 256) :
    matchPath tpl (renderPath tpl vals) = some (pathBindings tpl vals) := by
  cases tpl with
  | nil => rfl
  | cons s rest =>
    unfold matchPath
    rw [splitSlash_renderPath (s :: rest) vals hl (List.cons_ne_nil _ _)]
    exact matchSegs_render (s :: rest) vals hl hv

/-- Looking a variable up by name when the names are distinct: `r.PathValue(n)`. -/
theorem matchPath_renderPath_get (tpl : List Seg) (vals : Bytes → Bytes)
    (hl : ∀ s, Seg.lit s ∈ tpl → LitOK s)
    (hv : ∀ n, Seg.var n ∈ tpl → vals n ≠ [] ∧ ∀ b ∈ vals n, b < 256)
    (hd : ((pathBindings tpl vals).map Prod.fst).Nodup)
    (n : Bytes) (hn : Seg.var n ∈ tpl) :
    (matchPath tpl (renderPath tpl vals)).bind (queryGet n) = some (vals n) := by
  rw [matchPath_renderPath tpl vals hl hv]
  have hmem : (n, vals n) ∈ pathBindings tpl vals := by
    unfold pathBindings
    exact List.mem_filterMap.2 ⟨Seg.var n, hn, rfl⟩
  exact queryGet_of_mem _ hd (n, vals n) hmem

/-! ## Dot segments (recorded defect: `PathEscape` leaves dots alone) -/

theorem isDotSeg_iff (s : Bytes) : isDotSeg s = true ↔ s = [46] ∨ s = [46, 46] := by
  simp [isDotSeg]

/-- `PathEscape` maps only `.` to `.` and only `..` to `..`. -/
theorem pathEscape_eq_dot_iff (v : Bytes) (h : ∀ b ∈ v, b < 256) :
    (pathEscape v = [46] ↔ v = [46]) ∧ (pathEscape v = [46, 46] ↔ v = [46, 46]) := by
  have hr := pathUnescape_pathEscape v h
  constructor
  · constructor
    · intro e
      rw [e] at hr
      have : pathUnescape [46] = some [46] := by decide
      rw [this] at hr
      exact (Option.some.inj hr).symm
    · intro e; subst e; decide
  · constructor
    · intro e
      rw [e] at hr
      have : pathUnescape [46, 46] = some [46, 46] := by decide
      rw [this] at hr
      exact (Option.some.inj hr).symm
    · intro e; subst e; decide

/-- The recorded defect: a path variable whose value is `.` or `..` is written unescaped, and
`ServeMux` answers such a path with a redirect to the cleaned path instead of dispatching to the
handler. -/
theorem renderPath_needsCleaning_of_dot (tpl : List Seg) (vals : Bytes → Bytes)
    (hl : ∀ s, Seg.lit s ∈ tpl → LitOK s) (n : Bytes) (hn : Seg.var n ∈ tpl)
    (hdot : vals n = [46] ∨ vals n = [46, 46]) :
    needsCleaning (renderPath tpl vals) = true := by
  have hne : tpl ≠ [] := List.ne_nil_of_mem hn
  unfold needsCleaning
  rw [splitSlash_renderPath tpl vals hl hne]
  have hmem : pathEscape (vals n) ∈ tpl.map (renderSeg vals) :=
    List.mem_map.2 ⟨Seg.var n, hn, rfl⟩
  have h1 : isDotSeg (pathEscape [46]) = true := by decide
  have h2 : isDotSeg (pathEscape [46, 46]) = true := by decide
  have hd : isDotSeg (pathEscape (vals n)) = true := by
    rcases hdot with e | e
    · exact (congrArg (fun v => isDotSeg (pathEscape v)) e).trans h1
    · exact (congrArg (fun v => isDotSeg (pathEscape v)) e).trans h2
  cases hm : tpl.map (renderSeg vals) with
  | nil => exact absurd hm (by simpa using hne)
  | cons seg segs =>
    simp only
    rw [← hm, Bool.or_eq_true]
    exact Or.inl (List.any_eq_true.2 ⟨_, hmem, hd⟩)

/-- For well-formed literals (`LitOK` and not themselves `.`/`..`) and non-empty variable values,
the rendered path is redirected EXACTLY when some variable's value is `.` or `..`. -/
theorem renderPath_needsCleaning_iff_dot (tpl : List Seg) (vals : Bytes → Bytes)
    (hne : tpl ≠ [])
    (hl : ∀ s, Seg.lit s ∈ tpl → LitOK s ∧ s ≠ [46] ∧ s ≠ [46, 46])
    (hv : ∀ n, Seg.var n ∈ tpl → vals n ≠ [] ∧ ∀ b ∈ vals n, b < 256) :
    needsCleaning (renderPath tpl vals) = true ↔
      ∃ n, Seg.var n ∈ tpl ∧ (vals n = [46] ∨ vals n = [46, 46]) := by
  constructor
  · intro h
    unfold needsCleaning at h
    rw [splitSlash_renderPath tpl vals (fun s hs => (hl s hs).1) hne] at h
    cases hm : tpl.map (renderSeg vals) with
    | nil => simp [hne] at hm
    | cons seg segs =>
      rw [hm] at h
      simp only at h
      rw [← hm, Bool.or_eq_true] at h
      rcases h with h | h
      · obtain ⟨x, hx, hdx⟩ := List.any_eq_true.1 h
        obtain ⟨sg, hsg, rfl⟩ := List.mem_map.1 hx
        cases sg with
        | lit t =>
          have := hl t hsg
          rcases (isDotSeg_iff _).1 hdx with e | e
          · exact absurd e this.2.1
          · exact absurd e this.2.2
        | var n =>
          refine ⟨n, hsg, ?_⟩
          have hi := pathEscape_eq_dot_iff (vals n) (hv n hsg).2
          rcases (isDotSeg_iff _).1 hdx with e | e
          · exact Or.inl (hi.1.1 e)
          · exact Or.inr (hi.2.1 e)
      · obtain ⟨x, hx, hex⟩ := List.any_eq_true.1 h
        have hx' : x ∈ tpl.map (renderSeg vals) := List.dropLast_subset _ hx
        obtain ⟨sg, hsg, rfl⟩ := List.mem_map.1 hx'
        have hxe : renderSeg vals sg = [] := by simpa using hex
        cases sg with
        | lit t => exact absurd hxe (hl t hsg).1.2.2.2
        | var n => exact absurd hxe (pathEscape_nonempty _ (hv n hsg).1)
  · rintro ⟨n, hn, hdot⟩
    exact renderPath_needsCleaning_of_dot tpl vals (fun s hs => (hl s hs).1) n hn hdot

/-! ## Concrete evaluations -/

/-- The bytes of an ASCII string literal (only used for expected OUTPUTS of encoders). -/
private def ascii (s : String) : Bytes := s.toList.map Char.toNat

-- strings.Split
example : splitByte 47 [] = [[]] ∧ splitByte 47 [47] = [[], []] ∧
    splitByte 47 [47, 97, 47, 98] = [[], [97], [98]] ∧
    splitByte 47 [97, 47, 47, 98, 47] = [[97], [], [98], []] := by decide
example : joinSlash [[], [97], [98]] = [47, 97, 47, 98] ∧ joinSlash [] = [] ∧
    joinSlash [[97]] = [97] := by decide
-- strings.Cut
example : cutByte 61 [97, 61, 49, 61, 50] = ([97], [49, 61, 50]) ∧ cutByte 61 [97] = ([97], []) ∧
    cutByte 61 [61] = ([], []) := by decide

-- sort.Strings order: "" < "a" < "aa" < "b"; "B" < "a"
example : bytesLt [] [97] = true ∧ bytesLt [97] [97, 97] = true ∧ bytesLt [97, 97] [98] = true ∧
    bytesLt [66] [97] = true ∧ bytesLt [97] [97] = false ∧ bytesLt [98] [97, 97] = false := by decide
example : sortPairs [([98], [49]), ([97, 97], [50]), ([97], [51])] =
    [([97], [51]), ([97, 97], [50]), ([98], [49])] := by decide

-- Values.Encode: {"q": "a b&c", "page": "2"} ↦ "page=2&q=a+b%26c"
example : encodeValues [([113], [97, 32, 98, 38, 99]), ([112, 97, 103, 101], [50])] =
    ascii "page=2&q=a+b%26c" := by decide
example : encodeValues [] = [] := by decide
example : encodeValues [([97], [])] = ascii "a=" := by decide

-- ParseQuery "a=1&b=2"
example : parseQuery [97, 61, 49, 38, 98, 61, 50] = [([97], [49]), ([98], [50])] := by decide
-- "a=1&&b&=x&a=2": empty piece skipped, no '=' gives empty value, empty key kept, repeated key
example : parseQuery [97, 61, 49, 38, 38, 98, 38, 61, 120, 38, 97, 61, 50] =
    [([97], [49]), ([98], []), ([], [120]), ([97], [50])] := by decide
-- "a=%zz&b=1%3D2&c=x+y": bad escape dropped, first '=' splits, '+' is a space
example : parseQuery [97, 61, 37, 122, 122, 38, 98, 61, 49, 37, 51, 68, 50, 38, 99, 61, 120, 43, 121] =
    [([98], [49, 61, 50]), ([99], [120, 32, 121])] := by decide
-- "a=1;b=2&c=3": a piece with ';' is dropped
example : parseQuery [97, 61, 49, 59, 98, 61, 50, 38, 99, 61, 51] = [([99], [51])] := by decide
example : parseQuery [] = [] := by decide
example : queryGet [97] [([97], [49]), ([98], []), ([97], [50])] = some [49] ∧
    queryGet [99] [([97], [49])] = none ∧
    queryGetAll [97] [([97], [49]), ([98], []), ([97], [50])] = [[49], [50]] := by decide
-- round trip on a concrete value
example : parseQuery (encodeValues [([113], [97, 32, 98, 38, 99]), ([112], [50])]) =
    [([112], [50]), ([113], [97, 32, 98, 38, 99])] := by decide

-- request target "/a/b?x=1?y" and "/a"
example : splitTarget [47, 97, 47, 98, 63, 120, 61, 49, 63, 121] =
    ([47, 97, 47, 98], [120, 61, 49, 63, 121]) ∧ splitTarget [47, 97] = ([47, 97], []) := by decide

/-- The template `/users/{id}`. -/
private def usersId : List Seg := [.lit [117, 115, 101, 114, 115], .var [105, 100]]

example : LitOK [117, 115, 101, 114, 115] := by decide
-- id = "a/b?" ↦ "/users/a%2Fb%3F", and the server binds id = "a/b?"
example : renderPath usersId (fun _ => [97, 47, 98, 63]) = ascii "/users/a%2Fb%3F" := by decide
example : matchPath usersId [47, 117, 115, 101, 114, 115, 47, 97, 37, 50, 70, 98, 37, 51, 70] =
    some [([105, 100], [97, 47, 98, 63])] := by decide
-- "/users/" (empty wildcard), "/users", "/users/a/b", "/user/a" do not match
example : matchPath usersId [47, 117, 115, 101, 114, 115, 47] = none ∧
    matchPath usersId [47, 117, 115, 101, 114, 115] = none ∧
    matchPath usersId [47, 117, 115, 101, 114, 115, 47, 97, 47, 98] = none ∧
    matchPath usersId [47, 117, 115, 101, 114, 47, 97] = none := by decide
-- the pattern "/" matches every rooted path
example : matchPath [] [47] = some [] ∧ matchPath [] [47, 97, 47, 98] = some [] ∧
    matchPath [] [] = none := by decide

-- cleanPath: "/a/b", "/a/" and "/" are clean; "/a//b", "/a/./b", "/a/..", "" and "a" are not
example : needsCleaning [47, 97, 47, 98] = false ∧ needsCleaning [47, 97, 47] = false ∧
    needsCleaning [47] = false ∧ needsCleaning [47, 97, 47, 47, 98] = true ∧
    needsCleaning [47, 97, 47, 46, 47, 98] = true ∧ needsCleaning [47, 97, 47, 46, 46] = true ∧
    needsCleaning [] = true ∧ needsCleaning [97] = true := by decide

-- The recorded defect on `/users/{id}` with id = "..": the client requests "/users/..", which
-- the mux redirects (to "/") instead of dispatching; had it been dispatched, the binding would
-- have been "..".
example : renderPath usersId (fun _ => [46, 46]) = ascii "/users/.." := by decide
example : needsCleaning (renderPath usersId (fun _ => [46, 46])) = true := by decide
example : needsCleaning (renderPath usersId (fun _ => [46])) = true := by decide
example : needsCleaning (renderPath usersId (fun _ => [46, 46, 46])) = false := by decide
example : matchPath usersId (renderPath usersId (fun _ => [46, 46])) =
    some [([105, 100], [46, 46])] := by decide

end Sebuf
