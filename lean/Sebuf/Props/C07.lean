import Sebuf.Lemmas.TsWitness
import Sebuf.Gen.TsDecl
import Sebuf.Gen.PropNames
import Sebuf.Lemmas.PropName
/-!
# C07 — wire JSON and handler inputs inhabit the generated TypeScript types

* **Spec**: `Ts.inhabits env fuel T j` (structural typing with the excess-property requirement;
  absent properties allowed when the declared type admits the proto3 default — DESIGN.md §7 C07);
  the contract form of a message is `Mapping.enc`, plain proto3 JSON is `Mapping.pj`.
* **Impl**: `Ts.Impl.tsDecls / tsEnvAll / resultTy / requestTy` (what `tscommon/types.go` declares),
  `WireEnc.wireEnc` (what the Go server sends), `Ts.Impl.handlerArg*` (what the emitted TS server
  hands to a handler). Tied to the code by the C07 correspondence run (declarations parsed from the
  emitted `.ts`, really compiled Go encoders, the emitted TS server under Node 22) and by the
  regenerated facts of `Gen/TsDecl.lean`.

Full statement `Full`; what is provable today is `plain_*` (schemas without sebuf JSON annotations,
every kind × cardinality, nested messages, maps, enums, Timestamps, real oneofs, any depth) and the
leaf table for every annotation; the rest is refuted by the witnesses below (`not_full`).
-/
namespace Sebuf.C07
open Sebuf Sebuf.Mapping Sebuf.Ts Sebuf.Ts.Impl

/-- **Full statement (response position).** For every request, message and well-typed value, the
JSON the Go server sends inhabits the result type the TS client declares, for all large enough
fuels. (`tsEnvAll rq` holds the declarations of every message and enum of the request; the
service-reachable part of it is the emitted block, `tsDecls`.) -/
def Full : Prop :=
  ∀ (rq : Request) (m : Message) (vs : List (Str × Val)) (k : Nat), m ∈ rq.allMessages → WtMsg rq k m vs →
    ∃ n0 F, ∀ n, n0 ≤ n → inhabits (tsEnvAll rq) F (resultTy rq m) (WireEnc.wireEnc rq n m vs) = true

/-! ## What holds: schemas without sebuf JSON annotations -/

/-- **proto3 JSON inhabits the declared interface.** Un-annotated request, any environment that
declares a closed set `S` of its messages the way the generator does (`Declares`), any message of
`S`, any well-typed value whose encoding fits in fuel `n`, any typing fuel `≥ n + 4`. -/
theorem plain_pj_inhabits (rq : Request) (h : rq.noAnn = true) (env : Env) (S : List Message)
    (hD : Declares rq env S) (n : Nat) (m : Message) (hm : m ∈ S) (vs : List (Str × Val))
    (hw : WtMsg rq n m vs) (F : Nat) (hF : n + 4 ≤ F) :
    inhabits env F (requestTy m) (pj rq n m vs) = true :=
  pj_inhabits_all rq h env S hD false n m hm vs hw F hF

/-- **request position.** The contract form of a request body (`Mapping.enc`, the documented
mapping) inhabits the declared request interface. -/
theorem plain_contract_form_inhabits (rq : Request) (h : rq.noAnn = true) (env : Env) (S : List Message)
    (hD : Declares rq env S) (n : Nat) (m : Message) (hm : m ∈ S) (vs : List (Str × Val))
    (hw : WtMsg rq n m vs) (F : Nat) (hF : n + 4 ≤ F) :
    inhabits env F (requestTy m) (enc rq n m vs) = true := by
  rw [Mapping.enc_eq_pj_of_noAnn rq h n m (hD.inRq m hm) vs]
  exact plain_pj_inhabits rq h env S hD n m hm vs hw F hF

/-- **response position (partial: un-annotated schemas).** What the Go server sends
(`WireEnc.wireEnc`) inhabits the result type the TS client declares for the RPC. -/
theorem plain_wire_inhabits_partial (rq : Request) (h : rq.noAnn = true)
    (hnd : (rq.allMessages.map (·.fullName)).Nodup) (env : Env) (S : List Message)
    (hD : Declares rq env S) (n : Nat) (m : Message) (hm : m ∈ S) (vs : List (Str × Val))
    (hw : WtMsg rq n m vs) (F : Nat) (hF : n + 4 ≤ F) :
    inhabits env F (resultTy rq m) (WireEnc.wireEnc rq n m vs) = true := by
  rw [resultTy_noAnn rq h m (hD.inRq m hm), wireEnc_eq_pj_of_noAnn rq h m (hD.inRq m hm) hnd]
  exact pj_inhabits_all rq h env S hD true n m hm vs hw F hF

/-- **end to end on the emitted block, response position (partial: un-annotated schemas).** With
`env` the declaration block the model says both plugins emit for the file (`Impl.tsDecls`, compared
with the parsed real block on every run) and `S` the messages it collects, under the decidable side
conditions `declCheck` (evaluated by the driver on every generated schema): what the Go server sends
for a collected message inhabits the RPC's declared result type. -/
theorem emitted_block_response_inhabits_partial (rq : Request) (h : rq.noAnn = true)
    (hnd : (rq.allMessages.map (·.fullName)).Nodup) (fl : File) (hc : declCheck rq fl = true)
    (n : Nat) (m : Message) (hm : m ∈ orderedMessages rq fl) (vs : List (Str × Val))
    (hw : WtMsg rq n m vs) (F : Nat) (hF : n + 4 ≤ F) :
    inhabits (envOf (tsDecls rq fl)) F (resultTy rq m) (WireEnc.wireEnc rq n m vs) = true :=
  plain_wire_inhabits_partial rq h hnd _ _ (declares_of_check rq h fl hc) n m hm vs hw F hF

/-- **end to end on the emitted block, request position (partial).** The contract form of a request
body inhabits the declared request interface. -/
theorem emitted_block_request_inhabits_partial (rq : Request) (h : rq.noAnn = true)
    (fl : File) (hc : declCheck rq fl = true)
    (n : Nat) (m : Message) (hm : m ∈ orderedMessages rq fl) (vs : List (Str × Val))
    (hw : WtMsg rq n m vs) (F : Nat) (hF : n + 4 ≤ F) :
    inhabits (envOf (tsDecls rq fl)) F (requestTy m) (enc rq n m vs) = true :=
  plain_contract_form_inhabits rq h _ _ (declares_of_check rq h fl hc) n m hm vs hw F hF

/-- **every leaf annotation.** The JSON the documented mapping prescribes for a scalar, enum or
Timestamp value inhabits the element type the generator declares, for every combination of
`int64_encoding`, `enum_encoding`, `enum_value`, `timestamp_format`, `bytes_encoding`. -/
theorem annotated_leaf_table (rq : Request) (env : Env) (f : Field)
    (henum : f.kind = .enum → ∀ e, rq.findEnum f.typeName = some e →
      customNonEmpty e = true ∧ envGet env (shortName f.typeName) = some (enumTy e))
    (s : Val) (hs : scalarOK rq f s = true) (F : Nat) :
    inhabits env (F + 4) (elemTy f) (scalarJson rq true f s) = true :=
  annotated_leaf_inhabits rq env f henum s hs F

/-- **handler argument, query parameters.** For a scalar (non-enum) query-bound field the value the
emitted TS server builds (`Number(…)`, `=== "true"`, `?? ""`) inhabits the declared property type,
whatever the URL carries and also when the parameter is absent. -/
theorem query_value_inhabits (env : Env) (f : Field) (hk1 : f.kind ≠ .enum) (hk2 : f.kind ≠ .message)
    (v : Option Str) (F : Nat) :
    inhabits env (F + 1) (elemTy f) (queryValue f v) = true := by
  have hty : elemTy f = scalarTyForField f := by
    have h1 : (f.kind == Kind.enum) = false := by simpa using hk1
    have h2 : (f.kind == Kind.message) = false := by simpa using hk2
    simp [elemTy, isTs, h1, h2]
  rw [hty]
  unfold queryValue
  cases hs : scalarTyForField f <;> first
    | rfl
    | (simp only [jsNumber]; split <;> first | rfl | (split <;> rfl))
    | (exfalso; revert hs; unfold scalarTyForField; cases f.kind <;> simp [scalarTy, Kind.isInt64] <;>
        (split <;> simp))

/-! ## Same declarations in both plugins (regenerated facts, `Gen/TsDecl.lean`) -/

/-- both generators emit the declaration block through the same `tscommon` functions, in the same
order (`CollectServiceMessages`, `GenerateInterface`, `GenerateEnumType`, `WriteErrorTypes`). -/
theorem decls_same_generator : Gen.TsDecl.clientDeclCalls = Gen.TsDecl.serverDeclCalls := by decide

/-- … and those are the functions `Impl.tsDecls` transcribes. -/
theorem decls_generator_functions :
    Gen.TsDecl.clientDeclCalls =
      ["tscommon.CollectServiceMessages", "tscommon.GenerateInterface", "tscommon.GenerateEnumType",
       "tscommon.WriteErrorTypes"] := by decide

/-- the kind → TypeScript type table of the model (`Impl.scalarTy`) is the `switch` of
`tscommon.TSScalarType` as it stands in the source now. -/
theorem scalar_table_from_source : ∀ k : Kind,
    Gen.TsDecl.scalarTable.lookup k.name =
      some (match scalarTy k with | .str => "string" | .num => "number" | .bool => "boolean" | _ => "unknown") := by
  intro k
  cases k <;> decide

/-- the result type of an RPC (root unwrap included) is computed by the same code in both. -/
theorem result_type_same : Gen.TsDecl.clientResolveOutput = Gen.TsDecl.serverResolveOutput := rfl

/-- the request type of an RPC is named by the same expression in both. -/
theorem request_type_same : Gen.TsDecl.clientRequestType = Gen.TsDecl.serverRequestType := rfl

/-! ## Non-vacuity of the `plain_*` theorems (schema, value and hypotheses: `Ts.Example` in Lemmas/TsWitness.lean) -/
section NonVacuity
open Sebuf.Ts.Example

/-- all hypotheses of `plain_wire_inhabits_partial` (and of the two theorems before it) hold
together: the theorem yields that the server's JSON for the example value inhabits `Parent`. -/
example : inhabits (tsEnvAll rq) 12 (resultTy rq parent) (WireEnc.wireEnc rq 8 parent v) = true :=
  plain_wire_inhabits_partial rq rq_noAnn rq_nodup (tsEnvAll rq) rq.allMessages declares 8 parent
    List.mem_cons_self v wt_parent 12 (by decide)

example : inhabits (tsEnvAll rq) 12 (requestTy parent) (enc rq 8 parent v) = true :=
  plain_contract_form_inhabits rq rq_noAnn (tsEnvAll rq) rq.allMessages declares 8 parent
    List.mem_cons_self v wt_parent 12 (by decide)

example : inhabits (tsEnvAll rq) 12 (requestTy parent) (pj rq 8 parent v) = true :=
  plain_pj_inhabits rq rq_noAnn (tsEnvAll rq) rq.allMessages declares 8 parent
    List.mem_cons_self v wt_parent 12 (by decide)

/-- the end-to-end theorems on a file with a service (`rpc Get(Parent) returns (Parent)`): the
emitted block is `Parent, Child, Color, FieldViolation` (`Example.rqS_block`) and `declCheck` holds. -/
example : inhabits (envOf (tsDecls rqS flS)) 12 (resultTy rqS parent) (WireEnc.wireEnc rqS 8 parent v) = true :=
  emitted_block_response_inhabits_partial rqS rqS_noAnn rqS_nodup flS rqS_declCheck 8 parent parent_collected v
    wt_parentS 12 (by decide)

example : inhabits (envOf (tsDecls rqS flS)) 12 (requestTy parent) (enc rqS 8 parent v) = true :=
  emitted_block_request_inhabits_partial rqS rqS_noAnn flS rqS_declCheck 8 parent parent_collected v
    wt_parentS 12 (by decide)

/-- the hypothesis of `annotated_leaf_table` is satisfiable with an annotation in force:
`int64_encoding = NUMBER` gives a JSON number, declared `number`. -/
example : inhabits [] 4 (elemTy { name := "big".toList, kind := .int64, int64Enc := 2 })
    (scalarJson rq true { name := "big".toList, kind := .int64, int64Enc := 2 } (.int 5)) = true :=
  annotated_leaf_table rq [] _ (fun hk => by cases hk) (.int 5) (by decide) 0

/-- `query_value_inhabits` on an absent int32 parameter: `Number("0")`. -/
example : inhabits [] 1 (elemTy { name := "page".toList, kind := .int32 })
    (queryValue { name := "page".toList, kind := .int32 } none) = true :=
  query_value_inhabits [] _ (by decide) (by decide) none 0

end NonVacuity

/-! ## What does not hold: kernel-checked witnesses (schemas, values and encoder evaluations: `Ts.Witness`
in Lemmas/TsWitness.lean; each is also replayed on the real code by the C07 run under the
divergence keys named in its section there) -/
section Witnesses
open Sebuf.WireEnc.Witness Sebuf.Ts.Witness

/-- **nested annotated child** (keys `response:int64@nested:number_vs_string` and, by the same
mechanism, `ts@nested`, `enumnum@nested`, `enumval@nested`, `flatten@nested`, `oneof@nested`,
`unwrap@nested`). `Parent { Child c }`, `Child { int64 big [NUMBER] }`: `Child.big` is declared
`number` (the declaration honours the child's annotation) but the Go server sends
`{"c":{"big":"5"}}` (children go through plain protojson): not a `Parent`, at any fuel. -/
theorem nested_int64_wire_not_inhabits (n F : Nat) :
    inhabits (tsEnvAll rqNested) F (resultTy rqNested parentMsg)
      (WireEnc.wireEnc rqNested (n + 6) parentMsg vNested) = false := by
  rw [nested_wire]
  match F with
  | 0 | 1 | 2 | 3 | 4 => rfl
  | F + 5 => rfl

/-- the contract form `{"c":{"big":5}}` does inhabit it: the declarations follow the documented
mapping, the server does not. -/
theorem nested_int64_contract_inhabits (n : Nat) :
    inhabits (tsEnvAll rqNested) 8 (resultTy rqNested parentMsg) (enc rqNested (n + 6) parentMsg vNested) = true := by
  rw [nested_enc]; rfl

/-- **`enum_value`** (keys `response:enumval@top:union_vs_string`, `…@nested…`):
`type Color = "COLOR_UNSPECIFIED" | "red"`, the wire carries the proto name `"COLOR_RED"`. -/
theorem enum_custom_wire_not_inhabits (n F : Nat) :
    inhabits (tsEnvAll rqEnum) F (resultTy rqEnum paintMsg) (WireEnc.wireEnc rqEnum (n + 3) paintMsg vEnum) = false := by
  rw [enum_wire]
  match F with
  | 0 | 1 | 2 | 3 | 4 => rfl
  | F + 5 => rfl

/-- **`enum_encoding = NUMBER`** (keys `response:enumnum@top:number_vs_string`, `…@nested…`): declared
`status: number`, the server sends `{"status":"SHADE_DARK"}` (no Go emitter exists for NUMBER). -/
theorem enum_number_wire_not_inhabits (n F : Nat) :
    inhabits (tsEnvAll rqTin) F (resultTy rqTin tinMsg) (WireEnc.wireEnc rqTin (n + 3) tinMsg vTin) = false := by
  rw [tin_wire]
  match F with
  | 0 | 1 | 2 | 3 => rfl
  | F + 4 => rfl

/-- **discriminated oneof, not flattened** (keys `response:oneof@top:undeclared_property`,
`request:oneof@top:undeclared_property`): the generator declares `interface Ev { ident: string;
content?: EvContent }`, the documented form — which the Go server sends and accepts — is
`{"ident":"i","type":"txt","text":{"body":"b"}}`: `type` and `text` are not properties of `Ev`. -/
theorem oneof_declared_under_oneof_name (n F : Nat) :
    inhabits (tsEnvAll rqEv) F (requestTy evMsg) (enc rqEv (n + 6) evMsg vEv) = false := by
  rw [ev_enc]
  match F with
  | 0 | 1 | 2 | 3 => rfl
  | F + 4 => rfl

/-- **flattened discriminated oneof with no variant set** (keys
`response:oneof@top:intersection_vs_object`, `request:oneof@top:intersection_vs_object`):
`type EvF = EvFBase & EvFContent` requires a variant, `{"ident":"i"}` (oneof unset, legal in proto3)
is not a value of it. -/
theorem flattened_oneof_unset_not_inhabits (n F : Nat) :
    inhabits (tsEnvAll rqEvF) F (requestTy evfMsg) (enc rqEvF (n + 3) evfMsg vEvF) = false := by
  rw [evf_enc]
  match F with
  | 0 | 1 | 2 | 3 | 4 => rfl
  | F + 5 => rfl

/-- **root unwrap as a request** (keys `request:unwrap@top:object_vs_array`,
`request:unwrap@top:undeclared_property`): `req` is typed `Names { items: string[] }`, the contract
form of the body — the only one the Go server accepts — is the bare array `["a"]`. -/
theorem root_unwrap_request_not_inhabits (n F : Nat) :
    inhabits (tsEnvAll rqNames) F (requestTy namesMsg) (enc rqNames (n + 4) namesMsg vNames) = false := by
  rw [names_enc]
  match F with
  | 0 | 1 => rfl
  | F + 2 => rfl

/-- as a RESPONSE the same JSON is fine. -/
theorem root_unwrap_response_inhabits (n : Nat) :
    inhabits (tsEnvAll rqNames) 3 (resultTy rqNames namesMsg) (enc rqNames (n + 4) namesMsg vNames) = true := by
  rw [names_enc]; rfl

/-- **empty scalar root unwrap** (keys `response:unwrap@top:array_vs_null`,
`response:unwrap@top:record_vs_null`): declared `Promise<string[]>`, the server sends `null`
(`json.Marshal` of a nil slice). -/
theorem root_unwrap_empty_is_null_not_array (n F : Nat) :
    inhabits (tsEnvAll rqNames) F (resultTy rqNames namesMsg) (WireEnc.wireEnc rqNames (n + 1) namesMsg []) = false := by
  rw [names_empty_wire]
  match F with
  | 0 => rfl
  | F + 1 => rfl

/-- **`empty_behavior = NULL`** (keys `response:empty@top:object_vs_null`,
`request:empty@top:object_vs_null`): declared `meta?: TextV` (no `| null`), the server sends and
accepts `{"meta":null}` for an empty child, as documented. -/
theorem empty_null_not_inhabits (n F : Nat) :
    inhabits (tsEnvAll rqBox) F (resultTy rqBox boxMsg) (WireEnc.wireEnc rqBox (n + 2) boxMsg vBox) = false := by
  rw [box_wire]
  match F with
  | 0 | 1 | 2 | 3 => rfl
  | F + 4 => rfl

/-- **non-finite floats** (keys `response:non_finite_float_as_string`,
`request:non_finite_float_as_string`): proto3 JSON writes `NaN` / `±Infinity` as strings, the
declared type is `number`. This is why `scalarOK` asks for finite floats. -/
theorem nonfinite_float_not_number (n F : Nat) :
    inhabits (tsEnvAll rqGauge) F (requestTy gaugeMsg) (pj rqGauge (n + 3) gaugeMsg vGauge) = false := by
  rw [gauge_pj]
  match F with
  | 0 | 1 | 2 => rfl
  | F + 3 => rfl

/-- **TS server, path parameters** (keys `handler_arg:path_param:number_vs_string`,
`handler_arg:path_param:boolean_vs_string`): `body.userId = pathParams["user_id"]` hands the handler
`{"userId":"7","on":"true"}` for `GetReq { userId: number; on: boolean }`. -/
theorem handler_path_param_is_string (F : Nat) :
    inhabits (tsEnvAll rqUrl) F (requestTy getReq)
      (handlerArgNoBody getReq [("user_id".toList, "7".toList), ("on".toList, "true".toList)] []) = false := by
  match F with
  | 0 | 1 | 2 => rfl
  | F + 3 => rfl

/-- **TS server, absent enum query parameter** (key `handler_arg:query_param_enum:union_vs_string`):
`shade: params.get("shade") ?? ""` — `""` is not one of the enum's literals. -/
theorem handler_query_enum_absent (F : Nat) :
    inhabits (tsEnvAll rqUrl) F (requestTy listReq) (handlerArgNoBody listReq [] []) = false := by
  match F with
  | 0 | 1 | 2 | 3 | 4 => rfl
  | F + 5 => rfl

/-- **one route with path variables and query parameters**: with a string path variable the whole
argument inhabits the interface (64-bit query value declared `string`, the same under
`int64_encoding = NUMBER` declared `number` and converted with `Number`, bool, a present enum) … -/
theorem handler_path_and_query_inhabits :
    inhabits (tsEnvAll rqMix) 6 (requestTy mixReq)
      (handlerArgNoBody mixReq [("tenant".toList, "acme".toList)]
        [("big_num".toList, "9007199254740993".toList), ("big_plain".toList, "9007199254740993".toList),
         ("flag_q_param".toList, "true".toList), ("shade_q".toList, "SHADE_DARK".toList)]) = true := by
  decide

/-- … with a numeric path variable only the path-bound property fails (key
`handler_arg:path_param:number_vs_string`), the query-bound ones are fine. -/
theorem handler_path_and_query_path_fails (F : Nat) :
    inhabits (tsEnvAll rqMix) F (requestTy mixReqN)
      (handlerArgNoBody mixReqN [("user_id".toList, "7".toList)]
        [("big_num".toList, "5".toList), ("flag_q_param".toList, "true".toList)]) = false := by
  match F with
  | 0 | 1 | 2 => rfl
  | F + 3 => rfl

/-- a present, valid name is fine. -/
theorem handler_query_enum_present :
    inhabits (tsEnvAll rqUrl) 6 (requestTy listReq)
      (handlerArgNoBody listReq [] [("shade".toList, "SHADE_DARK".toList)]) = true := rfl

end Witnesses

/-! ## The full statement fails -/

/-- **C07 does not hold in full**: a well-typed value of an accepted schema whose wire JSON is not
a value of the declared result type, at any fuel (nested `int64_encoding = NUMBER`). -/
theorem not_full : ¬ Full := by
  intro hfull
  obtain ⟨n0, F, hall⟩ := hfull WireEnc.Witness.rqNested WireEnc.Witness.parentMsg WireEnc.Witness.vNested 6
    List.mem_cons_self Sebuf.Ts.Witness.wt_nested
  have h1 := hall (n0 + 6) (by omega)
  rw [nested_int64_wire_not_inhabits n0 F] at h1
  cases h1

/-! ### the handler argument's URL-bound properties carry the declared names -/

/-- the emitted route fills a path variable into the property the request interface declares for the
bound field (its JSON name, explicit `json_name` included): no undeclared property is added and the
declared one is not left out. -/
theorem handler_path_prop_is_declared (fields : List Field) (f : Field) (hf : f ∈ fields)
    (hd : (fields.map Field.name).Nodup) : PropName.tsServerPathProp fields f.name = some f.json := by
  unfold PropName.tsServerPathProp
  rw [PropName.find_name_of_distinct fields f hf hd]; rfl

/-- **regenerated tie**: in the text the REAL ts-server plugin emits for the probe schema, every
interface member, every `body.<prop> = pathParams[…]` and every query-parameter member is the JSON
name of the probe field (with and without an explicit `json_name`). -/
theorem emitted_server_property_names_are_declared :
    ∀ u ∈ Gen.PropNames.uses, u.1 = "ts-server" →
      ∃ p ∈ Gen.PropNames.probe, p.1 = u.2.2.1 ∧ u.2.2.2.toList = (PropName.probeField p).json := by decide

theorem emitted_server_property_names_nonvacuous :
    (Gen.PropNames.uses.filter (fun u => u.1 == "ts-server" && u.2.1 == "path:GetIt")).length = 2 := by decide

end Sebuf.C07
