// Package report accumulates what one property check explored and decides its outcome.
package report

import (
	"crypto/sha256"
	"encoding/hex"
	"encoding/json"
	"fmt"
	"os"
	"path/filepath"
	"sort"
	"sync"

	"verif/harness/plug"
)

type Finding struct {
	Kind   string `json:"kind"`             // violation | correspondence | known
	Key    string `json:"key,omitempty"`    // divergence class
	What   string `json:"what"`             // one line
	Replay any    `json:"replay,omitempty"` // schema + inputs + real / impl / spec
	Path   string `json:"path,omitempty"`
}

type Result struct {
	mu           sync.Mutex
	Property     string         `json:"property"`
	Tier         string         `json:"tier"`
	Seed         int64          `json:"seed"`
	Evaluations  int            `json:"evaluations"`
	Distinct     int            `json:"distinct_nontrivial"`
	Rule         string         `json:"rule"`
	Samples      []any          `json:"samples"`
	CorrOK       int            `json:"traces_validated_against_impl"`
	Programs     int            `json:"programs"`
	Violations   []Finding      `json:"violations"`
	CorrBroken   []Finding      `json:"correspondence_broken"`
	Known        []Finding      `json:"known_findings_seen"`
	Distribution map[string]int `json:"distribution"`
	Notes        []string       `json:"notes,omitempty"`
	Assumptions  []string       `json:"assumptions,omitempty"`
	ViolTotal    int            `json:"violations_total"`
	CorrTotal    int            `json:"correspondence_broken_total"`
	violCount    int
	corrCount    int
	perKey       map[string]int
	distinct     map[string]bool
	knownSeen    map[string]bool
	maxSamples   int
}

func New(prop, tier string, seed int64) *Result {
	return &Result{Property: prop, Tier: tier, Seed: seed, Distribution: map[string]int{}, distinct: map[string]bool{},
		knownSeen: map[string]bool{}, maxSamples: 5, perKey: map[string]int{}}
}

func hash(v any) string {
	b, _ := json.Marshal(v)
	h := sha256.Sum256(b)
	return hex.EncodeToString(h[:8])
}

// Case records one explored case; nontrivial cases are counted once per canonical form.
func (r *Result) Case(canon any, nontrivial bool) {
	r.mu.Lock()
	defer r.mu.Unlock()
	r.Evaluations++
	if nontrivial {
		k := hash(canon)
		if !r.distinct[k] {
			r.distinct[k] = true
			r.Distinct++
			if len(r.Samples) < r.maxSamples {
				r.Samples = append(r.Samples, canon)
			}
		}
	}
}

func (r *Result) Count(key string) {
	r.mu.Lock()
	r.Distribution[key]++
	r.mu.Unlock()
}

func (r *Result) CorrAgree() {
	r.mu.Lock()
	r.CorrOK++
	r.mu.Unlock()
}

func (r *Result) Note(s string) {
	r.mu.Lock()
	r.Notes = append(r.Notes, s)
	r.mu.Unlock()
}

func (r *Result) writeReplay(f *Finding) {
	dir := filepath.Join(plug.VerifDir(), "replays")
	os.MkdirAll(dir, 0o755)
	p := filepath.Join(dir, fmt.Sprintf("%s-%s.json", r.Property, hash(f)))
	b, _ := json.MarshalIndent(map[string]any{"property": r.Property, "kind": f.Kind, "key": f.Key, "what": f.What, "replay": f.Replay}, "", " ")
	os.WriteFile(p, b, 0o644)
	f.Path = p
}

const maxKept = 80
const maxPerKey = 3

func (r *Result) Violation(key, what string, replay any) {
	r.mu.Lock()
	defer r.mu.Unlock()
	f := Finding{Kind: "violation", Key: key, What: what, Replay: replay}
	r.violCount++
	r.perKey["v|"+key]++
	if len(r.Violations) < maxKept && r.perKey["v|"+key] <= maxPerKey {
		r.writeReplay(&f)
		f.Replay = nil
		r.Violations = append(r.Violations, f)
	}
}

func (r *Result) Corr(key, what string, replay any) {
	r.mu.Lock()
	defer r.mu.Unlock()
	f := Finding{Kind: "correspondence", Key: key, What: what, Replay: replay}
	r.corrCount++
	r.perKey["c|"+key]++
	if len(r.CorrBroken) < maxKept && r.perKey["c|"+key] <= maxPerKey {
		r.writeReplay(&f)
		f.Replay = nil
		r.CorrBroken = append(r.CorrBroken, f)
	}
}

func (r *Result) KnownFinding(key, what string) {
	r.mu.Lock()
	defer r.mu.Unlock()
	if r.knownSeen[key] {
		return
	}
	r.knownSeen[key] = true
	r.Known = append(r.Known, Finding{Kind: "known", Key: key, What: what})
}

// KnownFindings is /verif/known_findings.json.
type KnownEntry struct {
	Property string `json:"property"`
	Key      string `json:"key"`
	Status   string `json:"status"` // open | fixed
	What     string `json:"what"`
	Theorem  string `json:"lean_theorem,omitempty"`
	Commit   string `json:"commit,omitempty"`
	Witness  any    `json:"witness,omitempty"`
}

var knownOnce sync.Once
var knownOpen map[string]KnownEntry

func IsKnownOpen(prop, key string) (KnownEntry, bool) {
	knownOnce.Do(func() {
		knownOpen = map[string]KnownEntry{}
		files := []string{filepath.Join(plug.VerifDir(), "known_findings.json")}
		extra, _ := filepath.Glob(filepath.Join(plug.VerifDir(), "agents", "*.findings.json"))
		files = append(files, extra...)
		for _, fn := range files {
			b, err := os.ReadFile(fn)
			if err != nil {
				continue
			}
			var f struct {
				Findings []KnownEntry `json:"findings"`
			}
			if json.Unmarshal(b, &f) != nil {
				continue
			}
			for _, e := range f.Findings {
				if e.Status == "open" {
					knownOpen[e.Property+"|"+e.Key] = e
				}
			}
		}
	})
	e, ok := knownOpen[prop+"|"+key]
	return e, ok
}

// Divergence routes a real-vs-Spec disagreement: a listed open class whose behaviour the model
// reproduces (implAgrees) is a known finding; anything else is a violation.
func (r *Result) Divergence(key, what string, implAgrees bool, replay any) {
	if e, ok := IsKnownOpen(r.Property, key); ok && implAgrees {
		r.KnownFinding(key, e.What)
		return
	}
	r.Violation(key, what, replay)
}

func (r *Result) Write(path string) error {
	r.mu.Lock()
	defer r.mu.Unlock()
	r.ViolTotal, r.CorrTotal = r.violCount, r.corrCount
	sort.Slice(r.Known, func(a, b int) bool { return r.Known[a].Key < r.Known[b].Key })
	b, err := json.MarshalIndent(r, "", " ")
	if err != nil {
		return err
	}
	return os.WriteFile(path, b, 0o644)
}
