package props

import (
	"encoding/json"
	"fmt"
	"strings"
	"time"

	"verif/harness/drv"
	"verif/harness/gen"
	"verif/harness/ir"
	"verif/harness/plug"
)

func init() { Registry["C16"] = C16 }

// answerClass folds a run into the classes of the property: files | error | crash | timeout.
// protogen reports request-level problems (e.g. a missing go_package) by printing to stderr and
// exiting 1 without panicking: that is an error answer, not a crash.
func answerClass(r *plug.Result) string {
	switch r.Crash {
	case "":
		if r.Error != nil {
			return "error"
		}
		return "files"
	case "timeout":
		return "timeout"
	case "crash":
		if r.ExitCode == 1 && !strings.Contains(r.Stderr, "panic:") && !strings.Contains(r.Stderr, "fatal error:") && !strings.Contains(r.Stderr, "goroutine ") {
			return "error"
		}
		return "crash"
	}
	return r.Crash
}

// C16: every plugin terminates with an answer for every valid descriptor set.
func C16(c *Ctx) error {
	res := c.Res
	res.Rule = "degenerate descriptor shapes (recursive / mutually recursive types, deep chains and nesting, empty messages and services, missing package / go_package, shared types, 4 kB names, wide messages, recursive annotated types, empty files) plus random valid files, " +
		"each run through all five plugins x plugin parameters (generate_mock, format=..., paths=...) under a time (6 s quick / 20 s thorough) and 1 GiB memory limit; a case is one (shape, plugin, parameter) run; every case is non-trivial; distinct by (shape, plugin, parameter)"
	r := gen.New(c.Seed)
	shapes := gen.DegenerateShapes(r)
	nrand := c.N(10, 150)
	for i := 0; i < nrand; i++ {
		rr := r.Fork(fmt.Sprint("c16-", i))
		var req *ir.Request
		if i%2 == 0 {
			req = gen.GenRouteFile(rr, i, gen.RouteOpts{})
		} else {
			f := gen.GenAnnotFile(rr, i, gen.AnnotOpts{})
			req = &ir.Request{Files: []*ir.File{f}, Generate: []string{f.Name}}
		}
		shapes = append(shapes, gen.Degenerate{Shape: fmt.Sprintf("random#%d", i), Req: req})
	}
	// definitions the plugins REFUSE (every annotation rule of C12, each variant): the refusal itself must be an
	// answer — an error message — and not a crash on the error path
	ri := 0
	for _, rule := range append(append([]string{}, gen.HTTPRules...), gen.JSONRules...) {
		for v := 0; v < c.N(3, 6); v++ {
			ri++
			req, b := gen.Place(r.Fork(fmt.Sprint("c16-refused-", ri)), ri, rule, "top")
			shapes = append(shapes, gen.Degenerate{Shape: fmt.Sprintf("refused:%s:%s#%d", rule, b.Variant, v), Req: req})
		}
	}
	params := map[string][]string{
		plug.GoHTTP:   {"", "generate_mock=true", "paths=source_relative", "generate_mock=true,paths=source_relative", "bogus=1"},
		plug.GoClient: {"", "paths=source_relative"},
		plug.TSClient: {""},
		plug.TSServer: {""},
		plug.OpenAPI:  {"", "format=json", "format=yaml", "format=yml", "format=xml"},
	}
	type job struct {
		shape  gen.Degenerate
		plugin string
		param  string
		res    *plug.Result
		err    error
	}
	var jobs []*job
	for _, s := range shapes {
		for _, p := range plug.All {
			ps := params[p]
			if (strings.HasPrefix(s.Shape, "random#") || strings.HasPrefix(s.Shape, "refused:")) && !c.Thorough() {
				ps = ps[:min(2, len(ps))]
			}
			for _, pa := range ps {
				jobs = append(jobs, &job{shape: s, plugin: p, param: pa})
			}
		}
	}
	limit := time.Duration(c.N(6, 20)) * time.Second
	parallel(len(jobs), func(i int) {
		j := jobs[i]
		rq := j.shape.Req.Clone()
		rq.Parameter = j.param
		j.res, j.err = plug.Run(j.plugin, rq, &plug.RunOpts{Timeout: limit, MemLimit: "1GiB"})
	})
	// model: the mock emitter's recursion diverges iff the response type graph has a cycle through singular/map edges
	var dops []map[string]any
	for _, s := range shapes {
		var roots []string
		for _, f := range s.Req.Files {
			for _, sv := range f.Services {
				for _, m := range sv.Methods {
					roots = append(roots, m.Output)
				}
			}
		}
		if roots == nil {
			roots = []string{}
		}
		dops = append(dops, map[string]any{"op": "mock_graph", "edges": gen.MockEdges(s.Req), "roots": roots})
	}
	var douts []map[string]any
	if drv.Available() {
		var err error
		if douts, err = drv.Run(dops); err != nil {
			res.Corr("driver", "Lean driver failed: "+err.Error(), nil)
			douts = nil
		}
	} else {
		res.Corr("driver", "Lean driver binary missing (model did not build)", nil)
	}
	diverges := map[string]bool{}
	blowsUp := map[string]bool{}     // the unfolded response tree has >= 2^26 assignment blocks
	unclearWork := map[string]bool{} // between 2^18 and 2^26: no prediction either way
	for i, s := range shapes {
		if douts != nil {
			diverges[s.Shape], _ = douts[i]["mock_diverges"].(bool)
			w := float64(jsonInt(douts[i]["mock_work"]))
			if wn, ok := douts[i]["mock_work"].(json.Number); ok {
				w, _ = wn.Float64()
			}
			blowsUp[s.Shape] = w >= float64(uint64(1)<<26)
			unclearWork[s.Shape] = w >= float64(uint64(1)<<18) && !blowsUp[s.Shape]
		}
	}
	var slowest *job
	for _, j := range jobs {
		if j.err == nil && j.res != nil && j.res.Crash == "" && (slowest == nil || j.res.Wall > slowest.res.Wall) {
			slowest = j
		}
	}
	if slowest != nil {
		res.Note(fmt.Sprintf("slowest answered run: %s %q on %s took %d ms (limit %d ms)", slowest.plugin, slowest.param, slowest.shape.Shape, slowest.res.Wall.Milliseconds(), limit.Milliseconds()))
	}
	for _, j := range jobs {
		if j.err != nil {
			return j.err
		}
		cls := answerClass(j.res)
		shapeKey := j.shape.Shape
		if strings.HasPrefix(shapeKey, "random#") {
			shapeKey = "random"
		}
		if strings.HasPrefix(shapeKey, "odd_braces_in_path#") {
			shapeKey = "odd_braces_in_path"
		}
		if strings.HasPrefix(shapeKey, "refused:") {
			shapeKey = shapeKey[:strings.LastIndex(shapeKey, "#")]
		}
		res.Case(map[string]any{"shape": j.shape.Shape, "plugin": j.plugin, "param": j.param}, true)
		res.Count("class:" + cls)
		replay := map[string]any{"schema": j.shape.Req, "shape": j.shape.Shape, "plugin": j.plugin, "parameter": j.param, "class": cls, "exit": j.res.ExitCode, "stderr": firstLines(j.res.Stderr, 6), "wall_ms": j.res.Wall.Milliseconds()}
		// correspondence: Impl predicts a crash exactly for go-http + generate_mock + divergent response graph
		mockOn := j.plugin == plug.GoHTTP && strings.Contains(j.param, "generate_mock=true")
		predictedCrash := mockOn && diverges[j.shape.Shape]
		predictedBlowUp := mockOn && blowsUp[j.shape.Shape]
		if douts != nil {
			implCls := "answer"
			if predictedCrash || predictedBlowUp {
				implCls = "no-answer"
			}
			realCls := "answer"
			if cls == "crash" || cls == "timeout" || cls == "oom" {
				realCls = "no-answer"
			}
			// the OpenAPI main panics when protogen cannot build the plugin (known finding); modelled by its own class below
			if mockOn && unclearWork[j.shape.Shape] {
				res.Count("mock_work_between_thresholds")
			} else if implCls != realCls && !(j.plugin == plug.OpenAPI && shapeKey == "file_without_go_package") {
				res.Corr("terminates:"+strings.TrimPrefix(j.plugin, "protoc-gen-"), fmt.Sprintf("%s %q on %s: real %s, model predicts %s", j.plugin, j.param, j.shape.Shape, cls, implCls), replay)
			} else {
				res.CorrAgree()
			}
		}
		// oracle
		if cls == "files" || cls == "error" {
			continue
		}
		key := fmt.Sprintf("%s:%s", cls, strings.TrimPrefix(j.plugin, "protoc-gen-"))
		implAgrees := false
		switch {
		case predictedCrash:
			key = "no_answer:go-http:mock_recursive_response"
			implAgrees = true
		case predictedBlowUp:
			key = "no_answer:go-http:mock_exponential_on_shared_types"
			implAgrees = true
		case j.plugin == plug.OpenAPI && shapeKey == "file_without_go_package" && cls == "crash":
			key += ":panic_instead_of_error_answer"
			implAgrees = true
		default:
			key += ":" + shapeKey
		}
		res.Divergence(key, fmt.Sprintf("%s %q did not answer on %s: %s (%s)", j.plugin, j.param, j.shape.Shape, cls, firstLine(j.res.Stderr)), implAgrees, replay)
	}
	res.Programs = len(shapes)
	return nil
}

func firstLines(s string, n int) string {
	l := strings.Split(s, "\n")
	if len(l) > n {
		l = l[:n]
	}
	return strings.Join(l, "\n")
}
