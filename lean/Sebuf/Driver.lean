import Lean.Data.Json
import Sebuf.Route
/-!
Line-protocol driver: one JSON object per input line, one JSON object per output line.
Only executable model definitions are called here; no proofs are imported.
-/
namespace Sebuf.Driver
open Lean (Json)

def jstr (s : Str) : Json := Json.str (String.ofList s)

def getStr (j : Json) (k : String) : Str :=
  match j.getObjValAs? String k with
  | .ok s => s.toList
  | .error _ => []

def getBool (j : Json) (k : String) : Bool :=
  match j.getObjValAs? Bool k with
  | .ok b => b
  | .error _ => false

def getNat (j : Json) (k : String) : Nat :=
  match j.getObjValAs? Nat k with
  | .ok n => n
  | .error _ => 0

def getStrList (j : Json) (k : String) : List Str :=
  match j.getObjValAs? (Array String) k with
  | .ok a => a.toList.map String.toList
  | .error _ => []

def getArr (j : Json) (k : String) : List Json :=
  match j.getObjVal? k with
  | .ok (Json.arr a) => a.toList
  | _ => []

def methodIn (j : Json) : MethodIn :=
  { svcName := getStr j "svc"
    methName := getStr j "meth"
    methGoName := getStr j "meth_go"
    goPkg := getStr j "go_pkg"
    base := getStr j "base"
    hasConfig := getBool j "has_config"
    path := getStr j "path"
    verbNum := getNat j "verb_num"
    queryNames := getStrList j "query_names"
    queryRequired := getStrList j "query_required" }

def routeJson (r : Route) : Json :=
  Json.mkObj [("verb", jstr r.verb), ("template", jstr r.template),
    ("path_vars", Json.arr (r.pathVars.map jstr).toArray),
    ("query_names", Json.arr (r.queryNames.map jstr).toArray),
    ("query_required", Json.arr (r.queryRequired.map jstr).toArray),
    ("has_body", Json.bool r.hasBody)]

def genName : Generator → String
  | .goHttp => "go-http" | .goClient => "go-client" | .tsClient => "ts-client"
  | .tsServer => "ts-server" | .openapi => "openapi"

def opRoute5 (j : Json) : Json :=
  let m := methodIn (j.getObjValD "m")
  Json.mkObj (Generator.all.map fun g => (genName g, routeJson (route g m)))

/-- side conditions of the C03 partial theorems, evaluated by the model (decidable). -/
def explicitPathOK (m : MethodIn) : Bool :=
  m.hasConfig && m.path != [] && (m.base != [] || hasPrefixSlash m.path) && (m.base == [] || hasPrefixSlash m.base)

def placementOK (m : MethodIn) : Bool := isQueryVerb (verbOf m) || m.queryNames == []

def upsertD (k : Str × Str) (v : Str) : List ((Str × Str) × Str) → List ((Str × Str) × Str)
  | [] => [(k, v)]
  | (k', v') :: t => if k' = k then (k, v) :: t else (k', v') :: upsertD k v t

def opRouteSvc (j : Json) : Json :=
  let ms := (getArr j "ms").map methodIn
  let keys := ms.map fun m => ((route .openapi m).template, openapiVerbLower m)
  let ops := ms.foldl (fun acc m => upsertD ((route .openapi m).template, openapiVerbLower m) m.methName acc) []
  Json.mkObj [
    ("methods", Json.arr (ms.map fun m =>
        Json.mkObj [("routes", Json.mkObj (Generator.all.map fun g => (genName g, routeJson (route g m)))),
                    ("explicit_path_ok", Json.bool (explicitPathOK m)),
                    ("placement_ok", Json.bool (placementOK m))]).toArray),
    ("oa_ops", Json.arr (ops.map fun o => jstr o.2).toArray),
    ("keys_nodup", Json.bool (keys.eraseDups.length == keys.length))]

def opStrFn (j : Json) : Json :=
  let s := getStr j "s"
  let f := String.ofList (getStr j "fn")
  let r : Str :=
    match f with
    | "camelToSnake" => camelToSnake s
    | "lowerFirst" => lowerFirst s
    | "snakeToUpperCamel" => snakeToUpperCamel s
    | "snakeToLowerCamel" => snakeToLowerCamel s
    | "jsonName" => jsonName s
    | "headerNameToFuncName" => headerNameToFuncName s
    | "headerNameToPropertyName" => headerNameToPropertyName s
    | "ensureLeadingSlash" => ensureLeadingSlash s
    | "buildHTTPPath" => buildHTTPPath s (getStr j "t")
    | _ => "?".toList
  Json.mkObj [("r", jstr r), ("params", Json.arr ((extractPathParams s).map jstr).toArray)]

end Sebuf.Driver
