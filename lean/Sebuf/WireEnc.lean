import Sebuf.Mapping
import Sebuf.Validate
/-!
`Impl`: the JSON the Go server actually sends for a message (`marshalResponse`): the top-level
type's own `MarshalJSON` when one was emitted, else protojson. A generated `MarshalJSON`
rewrites only the fields of ITS message on top of `protojson.Marshal(x)`, so children are encoded
by plain protojson whatever their annotations (enum `MarshalJSON` methods are never consulted by
protojson either). This is expressed by evaluating the documented mapping on a request in which
every annotation outside the top-level message has been erased (`implRq`).

`wireEnc` covers the per-field ("surgery") templates and plain protojson. The templates that encode
children through Go's `encoding/json` — flatten, discriminated oneof, map-value-unwrap container,
root unwrap — are modelled value-exactly in `Sebuf/GoJson.lean` (`GoJson.serverEnc`, which falls
back to `wireEnc` for everything else) and `Sebuf/GoDec.lean` (the decoders); `modelled` below is
kept for the checks that still consult `wireEnc` alone (C07).
-/
namespace Sebuf.WireEnc
open Sebuf Sebuf.Mapping

def clearField (keepUnwrap : Bool) (f : Field) : Field :=
  { f with int64Enc := 0, enumEnc := 0, nullable := false, emptyBehavior := 0, tsFormat := 0, bytesEnc := 0,
           flatten := false, flattenPrefix := [], oneofValue := none, unwrap := keepUnwrap && f.unwrap }

def clearMessage (keepUnwrap : Bool) (m : Message) : Message :=
  { m with fields := m.fields.map (clearField keepUnwrap), oneofs := m.oneofs.map fun o => { o with hasConfig := false } }

/-- the top-level message keeps its own field annotations except the enum ones (there is no enum
emitter on the message side). -/
def topMessage (m : Message) : Message :=
  { m with fields := m.fields.map fun f => { f with enumEnc := 0 } }

/-- full names of the value types of `m`'s map fields (their unwrap flag is what the container's
generated `MarshalJSON` honours). -/
def mapValueTypes (m : Message) : List Str := (m.fields.filter (·.card == .map)).map (·.typeName)

def implRq (rq : Request) (m : Message) : Request :=
  { files := rq.files.map fun f =>
      { f with
        messages := f.messages.map fun x =>
          if x.fullName == m.fullName then topMessage x
          else clearMessage ((mapValueTypes m).contains x.fullName) x
        enums := f.enums.map fun e => { e with values := e.values.map fun v => (v.1, v.2.1, none) } } }

/-- templates whose child encoding goes through encoding/json are outside the model. -/
def isUnwrapContainer (rq : Request) (m : Message) : Bool :=
  m.fields.any fun f => f.card == .map && f.kind == .message &&
    (match rq.findMessage f.typeName with | some v => v.fields.any (·.unwrap) | none => false)

/-- the map-value-unwrap container template encodes the container's OTHER fields through
encoding/json as well: outside the model when there are any. -/
def modelled (rq : Request) (m : Message) : Bool :=
  !(Impl.hasFlatten m) && !(Impl.needsOneofMarshal m) && !(isUnwrapContainer rq m && m.fields.length > 1)

/-- has go-http emitted a `MarshalJSON` for this message (any feature)? -/
def hasCustomMarshal (rq : Request) (m : Message) : Bool :=
  m.fields.any (fun f => (f.descKind.isInt64 && f.int64Enc == 2) || f.nullable || f.emptyBehavior != 0 ||
    (Impl.Field.isTimestamp f && f.tsFormat != 0 && f.tsFormat != 1) || (f.descKind == .bytes && f.bytesEnc != 0 && f.bytesEnc != 1) ||
    f.flatten || f.unwrap) ||
  Impl.needsOneofMarshal m ||
  m.fields.any (fun f => f.card == .map && f.kind == .message &&
    (match rq.findMessage f.typeName with | some v => v.fields.any (·.unwrap) | none => false))

/-- `json.Marshal` of a Go float slice / map fails on NaN and ±Inf (protojson prints them as
strings): a root unwrap of float scalars holding one makes the generated encoder return an error. -/
def encodeFails (m : Message) (vs : List (Str × Val)) : Bool :=
  match m.fields with
  | [f] =>
    f.unwrap && f.kind != .message &&
    (match vs.lookup f.name with
     | some (.list l) => l.any fun v => match v with | .float _ q => q | _ => false
     | some (.map kvs) => kvs.any fun p => match p.2 with | .float _ q => q | _ => false
     | _ => false)
  | _ => false

def wireEnc (rq : Request) (fuel : Nat) (m : Message) (vs : List (Str × Val)) : Json :=
  let m' := (implRq rq m).findMessage m.fullName |>.getD m
  encMsg (implRq rq m) true true fuel m' vs

end Sebuf.WireEnc
