package props

import (
	"bytes"
	"encoding/json"
	"fmt"
	"math"
	"math/big"
	"os/exec"
	"sort"
	"strconv"
	"strings"

	yaml "go.yaml.in/yaml/v4"

	"verif/harness/drv"
	"verif/harness/gen"
	"verif/harness/ir"
	"verif/harness/plug"
	"verif/harness/report"
)

func init() { Registry["C19"] = C19 }

// ---------------------------------------------------------------------------------------------
// numbers: exact decimals, on the wire as {"$int": "<decimal>"} / {"$float": "<plain decimal>"}

func c19Rat(tok string) *big.Rat {
	r, ok := new(big.Rat).SetString(tok)
	if !ok {
		panic("c19: bad number " + tok)
	}
	return r
}

// c19Dec prints a finite decimal without exponent and without trailing zeros.
func c19Dec(r *big.Rat) string {
	if r.IsInt() {
		return r.Num().String()
	}
	d := new(big.Int).Set(r.Denom())
	k2, k5 := 0, 0
	two, five := big.NewInt(2), big.NewInt(5)
	m := new(big.Int)
	for {
		q, rem := new(big.Int).QuoRem(d, two, m)
		if rem.Sign() != 0 {
			break
		}
		d = q
		k2++
	}
	for {
		q, rem := new(big.Int).QuoRem(d, five, m)
		if rem.Sign() != 0 {
			break
		}
		d = q
		k5++
	}
	k := k2
	if k5 > k {
		k = k5
	}
	return r.FloatString(k)
}

func c19Num(r *big.Rat) map[string]any {
	if r.IsInt() {
		return map[string]any{"$int": r.Num().String()}
	}
	return map[string]any{"$float": c19Dec(r)}
}

func c19IntW(i *big.Int) map[string]any { return map[string]any{"$int": i.String()} }

func c19IsNum(v any) (*big.Rat, bool) {
	m, ok := v.(map[string]any)
	if !ok || len(m) != 1 {
		return nil, false
	}
	if s, ok := m["$int"].(string); ok {
		return c19Rat(s), true
	}
	if s, ok := m["$float"].(string); ok {
		return c19Rat(s), true
	}
	return nil, false
}

var c19Two53 = new(big.Rat).SetInt(new(big.Int).Lsh(big.NewInt(1), 53))

func c19Beyond53(r *big.Rat) bool { return new(big.Rat).Abs(r).Cmp(c19Two53) > 0 }

// c19WireEq compares two wire documents as maps; numbers exactly, and beyond 2^53 as doubles
// (the document prints float64 bounds with their shortest digits, zero padded).
func c19WireEq(a, b any) bool { return c19WireEqX(a, b, false) }

func c19WireEqX(a, b any, exact bool) bool {
	if ra, ok := c19IsNum(a); ok {
		rb, ok := c19IsNum(b)
		if !ok {
			return false
		}
		if ra.Cmp(rb) == 0 {
			return true
		}
		if !exact && c19Beyond53(ra) && c19Beyond53(rb) {
			fa, _ := ra.Float64()
			fb, _ := rb.Float64()
			return fa == fb
		}
		return false
	}
	switch x := a.(type) {
	case map[string]any:
		y, ok := b.(map[string]any)
		if !ok || len(x) != len(y) {
			return false
		}
		if _, isNum := c19IsNum(b); isNum {
			return false
		}
		for k, v := range x {
			w, ok := y[k]
			if !ok || !c19WireEqX(v, w, exact) {
				return false
			}
		}
		return true
	case []any:
		y, ok := b.([]any)
		if !ok || len(x) != len(y) {
			return false
		}
		for i := range x {
			if !c19WireEqX(x[i], y[i], exact) {
				return false
			}
		}
		return true
	default:
		return a == b
	}
}

// c19Plain turns wire JSON into plain JSON (numbers as json.Number) for python jsonschema.
func c19Plain(v any) any {
	if m, ok := v.(map[string]any); ok {
		if len(m) == 1 {
			if s, ok := m["$int"].(string); ok {
				return json.Number(s)
			}
			if s, ok := m["$float"].(string); ok {
				return json.Number(s)
			}
		}
		out := map[string]any{}
		for k, e := range m {
			out[k] = c19Plain(e)
		}
		return out
	}
	if l, ok := v.([]any); ok {
		out := make([]any, len(l))
		for i, e := range l {
			out[i] = c19Plain(e)
		}
		return out
	}
	return v
}

// c19Wire converts a parsed YAML / JSON node into wire JSON, resolving plain scalars with the
// reader's own tag resolution (go.yaml.in/yaml/v4) and keeping numbers exact.
func c19Wire(n *yaml.Node) (any, error) {
	switch n.Kind {
	case yaml.DocumentNode:
		if len(n.Content) != 1 {
			return nil, fmt.Errorf("document with %d roots", len(n.Content))
		}
		return c19Wire(n.Content[0])
	case yaml.AliasNode:
		return c19Wire(n.Alias)
	case yaml.MappingNode:
		out := map[string]any{}
		for i := 0; i+1 < len(n.Content); i += 2 {
			v, err := c19Wire(n.Content[i+1])
			if err != nil {
				return nil, err
			}
			out[n.Content[i].Value] = v
		}
		return out, nil
	case yaml.SequenceNode:
		out := make([]any, 0, len(n.Content))
		for _, c := range n.Content {
			v, err := c19Wire(c)
			if err != nil {
				return nil, err
			}
			out = append(out, v)
		}
		return out, nil
	case yaml.ScalarNode:
		switch n.ShortTag() {
		case "!!null":
			return nil, nil
		case "!!bool":
			var b bool
			if err := n.Decode(&b); err != nil {
				return nil, err
			}
			return b, nil
		case "!!int":
			i, ok := new(big.Int).SetString(strings.TrimPrefix(n.Value, "+"), 10)
			if !ok {
				return nil, fmt.Errorf("line %d: integer %q outside the decimal domain of the check", n.Line, n.Value)
			}
			return c19IntW(i), nil
		case "!!float":
			r, ok := new(big.Rat).SetString(n.Value)
			if !ok {
				return nil, fmt.Errorf("line %d: float %q outside the decimal domain of the check", n.Line, n.Value)
			}
			return c19Num(r), nil
		default:
			return n.Value, nil
		}
	}
	return nil, fmt.Errorf("unexpected node kind %d", n.Kind)
}

// ---------------------------------------------------------------------------------------------
// field kinds

var c19IntKinds = []string{"int32", "sint32", "sfixed32", "uint32", "fixed32", "int64", "sint64", "sfixed64", "uint64", "fixed64"}

func c19Is64(k string) bool {
	switch k {
	case "int64", "sint64", "sfixed64", "uint64", "fixed64":
		return true
	}
	return false
}
func c19IsUnsigned(k string) bool {
	return k == "uint32" || k == "fixed32" || k == "uint64" || k == "fixed64"
}
func c19IsFloat(k string) bool { return k == "float" || k == "double" }
func c19IsNumeric(k string) bool {
	return c19IsFloat(k) || c19Is64(k) || k == "int32" || k == "sint32" || k == "sfixed32" || k == "uint32" || k == "fixed32"
}

// c19Getter is the rule group the generator reads for a field kind (validation.go): the kind's own
// group since /repo 3ffb0a3.
func c19Getter(k string) string { return k }

// c19ForeignGroup is the group the generator read before 3ffb0a3 for the integer kinds other than
// int32 / int64 — a group protovalidate refuses on such a field; used to declare rules the
// generator must now IGNORE (correspondence only).
func c19ForeignGroup(k string) string {
	switch {
	case k == "float" || k == "double":
		return k
	case c19Is64(k):
		return "int64"
	default:
		return "int32"
	}
}

func c19Range(k string) (lo, hi *big.Int) {
	bits := uint(32)
	if c19Is64(k) {
		bits = 64
	}
	one := big.NewInt(1)
	if c19IsUnsigned(k) {
		return big.NewInt(0), new(big.Int).Sub(new(big.Int).Lsh(one, bits), one)
	}
	h := new(big.Int).Lsh(one, bits-1)
	return new(big.Int).Neg(h), new(big.Int).Sub(h, one)
}

func c19Clamp(k string, v *big.Int) *big.Int {
	lo, hi := c19Range(k)
	if v.Cmp(lo) < 0 {
		return lo
	}
	if v.Cmp(hi) > 0 {
		return hi
	}
	return v
}

func c19F32(s string) float32 {
	f, _ := strconv.ParseFloat(s, 32)
	return float32(f)
}

// c19FloatTok: shortest decimal of a float in its own precision (what protojson prints).
func c19FloatTok(kind string, f float64) string {
	if kind == "float" {
		return strconv.FormatFloat(f, 'g', -1, 32)
	}
	return strconv.FormatFloat(f, 'g', -1, 64)
}

// ---------------------------------------------------------------------------------------------
// generated fields

type c19Field struct {
	F      *ir.Field
	Kind   string
	Card   string // single | optional | repeated | map
	I64N   bool
	Group  string // numeric rule group ("" when there are no numeric rules)
	Shape  string
	Rules  map[string]any   // for the driver
	Probes []map[string]any // driver encoding
	// facts used to name a divergence class
	hasExclusive, hasBounds, hasConstIn, widened, retyped, yaml11, zeroMax, wraps, beyond53, emptyConst, nullable bool
}

func c19U(x uint64) *uint64          { return &x }
func c19S(x string) *string          { return &x }
func c19Bo(x bool) *bool             { return &x }
func c19Cnt(x uint64) string         { return strconv.FormatUint(x, 10) }
func c19Bool(r *gen.R) bool          { return r.Bool() }
func c19Str(s string) map[string]any { return map[string]any{"s": s} }

var c19StayWords = []string{"a", "ab", "active", "hello world", "a: b", "#x", "-", "---", "Zürich", "x y", " lead", "é", "yes", "No", "abc", "𝄞𝄞", "on", "Off", "y", "NO"}

// c19Yaml11 are the plain scalars only a YAML 1.1 reader (the k8s YAML→JSON converter of
// format=json) re-types, to booleans.
var c19Yaml11 = map[string]bool{"y": true, "Y": true, "yes": true, "Yes": true, "YES": true, "on": true, "On": true, "ON": true,
	"n": true, "N": true, "no": true, "No": true, "NO": true, "off": true, "Off": true, "OFF": true}
var c19RetypedWords = []string{"123", "-7", "0", "true", "false", "null", "~", "1.5", "1e3", "+1", "True", "NULL"}
// patterns of the RE2 / ECMA-262 common subset, incl. non-capturing groups, optional literal parentheses,
// escaped metacharacters, alternation and a quote: `pattern` is published verbatim whatever it contains
var c19Patterns = []string{"^[a-z]+$", "^[0-9]{3}$", "^a.*b$", "^(?:[A-Z]{2}-)?[0-9]{4}$", `^\(?[0-9]{3}\)?[0-9]{4}$`, "^(a|b)+$", `^\d+\.\d+$`, `^"q"$`, "^[^/]+$",
	// not anchored at one end or at either: `pattern` is a SEARCH on both sides (protovalidate's `matches`, JSON Schema's
	// `pattern`), so the text is published as it stands
	"[0-9]", "^[A-Z]{2}", `\.pdf$`, "ab+c"}
var c19Formats = []string{"email", "uuid", "uri", "hostname", "ip", "ipv4", "ipv6"}
var c19FloatPool = []string{"0", "0.5", "-2.25", "0.1", "1", "100", "1e21", "1e-7", "3.4028235e38", "16777216", "-0.3", "2.5", "1e10", "-1e6"}

func c19IntPool(k string) []*big.Int {
	lo, hi := c19Range(k)
	vals := []*big.Int{lo, hi, big.NewInt(0), big.NewInt(1), big.NewInt(5), big.NewInt(100), big.NewInt(-1), big.NewInt(-5),
		big.NewInt(-100), big.NewInt(2147483647), big.NewInt(-2147483648), new(big.Int).Add(lo, big.NewInt(1)), new(big.Int).Sub(hi, big.NewInt(1))}
	if c19Is64(k) {
		p53 := new(big.Int).Lsh(big.NewInt(1), 53)
		vals = append(vals, p53, new(big.Int).Add(p53, big.NewInt(1)), new(big.Int).Neg(new(big.Int).Add(p53, big.NewInt(1))),
			new(big.Int).Sub(p53, big.NewInt(1)), new(big.Int).Add(p53, big.NewInt(3)), big.NewInt(4294967296))
	}
	var out []*big.Int
	seen := map[string]bool{}
	for _, v := range vals {
		c := c19Clamp(k, v)
		if !seen[c.String()] {
			seen[c.String()] = true
			out = append(out, c)
		}
	}
	return out
}

func c19BigBeyond(v *big.Int) bool { return c19Beyond53(new(big.Rat).SetInt(v)) }

// c19GenNumeric builds a numeric scalar field.
func c19GenNumeric(r *gen.R, name string, num int32) *c19Field {
	kinds := append(append([]string{}, c19IntKinds...), "float", "double")
	k := gen.Pick(r, kinds)
	fd := &c19Field{Kind: k, Card: "single", Group: k}
	if r.P(1, 4) {
		fd.Card = "optional"
	}
	if c19Is64(k) && r.P(2, 5) {
		fd.I64N = true
	}
	// one time in eight declare the rules in the group the generator reads instead of the
	// field's own (protovalidate refuses such rules: correspondence only)
	if !c19IsFloat(k) && c19ForeignGroup(k) != k && r.P(1, 8) {
		fd.Group = c19ForeignGroup(k)
	}
	shapes := []string{"gte", "lte", "gte+lte", "gte+lte", "const", "in", "gte+in", "gt", "lt", "gt+lte", "gte+lt", "const", "in", "gte+lte"}
	fd.Shape = gen.Pick(r, shapes)
	rules := &ir.Rules{}
	if fd.Group != k {
		rules.NumGroup = fd.Group
	}
	wire := map[string]any{"group": fd.Group}
	var probes []*big.Rat
	has := func(s string) bool {
		for _, p := range strings.Split(fd.Shape, "+") {
			if p == s {
				return true
			}
		}
		return false
	}
	if c19IsFloat(k) {
		pick := func() (string, *big.Rat, map[string]any, float64) {
			s := gen.Pick(r, c19FloatPool)
			var f float64
			if k == "float" {
				f = float64(c19F32(s))
			} else {
				f, _ = strconv.ParseFloat(s, 64)
			}
			own := c19Rat(c19FloatTok(k, f))
			wide := c19Rat(strconv.FormatFloat(f, 'g', -1, 64))
			if own.Cmp(wide) != 0 {
				fd.widened = true
			}
			return c19FloatTok(k, f), own, map[string]any{"v": c19Num(own), "wide": c19Num(wide)}, f
		}
		around := func(f float64) {
			var lo, hi float64
			if k == "float" {
				lo, hi = float64(math.Nextafter32(float32(f), float32(math.Inf(-1)))), float64(math.Nextafter32(float32(f), float32(math.Inf(1))))
			} else {
				lo, hi = math.Nextafter(f, math.Inf(-1)), math.Nextafter(f, math.Inf(1))
			}
			for _, x := range []float64{lo, f, hi} {
				if !math.IsInf(x, 0) {
					probes = append(probes, c19Rat(c19FloatTok(k, x)))
				}
			}
		}
		for _, b := range []struct {
			n string
			p **string
		}{{"gt", &rules.Gt}, {"gte", &rules.Gte}, {"lt", &rules.Lt}, {"lte", &rules.Lte}} {
			if has(b.n) {
				tok, _, w, f := pick()
				*b.p = c19S(tok)
				wire[b.n] = w
				around(f)
			}
		}
		wasWidened := fd.widened
		if has("const") {
			tok, own, _, f := pick()
			rules.NumConst = c19S(tok)
			wire["num_const"] = c19Num(own)
			around(f)
		}
		if has("in") {
			var l []any
			for i := 0; i < 1+r.Intn(3); i++ {
				tok, own, _, f := pick()
				rules.NumIn = append(rules.NumIn, tok)
				l = append(l, c19Num(own))
				around(f)
			}
			wire["num_in"] = l
		}
		fd.widened = wasWidened // const / in are printed with %g in the field's own precision
		for _, s := range []string{"0", "1", "-1", "0.25"} {
			probes = append(probes, c19Rat(s))
		}
	} else {
		pool := c19IntPool(fd.Group)
		pick := func() *big.Int {
			v := gen.Pick(r, pool)
			// the value must also be expressible for the field's kind when the group differs
			return c19Clamp(k, c19Clamp(fd.Group, v))
		}
		around := func(v *big.Int) {
			for _, d := range []int64{-1, 0, 1} {
				probes = append(probes, new(big.Rat).SetInt(c19Clamp(k, new(big.Int).Add(v, big.NewInt(d)))))
			}
		}
		for _, b := range []struct {
			n string
			p **string
		}{{"gt", &rules.Gt}, {"gte", &rules.Gte}, {"lt", &rules.Lt}, {"lte", &rules.Lte}} {
			if has(b.n) {
				v := pick()
				*b.p = c19S(v.String())
				wire[b.n] = map[string]any{"v": c19IntW(v), "wide": c19IntW(v)}
				around(v)
				if c19BigBeyond(v) {
					fd.beyond53 = true
				}
			}
		}
		if has("const") {
			v := pick()
			rules.NumConst = c19S(v.String())
			wire["num_const"] = c19IntW(v)
			around(v)
		}
		if has("in") {
			var l []any
			for i := 0; i < 1+r.Intn(3); i++ {
				v := pick()
				rules.NumIn = append(rules.NumIn, v.String())
				l = append(l, c19IntW(v))
				around(v)
			}
			wire["num_in"] = l
		}
		lo, hi := c19Range(k)
		for _, v := range []*big.Int{big.NewInt(0), lo, hi, big.NewInt(7)} {
			probes = append(probes, new(big.Rat).SetInt(c19Clamp(k, v)))
		}
	}
	fd.hasExclusive = has("gt") || has("lt")
	fd.hasBounds = has("gte") || has("lte")
	fd.hasConstIn = has("const") || has("in")
	seen := map[string]bool{}
	for _, p := range probes {
		key := c19Dec(p)
		if seen[key] {
			continue
		}
		seen[key] = true
		fd.Probes = append(fd.Probes, map[string]any{"n": c19Num(p)})
	}
	if r.P(1, 6) {
		rules.Required = true
	}
	wire["required"] = rules.Required
	fd.Rules = wire
	fd.F = &ir.Field{Name: name, Number: num, Kind: k, Rules: rules}
	if fd.Card == "optional" {
		fd.F.Card = "optional"
		if r.P(1, 2) {
			// nullable: the schema becomes `type: [T, "null"]`; every rule keyword must survive
			fd.F.Ann.Nullable = c19Bo(true)
			fd.nullable = true
		}
	}
	if fd.I64N {
		fd.F.Ann.Int64Enc = "NUMBER"
	}
	return fd
}

func c19CountPool(r *gen.R) uint64 {
	return gen.Pick(r, []uint64{0, 0, 1, 1, 2, 3, 5, 1 << 20, 1<<63 - 1, 1 << 63, math.MaxUint64})
}

func c19WordOfLen(n int) string {
	alpha := []string{"a", "é", "𝄞", "z", "ß"}
	var b strings.Builder
	for i := 0; i < n; i++ {
		b.WriteString(alpha[i%len(alpha)])
	}
	return b.String()
}

func c19GenString(r *gen.R, name string, num int32, allowEmptyConst bool) *c19Field {
	fd := &c19Field{Kind: "string", Card: "single"}
	if r.P(1, 4) {
		fd.Card = "optional"
	}
	rules := &ir.Rules{}
	wire := map[string]any{}
	var probes []string
	shape := gen.Pick(r, []string{"len", "len", "min", "max", "in", "const", "in+len", "format", "pattern+len", "const", "in"})
	fd.Shape = shape
	has := func(s string) bool { return strings.Contains(shape, s) }
	lens := func(n uint64) {
		if n <= 64 {
			for _, d := range []int{-1, 0, 1} {
				if int(n)+d >= 0 {
					probes = append(probes, c19WordOfLen(int(n)+d))
				}
			}
		}
		if n >= 1<<63 {
			fd.wraps = true
		}
	}
	if has("len") || has("min") {
		n := c19CountPool(r)
		rules.MinLen = c19U(n)
		wire["min_len"] = c19Cnt(n)
		lens(n)
	}
	if has("len") || has("max") {
		n := c19CountPool(r)
		rules.MaxLen = c19U(n)
		wire["max_len"] = c19Cnt(n)
		lens(n)
		if n == 0 {
			fd.zeroMax = true
		}
	}
	word := func() string {
		if r.P(2, 5) {
			w := gen.Pick(r, c19RetypedWords)
			fd.retyped = true
			return w
		}
		w := gen.Pick(r, c19StayWords)
		if c19Yaml11[w] {
			fd.yaml11 = true
		}
		return w
	}
	if has("in") {
		var l []string
		for i := 0; i < 1+r.Intn(4); i++ {
			w := word()
			if r.P(1, 12) {
				w = ""
				fd.retyped = true
			}
			l = append(l, w)
			probes = append(probes, w)
		}
		rules.StrIn = l
		wire["str_in"] = l
	}
	if has("const") {
		w := word()
		if allowEmptyConst {
			w = ""
			fd.emptyConst = true
		}
		rules.StrConst = c19S(w)
		wire["str_const"] = w
		probes = append(probes, w)
	}
	if has("format") {
		f := gen.Pick(r, c19Formats)
		rules.Format = f
		wire["format"] = f
	}
	if has("pattern") {
		p := gen.Pick(r, c19Patterns)
		rules.Pattern = c19S(p)
		wire["pattern"] = p
	}
	probes = append(probes, "", "a", "zzz", "123", "true")
	seen := map[string]bool{}
	for _, p := range probes {
		if !seen[p] {
			seen[p] = true
			fd.Probes = append(fd.Probes, c19Str(p))
		}
	}
	if r.P(1, 6) {
		rules.Required = true
	}
	wire["required"] = rules.Required
	fd.Rules = wire
	fd.F = &ir.Field{Name: name, Number: num, Kind: "string", Rules: rules}
	if fd.Card == "optional" {
		fd.F.Card = "optional"
		if r.P(1, 2) {
			fd.F.Ann.Nullable = c19Bo(true)
			fd.nullable = true
		}
	}
	return fd
}

func c19Elem(kind string, i int) map[string]any {
	switch kind {
	case "string":
		return c19Str(fmt.Sprintf("e%d", i))
	case "bool":
		return map[string]any{"b": i%2 == 0}
	case "double":
		return map[string]any{"n": c19Num(c19Rat(fmt.Sprintf("%d.5", i)))}
	default:
		return map[string]any{"n": c19IntW(big.NewInt(int64(i + 1)))}
	}
}

func c19GenRepeated(r *gen.R, name string, num int32) *c19Field {
	k := gen.Pick(r, []string{"string", "string", "int32", "int32", "int64", "uint32", "double", "bool", "sint64"})
	fd := &c19Field{Kind: k, Card: "repeated", Shape: "repeated"}
	if c19Is64(k) && r.P(1, 3) {
		fd.I64N = true
	}
	rules := &ir.Rules{}
	wire := map[string]any{}
	sizes := map[int]bool{0: true, 1: true, 2: true}
	cnt := func(n uint64) {
		if n <= 8 {
			for _, d := range []int{-1, 0, 1} {
				if int(n)+d >= 0 {
					sizes[int(n)+d] = true
				}
			}
		}
		if n >= 1<<63 {
			fd.wraps = true
		}
	}
	if r.P(2, 3) {
		n := c19CountPool(r)
		rules.MinItems = c19U(n)
		wire["min_items"] = c19Cnt(n)
		cnt(n)
	}
	if r.P(2, 3) {
		n := c19CountPool(r)
		rules.MaxItems = c19U(n)
		wire["max_items"] = c19Cnt(n)
		cnt(n)
		if n == 0 {
			fd.zeroMax = true
		}
	}
	if r.P(1, 2) {
		u := r.Bool()
		rules.Unique = c19Bo(u)
		wire["unique"] = u
	}
	var ss []int
	for s := range sizes {
		ss = append(ss, s)
	}
	sort.Ints(ss)
	for _, s := range ss {
		distinct := []any{}
		for i := 0; i < s; i++ {
			distinct = append(distinct, c19Elem(k, i))
		}
		fd.Probes = append(fd.Probes, map[string]any{"l": distinct})
		if s >= 2 && k != "bool" {
			dup := append([]any{}, distinct...)
			dup[s-1] = dup[0]
			fd.Probes = append(fd.Probes, map[string]any{"l": dup})
		}
	}
	if r.P(1, 6) {
		rules.Required = true
	}
	wire["required"] = rules.Required
	fd.Rules = wire
	fd.F = &ir.Field{Name: name, Number: num, Kind: k, Card: "repeated", Rules: rules}
	if fd.I64N {
		fd.F.Ann.Int64Enc = "NUMBER"
	}
	return fd
}

func c19GenMap(r *gen.R, name string, num int32) *c19Field {
	k := gen.Pick(r, []string{"string", "string", "int32", "int64", "bool"})
	fd := &c19Field{Kind: k, Card: "map", Shape: "map"}
	rules := &ir.Rules{}
	wire := map[string]any{}
	sizes := map[int]bool{0: true, 1: true, 2: true}
	cnt := func(n uint64) {
		if n <= 8 {
			for _, d := range []int{-1, 0, 1} {
				if int(n)+d >= 0 {
					sizes[int(n)+d] = true
				}
			}
		}
		if n >= 1<<63 {
			fd.wraps = true
		}
	}
	if r.P(2, 3) {
		n := c19CountPool(r)
		rules.MinPairs = c19U(n)
		wire["min_pairs"] = c19Cnt(n)
		cnt(n)
	}
	if r.P(2, 3) {
		n := c19CountPool(r)
		rules.MaxPairs = c19U(n)
		wire["max_pairs"] = c19Cnt(n)
		cnt(n)
		if n == 0 {
			fd.zeroMax = true
		}
	}
	var ss []int
	for s := range sizes {
		ss = append(ss, s)
	}
	sort.Ints(ss)
	for _, s := range ss {
		m := []any{}
		for i := 0; i < s; i++ {
			m = append(m, map[string]any{"k": fmt.Sprintf("k%d", i), "v": c19Elem(k, i)})
		}
		fd.Probes = append(fd.Probes, map[string]any{"m": m})
	}
	if r.P(1, 6) {
		rules.Required = true
	}
	wire["required"] = rules.Required
	fd.Rules = wire
	fd.F = &ir.Field{Name: name, Number: num, Kind: k, Card: "map", MapKey: "string", Rules: rules}
	return fd
}

func c19GenBool(r *gen.R, name string, num int32) *c19Field {
	fd := &c19Field{Kind: "bool", Card: "single", Shape: "required-only"}
	rules := &ir.Rules{Required: r.Bool()}
	fd.Rules = map[string]any{"required": rules.Required}
	fd.Probes = []map[string]any{{"b": true}, {"b": false}}
	fd.F = &ir.Field{Name: name, Number: num, Kind: "bool", Rules: rules}
	return fd
}

type c19Msg struct {
	Req    *ir.Request
	Fields []*c19Field
	Param  string
	Res    *plug.Result
	Err    error
}

func c19Request(idx int, fields []*c19Field) *ir.Request {
	var fs []*ir.Field
	for _, f := range fields {
		fs = append(fs, f.F)
	}
	f := &ir.File{Name: fmt.Sprintf("c19/m%d.proto", idx), Package: "c19", GoPackage: "example.com/c19;c19",
		Messages: []*ir.Message{{Name: "M", Fields: fs}, {Name: "E"}},
		Services: []*ir.Service{{Name: "S", Methods: []*ir.Method{{Name: "Do", Input: ".c19.M", Output: ".c19.E",
			Config: &ir.HTTPConfig{Path: "/do", Method: "POST"}}}}}}
	return &ir.Request{Files: []*ir.File{f}, Generate: []string{f.Name}}
}

// c19Class names the defect class that explains a disagreement between the real schema and the
// rules on this field ("" = none applies: the disagreement is unexplained).
func c19Class(fd *c19Field, realSchema any, jsonFormat, spec, real bool) string {
	numeric := c19IsNumeric(fd.Kind) && (fd.Card == "single" || fd.Card == "optional")
	if c19BoolBound(realSchema) {
		// fixed by de811c7; listed as fixed, so seeing it again is a violation
		return "exclusive_bound_published_as_false"
	}
	if numeric {
		read := c19Getter(fd.Kind) == fd.Group
		if !read {
			if !spec && real {
				return "rule_group_not_read"
			}
			return ""
		}
		stringTyped := c19Is64(fd.Kind) && !fd.I64N
		if spec && !real {
			switch {
			case stringTyped && fd.hasConstIn:
				return "int64_string_const_in_numbers"
			case fd.widened:
				return "float_bound_widened"
			}
			return ""
		}
		switch {
		case stringTyped && (fd.hasBounds || fd.hasExclusive):
			return "int64_string_numeric_keywords"
		case fd.widened:
			return "float_bound_widened"
		}
		return ""
	}
	if spec && !real {
		switch {
		case fd.wraps:
			return "count_bound_wraps_int64"
		case jsonFormat && fd.yaml11:
			return "string_const_yaml11_in_json"
		case fd.retyped:
			// repaired by /repo 7f6805c (literals are tagged !!str): named only so that a return of it is recognisable
			return "string_const_in_retyped"
		}
		return ""
	}
	switch {
	case fd.zeroMax:
		return "zero_max_dropped"
	case fd.wraps:
		return "count_bound_wraps_int64"
	}
	return ""
}

// C19: OpenAPI constraints accept exactly what the declared validation rules accept.
func C19(c *Ctx) error {
	res := c.Res
	res.Rule = "messages of generated fields carrying buf.validate rules: numeric scalars of all 12 numeric kinds (rule shapes gte / lte / gt / lt / const / in and combinations; rules in the field's own group, one in eight in the group the generator reads; bounds negative, zero, kind extremes, around 2^53; int64_encoding default and NUMBER; singular and proto3-optional), strings (min_len / max_len incl. 0, 2^63, 2^64-1; in / const over words a YAML reader keeps and re-types; pattern; well-known formats), repeated fields (min/max items, unique) and maps (min/max pairs), each through the real protoc-gen-openapiv3 (YAML and format=json); " +
		"a case is one (field, probe value) with probes at and around every bound (±1, float neighbours, lengths / sizes ±1, every in / const value): real field schema vs the Lean Impl.fieldSchema (correspondence) and Lean acceptance of the probe's JSON form by the REAL schema vs Spec.satisfies (oracle); required listing and format names per field; distinct by (kind, cardinality, encoding, rules, probe)"
	res.Assumptions = append(res.Assumptions,
		"pattern is compared as published text only (not evaluated on either side)",
		"documents are read with go.yaml.in/yaml/v4; numbers are kept as exact decimals; beyond 2^53 a published bound is compared as a double",
		"float values and bounds are identified with their shortest round-trip decimals (strconv), as protojson prints them",
		"rules declared in a group other than the field's own (refused by protovalidate) are checked for correspondence only",
		"NUMBER-encoded 64-bit fields with a bound or probe beyond 2^53 are outside the oracle (documented precision limitation of NUMBER); the published bound is still compared with the model",
		"a sample of verdicts of the Lean validator is cross-checked with python jsonschema (Draft 2020-12)")
	r := gen.New(c.Seed)
	nMsgs := c.N(14, 360)
	perMsg := 36
	var msgs []*c19Msg
	for i := 0; i < nMsgs; i++ {
		rr := r.Fork(fmt.Sprint("c19-", i))
		var fields []*c19Field
		for j := 0; j < perMsg; j++ {
			fr := rr.Fork(fmt.Sprint("f", j))
			name := fmt.Sprintf("f%d_v", j)
			num := int32(j + 1)
			var fd *c19Field
			switch x := fr.Intn(20); {
			case x < 10:
				fd = c19GenNumeric(fr, name, num)
			case x < 14:
				fd = c19GenString(fr, name, num, false)
			case x < 17:
				fd = c19GenRepeated(fr, name, num)
			case x < 19:
				fd = c19GenMap(fr, name, num)
			default:
				fd = c19GenBool(fr, name, num)
			}
			// one field in three whose ZERO value satisfies its rules also says `ignore = IGNORE_IF_ZERO_VALUE`: the rules
			// then accept exactly what they accept without the option (they are skipped for the zero value only, which
			// they accept anyway), so the published constraints must be the same
			if j%3 == 1 && fd.F.Rules != nil && c19ZeroSatisfies(fd.F) {
				fd.F.Rules.IgnoreIfZero = true
			}
			fields = append(fields, fd)
		}
		m := &c19Msg{Fields: fields, Req: c19Request(i, fields)}
		if i%4 == 3 {
			m.Param = "format=json"
		}
		msgs = append(msgs, m)
	}
	// the systematic part: every numeric kind x every rule shape once, in the field's own group
	{
		rr := r.Fork("c19-systematic")
		var fields []*c19Field
		j := 0
		for ki := 0; ki < 12; ki++ {
			for si := 0; si < 6; si++ {
				for tries := 0; ; tries++ {
					fr := rr.Fork(fmt.Sprint("s", ki, "-", si, "-", tries))
					fd := c19GenNumeric(fr, fmt.Sprintf("s%d_v", j), int32(j+1))
					want := []string{"gte+lte", "gt", "lt", "const", "in", "gte"}[si]
					kinds := append(append([]string{}, c19IntKinds...), "float", "double")
					if fd.Kind == kinds[ki] && fd.Shape == want && fd.Group == fd.Kind {
						fields = append(fields, fd)
						j++
						break
					}
				}
			}
		}
		for s := 0; s < len(fields); s += perMsg {
			e := s + perMsg
			if e > len(fields) {
				e = len(fields)
			}
			part := fields[s:e]
			for i, f := range part {
				f.F.Number = int32(i + 1)
			}
			msgs = append(msgs, &c19Msg{Fields: part, Req: c19Request(1000+s, part)})
		}
	}
	// string.const = "" alone in its message (the generator dies on it)
	for i := 0; i < c.N(2, 6); i++ {
		fr := r.Fork(fmt.Sprint("c19-empty-", i))
		var fd *c19Field
		for tries := 0; ; tries++ {
			fd = c19GenString(fr.Fork(fmt.Sprint(tries)), "only_v", 1, true)
			if fd.emptyConst {
				break
			}
		}
		m := &c19Msg{Fields: []*c19Field{fd}, Req: c19Request(2000+i, []*c19Field{fd})}
		if i%2 == 1 {
			m.Param = "format=json"
		}
		msgs = append(msgs, m)
	}
	parallel(len(msgs), func(i int) {
		msgs[i].Res, msgs[i].Err = oaRun(msgs[i].Req, msgs[i].Param)
	})
	res.Programs = len(msgs)
	if !drv.Available() {
		res.Corr("driver", "Lean driver binary missing (model did not build)", nil)
		return nil
	}
	type fieldJob struct {
		m       *c19Msg
		fd      *c19Field
		real    any      // wire schema of the field (nil when no document)
		reqList []string // real required list
		crashed bool
	}
	var jobs []*fieldJob
	var ops []map[string]any
	for _, m := range msgs {
		if m.Err != nil {
			return m.Err
		}
		crashed := m.Res.Crash != ""
		var props map[string]any
		var reqList []string
		if !crashed {
			if m.Res.Error != nil {
				res.Violation("generator_error", "generator answered with an error on a valid rule set: "+*m.Res.Error, map[string]any{"schema": m.Req})
				continue
			}
			if len(m.Res.Order) != 1 {
				res.Violation("documents", fmt.Sprintf("%d documents for one service", len(m.Res.Order)), map[string]any{"schema": m.Req})
				continue
			}
			var root yaml.Node
			if err := yaml.Unmarshal([]byte(m.Res.Files[m.Res.Order[0]]), &root); err != nil {
				res.Violation("unparsable_document", err.Error(), map[string]any{"schema": m.Req, "parameter": m.Param})
				continue
			}
			doc, err := c19Wire(&root)
			if err != nil {
				res.Corr("document_domain", err.Error(), map[string]any{"schema": m.Req})
				continue
			}
			comp, _ := c19Path(doc, "components", "schemas", "M").(map[string]any)
			props, _ = comp["properties"].(map[string]any)
			if rl, ok := comp["required"].([]any); ok {
				for _, x := range rl {
					reqList = append(reqList, fmt.Sprint(x))
				}
			}
			if props == nil {
				res.Violation("no_component", "the document has no component schema for the request message", map[string]any{"schema": m.Req})
				continue
			}
		}
		// required listing, per message
		var rf []map[string]any
		for _, fd := range m.Fields {
			rf = append(rf, map[string]any{"json": fd.F.JSON(), "required": fd.F.Rules.Required})
		}
		if !crashed {
			jobs = append(jobs, &fieldJob{m: m, reqList: reqList})
			ops = append(ops, map[string]any{"op": "c19_required", "fields": rf})
		}
		for _, fd := range m.Fields {
			j := &fieldJob{m: m, fd: fd, crashed: crashed, reqList: reqList}
			if !crashed {
				j.real = props[fd.F.JSON()]
			}
			jobs = append(jobs, j)
			card := fd.Card
			ops = append(ops, map[string]any{"op": "c19_case", "kind": fd.Kind, "card": card, "int64_number": fd.I64N, "nullable": fd.nullable,
				"rules": fd.Rules, "probes": fd.Probes, "real_schema": j.real, "json_format": m.Param == "format=json"})
		}
	}
	outs, err := drv.Run(ops)
	if err != nil {
		res.Corr("driver", "Lean driver failed: "+err.Error(), nil)
		return nil
	}
	var py []c19PyCase
	pyEvery := c.N(7, 5)
	probeNo := 0
	for i, j := range jobs {
		o := outs[i]
		if j.fd == nil {
			// required listing of one message
			var model []string
			if l, ok := o["required"].([]any); ok {
				for _, x := range l {
					model = append(model, fmt.Sprint(x))
				}
			}
			if strings.Join(model, ",") != strings.Join(j.reqList, ",") {
				res.Corr("required_list", fmt.Sprintf("required list: real %v, model %v", j.reqList, model), map[string]any{"schema": j.m.Req})
			} else {
				res.CorrAgree()
			}
			continue
		}
		fd := j.fd
		replay := func(extra map[string]any) map[string]any {
			m := map[string]any{"field": fd.F, "kind": fd.Kind, "card": fd.Card, "int64_number": fd.I64N, "group": fd.Group,
				"parameter": j.m.Param, "real_schema": c19Plain(j.real), "impl_schema": c19Plain(o["impl_schema"])}
			for k, v := range extra {
				m[k] = v
			}
			return m
		}
		implCrash, _ := o["impl_crashes"].(bool)
		res.Count("shape:" + fd.Kind + "/" + fd.Card + "/" + fd.Shape)
		if j.crashed != implCrash {
			res.Corr("crash", fmt.Sprintf("generator crashed=%v, model crashes=%v (%s)", j.crashed, implCrash, firstLine(j.m.Res.Stderr)), replay(map[string]any{"schema": j.m.Req}))
			continue
		}
		if j.crashed {
			res.CorrAgree()
			res.Case(map[string]any{"kind": fd.Kind, "rules": fd.Rules, "crash": true}, true)
			res.Divergence("string_const_empty_no_document", fmt.Sprintf("string.const = \"\": %s died without an answer (%s)", plug.OpenAPI, firstLine(j.m.Res.Stderr)), implCrash,
				replay(map[string]any{"schema": j.m.Req, "stderr": firstLines(j.m.Res.Stderr, 4)}))
			continue
		}
		if j.real == nil {
			res.Violation("no_field_schema", "the component has no property for field "+fd.F.Name, replay(nil))
			continue
		}
		// correspondence: the whole schema object of the field
		schemaAgrees := c19WireEq(j.real, o["impl_schema"])
		schemaExact := c19WireEqX(j.real, o["impl_schema"], true)
		if schemaAgrees {
			res.CorrAgree()
		} else {
			res.Corr("field_schema:"+fd.Kind+"/"+fd.Card, fmt.Sprintf("field %s (%s %s, group %s): real schema %s, model %s", fd.F.Name, fd.Card, fd.Kind, fd.Group,
				c19JSON(c19Plain(j.real)), c19JSON(c19Plain(o["impl_schema"]))), replay(nil))
		}
		// required listing and format name (oracle)
		listed := false
		for _, n := range j.reqList {
			if n == fd.F.JSON() {
				listed = true
			}
		}
		if listed != fd.F.Rules.Required {
			res.Violation("required_listing", fmt.Sprintf("field %s: rules.required=%v, listed=%v", fd.F.Name, fd.F.Rules.Required, listed), replay(nil))
		}
		if fd.F.Rules.Format != "" {
			rs, _ := j.real.(map[string]any)
			if got, _ := rs["format"].(string); got != fd.F.Rules.Format {
				res.Violation("format_name", fmt.Sprintf("well-known rule %s published as format %q", fd.F.Rules.Format, got), replay(nil))
			}
			res.Count("format:" + fd.F.Rules.Format)
		}
		if fd.F.Rules.Pattern != nil {
			rs, _ := j.real.(map[string]any)
			if got, _ := rs["pattern"].(string); got != *fd.F.Rules.Pattern {
				res.Violation("pattern_text", fmt.Sprintf("pattern %q published as %q", *fd.F.Rules.Pattern, got), replay(nil))
			}
		}
		inDomain, _ := o["in_theorem_domain"].(bool)
		if inDomain {
			res.Count("theorem_domain:in")
		} else {
			res.Count("theorem_domain:out")
		}
		numericScalar := c19IsNumeric(fd.Kind) && (fd.Card == "single" || fd.Card == "optional")
		ownGroup := !numericScalar || fd.Group == fd.Kind
		probeOuts, _ := o["probes"].([]any)
		for pi, pv := range probeOuts {
			po, _ := pv.(map[string]any)
			spec, _ := po["spec"].(bool)
			implValid, _ := po["impl_valid"].(bool)
			realValid, _ := po["real_valid"].(bool)
			probeNo++
			canon := map[string]any{"kind": fd.Kind, "card": fd.Card, "n": fd.I64N, "rules": fd.Rules, "probe": fd.Probes[pi]}
			res.Case(canon, true)
			// the model's verdict on its own schema must equal the real schema's whenever the schemas agree
			if schemaExact && implValid != realValid {
				res.Corr("verdict", fmt.Sprintf("equal schemas, different verdicts on %s", c19JSON(c19Plain(po["json"]))), replay(map[string]any{"probe": fd.Probes[pi]}))
			}
			// inside the side conditions of the partial theorems the model must agree with the rules
			if inDomain && implValid != spec {
				res.Corr("theorem_instance", fmt.Sprintf("side conditions hold but Impl schema verdict %v != rules %v on %s", implValid, spec, c19JSON(c19Plain(po["json"]))), replay(map[string]any{"probe": fd.Probes[pi]}))
			}
			if probeNo%pyEvery == 0 {
				py = append(py, c19PyCase{schema: c19Plain(j.real), inst: c19Plain(po["json"]), lean: realValid,
					what: fmt.Sprintf("%s %s %s", fd.Kind, fd.Card, c19JSON(c19Plain(po["json"])))})
			}
			if !ownGroup {
				res.Count("oracle:skipped_rules_in_foreign_group")
				continue
			}
			if numericScalar && c19Is64(fd.Kind) && fd.I64N {
				pr, _ := c19IsNum(fd.Probes[pi]["n"])
				if fd.beyond53 || (pr != nil && c19Beyond53(pr)) {
					res.Count("oracle:skipped_number_beyond_2p53")
					continue
				}
			}
			if realValid == spec {
				res.Count("oracle:agree")
				continue
			}
			key := c19Class(fd, j.real, j.m.Param == "format=json", spec, realValid)
			what := fmt.Sprintf("%s %s field (group %s, int64 NUMBER=%v) rules %s: value %s: rules accept=%v, published schema %s accepts=%v",
				fd.Card, fd.Kind, fd.Group, fd.I64N, c19JSON(fd.Rules), c19JSON(c19Plain(po["json"])), spec, c19JSON(c19Plain(j.real)), realValid)
			if key == "" {
				res.Violation("unexplained:"+fd.Kind+"/"+fd.Card, what, replay(map[string]any{"probe": fd.Probes[pi], "spec": spec, "real_valid": realValid}))
				continue
			}
			res.Count("divergence:" + key)
			res.Divergence(key, what, schemaAgrees && implValid == realValid, replay(map[string]any{"probe": fd.Probes[pi], "spec": spec, "real_valid": realValid, "schema": j.m.Req}))
		}
	}
	c19Python(res, py)
	return nil
}

func c19Path(v any, keys ...string) any {
	for _, k := range keys {
		m, ok := v.(map[string]any)
		if !ok {
			return nil
		}
		v = m[k]
	}
	return v
}

func c19JSON(v any) string {
	b, _ := json.Marshal(v)
	s := string(b)
	if len(s) > 400 {
		s = s[:400] + "…"
	}
	return s
}

// c19BoolBound: does the schema (at any depth) carry an exclusive bound with a boolean value?
func c19BoolBound(v any) bool {
	switch x := v.(type) {
	case map[string]any:
		for k, e := range x {
			if k == "exclusiveMinimum" || k == "exclusiveMaximum" {
				if _, ok := e.(bool); ok {
					return true
				}
			}
			if c19BoolBound(e) {
				return true
			}
		}
	case []any:
		for _, e := range x {
			if c19BoolBound(e) {
				return true
			}
		}
	}
	return false
}

func c19StripPattern(v any) any {
	switch x := v.(type) {
	case map[string]any:
		out := map[string]any{}
		for k, e := range x {
			if k == "pattern" {
				continue
			}
			out[k] = c19StripPattern(e)
		}
		return out
	case []any:
		out := make([]any, len(x))
		for i, e := range x {
			out[i] = c19StripPattern(e)
		}
		return out
	}
	return v
}

func c19HasBigNumber(v any) bool {
	switch x := v.(type) {
	case json.Number:
		return c19Beyond53(c19Rat(x.String()))
	case map[string]any:
		for _, e := range x {
			if c19HasBigNumber(e) {
				return true
			}
		}
	case []any:
		for _, e := range x {
			if c19HasBigNumber(e) {
				return true
			}
		}
	}
	return false
}

const c19PyScript = `
import sys, json, jsonschema
for line in sys.stdin:
    d = json.loads(line)
    try:
        v = jsonschema.Draft202012Validator(d["schema"])
        print(json.dumps({"ok": v.is_valid(d["inst"])}))
    except Exception as e:
        print(json.dumps({"err": repr(e)[:200]}))
    sys.stdout.flush()
`

type c19PyCase struct {
	schema, inst any
	lean         bool
	what         string
}

// c19Python cross-checks verdicts of the Lean validator with python jsonschema. Schemas with a
// boolean exclusiveMinimum / exclusiveMaximum are malformed for Draft 2020-12 (python compares
// the instance with False) and numbers beyond 2^53 are doubles there: both are left out, as is
// `pattern` (not evaluated by the Lean validator).
func c19Python(res *report.Result, cases []c19PyCase) {
	var in bytes.Buffer
	var kept []c19PyCase
	for _, c := range cases {
		if c19BoolBound(c.schema) || c19HasBigNumber(c.schema) || c19HasBigNumber(c.inst) {
			res.Count("python:skipped")
			continue
		}
		b, err := json.Marshal(map[string]any{"schema": c19StripPattern(c.schema), "inst": c.inst})
		if err != nil {
			continue
		}
		in.Write(b)
		in.WriteByte('\n')
		kept = append(kept, c)
	}
	if len(kept) == 0 {
		return
	}
	cmd := exec.Command("python3-vt", "-c", c19PyScript)
	cmd.Stdin = &in
	var stdout, stderr bytes.Buffer
	cmd.Stdout = &stdout
	cmd.Stderr = &stderr
	if err := cmd.Run(); err != nil {
		res.Corr("python", "python3-vt jsonschema cross-check failed to run: "+err.Error()+": "+firstLine(stderr.String()), nil)
		return
	}
	lines := strings.Split(strings.TrimSpace(stdout.String()), "\n")
	if len(lines) != len(kept) {
		res.Corr("python", fmt.Sprintf("python answered %d of %d cases", len(lines), len(kept)), nil)
		return
	}
	for i, l := range lines {
		var a struct {
			OK  *bool  `json:"ok"`
			Err string `json:"err"`
		}
		if json.Unmarshal([]byte(l), &a) != nil || a.OK == nil {
			res.Corr("python", "python jsonschema raised on "+kept[i].what+": "+a.Err, map[string]any{"schema": kept[i].schema, "instance": kept[i].inst})
			continue
		}
		if *a.OK != kept[i].lean {
			res.Corr("lean_validator_vs_python", fmt.Sprintf("Lean validator says %v, python jsonschema says %v on %s", kept[i].lean, *a.OK, kept[i].what),
				map[string]any{"schema": kept[i].schema, "instance": kept[i].inst})
		} else {
			res.CorrAgree()
			res.Count("python:agree")
		}
	}
}

// c19ZeroSatisfies: does the zero value of the field ("" / 0 / empty list / empty map) satisfy every rule on it, and is
// the field neither required nor of explicit presence? Only then is `ignore = IGNORE_IF_ZERO_VALUE` a no-op.
func c19ZeroSatisfies(f *ir.Field) bool {
	r := f.Rules
	if r == nil || r.Required || f.Card == "optional" || r.NumGroup != "" {
		return false
	}
	z := func(u *uint64) bool { return u == nil || *u == 0 }
	switch f.Card {
	case "repeated":
		return z(r.MinItems)
	case "map":
		return z(r.MinPairs)
	}
	if f.Kind == "string" {
		if !z(r.MinLen) || !z(r.Len) || r.Pattern != nil || r.Format != "" {
			return false
		}
		if r.StrConst != nil && *r.StrConst != "" {
			return false
		}
		if len(r.StrIn) > 0 {
			ok := false
			for _, x := range r.StrIn {
				ok = ok || x == ""
			}
			return ok
		}
		return true
	}
	if !c19IsNumeric(f.Kind) {
		return false
	}
	sign := func(s *string) (int, bool) {
		if s == nil {
			return 0, false
		}
		q := c19Rat(*s)
		if q == nil {
			return 0, false
		}
		return q.Sign(), true
	}
	if sg, ok := sign(r.Gt); r.Gt != nil && (!ok || sg >= 0) {
		return false
	}
	if sg, ok := sign(r.Gte); r.Gte != nil && (!ok || sg > 0) {
		return false
	}
	if sg, ok := sign(r.Lt); r.Lt != nil && (!ok || sg <= 0) {
		return false
	}
	if sg, ok := sign(r.Lte); r.Lte != nil && (!ok || sg < 0) {
		return false
	}
	if sg, ok := sign(r.NumConst); r.NumConst != nil && (!ok || sg != 0) {
		return false
	}
	if len(r.NumIn) > 0 {
		found := false
		for i := range r.NumIn {
			if sg, ok := sign(&r.NumIn[i]); ok && sg == 0 {
				found = true
			}
		}
		return found
	}
	return true
}
