package ir

import sebufhttp "github.com/SebastienMelki/sebuf/http"

func enumNo(m map[string]int32, prefix, v string) int {
	if v == "" {
		return 0
	}
	return int(m[prefix+v])
}

var verbNums = map[string]int{"": 0, "GET": 1, "POST": 2, "PUT": 3, "DELETE": 4, "PATCH": 5}

// ToModel renders the request in the JSON form the Lean driver parses into Sebuf.Request:
// messages of a file in pre-order with full names, annotations by enum number.
func (r *Request) ToModel() map[string]any {
	gen := map[string]bool{}
	for _, g := range r.Generate {
		gen[g] = true
	}
	var files []any
	for _, f := range r.Files {
		prefix := "."
		if f.Package != "" {
			prefix = "." + f.Package + "."
		}
		var msgs, enums []any
		var walkE func(pfx string, es []*Enum)
		walkE = func(pfx string, es []*Enum) {
			for _, e := range es {
				custom := false
				for _, v := range e.Values {
					if v.Custom != nil {
						custom = true
					}
				}
				var vals []any
				for _, v := range e.Values {
					vj := map[string]any{"number": v.Number, "name": v.Name}
					if v.Custom != nil {
						vj["custom"] = *v.Custom
					}
					vals = append(vals, vj)
				}
				enums = append(enums, map[string]any{"full": pfx + e.Name, "custom": custom, "values": vals})
			}
		}
		var walk func(pfx string, ms []*Message, top bool)
		walk = func(pfx string, ms []*Message, top bool) {
			for _, m := range ms {
				var fields, oneofs []any
				for _, fl := range m.Fields {
					fj := map[string]any{"name": fl.Name, "kind": fl.Kind, "card": fl.Card, "type": fl.TypeName, "map_key": fl.MapKey,
						"unwrap":   fl.Ann.Unwrap,
						"int64":    enumNo(sebufhttp.Int64Encoding_value, "INT64_ENCODING_", fl.Ann.Int64Enc),
						"enum_enc": enumNo(sebufhttp.EnumEncoding_value, "ENUM_ENCODING_", fl.Ann.EnumEnc),
						"nullable": fl.Ann.Nullable != nil && *fl.Ann.Nullable,
						"empty":    enumNo(sebufhttp.EmptyBehavior_value, "EMPTY_BEHAVIOR_", fl.Ann.EmptyBehavior),
						"ts":       enumNo(sebufhttp.TimestampFormat_value, "TIMESTAMP_FORMAT_", fl.Ann.TsFormat),
						"bytes":    enumNo(sebufhttp.BytesEncoding_value, "BYTES_ENCODING_", fl.Ann.BytesEnc),
						"flatten":  fl.Ann.Flatten != nil && *fl.Ann.Flatten,
						"prefix":   "",
					}
					if fl.Ann.FlattenPrefix != nil {
						fj["prefix"] = *fl.Ann.FlattenPrefix
					}
					if fl.Oneof != "" {
						fj["oneof"] = fl.Oneof
					}
					if fl.JSONName != "" {
						fj["json_name"] = fl.JSONName
					}
					if fl.Ann.OneofValue != nil {
						fj["oneof_value"] = *fl.Ann.OneofValue
					}
					if fl.Ann.Query != nil {
						fj["query"] = map[string]any{"name": fl.Ann.Query.Name, "required": fl.Ann.Query.Required}
					}
					fields = append(fields, fj)
				}
				for _, o := range m.Oneofs {
					oj := map[string]any{"name": o.Name, "has_config": o.HasConfig || o.Discriminator != nil || o.Flatten, "disc": "", "flatten": o.Flatten}
					if o.Discriminator != nil {
						oj["disc"] = *o.Discriminator
					}
					oneofs = append(oneofs, oj)
				}
				msgs = append(msgs, map[string]any{"full": pfx + m.Name, "name": m.Name, "top": top, "fields": fields, "oneofs": oneofs})
				walkE(pfx+m.Name+".", m.Enums)
				walk(pfx+m.Name+".", m.Nested, false)
			}
		}
		walkE(prefix, f.Enums)
		walk(prefix, f.Messages, true)
		var svcs []any
		for _, s := range f.Services {
			var ms []any
			for _, m := range s.Methods {
				mh := []string{}
				for _, h := range m.Headers {
					mh = append(mh, h.Name)
				}
				mj := map[string]any{"name": m.Name, "input": m.Input, "output": m.Output, "has_config": m.Config != nil, "path": "", "verb_num": 0, "headers": mh}
				if m.Config != nil {
					mj["path"] = m.Config.Path
					mj["verb_num"] = verbNums[m.Config.Method]
				}
				ms = append(ms, mj)
			}
			sh := []string{}
			for _, h := range s.Headers {
				sh = append(sh, h.Name)
			}
			svcs = append(svcs, map[string]any{"name": s.Name, "base": s.BasePath, "methods": ms, "headers": sh})
		}
		files = append(files, map[string]any{"name": f.Name, "generate": gen[f.Name], "go_pkg": f.GoPkgName(), "messages": msgs, "enums": enums, "services": svcs})
	}
	return map[string]any{"files": files}
}
