package props

import (
	"os"
	"path/filepath"
	"regexp"
	"strings"
	"testing"

	"verif/harness/report"
	"verif/harness/scratch"
)

// Self-test of the C17 check: the text the unchanged plugins emit is edited in the scratch
// module (never in /repo) into what a regressed generator would emit; the check must object.
// Run by hand: go test ./props -run TestC17Teeth -v   (about a minute)
func editEmitted(bt *scratch.Batch, suffix string, f func(string) string) error {
	return filepath.Walk(bt.Dir, func(p string, info os.FileInfo, err error) error {
		if err != nil || info.IsDir() || !strings.HasSuffix(p, suffix) {
			return err
		}
		b, err := os.ReadFile(p)
		if err != nil {
			return err
		}
		n := f(string(b))
		if n == string(b) {
			return os.ErrInvalid
		}
		return os.WriteFile(p, []byte(n), 0o644)
	})
}

func TestC17Teeth(t *testing.T) {
	if os.Getenv("VERIF_SELFTEST") == "" {
		t.Skip("set VERIF_SELFTEST=1 (builds and runs race-instrumented scratch programs)")
	}
	onceRe := regexp.MustCompile(`validatorOnce\.Do\(func\(\) \{\s*validator, validatorErr = protovalidate\.New\(\)\s*\}\)`)
	assignRe := regexp.MustCompile(`(?m)^\tmethodHeaders = get\w+Headers\(\)\n`)
	variants := []struct {
		name string
		hook func(bt *scratch.Batch) error
		want []string // keys of which at least one must be reported
	}{
		{"unchanged", nil, nil},
		{"client_writes_default_headers", func(bt *scratch.Batch) error {
			return editEmitted(bt, "_client.pb.go", func(s string) string {
				return strings.ReplaceAll(s, "for k, v := range callOpts.headers {\n\t\thttpReq.Header.Set(k, v)\n\t}",
					"for k, v := range callOpts.headers {\n\t\tc.defaultHeaders[k] = v\n\t}\n\tfor k, v := range c.defaultHeaders {\n\t\thttpReq.Header.Set(k, v)\n\t}")
			})
		}, []string{"v|option_leak", "v|data_race", "c|request_headers"}},
		{"method_headers_hoisted", func(bt *scratch.Batch) error {
			return editEmitted(bt, "_http.pb.go", func(s string) string { return assignRe.ReplaceAllString(s, "") })
		}, []string{"v|foreign_route_config", "v|own_route_config_missing", "c|header_gate"}},
		{"once_replaced_by_nil_check", func(bt *scratch.Batch) error {
			return editEmitted(bt, "_http_binding.pb.go", func(s string) string {
				return onceRe.ReplaceAllString(s, "if validator == nil {\n\t\tvalidator, validatorErr = protovalidate.New()\n\t}\n\t_ = &validatorOnce")
			})
		}, []string{"v|data_race"}},
	}
	for _, v := range variants {
		res := report.New("C17", "quick", 1)
		if err := c17Run(&Ctx{Res: res, Tier: "quick", Seed: 1}, v.hook); err != nil {
			t.Fatalf("%s: %v", v.name, err)
		}
		seen := map[string]bool{}
		for _, f := range res.Violations {
			seen["v|"+strings.SplitN(f.Key, ":", 2)[0]] = true
			os.Remove(f.Path) // replays of deliberately broken variants are not evidence about /repo
		}
		for _, f := range res.CorrBroken {
			seen["c|"+f.Key] = true
			os.Remove(f.Path)
		}
		t.Logf("%s: reported %v (evaluations %d, corr ok %d)", v.name, seen, res.Evaluations, res.CorrOK)
		if v.want == nil {
			if len(seen) != 0 {
				t.Errorf("unchanged emitted text is objected to: %v", seen)
			}
			continue
		}
		for _, w := range v.want {
			if !seen[w] {
				t.Errorf("%s: expected %s to be reported, got %v", v.name, w, seen)
			}
		}
	}
}
