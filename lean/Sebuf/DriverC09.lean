import Sebuf.Driver
import Sebuf.Headers
namespace Sebuf.Driver
open Lean (Json)
open Sebuf.Headers

def hspecOf (j : Json) : HSpec :=
  { name := getStr j "name", type := String.ofList (getStr j "type"), format := String.ofList (getStr j "format"),
    required := getBool j "required" }

def libOf (j : Json) : Lib :=
  { utf8OK := getBool j "utf8", floatOK := getBool j "float", dateTimeOK := getBool j "datetime",
    dateOK := getBool j "date", timeOK := getBool j "time" }

def opHeaderCheck (j : Json) : Json :=
  let svc := (getArr j "service").map hspecOf
  let meth := (getArr j "method").map hspecOf
  let sent : List (Str × Str × Lib) := (getArr j "sent").map fun h => (lower (getStr h "name"), getStr h "value", libOf h)
  let req : Hdrs := fun n => (sent.find? (·.1 == n)).map fun p => (p.2.1, p.2.2)
  let viol := violations svc meth req
  let specReq := specRequired svc meth
  let gateBad := specReq.filter fun h =>
    match req (lower h.name) with
    | none => true
    | some (v, lib) => v == [] || clearlyInvalid lib h v
  Json.mkObj [("dispatched", Json.bool (dispatched svc meth req)),
              ("violations", Json.arr (viol.map jstr).toArray),
              ("spec_required", Json.arr (specReq.map fun h => jstr h.name).toArray),
              ("spec_gate_bad", Json.arr (gateBad.map fun h => jstr h.name).toArray)]

/-- `published_headers`: the header parameters the OpenAPI document lists for an operation, in order. -/
def opPublishedHeaders (j : Json) : Json :=
  let svc := (getArr j "service").map hspecOf
  let meth := (getArr j "method").map hspecOf
  Json.mkObj [("published", Json.arr ((combineHeaders svc meth).map fun h =>
    Json.mkObj [("name", jstr h.name), ("required", Json.bool h.required)]).toArray)]

end Sebuf.Driver
