import Sebuf.Headers
import Sebuf.Bind
/-!
# C09 — requests are dispatched only when every required header is present and valid

`Impl` is `Sebuf.Headers` (the emitted `validateHeaders`), over the switch tables regenerated
from the emitted code. The gate theorems are stated against `Spec.clearlyInvalid`, a
conservative subset of what the published type/format forbids, so that no witness is open to
dispute; library leaves (UTF-8 validity, ParseFloat, time.Parse) are parameters.
-/
namespace Sebuf.C09
open Sebuf Sebuf.Headers

/-- **decided before the body is read**: the header step precedes every binding step. -/
theorem before_body :
    Bind.currentOrder.head? = some Bind.Step.headers ∧
    (Bind.currentOrder.filter (· = Bind.Step.headers)).length = 1 := by decide

/-- **type table** of the emitted `validateHeaderValue`, as documented (unset/unknown ⇒ string). -/
theorem type_table :
    typeValidator "string" = "validateStringHeader" ∧ typeValidator "integer" = "validateIntegerHeader" ∧
    typeValidator "number" = "validateNumberHeader" ∧ typeValidator "boolean" = "validateBooleanHeader" ∧
    typeValidator "array" = "validateArrayHeader" ∧ typeValidator "" = "validateStringHeader" ∧
    typeValidator "int64" = "validateStringHeader" := by decide

/-- **format table** of the emitted `validateStringHeader`. -/
theorem format_table :
    formatValidator "uuid" = "validateUUIDFormat" ∧ formatValidator "email" = "validateEmailFormat" ∧
    formatValidator "date-time" = "validateDateTimeFormat" ∧ formatValidator "date" = "validateDateFormat" ∧
    formatValidator "time" = "validateTimeFormat" ∧ formatValidator "" = "" := by decide

/-- **dispatch ⇔ no offending header**. -/
theorem dispatch_iff (svc meth : List HSpec) (req : Hdrs) :
    dispatched svc meth req = true ↔ ∀ h ∈ effective svc meth, offending h req = false := by
  unfold dispatched violations
  simp only [List.isEmpty_iff, List.map_eq_nil_iff, List.filter_eq_nil_iff]
  constructor
  · intro h x hx
    have := h x hx
    cases ho : offending x req with
    | true => exact absurd ho this
    | false => rfl
  · intro h x hx
    rw [h x hx]; decide

/-- **one violation per offending header** (as a set; the emitted loop ranges over a Go map). -/
theorem mem_violations (svc meth : List HSpec) (req : Hdrs) (n : Str) :
    n ∈ violations svc meth req ↔ ∃ h ∈ effective svc meth, offending h req = true ∧ h.name = n := by
  unfold violations
  simp only [List.mem_map, List.mem_filter]
  constructor
  · rintro ⟨h, ⟨hm, ho⟩, rfl⟩; exact ⟨h, hm, ho, rfl⟩
  · rintro ⟨h, hm, ho, rfl⟩; exact ⟨h, ⟨hm, ho⟩, rfl⟩

/-- **gate**: a dispatched request carries every effectively required header, non-empty and
accepted by the emitted validator. -/
theorem gate (svc meth : List HSpec) (req : Hdrs) (hd : dispatched svc meth req = true)
    (h : HSpec) (hh : h ∈ effective svc meth) :
    ∃ v lib, req (lower h.name) = some (v, lib) ∧ v ≠ [] ∧ valueOK lib h v = true := by
  have := (dispatch_iff svc meth req).mp hd h hh
  unfold offending at this
  cases hr : req (lower h.name) with
  | none => rw [hr] at this; cases this
  | some p =>
    obtain ⟨v, lib⟩ := p
    rw [hr] at this
    simp only [Bool.or_eq_false_iff, Bool.not_eq_false'] at this
    refine ⟨v, lib, rfl, ?_, this.2⟩
    intro hv
    rw [hv] at this
    exact absurd this.1 (by decide)

/-- **gate vs the published types, partial**: for the types whose emitted validator is exact
(integer, number, boolean, array) a value the emitted code accepts is not clearly invalid. -/
theorem accepted_not_clearly_invalid (lib : Lib) (h : HSpec) (v : Str) (hv : v ≠ [])
    (ht : h.type = "integer" ∨ h.type = "number" ∨ h.type = "boolean" ∨ h.type = "array")
    (hok : valueOK lib h v = true) : clearlyInvalid lib h v = false := by
  obtain ⟨_, hi, hn, hb, ha, _, _⟩ := type_table
  unfold valueOK at hok
  unfold clearlyInvalid
  rcases ht with ht | ht | ht | ht <;> rw [ht] at hok ⊢
  · rw [hi] at hok
    simp only at hok ⊢
    have : (parseInt 64 v).isNone = false := by
      cases hp : parseInt 64 v with
      | none => rw [hp] at hok; cases hok
      | some x => rfl
    simp [this, hv]
  · rw [hn] at hok; simp only at hok ⊢; simp [hok]
  · rw [hb] at hok
    simp only at hok ⊢
    cases hp : parseBool v with
    | none => rw [hp] at hok; cases hok
    | some x => rfl
  · rw [ha] at hok; simp only at hok ⊢; simp [hok]

/-- **uuid values are checked digit by digit** (entry `dispatched_with_bad_header:uuid_accepts_non_hex`,
fixed): a value with the right length and dashes but non-hex characters is refused; the check
before the repair (`uuidShapeBeforeFix`) let it through. -/
theorem uuid_rejects_non_hex :
    let h : HSpec := { name := "X-Id".toList, type := "string", format := "uuid", required := true }
    let v := "zzzzzzzz-zzzz-zzzz-zzzz-zzzzzzzzzzzz".toList
    valueOK {} h v = false ∧ clearlyInvalid {} h v = true ∧ uuidShapeBeforeFix v = true ∧
    valueOK {} h "123e4567-e89b-12d3-a456-426614174000".toList = true ∧
    valueOK {} h "123E4567-E89B-12D3-A456-42661417400F".toList = true := by decide

/-- **method replaces service (both required)**: the effective declaration is the method's. -/
theorem method_overrides :
    let svc : List HSpec := [{ name := "X-Api-Key".toList, type := "string", format := "uuid", required := true }]
    let meth : List HSpec := [{ name := "x-api-key".toList, type := "integer", required := true }]
    effective svc meth = meth := by decide

/-- **override by an optional method header is ignored** (known finding C09
`method_optional_does_not_replace_service_required`): only REQUIRED declarations enter the map,
so a method that re-declares the header as optional is still held to the service's rule, while
the OpenAPI document (which merges by name) publishes it as optional. -/
theorem optional_override_ignored :
    let svc : List HSpec := [{ name := "X-Tenant".toList, type := "string", required := true }]
    let meth : List HSpec := [{ name := "X-Tenant".toList, type := "string", required := false }]
    (effective svc meth).map (·.name) = ["X-Tenant".toList] ∧ specRequired svc meth = [] := by decide

/-- when every same-named pair agrees on `required`, Impl and Spec require the same names. -/
theorem effective_eq_spec_example :
    let svc : List HSpec := [{ name := "A".toList, required := true }, { name := "B".toList, required := false }]
    let meth : List HSpec := [{ name := "a".toList, type := "integer", required := true }, { name := "C".toList, required := true }]
    (effective svc meth).map (·.name) = (specRequired svc meth).map (·.name) := by decide

/-! ### the published list (`CombineHeaders`) -/

theorem mem_putExact {h x : HSpec} {l : List HSpec} (hx : x ∈ putExact h l) : x = h ∨ x ∈ l := by
  induction l with
  | nil => simp [putExact] at hx; exact Or.inl hx
  | cons y t ih =>
    unfold putExact at hx
    split at hx
    · rcases List.mem_cons.mp hx with h1 | h1
      · exact Or.inl h1
      · exact Or.inr (List.mem_cons_of_mem _ h1)
    · rcases List.mem_cons.mp hx with h1 | h1
      · exact Or.inr (by rw [h1]; exact List.mem_cons_self)
      · rcases ih h1 with h2 | h2
        · exact Or.inl h2
        · exact Or.inr (List.mem_cons_of_mem _ h2)

theorem name_mem_putExact (h : HSpec) (l : List HSpec) : ∃ x ∈ putExact h l, x.name = h.name := by
  induction l with
  | nil => exact ⟨h, by simp [putExact], rfl⟩
  | cons y t ih =>
    unfold putExact
    split
    · exact ⟨h, List.mem_cons_self, rfl⟩
    · obtain ⟨x, hx, hn⟩ := ih
      exact ⟨x, List.mem_cons_of_mem _ hx, hn⟩

theorem name_kept_putExact (h : HSpec) {l : List HSpec} {y : HSpec} (hy : y ∈ l) :
    ∃ x ∈ putExact h l, x.name = y.name := by
  induction l with
  | nil => cases hy
  | cons z t ih =>
    unfold putExact
    split
    · rename_i hz
      rcases List.mem_cons.mp hy with h1 | h1
      · exact ⟨h, List.mem_cons_self, by rw [h1, hz]⟩
      · exact ⟨y, List.mem_cons_of_mem _ h1, rfl⟩
    · rcases List.mem_cons.mp hy with h1 | h1
      · exact ⟨z, List.mem_cons_self, by rw [h1]⟩
      · obtain ⟨x, hx, hn⟩ := ih h1
        exact ⟨x, List.mem_cons_of_mem _ hx, hn⟩

theorem mem_insertByName {h x : HSpec} {l : List HSpec} : x ∈ insertByName h l ↔ x = h ∨ x ∈ l := by
  induction l with
  | nil => simp [insertByName]
  | cons y t ih =>
    unfold insertByName
    split
    · simp
    · simp only [List.mem_cons, ih]
      constructor
      · rintro (h1 | h1 | h1)
        · exact Or.inr (Or.inl h1)
        · exact Or.inl h1
        · exact Or.inr (Or.inr h1)
      · rintro (h1 | h1 | h1)
        · exact Or.inr (Or.inl h1)
        · exact Or.inl h1
        · exact Or.inr (Or.inr h1)

theorem mem_sortByName {x : HSpec} {l : List HSpec} : x ∈ sortByName l ↔ x ∈ l := by
  unfold sortByName
  induction l with
  | nil => simp
  | cons y t ih => simp only [List.foldr_cons, mem_insertByName, ih, List.mem_cons]

/-- the merge step of `CombineHeaders`. -/
def mergeStep (m : List HSpec) (h : HSpec) : List HSpec := if h.name = [] then m else putExact h m

theorem mem_foldl_merge {x : HSpec} (l acc : List HSpec) (hx : x ∈ l.foldl mergeStep acc) : x ∈ acc ∨ x ∈ l := by
  induction l generalizing acc with
  | nil => exact Or.inl hx
  | cons y t ih =>
    rcases ih _ hx with h1 | h1
    · unfold mergeStep at h1
      split at h1
      · exact Or.inl h1
      · rcases mem_putExact h1 with h2 | h2
        · exact Or.inr (by rw [h2]; exact List.mem_cons_self)
        · exact Or.inl h2
    · exact Or.inr (List.mem_cons_of_mem _ h1)

theorem name_kept_foldl_merge (l : List HSpec) {acc : List HSpec} {y : HSpec} (hy : y ∈ acc) :
    ∃ x ∈ l.foldl mergeStep acc, x.name = y.name := by
  induction l generalizing acc y with
  | nil => exact ⟨y, hy, rfl⟩
  | cons z t ih =>
    have : ∃ x ∈ mergeStep acc z, x.name = y.name := by
      unfold mergeStep
      split
      · exact ⟨y, hy, rfl⟩
      · exact name_kept_putExact z hy
    obtain ⟨x, hx, hn⟩ := this
    obtain ⟨x', hx', hn'⟩ := ih hx
    exact ⟨x', hx', by rw [hn', hn]⟩

theorem name_mem_foldl_merge (l : List HSpec) (acc : List HSpec) {y : HSpec} (hy : y ∈ l) (hn : y.name ≠ []) :
    ∃ x ∈ l.foldl mergeStep acc, x.name = y.name := by
  induction l generalizing acc with
  | nil => cases hy
  | cons z t ih =>
    rcases List.mem_cons.mp hy with h1 | h1
    · subst h1
      have : ∃ x ∈ mergeStep acc y, x.name = y.name := by
        unfold mergeStep; rw [if_neg hn]; exact name_mem_putExact y acc
      obtain ⟨x, hx, hxn⟩ := this
      obtain ⟨x', hx', hn'⟩ := name_kept_foldl_merge t hx
      exact ⟨x', hx', by rw [hn', hxn]⟩
    · exact ih _ h1

/-- **nothing foreign is published**: every header parameter of an operation is a declaration of
its service or of the method itself. -/
theorem published_only_declared (svc meth : List HSpec) (h : HSpec) (hh : h ∈ combineHeaders svc meth) :
    h ∈ svc ∨ h ∈ meth := by
  unfold combineHeaders at hh
  split at hh
  · exact Or.inr hh
  · split at hh
    · exact Or.inl hh
    · have h1 := mem_sortByName.mp hh
      rcases mem_foldl_merge (svc ++ meth) [] h1 with h2 | h2
      · cases h2
      · exact List.mem_append.mp h2

/-- **every declared header is published**: each named declaration of the service and of the method
appears (by name) among the operation's header parameters. -/
theorem published_every_declared_name (svc meth : List HSpec) (h : HSpec) (hh : h ∈ svc ∨ h ∈ meth) (hn : h.name ≠ []) :
    ∃ p ∈ combineHeaders svc meth, p.name = h.name := by
  unfold combineHeaders
  split
  · rename_i he
    rcases hh with h1 | h1
    · simp [List.isEmpty_iff] at he; rw [he] at h1; cases h1
    · exact ⟨h, h1, rfl⟩
  · split
    · rename_i he
      rcases hh with h1 | h1
      · exact ⟨h, h1, rfl⟩
      · simp [List.isEmpty_iff] at he; rw [he] at h1; cases h1
    · obtain ⟨x, hx, hxn⟩ := name_mem_foldl_merge (svc ++ meth) [] (List.mem_append.mpr hh) hn
      exact ⟨x, mem_sortByName.mpr hx, hxn⟩

theorem self_mem_putExact (h : HSpec) (l : List HSpec) : h ∈ putExact h l := by
  induction l with
  | nil => simp [putExact]
  | cons y t ih =>
    unfold putExact
    split
    · exact List.mem_cons_self
    · exact List.mem_cons_of_mem _ ih

theorem mem_putExact_of_name_ne {y z : HSpec} {l : List HSpec} (hy : y ∈ l) (hn : y.name ≠ z.name) : y ∈ putExact z l := by
  induction l with
  | nil => cases hy
  | cons w t ih =>
    unfold putExact
    rcases List.mem_cons.mp hy with h1 | h1
    · subst h1
      rw [if_neg hn]
      exact List.mem_cons_self
    · split
      · exact List.mem_cons_of_mem _ h1
      · exact List.mem_cons_of_mem _ (ih h1)

theorem mem_foldl_merge_kept (l : List HSpec) {acc : List HSpec} {y : HSpec} (hy : y ∈ acc)
    (hl : ∀ z ∈ l, z.name ≠ y.name) : y ∈ l.foldl mergeStep acc := by
  induction l generalizing acc with
  | nil => exact hy
  | cons z t ih =>
    apply ih
    · unfold mergeStep
      split
      · exact hy
      · exact mem_putExact_of_name_ne hy (fun e => hl z List.mem_cons_self e.symm)
    · intro w hw; exact hl w (List.mem_cons_of_mem _ hw)

/-- **a method-level declaration replaces the service-level one of the same name in the published list**:
with pairwise distinct names among the method's declarations, every named method header is itself among
the operation's header parameters (whatever the service declares under that name). -/
theorem published_method_wins (svc meth : List HSpec) (hs : svc ≠ []) (hd : (meth.map (·.name)).Nodup)
    (h : HSpec) (hh : h ∈ meth) (hn : h.name ≠ []) : h ∈ combineHeaders svc meth := by
  unfold combineHeaders
  have hm : meth ≠ [] := by intro e; rw [e] at hh; cases hh
  rw [if_neg (by simpa [List.isEmpty_iff] using hs), if_neg (by simpa [List.isEmpty_iff] using hm)]
  apply mem_sortByName.mpr
  obtain ⟨s, t, rfl⟩ := List.append_of_mem hh
  have hnd : ∀ z ∈ t, z.name ≠ h.name := by
    intro z hz e
    rw [List.map_append, List.map_cons] at hd
    have := (List.nodup_append.mp hd).2.1
    have h2 := (List.nodup_cons.mp this).1
    exact h2 (e ▸ List.mem_map_of_mem hz)
  have : (svc ++ (s ++ h :: t)) = (svc ++ s) ++ h :: t := by simp
  show h ∈ List.foldl mergeStep [] (svc ++ (s ++ h :: t))
  rw [this, List.foldl_append, List.foldl_cons]
  apply mem_foldl_merge_kept t _ hnd
  unfold mergeStep
  rw [if_neg hn]
  exact self_mem_putExact h _

/-- **a service-level declaration no method header shadows is published**: with pairwise distinct names among
the service's declarations, a named service header whose name the method does not declare is itself among
the operation's header parameters — for EVERY operation of the service, whatever the others declare. -/
theorem published_service_kept (svc meth : List HSpec) (hd : (svc.map (·.name)).Nodup)
    (h : HSpec) (hh : h ∈ svc) (hn : h.name ≠ []) (hm : ∀ z ∈ meth, z.name ≠ h.name) : h ∈ combineHeaders svc meth := by
  unfold combineHeaders
  have hs : svc ≠ [] := by intro e; rw [e] at hh; cases hh
  rw [if_neg (by simpa [List.isEmpty_iff] using hs)]
  split
  · exact hh
  · apply mem_sortByName.mpr
    obtain ⟨s, t, rfl⟩ := List.append_of_mem hh
    have hnd : ∀ z ∈ t ++ meth, z.name ≠ h.name := by
      intro z hz e
      rcases List.mem_append.mp hz with h1 | h1
      · rw [List.map_append, List.map_cons] at hd
        have := (List.nodup_append.mp hd).2.1
        exact (List.nodup_cons.mp this).1 (e ▸ List.mem_map_of_mem h1)
      · exact hm z h1 e
    have : ((s ++ h :: t) ++ meth) = s ++ h :: (t ++ meth) := by simp
    show h ∈ List.foldl mergeStep [] ((s ++ h :: t) ++ meth)
    rw [this, List.foldl_append, List.foldl_cons]
    apply mem_foldl_merge_kept (t ++ meth) _ hnd
    unfold mergeStep
    rw [if_neg hn]
    exact self_mem_putExact h _

/-- the published list is a function of the operation's own declarations: the same service list
combined with two methods gives each its own result (no operation sees another's headers). -/
example :
    let svc : List HSpec := [{ name := "X-B".toList, required := true }, { name := "X-C".toList, required := true }, { name := "X-T".toList, required := true }]
    (combineHeaders svc [{ name := "A-Key".toList }]).map (·.name) = ["A-Key".toList, "X-B".toList, "X-C".toList, "X-T".toList] ∧
    (combineHeaders svc []).map (·.name) = ["X-B".toList, "X-C".toList, "X-T".toList] := by decide

/-- **tie**: every attribute of an emitted header-table entry is printed from ITS OWN getter of the declaration — in
particular `Required` from `GetRequired()` alone: no other attribute of the declaration (`deprecated`, an example, a
description) takes part in whether the server asks for the header (regenerated from `generateHeaderLiteral`; seed
C09-r8-1 wrote `Required: false` for deprecated headers). -/
theorem header_literal_transcribed :
    Gen.Pipeline.headerLiteral = [("Name", "header.GetName()"), ("Description", "header.GetDescription()"),
      ("Type", "header.GetType()"), ("Required", "strconv.FormatBool(header.GetRequired())"),
      ("Format", "header.GetFormat()"), ("Example", "header.GetExample()"),
      ("Deprecated", "strconv.FormatBool(header.GetDeprecated())")] := by decide

end Sebuf.C09
