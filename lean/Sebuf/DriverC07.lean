import Sebuf.DriverOA
import Sebuf.TsType
import Sebuf.Lemmas.Mapping
/-!
Driver ops of C07. TypeScript types travel as JSON:
`{"k":"string"|"number"|"boolean"|"null"|"unknown"}`, `{"k":"lit","v":s}`, `{"k":"array","t":T}`,
`{"k":"record","t":T}`, `{"k":"object","props":[{"name":s,"opt":b,"t":T}]}`, `{"k":"union","ts":[T]}`,
`{"k":"inter","ts":[T]}`, `{"k":"ref","n":s}`; a declaration is `{"name":s,"iface":b,"t":T}`.
The same form is produced by the Go reader of the emitted `.ts` files (`harness/tsdecl`).
-/
namespace Sebuf.Driver
open Sebuf.Ts Sebuf.Ts.Impl Sebuf.Mapping

partial def tyToJson : Ty → Lean.Json
  | .str => Lean.Json.mkObj [("k", "string")]
  | .num => Lean.Json.mkObj [("k", "number")]
  | .bool => Lean.Json.mkObj [("k", "boolean")]
  | .null => Lean.Json.mkObj [("k", "null")]
  | .unknown => Lean.Json.mkObj [("k", "unknown")]
  | .lit s => Lean.Json.mkObj [("k", "lit"), ("v", jstr s)]
  | .arr t => Lean.Json.mkObj [("k", "array"), ("t", tyToJson t)]
  | .record t => Lean.Json.mkObj [("k", "record"), ("t", tyToJson t)]
  | .obj ps => Lean.Json.mkObj [("k", "object"), ("props", Lean.Json.arr (ps.map fun p =>
      Lean.Json.mkObj [("name", jstr p.1), ("opt", Lean.Json.bool p.2.1), ("t", tyToJson p.2.2)]).toArray)]
  | .union ts => Lean.Json.mkObj [("k", "union"), ("ts", Lean.Json.arr (ts.map tyToJson).toArray)]
  | .inter ts => Lean.Json.mkObj [("k", "inter"), ("ts", Lean.Json.arr (ts.map tyToJson).toArray)]
  | .ref n => Lean.Json.mkObj [("k", "ref"), ("n", jstr n)]

partial def tyOfJson (j : Lean.Json) : Ty :=
  match String.ofList (getStr j "k") with
  | "string" => .str
  | "number" => .num
  | "boolean" => .bool
  | "null" => .null
  | "lit" => .lit (getStr j "v")
  | "array" => .arr (tyOfJson (j.getObjValD "t"))
  | "record" => .record (tyOfJson (j.getObjValD "t"))
  | "object" => .obj ((getArr j "props").map fun p => (getStr p "name", getBool p "opt", tyOfJson (p.getObjValD "t")))
  | "union" => .union ((getArr j "ts").map tyOfJson)
  | "inter" => .inter ((getArr j "ts").map tyOfJson)
  | "ref" => .ref (getStr j "n")
  | _ => .unknown

def declToJson (d : Decl) : Lean.Json :=
  Lean.Json.mkObj [("name", jstr d.1), ("iface", Lean.Json.bool d.2.1), ("t", tyToJson d.2.2)]

def declOfJson (j : Lean.Json) : Decl := (getStr j "name", getBool j "iface", tyOfJson (j.getObjValD "t"))

def c07Fuel : Nat := 400

def insertKV (x : Str × Sebuf.Json) : List (Str × Sebuf.Json) → List (Str × Sebuf.Json)
  | [] => [x]
  | y :: ys => if strLt x.1 y.1 then x :: y :: ys else y :: insertKV x ys

/-- objects with their members sorted by key (stable), so that the FIRST failure `explain` reports
does not depend on whether the JSON came from Go (`encoding/json` sorts map keys) or from the model
(field order). -/
partial def sortJson : Sebuf.Json → Sebuf.Json
  | .arr l => .arr (l.map sortJson)
  | .obj kvs => .obj ((kvs.map fun p => (p.1, sortJson p.2)).foldr insertKV [])
  | j => j

def tsVerdictJson (env : Env) (t : Ty) (j0 : Sebuf.Json) : Lean.Json :=
  let j := sortJson j0
  let ok := inhabits env c07Fuel t j
  let ex := explain env c07Fuel t j []
  Lean.Json.mkObj [("ok", Lean.Json.bool ok),
    ("path", match ex with | some e => jstr e.1 | none => Lean.Json.null),
    ("declared", match ex with | some e => jstr e.2.1 | none => Lean.Json.null),
    ("what", match ex with | some e => jstr e.2.2 | none => Lean.Json.null),
    ("explain_consistent", Lean.Json.bool (ok == ex.isNone)),
    ("strict_ok", Lean.Json.bool (inhabitsG true env c07Fuel t j)),
    ("missing_required", Lean.Json.num (missingRequired env c07Fuel t j))]

/-- `ts_decls`: what the model says both TS plugins declare for a file, and the request / result
type of every RPC. -/
def opTsDecls (j : Lean.Json) : Lean.Json :=
  let rq := requestOf (j.getObjValD "rq")
  match rq.files.find? (·.name == getStr j "file") with
  | none => Lean.Json.mkObj [("driver_err", Lean.Json.str "unknown file")]
  | some f =>
    Lean.Json.mkObj [
      ("decls", Lean.Json.arr ((tsDecls rq f).map declToJson).toArray),
      -- the decidable hypotheses of `C07.emitted_block_*_partial`
      ("no_annotations", Lean.Json.bool rq.noAnn),
      ("decl_check", Lean.Json.bool (declCheck rq f)),
      ("full_names_distinct", Lean.Json.bool ((rq.allMessages.map (·.fullName)).eraseDups.length == rq.allMessages.length)),
      ("methods", Lean.Json.arr (f.services.flatMap fun s => s.methods.map fun m =>
        Lean.Json.mkObj [("svc", jstr s.name), ("name", jstr m.name),
          ("req", match rq.findMessage m.input with | some im => tyToJson (requestTy im) | none => Lean.Json.null),
          ("res", match rq.findMessage m.output with | some om => tyToJson (resultTy rq om) | none => Lean.Json.null)]).toArray)]

/-- `ts_inhabits`: verdicts of JSON values against types under a set of declarations (the REAL
parsed ones when the harness asks for the oracle). -/
def opTsInhabits (j : Lean.Json) : Lean.Json :=
  let env := envOf ((getArr j "decls").map declOfJson)
  Lean.Json.mkObj [("results", Lean.Json.arr ((getArr j "cases").map fun c =>
    tsVerdictJson env (tyOfJson (c.getObjValD "t")) (ofLeanJson (c.getObjValD "j"))).toArray)]

/-- `ts_case`: model side of one (type, value): documented-mapping JSON, the JSON the Go server
sends, and their verdicts against the model's declarations as response and as request. -/
def opTsCase (j : Lean.Json) : Lean.Json :=
  let rq := requestOf (j.getObjValD "rq")
  match rq.files.find? (·.name == getStr j "file"), rq.findMessage (getStr j "type") with
  | some f, some m =>
    (match valOf (j.getObjValD "val") with
     | .msg vs =>
       let env := envOf (tsDecls rq f)
       let spec := enc rq 64 m vs
       let impl := WireEnc.wireEnc rq 64 m vs
       Lean.Json.mkObj [("spec", toLeanJson spec), ("impl", toLeanJson impl),
         ("modelled", Lean.Json.bool (WireEnc.modelled rq m)),
         ("encode_fails", Lean.Json.bool (WireEnc.encodeFails m vs)),
         ("impl_as_response", tsVerdictJson env (resultTy rq m) impl),
         ("spec_as_response", tsVerdictJson env (resultTy rq m) spec),
         ("spec_as_request", tsVerdictJson env (requestTy m) spec)]
     | _ => Lean.Json.mkObj [("driver_err", Lean.Json.str "value is not a message")])
  | _, _ => Lean.Json.mkObj [("driver_err", Lean.Json.str "unknown file or message type")]

def strPairs (j : Lean.Json) (k : String) : List (Str × Str) :=
  (getArr j k).map fun p => (getStr p "n", getStr p "v")

/-- `ts_handler`: the object the emitted TS server hands to the handler, and its verdict. -/
def opTsHandler (j : Lean.Json) : Lean.Json :=
  let rq := requestOf (j.getObjValD "rq")
  match rq.files.find? (·.name == getStr j "file"), rq.findMessage (getStr j "type") with
  | some f, some m =>
    let env := envOf (tsDecls rq f)
    let arg :=
      if getBool j "has_body" then handlerArgBody m (strPairs j "path") (ofLeanJson (j.getObjValD "body"))
      else handlerArgNoBody m (strPairs j "path") (strPairs j "query")
    Lean.Json.mkObj [("arg", toLeanJson arg), ("verdict", tsVerdictJson env (requestTy m) arg)]
  | _, _ => Lean.Json.mkObj [("driver_err", Lean.Json.str "unknown file or message type")]

end Sebuf.Driver
