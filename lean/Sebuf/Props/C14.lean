import Sebuf.Gen.Templates
import Sebuf.Gen.Wiring
import Sebuf.Lemmas.OutDir
/-!
# C14 — go-http and go-client emit interchangeable codec files

The codec generators are duplicated source (`internal/httpgen/X.go` / `internal/clientgen/X.go`).
`Gen.Templates` holds, per function of each duplicated file, the digest of its comment-free
source (the header writer's name being the one sanctioned difference), regenerated on every run.
`templates_identical` is the obligation that the two copies are the same program text; the step
from "same program text applied to the same protogen input" to "same emitted bytes" is the
meta-argument stated in DESIGN.md §7 C14 and backed by the `emit_files` correspondence, which
compares the two plugins' real `CodeGeneratorResponse`s file by file.

What a plugin emits for a file is the sequence of `generateFile` steps (`Gen.Wiring`), cut at
the early return for service-less files.
-/
namespace Sebuf.C14
open Sebuf

/-- **same program text**: every function of the duplicated codec generators is identical in
both packages (names and digests, in order). -/
theorem templates_identical : Gen.Templates.httpgen = Gen.Templates.clientgen := by rfl

/-- steps a plugin reaches for a file, depending on whether the file has services. -/
def reached (steps : List Gen.Wiring.Step) (hasServices : Bool) : List String :=
  match steps with
  | [] => []
  | st :: r =>
    if st.1 == "return_if_no_services" then (if hasServices then reached r hasServices else [])
    else st.1 :: reached r hasServices

/-- file-name suffixes a plugin can emit for a file. -/
def suffixes (steps : List Gen.Wiring.Step) (emits : List Gen.Wiring.Emit) (hasServices : Bool) : List String :=
  (reached steps hasServices).filterMap fun s => emits.lookup s

/-- the codec suffixes both plugins know how to emit. -/
def sharedSuffixes : List String :=
  (Gen.Wiring.goHttpEmits.map Prod.snd).filter fun s => (Gen.Wiring.goClientEmits.map Prod.snd).contains s

/-- codec files of go-http = everything it emits except the HTTP runtime and the error impls. -/
def isCodecSuffix (s : String) : Bool :=
  !(["_http.pb.go", "_http_binding.pb.go", "_http_config.pb.go", "_http_mock.pb.go", "_error_impl.pb.go", "_client.pb.go"].contains s)

/-- **same name ⇒ same generator**: a suffix both plugins emit is produced by the same-named
step in both (whose text is identical by `templates_identical`). -/
theorem same_suffix_same_step :
    ∀ p ∈ Gen.Wiring.goHttpEmits, ∀ q ∈ Gen.Wiring.goClientEmits, p.2 = q.2 → p.1 = q.1 := by decide

def ClientAloneComplete : Prop :=
  ∀ hasServices : Bool,
    ∀ s ∈ suffixes Gen.Wiring.goHttp Gen.Wiring.goHttpEmits hasServices, isCodecSuffix s = true →
      s ∈ suffixes Gen.Wiring.goClient Gen.Wiring.goClientEmits hasServices

/-- **client alone, partial**: for files with AND without services, every codec file go-http can
emit other than the unwrap file is also emitted by go-client (by the same generator text). The
service-less half holds since `fix: go-client: emit int64 and enum encoding files for files
without services` (entries `client_missing:encoding:file_without_services` and
`client_missing:enum_encoding:file_without_services`, fixed). -/
theorem client_alone_partial (hasServices : Bool) :
    ∀ s ∈ suffixes Gen.Wiring.goHttp Gen.Wiring.goHttpEmits hasServices, isCodecSuffix s = true → s ≠ "_unwrap.pb.go" →
      s ∈ suffixes Gen.Wiring.goClient Gen.Wiring.goClientEmits hasServices := by
  cases hasServices <;> decide

/-- **¬ ClientAloneComplete** (known finding C14 `client_missing:unwrap`): go-client has no unwrap
emitter. -/
theorem not_client_alone : ¬ ClientAloneComplete := by
  intro h
  have := h true "_unwrap.pb.go" (by decide) (by decide)
  revert this; decide

/-- service-less files get their int64 / enum codecs from both plugins. -/
theorem serviceless_codecs_emitted :
    "_encoding.pb.go" ∈ suffixes Gen.Wiring.goHttp Gen.Wiring.goHttpEmits false ∧
    "_encoding.pb.go" ∈ suffixes Gen.Wiring.goClient Gen.Wiring.goClientEmits false ∧
    "_enum_encoding.pb.go" ∈ suffixes Gen.Wiring.goHttp Gen.Wiring.goHttpEmits false ∧
    "_enum_encoding.pb.go" ∈ suffixes Gen.Wiring.goClient Gen.Wiring.goClientEmits false := by decide

/-- order independence of writing both outputs into one directory: for every shared name the
two contents are produced by identical generator text, so whichever plugin writes last leaves
the same bytes modulo the header line. Stated on the model: overlaying the two emit plans in
either order yields the same set of (suffix, generating step). -/
def overlay (a b : List (String × String)) : List (String × String) :=
  b ++ a.filter fun p => !(b.map Prod.fst).contains p.1

def plan (steps : List Gen.Wiring.Step) (emits : List Gen.Wiring.Emit) (hs : Bool) : List (String × String) :=
  (reached steps hs).filterMap fun s => (emits.lookup s).map fun suf => (suf, s)

theorem order_independent (hs : Bool) :
    (∀ p ∈ overlay (plan Gen.Wiring.goHttp Gen.Wiring.goHttpEmits hs) (plan Gen.Wiring.goClient Gen.Wiring.goClientEmits hs),
         p ∈ overlay (plan Gen.Wiring.goClient Gen.Wiring.goClientEmits hs) (plan Gen.Wiring.goHttp Gen.Wiring.goHttpEmits hs)) ∧
    (∀ p ∈ overlay (plan Gen.Wiring.goClient Gen.Wiring.goClientEmits hs) (plan Gen.Wiring.goHttp Gen.Wiring.goHttpEmits hs),
         p ∈ overlay (plan Gen.Wiring.goHttp Gen.Wiring.goHttpEmits hs) (plan Gen.Wiring.goClient Gen.Wiring.goClientEmits hs)) := by
  cases hs <;> decide

/-! ## The output directory itself

The statement "the result of generating both into one directory does not depend on plugin order",
for ANY two outputs and ANY directory they land in: the hypothesis is exactly what the first half of
the property gives (same name ⇒ same content, `OutDir.Agree`; the `emit_files` correspondence checks
it on the real `CodeGeneratorResponse`s), the conclusion is about every name of the directory. The
converse shows the hypothesis is needed: one shared name with two contents and the order shows. -/
open OutDir in
/-- **plugin order does not matter** when the two outputs agree on the names they share. -/
theorem directory_order_free (a b : List (String × String)) (ha : Functional a) (hb : Functional b)
    (hab : Agree a b) (d : Dir) (k : String) :
    writeAll (writeAll d a) b k = writeAll (writeAll d b) a k := by
  have key : ∀ c, writeAll (writeAll d a) b k = some c ↔ writeAll (writeAll d b) a k = some c := by
    intro c
    rw [writeAll_spec b hb, writeAll_spec a ha, writeAll_spec a ha, writeAll_spec b hb]
    constructor
    · rintro (h | ⟨hn, h | ⟨hn', hd⟩⟩)
      · by_cases hex : ∃ p ∈ a, p.1 = k
        · obtain ⟨p, hp, hpk⟩ := hex
          have := hab p hp (k, c) h hpk
          have hpe : p = (k, c) := pair_eq hpk this
          left; rw [← hpe]; exact hp
        · exact Or.inr ⟨fun p hp hk => hex ⟨p, hp, hk⟩, Or.inl h⟩
      · exact Or.inl h
      · exact Or.inr ⟨hn', Or.inr ⟨hn, hd⟩⟩
    · rintro (h | ⟨hn, h | ⟨hn', hd⟩⟩)
      · by_cases hex : ∃ p ∈ b, p.1 = k
        · obtain ⟨p, hp, hpk⟩ := hex
          have := hab (k, c) h p hp hpk.symm
          have hpe : p = (k, c) := pair_eq hpk this.symm
          left; rw [← hpe]; exact hp
        · exact Or.inr ⟨fun p hp hk => hex ⟨p, hp, hk⟩, Or.inl h⟩
      · exact Or.inl h
      · exact Or.inr ⟨hn', Or.inr ⟨hn, hd⟩⟩
  cases h1 : writeAll (writeAll d a) b k with
  | none =>
    cases h2 : writeAll (writeAll d b) a k with
    | none => rfl
    | some c => have := (key c).2 h2; rw [h1] at this; cases this
  | some c => exact ((key c).1 h1).symm

open OutDir in
/-- **the hypothesis is needed**: a single shared name with two contents makes the directory depend
on which plugin ran last — at that name it holds the content of whichever output was written second. -/
theorem directory_order_matters (a b : List (String × String)) (ha : Functional a) (hb : Functional b)
    (d : Dir) (k ca cb : String) (hka : (k, ca) ∈ a) (hkb : (k, cb) ∈ b) (hne : ca ≠ cb) :
    writeAll (writeAll d a) b k = some cb ∧ writeAll (writeAll d b) a k = some ca ∧
    writeAll (writeAll d a) b k ≠ writeAll (writeAll d b) a k := by
  have h1 : writeAll (writeAll d a) b k = some cb := (writeAll_spec b hb _ k cb).2 (Or.inl hkb)
  have h2 : writeAll (writeAll d b) a k = some ca := (writeAll_spec a ha _ k ca).2 (Or.inl hka)
  refine ⟨h1, h2, ?_⟩
  rw [h1, h2]; intro h; exact hne (Option.some.inj h).symm

open OutDir in
/-- a name only one plugin emits ends up with that plugin's content whatever the order. -/
theorem directory_single_owner (a b : List (String × String)) (ha : Functional a) (hb : Functional b)
    (d : Dir) (k c : String) (hka : (k, c) ∈ a) (hnb : ∀ p ∈ b, p.1 ≠ k) :
    writeAll (writeAll d a) b k = some c ∧ writeAll (writeAll d b) a k = some c :=
  ⟨(writeAll_spec b hb _ k c).2 (Or.inr ⟨hnb, (writeAll_spec a ha _ k c).2 (Or.inl hka)⟩),
   (writeAll_spec a ha _ k c).2 (Or.inl hka)⟩

/-- the hypotheses are met by a non-trivial pair of outputs (a shared codec file, one file each of
their own), and the two orders then leave the same three files. -/
example :
    let a := [("x_http.pb.go", "server"), ("x_nullable.pb.go", "codec")]
    let b := [("x_client.pb.go", "client"), ("x_nullable.pb.go", "codec")]
    OutDir.Functional a ∧ OutDir.Functional b ∧ OutDir.Agree a b ∧
      OutDir.writeAll (OutDir.writeAll (fun _ => none) a) b "x_nullable.pb.go" = some "codec" := by
  refine ⟨?_, ?_, ?_, ?_⟩
  · intro p hp q hq; simp at hp hq; rcases hp with rfl | rfl <;> rcases hq with rfl | rfl <;> simp
  · intro p hp q hq; simp at hp hq; rcases hp with rfl | rfl <;> rcases hq with rfl | rfl <;> simp
  · intro p hp q hq; simp at hp hq; rcases hp with rfl | rfl <;> rcases hq with rfl | rfl <;> simp
  · simp [OutDir.writeAll, OutDir.write]

end Sebuf.C14
