package gen

import (
	"fmt"

	"verif/harness/ir"
)

// MockOpts steer GenMockSchema (property C20).
type MockOpts struct {
	// Buildable restricts response fields to the constructs the mock emitter's output compiles
	// for (so that the schema can be run); otherwise every kind x cardinality is drawn.
	Buildable bool
	// Breaking allows examples that break out of the Go string literal they are pasted into.
	Breaking bool
}

type MockSchema struct {
	Req  *ir.Request
	Tags []string // what the schema exercises (distribution counts)
}

var mockStringNames = []string{"user_id", "valid_until", "email", "contact_email", "full_name", "nickname", "phone", "phone_no", "home_address",
	"site_url", "title", "note", "widget", "uuid", "label", "summary"}
var mockOtherNames = []string{"count", "total", "amount", "flag", "ratio", "level", "size", "weight", "stamp", "mode", "extra", "depth"}

// example pools per selector kind: parsable, unparsable and boundary forms of Go's strconv
var mockIntExamples = []string{"7", "-3", "+5", "0", "9223372036854775807", "-9223372036854775808", "9223372036854775808", "abc", "1.5", " 7", "0x10", "1_000", "12"}
var mockBoolExamples = []string{"true", "false", "1", "0", "T", "F", "TRUE", "False", "yes", "tRuE"}
var mockFloatExamples = []string{"1.5", "-2", "1e3", "0", "-0", ".5", "5.", "1e400", "abc", "0x1p-2", "1_0", "2.25", "NaN", "Inf", "-Infinity"}
var mockStringPlain = []string{"", "Elm Street", "héllo ✓", "a b  c", "Ünïcode–dash", "x", "日本語", "tab\tinside", "it's", "50% off", "C:/path", "{json}"}

// examples whose Go-literal reading differs from their text, but which still give a parsable file
var mockStringEscapes = []string{`a\tb`, `back\\slash`, `q\"uote`, `\u00e9t\u00e9`, `\101BC`, `\xc3\xa9`, `x", "y`, `\x41`}

// the same, giving a string that is not valid UTF-8
var mockStringBadUTF8 = []string{`\xff`, `ab\300`, `\xc3(`}

// examples after which the emitted file is not Go any more
var mockStringBreaking = []string{`say "hi"`, `back\slash`, "line\nbreak", `trail\`, `\400`, `\ud800`, `"`}

var mockTodoKinds = []string{"uint32", "uint64", "sint32", "sint64", "fixed32", "fixed64", "sfixed32", "sfixed64", "bytes", "enum"}
var mockSelKinds = []string{"string", "int64", "bool", "double"}
var mockMapKeys = []string{"string", "int32", "int64", "uint32", "uint64", "sint32", "sint64", "fixed32", "fixed64", "sfixed32", "sfixed64", "bool"}

func pickSome(r *R, pool []string, max int) []string {
	n := 1 + r.Intn(max)
	var out []string
	seen := map[string]bool{}
	for i := 0; i < n; i++ {
		s := Pick(r, pool)
		if !seen[s] {
			seen[s] = true
			out = append(out, s)
		}
	}
	return out
}

// mockExamples draws an example list for a field of the given kind.
func mockExamples(r *R, kind string, o MockOpts, tags *[]string, enumNames []string) []string {
	switch kind {
	case "string":
		switch {
		case o.Breaking && r.P(1, 3):
			*tags = append(*tags, "ex:string_breaking")
			return append(pickSome(r, mockStringPlain, 2), Pick(r, mockStringBreaking))
		case r.P(1, 5):
			*tags = append(*tags, "ex:string_escape")
			return append(pickSome(r, mockStringPlain, 2), Pick(r, mockStringEscapes))
		case r.P(1, 12):
			*tags = append(*tags, "ex:string_bad_utf8")
			return append(pickSome(r, mockStringPlain, 1), Pick(r, mockStringBadUTF8))
		}
		*tags = append(*tags, "ex:string_plain")
		return pickSome(r, mockStringPlain, 3)
	case "int64", "int32", "uint32", "uint64", "sint32", "sint64", "fixed32", "fixed64", "sfixed32", "sfixed64":
		*tags = append(*tags, "ex:int")
		return pickSome(r, mockIntExamples, 3)
	case "bool":
		*tags = append(*tags, "ex:bool")
		return pickSome(r, mockBoolExamples, 3)
	case "double", "float":
		*tags = append(*tags, "ex:float")
		return pickSome(r, mockFloatExamples, 3)
	case "enum":
		*tags = append(*tags, "ex:enum")
		return pickSome(r, enumNames, 2)
	}
	return nil
}

// GenMockSchema builds one file with 1..2 services whose RPCs return messages covering the
// response-field space of C20.
func GenMockSchema(r *R, idx int, o MockOpts) *MockSchema {
	pkg := Pick(r, []string{"mk.v1", "shop.mock", "m"})
	P := "." + pkg + "."
	f := &ir.File{Name: fmt.Sprintf("mk%d/api.proto", idx), Package: pkg, GoPackage: "example.com/gen/mk;mkpb"}
	out := &MockSchema{}
	tags := &out.Tags
	enumNames := []string{"COLOR_UNSPECIFIED", "COLOR_RED", "COLOR_BLUE"}
	f.Enums = []*ir.Enum{{Name: "Color", Values: []ir.EnumValue{{Name: "COLOR_UNSPECIFIED", Number: 0}, {Name: "COLOR_RED", Number: 1}, {Name: "COLOR_BLUE", Number: 2}}}}
	ex := func(kind string, p int) []string {
		if r.P(p, 4) {
			return mockExamples(r, kind, o, tags, enumNames)
		}
		return nil
	}
	// leaf types; breaking examples are confined to the response's own fields in matrix mode
	leafOpts := o
	leafOpts.Breaking = false
	lex := func(kind string) []string {
		if r.P(2, 3) {
			return mockExamples(r, kind, leafOpts, tags, enumNames)
		}
		return nil
	}
	leaf := &ir.Message{Name: "Leaf", Fields: []*ir.Field{
		{Name: "street", Number: 1, Kind: "string", Ann: ir.Ann{Examples: lex("string")}},
		{Name: "zip", Number: 2, Kind: "int64", Ann: ir.Ann{Examples: lex("int64")}},
		{Name: "active", Number: 3, Kind: "bool", Ann: ir.Ann{Examples: lex("bool")}},
		{Name: "score", Number: 4, Kind: "double", Ann: ir.Ann{Examples: lex("double")}},
		{Name: "rank", Number: 5, Kind: "uint32", Ann: ir.Ann{Examples: lex("uint32")}},
	}}
	topInner := &ir.Message{Name: "Inner", Fields: []*ir.Field{{Name: "city", Number: 1, Kind: "string", Ann: ir.Ann{Examples: []string{"Paris", "Lyon"}}}}}
	deep := &ir.Message{Name: "Deep", Fields: []*ir.Field{
		{Name: "leaf", Number: 1, Kind: "message", TypeName: P + "Leaf"},
		{Name: "tag", Number: 2, Kind: "string", Ann: ir.Ann{Examples: lex("string")}},
		{Name: "leaves", Number: 3, Kind: "message", TypeName: P + "Leaf", Card: "repeated"},
	}}
	// recursive types: self reference (singular, map value, repeated) and a mutual pair
	tree := &ir.Message{Name: "Tree", Fields: []*ir.Field{
		{Name: "label", Number: 1, Kind: "string", Ann: ir.Ann{Examples: lex("string")}},
		{Name: "left", Number: 2, Kind: "message", TypeName: P + "Tree"},
		{Name: "by_name", Number: 3, Kind: "message", TypeName: P + "Tree", Card: "map", MapKey: "string"},
		{Name: "items", Number: 4, Kind: "message", TypeName: P + "Tree", Card: "repeated"},
		{Name: "twin", Number: 5, Kind: "message", TypeName: P + "Twin"},
		{Name: "leaf", Number: 6, Kind: "message", TypeName: P + "Leaf"},
	}}
	twin := &ir.Message{Name: "Twin", Fields: []*ir.Field{
		{Name: "tree", Number: 1, Kind: "message", TypeName: P + "Tree", Card: "optional"},
		{Name: "weight", Number: 2, Kind: "int64", Ann: ir.Ann{Examples: lex("int64")}},
		{Name: "leaf", Number: 3, Kind: "message", TypeName: P + "Leaf"},
	}}
	f.Messages = []*ir.Message{leaf, topInner, deep, tree, twin}
	reqm := &ir.Message{Name: "Req", Fields: []*ir.Field{{Name: "q", Number: 1, Kind: "string"}, {Name: "num", Number: 2, Kind: "int32"}}}
	qreq := &ir.Message{Name: "QReq", Fields: []*ir.Field{{Name: "q", Number: 1, Kind: "string", Ann: ir.Ann{Query: &ir.Query{Name: "q"}}}}}
	f.Messages = append(f.Messages, reqm, qreq)

	nresp := 1 + r.Intn(2)
	var respNames []string
	for ri := 0; ri < nresp; ri++ {
		resp := &ir.Message{Name: fmt.Sprintf("Reply%d", ri)}
		// a nested type whose short name collides with the top-level Inner, and one that does not
		resp.Nested = []*ir.Message{
			{Name: "Inner", Fields: []*ir.Field{{Name: "city", Number: 1, Kind: "string", Ann: ir.Ann{Examples: []string{"Oslo", "Bergen"}}}}},
			{Name: "Detail", Fields: []*ir.Field{{Name: "info", Number: 1, Kind: "string", Ann: ir.Ann{Examples: []string{"nested-a", "nested-b"}}}, {Name: "qty", Number: 2, Kind: "int64", Ann: ir.Ann{Examples: []string{"5"}}}}},
		}
		used := map[string]bool{}
		no := int32(1)
		add := func(fl *ir.Field) {
			fl.Number = no
			no++
			resp.Fields = append(resp.Fields, fl)
		}
		nf := 1 + r.Intn(3)
		if o.Buildable {
			nf = 3 + r.Intn(8)
		}
		hasOneof := false
		for i := 0; i < nf; i++ {
			choice := r.Intn(100)
			switch {
			case choice < 34: // selector kinds, singular
				k := Pick(r, mockSelKinds)
				name := uniqueName(used, Pick(r, mockOtherNames))
				if k == "string" {
					name = uniqueName(used, Pick(r, mockStringNames))
				}
				*tags = append(*tags, "field:"+k+"/singular")
				add(&ir.Field{Name: name, Kind: k, Ann: ir.Ann{Examples: ex(k, 3)}})
			case choice < 46: // message children
				ty := Pick(r, []string{"Leaf", "Deep", "Inner", resp.Name + ".Inner", resp.Name + ".Detail", "Tree", "Twin"})
				card := Pick(r, []string{"", "", "optional", "repeated"})
				*tags = append(*tags, "field:message/"+orSingular(card), "child:"+ty)
				add(&ir.Field{Name: uniqueName(used, Pick(r, []string{"home", "main", "child", "part", "item"})), Kind: "message", TypeName: P + ty, Card: card})
			case choice < 58: // maps the emitter handles
				vk := Pick(r, []string{"string", "int32", "int64", "bool", "float", "double", "message"})
				fl := &ir.Field{Name: uniqueName(used, Pick(r, []string{"attrs", "by_key", "index", "lookup"})), Kind: vk, Card: "map", MapKey: Pick(r, mockMapKeys)}
				if vk == "message" {
					fl.TypeName = P + Pick(r, []string{"Leaf", "Inner", resp.Name + ".Detail", "Tree"})
				}
				*tags = append(*tags, "field:map<"+fl.MapKey+","+vk+">")
				add(fl)
			case choice < 74: // kinds without a selector, any cardinality
				k := Pick(r, mockTodoKinds)
				card := Pick(r, []string{"", "", "optional", "repeated"})
				fl := &ir.Field{Name: uniqueName(used, Pick(r, mockOtherNames)), Kind: k, Card: card}
				if k == "enum" {
					fl.TypeName = P + "Color"
				}
				if card == "" && k != "bytes" {
					fl.Ann.Examples = ex(k, 2)
				}
				*tags = append(*tags, "field:"+k+"/"+orSingular(card))
				add(fl)
			case choice < 80 && !hasOneof: // oneof of kinds without a selector
				hasOneof = true
				resp.Oneofs = append(resp.Oneofs, &ir.Oneof{Name: "pick"})
				*tags = append(*tags, "field:todo_kind/oneof")
				add(&ir.Field{Name: uniqueName(used, "as_num"), Kind: "uint64", Oneof: "pick"})
				add(&ir.Field{Name: uniqueName(used, "as_raw"), Kind: "bytes", Oneof: "pick"})
			case o.Buildable:
				k := Pick(r, mockSelKinds)
				name := uniqueName(used, Pick(r, mockOtherNames))
				if k == "string" {
					name = uniqueName(used, Pick(r, mockStringNames))
				}
				*tags = append(*tags, "field:"+k+"/singular")
				add(&ir.Field{Name: name, Kind: k, Ann: ir.Ann{Examples: ex(k, 3)}})
			default: // constructs the emitted assignments do not type-check for
				switch r.Intn(6) {
				case 0:
					k := Pick(r, []string{"int32", "float"})
					*tags = append(*tags, "field:"+k+"/singular")
					add(&ir.Field{Name: uniqueName(used, Pick(r, mockOtherNames)), Kind: k, Ann: ir.Ann{Examples: ex(k, 2)}})
				case 1:
					k := Pick(r, []string{"string", "int32", "int64", "bool", "float", "double"})
					card := Pick(r, []string{"optional", "repeated"})
					*tags = append(*tags, "field:"+k+"/"+card)
					add(&ir.Field{Name: uniqueName(used, Pick(r, mockOtherNames)), Kind: k, Card: card})
				case 2:
					if hasOneof {
						continue
					}
					hasOneof = true
					resp.Oneofs = append(resp.Oneofs, &ir.Oneof{Name: "pick"})
					k := Pick(r, []string{"string", "int64", "bool", "double", "message", "int32"})
					fl := &ir.Field{Name: uniqueName(used, "as_val"), Kind: k, Oneof: "pick"}
					if k == "message" {
						fl.TypeName = P + "Leaf"
					}
					*tags = append(*tags, "field:"+k+"/oneof")
					add(fl)
					add(&ir.Field{Name: uniqueName(used, "as_other"), Kind: "uint32", Oneof: "pick"})
				case 3:
					vk := Pick(r, mockTodoKinds)
					fl := &ir.Field{Name: uniqueName(used, "by_val"), Kind: vk, Card: "map", MapKey: Pick(r, mockMapKeys)}
					if vk == "enum" {
						fl.TypeName = P + "Color"
					}
					*tags = append(*tags, "field:map<"+fl.MapKey+","+vk+">")
					add(fl)
				case 4:
					*tags = append(*tags, "field:timestamp/singular")
					add(&ir.Field{Name: uniqueName(used, "at"), Kind: "message", TypeName: tsType})
				default:
					k := "string"
					*tags = append(*tags, "field:string/singular")
					add(&ir.Field{Name: uniqueName(used, Pick(r, mockStringNames)), Kind: k, Ann: ir.Ann{Examples: ex(k, 4)}})
				}
			}
		}
		f.Messages = append(f.Messages, resp)
		respNames = append(respNames, resp.Name)
	}
	nsvc := 1
	if r.P(1, 3) {
		nsvc = 2
		*tags = append(*tags, "services:2")
	}
	mi := 0
	for s := 0; s < nsvc; s++ {
		svc := &ir.Service{Name: fmt.Sprintf("Api%d", s), BasePath: Pick(r, []string{"/a", "/api/v1", "/m"}) + fmt.Sprint(s)}
		nm := 1 + r.Intn(3)
		for i := 0; i < nm; i++ {
			verb := Pick(r, []string{"POST", "POST", "GET", "PUT"})
			in := "Req"
			if verb == "GET" {
				in = "QReq"
			}
			svc.Methods = append(svc.Methods, &ir.Method{Name: fmt.Sprintf("Op%d", mi), Input: P + in, Output: P + respNames[mi%len(respNames)],
				Config: &ir.HTTPConfig{Path: fmt.Sprintf("/op%d", mi), Method: verb}})
			mi++
		}
		f.Services = append(f.Services, svc)
	}
	out.Req = &ir.Request{Files: []*ir.File{f}, Generate: []string{f.Name}}
	return out
}

func orSingular(card string) string {
	if card == "" {
		return "singular"
	}
	return card
}

// MockMatrixSchema is the single-field schema for one (kind, cardinality) cell of C20's matrix;
// card is "", optional, repeated, map or oneof.
func MockMatrixSchema(kind, card, mapKey string, examples []string) *ir.Request {
	pkg := "mx.v1"
	P := "." + pkg + "."
	f := &ir.File{Name: "mx/api.proto", Package: pkg, GoPackage: "example.com/gen/mx;mxpb"}
	f.Enums = []*ir.Enum{{Name: "Color", Values: []ir.EnumValue{{Name: "COLOR_UNSPECIFIED", Number: 0}, {Name: "COLOR_RED", Number: 1}}}}
	leaf := &ir.Message{Name: "Leaf", Fields: []*ir.Field{{Name: "street", Number: 1, Kind: "string", Ann: ir.Ann{Examples: []string{"Elm"}}}}}
	fl := &ir.Field{Name: "val", Number: 1, Kind: kind, Card: card, Ann: ir.Ann{Examples: examples}}
	switch kind {
	case "enum":
		fl.TypeName = P + "Color"
	case "message":
		fl.TypeName = P + "Leaf"
	case "timestamp":
		fl.Kind = "message"
		fl.TypeName = tsType
	}
	resp := &ir.Message{Name: "Reply", Fields: []*ir.Field{fl}}
	switch card {
	case "map":
		fl.MapKey = mapKey
	case "oneof":
		fl.Card = ""
		fl.Oneof = "pick"
		resp.Oneofs = []*ir.Oneof{{Name: "pick"}}
		resp.Fields = append(resp.Fields, &ir.Field{Name: "other", Number: 2, Kind: "uint32", Oneof: "pick"})
	}
	reqm := &ir.Message{Name: "Req", Fields: []*ir.Field{{Name: "q", Number: 1, Kind: "string"}}}
	f.Messages = []*ir.Message{leaf, resp, reqm}
	f.Services = []*ir.Service{{Name: "Api", BasePath: "/a", Methods: []*ir.Method{{Name: "Get", Input: P + "Req", Output: P + "Reply", Config: &ir.HTTPConfig{Path: "/g", Method: "POST"}}}}}
	return &ir.Request{Files: []*ir.File{f}, Generate: []string{f.Name}}
}

// MockRecursiveSchemas are accepted schemas whose response type reaches itself (small graphs only:
// the emitter's work still grows exponentially on DAG-shaped types, which is C16's subject).
func MockRecursiveSchemas() map[string]*ir.Request {
	mk := func(msgs ...*ir.Message) *ir.Request {
		pkg := "rec.v1"
		f := &ir.File{Name: "rec/api.proto", Package: pkg, GoPackage: "example.com/gen/rec;recpb"}
		f.Messages = append(msgs, &ir.Message{Name: "Req", Fields: []*ir.Field{{Name: "q", Number: 1, Kind: "string"}}})
		f.Services = []*ir.Service{{Name: "Api", BasePath: "/a", Methods: []*ir.Method{{Name: "Get", Input: ".rec.v1.Req", Output: ".rec.v1.Node", Config: &ir.HTTPConfig{Path: "/g", Method: "POST"}}}}}
		return &ir.Request{Files: []*ir.File{f}, Generate: []string{f.Name}}
	}
	P := ".rec.v1."
	return map[string]*ir.Request{
		"self": mk(&ir.Message{Name: "Node", Fields: []*ir.Field{{Name: "label", Number: 1, Kind: "string"}, {Name: "next", Number: 2, Kind: "message", TypeName: P + "Node"}}}),
		"mutual": mk(&ir.Message{Name: "Node", Fields: []*ir.Field{{Name: "edge", Number: 1, Kind: "message", TypeName: P + "Edge"}}},
			&ir.Message{Name: "Edge", Fields: []*ir.Field{{Name: "to", Number: 1, Kind: "message", TypeName: P + "Node", Card: "optional"}}}),
		"map_value": mk(&ir.Message{Name: "Node", Fields: []*ir.Field{{Name: "kids", Number: 1, Kind: "message", TypeName: P + "Node", Card: "map", MapKey: "string"}}}),
		"oneof_member": mk(&ir.Message{Name: "Node", Oneofs: []*ir.Oneof{{Name: "pick"}}, Fields: []*ir.Field{{Name: "label", Number: 1, Kind: "string"},
			{Name: "next", Number: 2, Kind: "message", TypeName: P + "Node", Oneof: "pick"}, {Name: "other", Number: 3, Kind: "uint32", Oneof: "pick"}}}),
		"with_examples": mk(&ir.Message{Name: "Node", Fields: []*ir.Field{
			{Name: "label", Number: 1, Kind: "string", Ann: ir.Ann{Examples: []string{"root", "héllo"}}},
			{Name: "count", Number: 2, Kind: "int64", Ann: ir.Ann{Examples: []string{"7", "-3"}}},
			{Name: "next", Number: 3, Kind: "message", TypeName: P + "Node"},
			{Name: "kids", Number: 4, Kind: "message", TypeName: P + "Node", Card: "map", MapKey: "int32"},
			{Name: "items", Number: 5, Kind: "message", TypeName: P + "Node", Card: "repeated"},
			{Name: "maybe", Number: 6, Kind: "message", TypeName: P + "Node", Card: "optional"}}}),
		"via_nested": mk(&ir.Message{Name: "Node", Nested: []*ir.Message{{Name: "Inner", Fields: []*ir.Field{{Name: "back", Number: 1, Kind: "message", TypeName: P + "Node"}, {Name: "ok", Number: 2, Kind: "bool"}}}},
			Fields: []*ir.Field{{Name: "inner", Number: 1, Kind: "message", TypeName: P + "Node.Inner"}, {Name: "label", Number: 2, Kind: "string"}}}),
		// a cycle of two types, EACH of them also the response of an RPC of its own (and of a second service): what is
		// left unset depends on the path that led to a type, not on the type
		"mutual_two_entries": func() *ir.Request {
			rq := mk(&ir.Message{Name: "Node", Fields: []*ir.Field{{Name: "label", Number: 1, Kind: "string", Ann: ir.Ann{Examples: []string{"root"}}}, {Name: "edge", Number: 2, Kind: "message", TypeName: P + "Edge"}}},
				&ir.Message{Name: "Edge", Fields: []*ir.Field{{Name: "weight", Number: 1, Kind: "int64", Ann: ir.Ann{Examples: []string{"7"}}}, {Name: "to", Number: 2, Kind: "message", TypeName: P + "Node"}}},
				&ir.Message{Name: "Both", Fields: []*ir.Field{{Name: "first", Number: 1, Kind: "message", TypeName: P + "Edge"}, {Name: "second", Number: 2, Kind: "message", TypeName: P + "Node"}}})
			f := rq.Files[0]
			f.Services[0].Methods = append(f.Services[0].Methods,
				&ir.Method{Name: "GetEdge", Input: ".rec.v1.Req", Output: ".rec.v1.Edge", Config: &ir.HTTPConfig{Path: "/e", Method: "POST"}},
				&ir.Method{Name: "GetBoth", Input: ".rec.v1.Req", Output: ".rec.v1.Both", Config: &ir.HTTPConfig{Path: "/b", Method: "POST"}})
			f.Services = append(f.Services, &ir.Service{Name: "Other", BasePath: "/o", Methods: []*ir.Method{
				{Name: "Featured", Input: ".rec.v1.Req", Output: ".rec.v1.Edge", Config: &ir.HTTPConfig{Path: "/f", Method: "POST"}}}})
			return rq
		}(),
		// recursion through a repeated field only: the emitter skips repeated message fields
		"repeated_only": mk(&ir.Message{Name: "Node", Fields: []*ir.Field{{Name: "label", Number: 1, Kind: "string"}, {Name: "kids", Number: 2, Kind: "message", TypeName: P + "Node", Card: "repeated"}}}),
	}
}

// MockVersionedSchema: two versions of one API in two packages (v1, v2) generated in ONE invocation,
// with the same message and field names and different field_examples. The harness serves the file
// named by `serve` ("v1" / "v2") whatever its position in file_to_generate (`v1First`): whichever
// file a plugin handles second is served by one of the four combinations, and its answers must come
// from its own examples. Strings and 64-bit integers only: the kinds the unchanged mock emitter
// compiles for.
func MockVersionedSchema(v1First bool, serve string) *ir.Request {
	mkv := func(ver string, handles, levels, cities []string) *ir.File {
		pkg := "users." + ver
		P := "." + pkg + "."
		f := &ir.File{Name: "users/" + ver + "/api.proto", Package: pkg, GoPackage: "example.com/gen/users/" + ver + ";users" + ver}
		f.Messages = []*ir.Message{
			{Name: "Home", Fields: []*ir.Field{{Name: "city", Number: 1, Kind: "string", Ann: ir.Ann{Examples: cities}}}},
			{Name: "User", Fields: []*ir.Field{
				{Name: "handle", Number: 1, Kind: "string", Ann: ir.Ann{Examples: handles}},
				{Name: "level", Number: 2, Kind: "int64", Ann: ir.Ann{Examples: levels}},
				{Name: "home", Number: 3, Kind: "message", TypeName: P + "Home"}}},
			{Name: "Req", Fields: []*ir.Field{{Name: "q", Number: 1, Kind: "string"}}},
		}
		f.Services = []*ir.Service{{Name: "Users", BasePath: "/" + ver, Methods: []*ir.Method{{Name: "Get", Input: P + "Req", Output: P + "User", Config: &ir.HTTPConfig{Path: "/g", Method: "POST"}}}}}
		return f
	}
	v1 := mkv("v1", []string{"alice", "bob"}, []string{"1", "2"}, []string{"Lyon"})
	v2 := mkv("v2", []string{"@alice:example.org", "@bob:example.org"}, []string{"100", "200"}, []string{"Lyon, FR"})
	primary := v2.Name
	if serve == "v1" {
		primary = v1.Name
	}
	if v1First {
		return &ir.Request{Files: []*ir.File{v1, v2}, Generate: []string{v1.Name, v2.Name}, Primary: primary}
	}
	return &ir.Request{Files: []*ir.File{v1, v2}, Generate: []string{v2.Name, v1.Name}, Primary: primary}
}

// MockExamplesFor draws an example list for a single field of the given kind (matrix cells).
func MockExamplesFor(r *R, kind string, tags *[]string) []string {
	return mockExamples(r, kind, MockOpts{}, tags, []string{"COLOR_UNSPECIFIED", "COLOR_RED"})
}

// MockLiteralExamples are the string examples whose reading as a Go string literal matters, by class.
func MockLiteralExamples() map[string][]string {
	return map[string][]string{"escape": mockStringEscapes, "bad_utf8": mockStringBadUTF8, "breaking": mockStringBreaking}
}
