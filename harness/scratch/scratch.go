// Package scratch turns plugin output into a compiled, runnable Go program outside /repo and
// /verif: a temporary module that holds, per schema, the protoc-gen-go output, whatever the
// sebuf Go plugins emitted, and a small runner (static runtime + generated glue).
package scratch

import (
	"bufio"
	"bytes"
	_ "embed"
	"encoding/json"
	"fmt"
	"hash/fnv"
	"os"
	"os/exec"
	"path/filepath"
	"regexp"
	"sort"
	"strings"
	"sync"
	"time"

	"verif/harness/ir"
	"verif/harness/plug"
)

//go:embed rt/rt.go.txt
var rtSource string

const ModName = "scratchmod"

type Batch struct {
	Dir   string
	Items []*Item
	mu    sync.Mutex
}

type Item struct {
	ID       string
	Req      *ir.Request // with go_package rewritten into the scratch module
	Orig     *ir.Request
	Results  map[string]*plug.Result // per plugin
	GenErr   string                  // a Go plugin refused the schema
	Built    bool
	BuildLog string
	VetLog   string
	VetOK    bool
	Bin      string
	PkgDirs  []string // generated package dirs (relative to module root)
	HasRun   bool
	batch    *Batch
}

type AddOpts struct {
	GoHTTP    bool
	GoClient  bool
	Mock      bool
	NoRunner  bool
	HTTPFirst bool // order in which the two plugins' files are written (later overwrites)
}

func NewBatch() (*Batch, error) {
	base := os.Getenv("VERIF_SCRATCH")
	if base == "" {
		base = os.TempDir()
	}
	dir, err := os.MkdirTemp(base, "sebuf-scratch-")
	if err != nil {
		return nil, err
	}
	gomod := fmt.Sprintf(`module %s

go 1.24.7

require (
	buf.build/gen/go/bufbuild/protovalidate/protocolbuffers/go v1.36.11-20260209202127-80ab13bee0bf.1
	buf.build/go/protovalidate v0.0.0
	github.com/SebastienMelki/sebuf v0.0.0
	google.golang.org/protobuf v1.36.11
)

replace github.com/SebastienMelki/sebuf => %s

replace buf.build/go/protovalidate => %s
`, ModName, plug.RepoDir(), filepath.Join(plug.VerifDir(), "stubs", "protovalidate"))
	if err := os.WriteFile(filepath.Join(dir, "go.mod"), []byte(gomod), 0o644); err != nil {
		return nil, err
	}
	sum, err := os.ReadFile(filepath.Join(plug.RepoDir(), "go.sum"))
	if err != nil {
		return nil, err
	}
	if err := os.WriteFile(filepath.Join(dir, "go.sum"), sum, 0o644); err != nil {
		return nil, err
	}
	return &Batch{Dir: dir}, nil
}

func (b *Batch) Close() {
	if os.Getenv("VERIF_KEEP_SCRATCH") != "" {
		fmt.Fprintln(os.Stderr, "keeping scratch dir", b.Dir)
		return
	}
	os.RemoveAll(b.Dir)
}

// rewrite go_package of every user file so that the generated code lives inside the module.
func rewrite(id string, req *ir.Request) *ir.Request {
	c := req.Clone()
	for _, f := range c.Files {
		name := f.GoPkgName()
		if name == "" {
			name = "pkg"
		}
		imp := f.GoImportPath()
		// keep distinct import paths distinct, identical ones identical
		imp = strings.NewReplacer(".", "_", ";", "_").Replace(imp)
		f.GoPackage = fmt.Sprintf("%s/%s/gen/%s;%s", ModName, id, imp, name)
	}
	return c
}

// Add generates code for one schema and lays it out in the module. A plugin refusal is not an
// error of Add: it is recorded in Item.GenErr.
func (b *Batch) Add(id string, req *ir.Request, o AddOpts) (*Item, error) {
	it := &Item{ID: id, Orig: req, Req: rewrite(id, req), Results: map[string]*plug.Result{}, batch: b}
	b.mu.Lock()
	b.Items = append(b.Items, it)
	b.mu.Unlock()
	run := func(p, param string) (*plug.Result, error) {
		r := it.Req.Clone()
		r.Parameter = param
		res, err := plug.Run(p, r, nil)
		if err != nil {
			return nil, err
		}
		it.Results[p] = res
		return res, nil
	}
	// protoc-gen-go output is needed for EVERY user file, imported-only ones included (a real
	// project compiles them too): the generated code of a file calls its imports' init functions
	pgReq := it.Req.Clone()
	pgReq.Generate = nil
	for _, f := range pgReq.Files {
		pgReq.Generate = append(pgReq.Generate, f.Name)
	}
	pg, err := plug.Run(plug.ProtocGo, pgReq, nil)
	if err != nil {
		return nil, err
	}
	it.Results[plug.ProtocGo] = pg
	if !pg.OK() {
		e := ""
		if pg.Error != nil {
			e = *pg.Error
		}
		return nil, fmt.Errorf("protoc-gen-go refused schema %s: %s %s %s", id, pg.Outcome(), e, pg.Stderr)
	}
	write := func(res *plug.Result) error {
		for _, n := range res.Order {
			rel := strings.TrimPrefix(n, ModName+"/")
			p := filepath.Join(b.Dir, rel)
			if err := os.MkdirAll(filepath.Dir(p), 0o755); err != nil {
				return err
			}
			if err := os.WriteFile(p, []byte(res.Files[n]), 0o644); err != nil {
				return err
			}
		}
		return nil
	}
	if err := write(pg); err != nil {
		return nil, err
	}
	dirs := map[string]bool{}
	for _, n := range pg.Order {
		dirs[filepath.Dir(strings.TrimPrefix(n, ModName+"/"))] = true
	}
	for d := range dirs {
		it.PkgDirs = append(it.PkgDirs, d)
	}
	sort.Strings(it.PkgDirs)
	type pl struct {
		name, param string
		on          bool
	}
	httpParam := ""
	if o.Mock {
		httpParam = "generate_mock=true"
	}
	order := []pl{{plug.GoClient, "", o.GoClient}, {plug.GoHTTP, httpParam, o.GoHTTP}}
	if o.HTTPFirst {
		order[0], order[1] = order[1], order[0]
	}
	for _, p := range order {
		if !p.on {
			continue
		}
		res, err := run(p.name, p.param)
		if err != nil {
			return nil, err
		}
		if !res.OK() {
			msg := res.Outcome()
			if res.Error != nil {
				msg += ": " + *res.Error
			}
			it.GenErr += p.name + " " + msg + "\n"
			continue
		}
		if err := write(res); err != nil {
			return nil, err
		}
	}
	if it.GenErr == "" && !o.NoRunner {
		if err := it.writeRunner(o); err != nil {
			return nil, err
		}
	}
	return it, nil
}

var helperRe = regexp.MustCompile(`func (With\w+)\(value string\) (\w+)(ClientOption|CallOption) \{\n\s*return With\w+\("([^"]*)", value\)`)

func (it *Item) writeRunner(o AddOpts) error {
	// the primary file: the first generated file with services
	var pf *ir.File
	if it.Req.Primary != "" {
		pf = it.Req.FileByName(it.Req.Primary)
	}
	for _, g := range it.Req.Generate {
		if pf != nil {
			break
		}
		if f := it.Req.FileByName(g); f != nil && len(f.Services) > 0 {
			pf = f
			break
		}
	}
	var b strings.Builder
	b.WriteString("package main\n\nimport (\n")
	b.WriteString("\t\"context\"\n\t\"fmt\"\n\t\"net/http\"\n\n\t\"google.golang.org/protobuf/proto\"\n")
	imports := map[string]string{}
	alias := func(f *ir.File) string {
		ip := f.GoImportPath()
		if a, ok := imports[ip]; ok {
			return a
		}
		a := fmt.Sprintf("pb%d", len(imports))
		imports[ip] = a
		return a
	}
	// import every generated package so that its types register
	for _, f := range it.Req.Files {
		alias(f)
	}
	var keys []string
	for k := range imports {
		keys = append(keys, k)
	}
	sort.Strings(keys)
	pfAlias := ""
	if pf != nil {
		pfAlias = imports[pf.GoImportPath()]
	}
	for _, k := range keys {
		a := imports[k]
		if a == pfAlias && (o.GoHTTP || o.GoClient) {
			fmt.Fprintf(&b, "\t%s %q\n", a, k)
		} else {
			fmt.Fprintf(&b, "\t_ %q\n", k)
		}
	}
	b.WriteString(")\n\nvar _ = fmt.Sprint\nvar _ context.Context\nvar _ http.Handler\nvar _ proto.Message\n\n")
	goType := func(full string) string {
		_, f := it.Req.FindMessage(full)
		if f == nil {
			return "UNKNOWN"
		}
		tn := ir.GoTypeName(f.Package, full)
		if f.GoImportPath() == pf.GoImportPath() {
			return pfAlias + "." + tn
		}
		return "EXTERNAL_" + tn // cross-package request types are not used by the generators' tests
	}
	if pf != nil && o.GoHTTP {
		for _, s := range pf.Services {
			sn := ir.GoCamelCase(s.Name)
			fmt.Fprintf(&b, "type srv%s struct{}\n\n", sn)
			for _, m := range s.Methods {
				mn := ir.GoCamelCase(m.Name)
				fmt.Fprintf(&b, "func (srv%s) %s(ctx context.Context, req *%s) (*%s, error) {\n", sn, mn, goType(m.Input), goType(m.Output))
				fmt.Fprintf(&b, "\tout, err := rtHandle(ctx, %q, req, func() proto.Message { return &%s{} })\n", s.Name+"."+m.Name, goType(m.Output))
				fmt.Fprintf(&b, "\tif out == nil {\n\t\treturn nil, err\n\t}\n\treturn out.(*%s), err\n}\n\n", goType(m.Output))
			}
		}
		b.WriteString("func init() {\n\tglueRegister = func(mux *http.ServeMux, hook func(w http.ResponseWriter, r *http.Request, err error) proto.Message, useMock bool) error {\n")
		fmt.Fprintf(&b, "\t\topts := []%s.ServerOption{%s.WithMux(mux)}\n", pfAlias, pfAlias)
		fmt.Fprintf(&b, "\t\tif hook != nil {\n\t\t\topts = append(opts, %s.WithErrorHandler(%s.ErrorHandler(hook)))\n\t\t}\n", pfAlias, pfAlias)
		for _, s := range pf.Services {
			sn := ir.GoCamelCase(s.Name)
			fmt.Fprintf(&b, "\t\t{\n\t\t\tvar s %s.%sServer = srv%s{}\n", pfAlias, sn, sn)
			if o.Mock {
				fmt.Fprintf(&b, "\t\t\tif useMock {\n\t\t\t\ts = %s.NewMock%sServer()\n\t\t\t}\n", pfAlias, sn)
			}
			fmt.Fprintf(&b, "\t\t\tif err := %s.Register%sServer(s, opts...); err != nil {\n\t\t\t\treturn err\n\t\t\t}\n\t\t}\n", pfAlias, sn)
		}
		b.WriteString("\t\treturn nil\n\t}\n}\n\n")
	}
	if pf != nil && o.GoClient {
		// typed header helpers, read from the emitted client text
		helpers := map[string][][3]string{} // service -> (func, kind, header)
		if res := it.Results[plug.GoClient]; res != nil {
			for _, c := range res.Files {
				for _, m := range helperRe.FindAllStringSubmatch(c, -1) {
					helpers[m[2]] = append(helpers[m[2]], [3]string{m[1], m[3], m[4]})
				}
			}
		}
		b.WriteString("func init() {\n\tglueCall = func(rpc string, base string, hc *http.Client, o *Op, req proto.Message) (proto.Message, error) {\n\t\tswitch rpc {\n")
		for _, s := range pf.Services {
			sn := ir.GoCamelCase(s.Name)
			for _, m := range s.Methods {
				mn := ir.GoCamelCase(m.Name)
				fmt.Fprintf(&b, "\t\tcase %q:\n", s.Name+"."+m.Name)
				fmt.Fprintf(&b, "\t\t\tcopts := []%s.%sClientOption{%s.With%sHTTPClient(hc)}\n", pfAlias, sn, pfAlias, sn)
				fmt.Fprintf(&b, "\t\t\tif o.ClientCT != \"\" {\n\t\t\t\tcopts = append(copts, %s.With%sContentType(o.ClientCT))\n\t\t\t}\n", pfAlias, sn)
				fmt.Fprintf(&b, "\t\t\tfor _, h := range o.DefaultHeaders {\n\t\t\t\tcopts = append(copts, %s.With%sDefaultHeader(h[0], h[1]))\n\t\t\t}\n", pfAlias, sn)
				fmt.Fprintf(&b, "\t\t\tvar call []%s.%sCallOption\n", pfAlias, sn)
				fmt.Fprintf(&b, "\t\t\tif o.CallCT != \"\" {\n\t\t\t\tcall = append(call, %s.With%sCallContentType(o.CallCT))\n\t\t\t}\n", pfAlias, sn)
				fmt.Fprintf(&b, "\t\t\tfor _, h := range o.CallHeaders {\n\t\t\t\th := h\n\t\t\t\tcall = append(call, rtSharedOpt(o, %q+h[0]+\"\\x00\"+h[1], func() any { return %s.With%sHeader(h[0], h[1]) }).(%s.%sCallOption))\n\t\t\t}\n", sn+"\x00", pfAlias, sn, pfAlias, sn)
				b.WriteString("\t\t\tfor _, h := range o.HelperDefault {\n\t\t\t\tswitch h[0] {\n")
				seenH := map[string]bool{}
				for _, h := range helpers[sn] {
					if h[1] == "ClientOption" && !seenH[h[2]] {
						seenH[h[2]] = true
						fmt.Fprintf(&b, "\t\t\t\tcase %q:\n\t\t\t\t\tcopts = append(copts, %s.%s(h[1]))\n", h[2], pfAlias, h[0])
					}
				}
				b.WriteString("\t\t\t\tdefault:\n\t\t\t\t\treturn nil, fmt.Errorf(\"HARNESS: no default helper for %s\", h[0])\n\t\t\t\t}\n\t\t\t}\n")
				b.WriteString("\t\t\tfor _, h := range o.HelperCall {\n\t\t\t\tswitch h[0] {\n")
				seenH = map[string]bool{}
				for _, h := range helpers[sn] {
					if h[1] == "CallOption" && !seenH[h[2]] {
						seenH[h[2]] = true
						fmt.Fprintf(&b, "\t\t\t\tcase %q:\n\t\t\t\t\tcall = append(call, %s.%s(h[1]))\n", h[2], pfAlias, h[0])
					}
				}
				b.WriteString("\t\t\t\tdefault:\n\t\t\t\t\treturn nil, fmt.Errorf(\"HARNESS: no call helper for %s\", h[0])\n\t\t\t\t}\n\t\t\t}\n")
				fmt.Fprintf(&b, "\t\t\tc := rtClient(o, %q, func() any { return %s.New%sClient(base, copts...) }).(%s.%sClient)\n", sn, pfAlias, sn, pfAlias, sn)
				fmt.Fprintf(&b, "\t\t\tr, err := c.%s(rtCtx(o), req.(*%s), call...)\n", mn, goType(m.Input))
				b.WriteString("\t\t\tif r == nil {\n\t\t\t\treturn nil, err\n\t\t\t}\n\t\t\treturn r, err\n")
			}
		}
		b.WriteString("\t\t}\n\t\treturn nil, fmt.Errorf(\"HARNESS: unknown rpc %s\", rpc)\n\t}\n}\n")
	}
	dir := filepath.Join(it.batch.Dir, it.ID, "run_"+it.ID)
	if err := os.MkdirAll(dir, 0o755); err != nil {
		return err
	}
	if err := os.WriteFile(filepath.Join(dir, "rt.go"), []byte(rtSource), 0o644); err != nil {
		return err
	}
	if err := os.WriteFile(filepath.Join(dir, "glue.go"), []byte(b.String()), 0o644); err != nil {
		return err
	}
	it.HasRun = true
	return nil
}

func goCmd(dir string, args ...string) *exec.Cmd {
	cmd := exec.Command("go", args...)
	cmd.Dir = dir
	cmd.Env = append(plug.GoEnv(), "GOWORK=off")
	return cmd
}

// Build compiles every item. Items whose generated package does not compile get Built=false
// and the compiler output in BuildLog; the others are unaffected.
func (b *Batch) Build(race bool) error {
	binDir := filepath.Join(b.Dir, "bin")
	os.MkdirAll(binDir, 0o755)
	var pkgs []string
	for _, it := range b.Items {
		if it.GenErr != "" {
			continue
		}
		for _, d := range it.PkgDirs {
			pkgs = append(pkgs, "./"+d)
		}
		if it.HasRun {
			pkgs = append(pkgs, "./"+it.ID+"/run_"+it.ID)
		}
	}
	if len(pkgs) == 0 {
		return nil
	}
	args := []string{"build"}
	if race {
		args = append(args, "-race")
	}
	hasMain := false
	for _, it := range b.Items {
		if it.GenErr == "" && it.HasRun {
			hasMain = true
		}
	}
	if hasMain {
		args = append(args, "-o", binDir+"/")
	}
	args = append(args, pkgs...)
	cmd := goCmd(b.Dir, args...)
	out, _ := cmd.CombinedOutput()
	logs := splitByItem(string(out))
	if g, ok := logs[""]; ok && strings.TrimSpace(g) != "" && !strings.Contains(g, "# ") {
		// toolchain-level failure (not attributable to one package)
		if hasMain && !anyBinary(binDir) || strings.Contains(g, "go: ") {
			return fmt.Errorf("go build failed globally:\n%s", g)
		}
	}
	for _, it := range b.Items {
		if it.GenErr != "" {
			continue
		}
		it.BuildLog = logs[it.ID]
		if it.HasRun {
			bin := filepath.Join(binDir, "run_"+it.ID)
			if _, err := os.Stat(bin); err == nil {
				it.Built = true
				it.Bin = bin
			}
		} else {
			it.Built = it.BuildLog == ""
		}
		if it.BuildLog != "" && it.Built && !strings.Contains(it.BuildLog, "error") {
			// warnings only
		} else if it.BuildLog != "" {
			it.Built = false
		}
	}
	return nil
}

func anyBinary(dir string) bool {
	ents, _ := os.ReadDir(dir)
	return len(ents) > 0
}

var pkgHdr = regexp.MustCompile(`^# ` + ModName + `/([^/\s]+)/`)
var fileLine = regexp.MustCompile(`^(?:\./)?([^/\s:]+)/`)

// splitByItem attributes compiler output to items by the "# scratchmod/<id>/..." headers.
func splitByItem(out string) map[string]string {
	res := map[string]string{}
	cur := ""
	for _, line := range strings.Split(out, "\n") {
		if m := pkgHdr.FindStringSubmatch(line); m != nil {
			cur = m[1]
		} else if strings.HasPrefix(line, "# ") {
			cur = ""
		}
		if line == "" {
			continue
		}
		res[cur] += line + "\n"
	}
	return res
}

// Vet runs go vet (the analyzers go test enables are a subset; we run the default vet set)
// over each built item's generated packages.
func (b *Batch) Vet() {
	var wg sync.WaitGroup
	sem := make(chan struct{}, 8)
	for _, it := range b.Items {
		if it.GenErr != "" || !it.Built {
			continue
		}
		wg.Add(1)
		sem <- struct{}{}
		go func(it *Item) {
			defer wg.Done()
			defer func() { <-sem }()
			var pk []string
			for _, d := range it.PkgDirs {
				pk = append(pk, "./"+d)
			}
			// the vet checks `go test` runs: atomic, bool, buildtags, directive, errorsas, ifaceassert, nilfunc, printf, stringintconv, tests
			args := append([]string{"vet", "-atomic", "-bool", "-buildtags", "-directive", "-errorsas", "-ifaceassert", "-nilfunc", "-printf", "-stringintconv", "-tests"}, pk...)
			out, err := goCmd(b.Dir, args...).CombinedOutput()
			it.VetLog = string(out)
			it.VetOK = err == nil
		}(it)
	}
	wg.Wait()
}

// Run feeds ops (JSON lines) to the item's runner and returns one decoded output per op.
func (it *Item) Run(ops []any, timeout time.Duration, env ...string) ([]map[string]any, string, error) {
	if !it.Built || it.Bin == "" {
		return nil, "", fmt.Errorf("item %s not built", it.ID)
	}
	var in bytes.Buffer
	for _, o := range ops {
		b, err := json.Marshal(o)
		if err != nil {
			return nil, "", err
		}
		in.Write(b)
		in.WriteByte('\n')
	}
	cmd := exec.Command(it.Bin)
	cmd.Stdin = &in
	var stdout, stderr bytes.Buffer
	cmd.Stdout = &stdout
	cmd.Stderr = &stderr
	cmd.Env = append(os.Environ(), "GOMEMLIMIT=2GiB")
	// no property depends on the zone the process runs in, so the emitted code is never run in UTC: half the
	// items run eleven hours west of it, half fourteen hours east (a codec that formats a date in local time
	// moves midnight-UTC dates to the day before in the first, late-evening instants to the day after in the second)
	tz := "Pacific/Pago_Pago"
	if h := fnv.New32a(); true {
		h.Write([]byte(it.ID))
		if h.Sum32()%2 == 1 {
			tz = "Pacific/Kiritimati"
		}
	}
	cmd.Env = append(cmd.Env, "TZ="+tz)
	cmd.Env = append(cmd.Env, env...)
	if err := cmd.Start(); err != nil {
		return nil, "", err
	}
	done := make(chan error, 1)
	go func() { done <- cmd.Wait() }()
	var werr error
	select {
	case werr = <-done:
	case <-time.After(timeout):
		cmd.Process.Kill()
		<-done
		werr = fmt.Errorf("runner timeout after %v", timeout)
	}
	var outs []map[string]any
	sc := bufio.NewScanner(&stdout)
	sc.Buffer(make([]byte, 1<<20), 1<<28)
	for sc.Scan() {
		var m map[string]any
		d := json.NewDecoder(bytes.NewReader(sc.Bytes()))
		d.UseNumber()
		if err := d.Decode(&m); err != nil {
			continue
		}
		outs = append(outs, m)
	}
	return outs, stderr.String(), werr
}
