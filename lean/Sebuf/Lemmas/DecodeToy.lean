import Sebuf.Decode
import Sebuf.Lemmas.Bytes
import Sebuf.Lemmas.Dec
/-!
A concrete instance of the leaf contract `Decode.PJ.OK` (non-vacuity of every theorem of
`Props/C11.lean` that assumes it): decimal strings for 64-bit integers, `secs nanos` text for
timestamps, Go's padded standard base64 for bytes.
-/
namespace Sebuf.Decode
open Sebuf Sebuf.Json

/-! ### every byte Go's decoders produce is a byte -/

theorem hexDigitVal_lt (c v : Nat) (h : hexDigitVal c = some v) : v < 16 := by
  unfold hexDigitVal at h
  split at h
  · cases h; omega
  · split at h
    · cases h; omega
    · split at h
      · cases h; omega
      · cases h

theorem hexDecode_lt : ∀ (s : List Nat) (b : Bytes), hexDecode s = some b → ∀ x ∈ b, x < 256
  | [], b, h => by simp [hexDecode] at h; subst h; simp
  | [_], b, h => by simp [hexDecode] at h
  | p :: q :: rest, b, h => by
    simp only [hexDecode] at h
    cases hp : hexDigitVal p with
    | none => simp [hp] at h
    | some a =>
      cases hq : hexDigitVal q with
      | none => simp [hp, hq] at h
      | some c =>
        cases hr : hexDecode rest with
        | none => simp [hp, hq, hr] at h
        | some r =>
          simp [hp, hq, hr] at h
          subst h
          intro x hx
          rcases List.mem_cons.mp hx with rfl | hx
          · have := hexDigitVal_lt p a hp
            have := hexDigitVal_lt q c hq
            omega
          · exact hexDecode_lt rest r hr x hx

theorem b64Byte0_lt (a b : Nat) : b64Byte0 a b < 256 := by unfold b64Byte0; omega
theorem b64Byte1_lt (a b : Nat) : b64Byte1 a b < 256 := by unfold b64Byte1; omega
theorem b64Byte2_lt (a b : Nat) : b64Byte2 a b < 256 := by unfold b64Byte2; omega

theorem b64DecodeCore_lt (url pad : Bool) : ∀ (s : List Nat) (b : Bytes), b64DecodeCore url pad s = some b → ∀ x ∈ b, x < 256
  | [], b, h => by simp [b64DecodeCore] at h; subst h; simp
  | [_], b, h => by simp [b64DecodeCore] at h
  | [c0, c1], b, h => by
    simp only [b64DecodeCore] at h
    split at h
    · cases h
    · split at h
      · cases h; intro x hx; simp at hx; subst hx; exact b64Byte0_lt _ _
      · cases h
  | [c0, c1, c2], b, h => by
    simp only [b64DecodeCore] at h
    split at h
    · cases h
    · split at h
      · cases h; intro x hx; simp at hx
        rcases hx with rfl | rfl
        · exact b64Byte0_lt _ _
        · exact b64Byte1_lt _ _
      · cases h
  | c0 :: c1 :: c2 :: c3 :: rest, b, h => by
    simp only [b64DecodeCore] at h
    split at h
    · split at h
      · rename_i r hr
        cases h
        intro x hx
        simp at hx
        rcases hx with rfl | rfl | rfl | hx
        · exact b64Byte0_lt _ _
        · exact b64Byte1_lt _ _
        · exact b64Byte2_lt _ _
        · exact b64DecodeCore_lt url pad rest r hr x hx
      · cases h
    · split at h
      · cases h; intro x hx; simp at hx
        rcases hx with rfl | rfl
        · exact b64Byte0_lt _ _
        · exact b64Byte1_lt _ _
      · cases h
    · split at h
      · cases h; intro x hx; simp at hx; subst hx; exact b64Byte0_lt _ _
      · cases h
    · cases h

theorem sebufBytesDecode_lt (e : Nat) (s : List Nat) (b : Bytes) (h : sebufBytesDecode e s = some b) : ∀ x ∈ b, x < 256 := by
  unfold sebufBytesDecode at h
  split at h
  · exact b64DecodeCore_lt _ _ _ b h
  · exact b64DecodeCore_lt _ _ _ b h
  · exact b64DecodeCore_lt _ _ _ b h
  · exact hexDecode_lt _ b h
  · exact b64DecodeCore_lt _ _ _ b h

/-! ### ASCII text survives `ofBytes` / `toBytes` -/

theorem toNat_ofNat_ascii (n : Nat) (h : n < 128) : (Char.ofNat n).toNat = n := by
  have hv : n.isValidChar := Or.inl (by omega)
  simp [Char.ofNat, hv, Char.toNat, Char.ofNatAux]

theorem toBytes_ofBytes : ∀ (t : List Nat), (∀ c ∈ t, c < 128) → toBytes (ofBytes t) = t
  | [], _ => rfl
  | c :: t, h => by
    have hc := toNat_ofNat_ascii c (h c List.mem_cons_self)
    have ht := toBytes_ofBytes t (fun x hx => h x (List.mem_cons_of_mem _ hx))
    simp only [toBytes, ofBytes, List.map_cons] at ht ⊢
    rw [hc, ht]

theorem b64Char_ascii (url : Bool) (n : Nat) (h : n < 64) : b64Char url n < 128 := by
  unfold b64Char b64Char62 b64Char63
  cases url <;> simp <;> (repeat' split) <;> omega

theorem b64EncodeCore_ascii (url pad : Bool) : ∀ (bs : Bytes), ∀ c ∈ b64EncodeCore url pad bs, c < 128
  | [], c, h => by simp [b64EncodeCore] at h
  | [a], c, h => by
    simp only [b64EncodeCore] at h
    have p : b64Pad < 128 := by decide
    cases pad <;> simp at h <;> rcases h with rfl | rfl | h <;>
      first | exact b64Char_ascii _ _ (by omega) | (rcases h with rfl | rfl <;> exact p) | (subst h; exact p) | skip
  | [a, b], c, h => by
    simp only [b64EncodeCore] at h
    have p : b64Pad < 128 := by decide
    cases pad <;> simp at h <;> rcases h with rfl | rfl | rfl | h <;>
      first | exact b64Char_ascii _ _ (by omega) | (subst h; exact p) | skip
  | a :: b :: d :: rest, c, h => by
    simp only [b64EncodeCore] at h
    simp at h
    rcases h with rfl | rfl | rfl | rfl | h
    · exact b64Char_ascii _ _ (by omega)
    · exact b64Char_ascii _ _ (by omega)
    · exact b64Char_ascii _ _ (by omega)
    · exact b64Char_ascii _ _ (by omega)
    · exact b64EncodeCore_ascii url pad rest c h

/-! ### the toy leaves -/

def toyRfc (s : Int) (n : Nat) : Str := intToDec s ++ ' ' :: natToDec n

def splitSp : Str → Str × Str
  | [] => ([], [])
  | c :: t => if c = ' ' then ([], t) else ((c :: (splitSp t).1), (splitSp t).2)

def toyTs : Json → Option (Option (Int × Nat))
  | .null => some none
  | .str t =>
    match parseSigned (splitSp t).1, parseDigits (splitSp t).2 with
    | some s, some n => if tsInRange s then some (some (s, n)) else none
    | _, _ => none
  | _ => none

def toyInt (u : Bool) : Json → Option Int
  | .null => some 0
  | .num (.int n) => if inRange64 u n then some n else none
  | .str s => (parseSigned s).bind fun n => if inRange64 u n then some n else none
  | _ => none

def toyIntElems (u : Bool) : List Json → Option (List Int)
  | [] => some []
  | j :: t =>
    match (if j.isNull then none else toyInt u j), toyIntElems u t with
    | some n, some r => some (n :: r)
    | _, _ => none

def toyInts (u : Bool) : Json → Option (List Int)
  | .null => some []
  | .arr l => toyIntElems u l
  | _ => none

def toyPJ : PJ :=
  { rfc := toyRfc, int64 := toyInt, int64s := toyInts, ts := toyTs,
    bytes := fun s => b64Decode .std (toBytes s), plain := fun _ _ => true }

theorem splitSp_append (a b : Str) (h : ∀ c ∈ a, c ≠ ' ') : splitSp (a ++ ' ' :: b) = (a, b) := by
  induction a with
  | nil => simp [splitSp]
  | cons c t ih =>
    have hc : c ≠ ' ' := h c List.mem_cons_self
    have := ih (fun x hx => h x (List.mem_cons_of_mem _ hx))
    simp [splitSp, hc, this]

theorem natToDec_no_space (n : Nat) : ∀ c ∈ natToDec n, c ≠ ' ' := by
  intro c hc e
  have := natToDec_digits n c hc
  subst e
  exact absurd this.1 (by decide)

theorem intToDec_no_space (v : Int) : ∀ c ∈ intToDec v, c ≠ ' ' := by
  cases v with
  | ofNat n => exact natToDec_no_space n
  | negSucc n =>
    intro c hc
    simp only [intToDec, List.mem_cons] at hc
    rcases hc with rfl | hc
    · decide
    · exact natToDec_no_space _ c hc

theorem toyIntElems_strs (u : Bool) : ∀ (l : List Int), (∀ n ∈ l, inRange64 u n = true) →
    toyIntElems u (l.map fun n => Json.str (intToDec n)) = some l
  | [], _ => rfl
  | n :: t, h => by
    have hn := h n List.mem_cons_self
    have ih := toyIntElems_strs u t (fun x hx => h x (List.mem_cons_of_mem _ hx))
    simp [toyIntElems, Json.isNull, toyInt, parseSigned_intToDec, hn, ih]

theorem toyIntElems_nums (u : Bool) : ∀ (l : List Int), (∀ n ∈ l, inRange64 u n = true) →
    toyIntElems u (l.map fun n => Json.num (.int n)) = some l
  | [], _ => rfl
  | n :: t, h => by
    have hn := h n List.mem_cons_self
    have ih := toyIntElems_nums u t (fun x hx => h x (List.mem_cons_of_mem _ hx))
    simp [toyIntElems, Json.isNull, toyInt, hn, ih]

theorem toyIntElems_null (u : Bool) : ∀ (l : List Json), Json.null ∈ l → toyIntElems u l = none
  | [], h => by cases h
  | j :: t, h => by
    rcases List.mem_cons.mp h with e | h
    · subst e; simp [toyIntElems, Json.isNull]
    · have := toyIntElems_null u t h
      simp only [toyIntElems, this]
      split <;> simp_all

/-- the contract is satisfiable. -/
theorem toyPJ_ok : toyPJ.OK where
  int64_str u n h := by simp [toyPJ, toyInt, parseSigned_intToDec, h]
  int64_num u n h := by simp [toyPJ, toyInt, h]
  int64_null u := rfl
  int64s_strs u l h := by simpa [toyPJ, toyInts] using toyIntElems_strs u l h
  int64s_nums u l h := by simpa [toyPJ, toyInts] using toyIntElems_nums u l h
  int64s_null u := rfl
  int64s_null_elem u l h := by simpa [toyPJ, toyInts] using toyIntElems_null u l h
  ts_rfc s n _ := by
    have e := splitSp_append (intToDec s) (natToDec n) (intToDec_no_space s)
    simp [toyPJ, toyTs, toyRfc, e, parseSigned_intToDec, parseDigits_natToDec]
  ts_null := rfl
  ts_num x := rfl
  bytes_std e s b h := by
    have hlt := sebufBytesDecode_lt e (toBytes s) b h
    have ha := toBytes_ofBytes (b64Encode .std b) (b64EncodeCore_ascii _ _ b)
    simp only [toyPJ, ha]
    exact b64Decode_b64Encode .std b hlt

end Sebuf.Decode
