package gen

import (
	"verif/harness/ir"
)

// VersionedPair is a FIXED request of two files — two versions of one API in two packages, generated
// in ONE invocation — in which every NAME coincides (service, RPCs, messages, fields, enums, oneofs)
// and every ANNOTATION differs (service and method headers, query names and required flags, paths,
// int64 / bytes / timestamp / enum encodings, nullable, unwrap, flatten prefixes, oneof discriminator
// and flattening, field examples, validation rules). Whatever a plugin remembers under a short name,
// a Go identifier or a method name while it handles the first file shows up in what it emits for the
// second: each file's output must equal its output when generated alone. With sameServiceName the two
// services share their name too (the OpenAPI plugin then writes both documents under one file name,
// a recorded finding, so the other variant keeps the service names apart).
func VersionedPair(sameServiceName bool) *ir.Request {
	tr := true
	u := func(x uint64) *uint64 { return &x }
	mk := func(ver string) *ir.File {
		v2 := ver == "v2"
		pick := func(a, b string) string {
			if v2 {
				return b
			}
			return a
		}
		pkg := "acme.accounts." + ver
		P := "." + pkg + "."
		f := &ir.File{Name: "acme/accounts/" + ver + "/api.proto", Package: pkg, GoPackage: "example.com/gen/acme/accounts/" + ver + ";accounts" + ver}
		f.Enums = []*ir.Enum{{Name: "Status", Values: []ir.EnumValue{{Name: "STATUS_UNSPECIFIED", Number: 0},
			{Name: "STATUS_ACTIVE", Number: 1, Custom: sp(pick("active", "ACTIVE-2"))}, {Name: "STATUS_CLOSED", Number: 2, Custom: sp(pick("closed", "gone"))}}}}
		item := &ir.Message{Name: "Item", Fields: []*ir.Field{
			{Name: "id", Number: 1, Kind: "string", Ann: ir.Ann{Examples: []string{pick("alice", "@alice:example.org")}},
				Rules: &ir.Rules{Required: !v2, MinLen: u(map[bool]uint64{false: 8, true: 1}[v2]), MaxLen: u(map[bool]uint64{false: 64, true: 4}[v2])}},
			{Name: "digest", Number: 2, Kind: "bytes", Ann: ir.Ann{BytesEnc: pick("HEX", "BASE64URL")}},
			{Name: "big", Number: 3, Kind: "int64", Ann: ir.Ann{Int64Enc: pick("NUMBER", "STRING")}, Rules: &ir.Rules{Gte: sp(pick("1", "100")), Lte: sp(pick("10", "1000"))}},
			{Name: "at", Number: 4, Kind: "message", TypeName: tsType, Ann: ir.Ann{TsFormat: pick("UNIX_SECONDS", "DATE")}},
			{Name: "status", Number: 5, Kind: "enum", TypeName: P + "Status"},
			{Name: "count", Number: 6, Kind: "uint32", Rules: &ir.Rules{Gte: sp(pick("10", "1")), Lt: sp(pick("90", "5"))}},
		}}
		note := &ir.Field{Name: "note", Number: 7, Kind: "string", Card: "optional"}
		if !v2 {
			note.Ann.Nullable = &tr
		}
		item.Fields = append(item.Fields, note)
		list := &ir.Message{Name: "ItemList", Fields: []*ir.Field{{Name: "items", Number: 1, Kind: "message", TypeName: P + "Item", Card: "repeated"}}}
		if v2 {
			list.Fields[0].Ann.Unwrap = true // v2: root unwrap — the result is a bare array
		} else {
			list.Fields = append(list.Fields, &ir.Field{Name: "next_page", Number: 2, Kind: "string"})
		}
		textV := &ir.Message{Name: "TextV", Fields: []*ir.Field{{Name: "body", Number: 1, Kind: "string"}}}
		imgV := &ir.Message{Name: "ImgV", Fields: []*ir.Field{{Name: "url", Number: 1, Kind: "string"}}}
		event := &ir.Message{Name: "Event",
			Oneofs: []*ir.Oneof{{Name: "content", HasConfig: true, Discriminator: sp(pick("type", "kind")), Flatten: !v2}},
			Fields: []*ir.Field{{Name: "id", Number: 1, Kind: "string", Rules: &ir.Rules{MaxLen: u(map[bool]uint64{false: 4, true: 40}[v2])}},
				{Name: "text", Number: 2, Kind: "message", TypeName: P + "TextV", Oneof: "content"},
				{Name: "img", Number: 3, Kind: "message", TypeName: P + "ImgV", Oneof: "content"}}}
		home := &ir.Message{Name: "Home", Fields: []*ir.Field{{Name: "city", Number: 1, Kind: "string", Ann: ir.Ann{Examples: []string{pick("Lyon", "Lyon, FR")}}}}}
		holder := &ir.Message{Name: "Holder", Fields: []*ir.Field{{Name: "name", Number: 1, Kind: "string"},
			{Name: "home", Number: 2, Kind: "message", TypeName: P + "Home", Ann: ir.Ann{Flatten: &tr, FlattenPrefix: sp(pick("home_", "h_"))}}}}
		listReq := &ir.Message{Name: "ListReq", Fields: []*ir.Field{
			{Name: "page_size", Number: 1, Kind: "int32", Ann: ir.Ann{Query: &ir.Query{Name: pick("page_size", "per_page"), Required: v2}}},
			{Name: "cursor", Number: 2, Kind: "string", Ann: ir.Ann{Query: &ir.Query{Name: "cursor", Required: !v2}}}}}
		getReq := &ir.Message{Name: "GetReq", Fields: []*ir.Field{{Name: "id", Number: 1, Kind: "string"}}}
		f.Messages = []*ir.Message{item, list, textV, imgV, event, home, holder, listReq, getReq}
		svcHeaders := []ir.Header{{Name: "X-API-Key", Type: "string", Required: true, Format: pick("uuid", "")}}
		if v2 {
			svcHeaders = append(svcHeaders, ir.Header{Name: "X-Tenant-ID", Type: "integer", Required: true})
		}
		svcName := "AccountService"
		if v2 && !sameServiceName {
			svcName = "AccountServiceNext"
		}
		f.Services = []*ir.Service{{Name: svcName, BasePath: "/" + ver + pick("/accounts", "/acct"), Headers: svcHeaders, Methods: []*ir.Method{
			{Name: "List", Input: P + "ListReq", Output: P + "ItemList", Config: &ir.HTTPConfig{Path: pick("/items", "/all"), Method: "GET"}},
			{Name: "Get", Input: P + "GetReq", Output: P + "Item", Config: &ir.HTTPConfig{Path: pick("/items/{id}", "/i/{id}"), Method: "GET"},
				Headers: []ir.Header{{Name: "X-Trace", Type: pick("string", "integer"), Required: v2}}},
			{Name: "Put", Input: P + "Item", Output: P + "Event", Config: &ir.HTTPConfig{Path: "/items", Method: pick("POST", "PUT")}},
			{Name: "Move", Input: P + "Holder", Output: P + "Holder", Config: &ir.HTTPConfig{Path: "/move", Method: "POST"}},
		}}}
		return f
	}
	v1, v2 := mk("v1"), mk("v2")
	return &ir.Request{Files: []*ir.File{v1, v2}, Generate: []string{v1.Name, v2.Name}}
}
