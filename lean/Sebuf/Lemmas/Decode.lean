import Sebuf.Decode
/-!
Helper lemmas for `Props/C11.lean`: per-template soundness of the generated decode edits on the
members where the dropped conversion error is harmless (`swallowSafe`), and the Go-map lemma for
bodies without duplicate keys.
-/
namespace Sebuf.Decode
open Sebuf Sebuf.Json Sebuf.Surgery

theorem goInt_some (u : Bool) (j : Json) (n : Int) (h : goInt u j = some n) :
    (j = .null ∧ n = 0) ∨ (j = .num (.int n) ∧ inRange64 u n = true) := by
  cases j with
  | null => simp [goInt] at h; exact Or.inl ⟨rfl, h.symm⟩
  | num x =>
    cases x with
    | int m =>
      simp only [goInt] at h
      by_cases hr : inRange64 u m = true
      · simp [hr] at h; subst h; exact Or.inr ⟨rfl, hr⟩
      · simp [hr] at h
    | float t => simp [goInt] at h
  | bool _ => simp [goInt] at h
  | str _ => simp [goInt] at h
  | arr _ => simp [goInt] at h
  | obj _ => simp [goInt] at h

theorem mem_null_hasNull : ∀ (l : List Json), Json.null ∈ l → hasNull l = true
  | [], h => by cases h
  | j :: t, h => by
    rcases List.mem_cons.mp h with e | h
    · subst e; simp [hasNull, Json.isNull]
    · simp [hasNull, mem_null_hasNull t h]

theorem goIntElems_no_null (u : Bool) : ∀ (js : List Json) (l : List Int), goIntElems u js = some l → Json.null ∉ js →
    js = l.map (fun n => Json.num (.int n)) ∧ ∀ n ∈ l, inRange64 u n = true
  | [], l, h, _ => by simp [goIntElems] at h; subst h; simp
  | j :: t, l, h, hn => by
    simp only [goIntElems] at h
    cases hj : goInt u j with
    | none => simp [hj] at h
    | some n =>
      cases ht : goIntElems u t with
      | none => simp [hj, ht] at h
      | some r =>
        simp [hj, ht] at h
        subst h
        have hn' : Json.null ∉ t := fun hm => hn (List.mem_cons_of_mem _ hm)
        obtain ⟨e, hr⟩ := goIntElems_no_null u t r ht hn'
        rcases goInt_some u j n hj with ⟨hnull, _⟩ | ⟨hnum, hin⟩
        · exact absurd (hnull ▸ List.mem_cons_self) hn
        · refine ⟨by simp [hnum, ← e], ?_⟩
          intro m hm
          rcases List.mem_cons.mp hm with rfl | hm
          · exact hin
          · exact hr m hm

/-- the Go map of a body without duplicate keys is the body. -/
theorem goMap_nodup : ∀ (raw : Obj), raw.Pairwise (fun a b => a.1 ≠ b.1) → Impl.goMap raw = raw
  | [], _ => rfl
  | (k, v) :: t, h => by
    have ht := List.Pairwise.of_cons h
    have hk : t.any (fun p => p.1 == k) = false := by
      rw [List.any_eq_false]
      intro p hp
      have := List.rel_of_pairwise_cons h hp
      simp only [beq_iff_eq]
      exact fun e => this e.symm
    simp [Impl.goMap, hk, goMap_nodup t ht]

end Sebuf.Decode
