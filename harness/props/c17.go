package props

import (
	"fmt"
	"net/textproto"
	"sort"
	"strings"
	"sync"
	"time"

	"google.golang.org/protobuf/reflect/protoreflect"
	"google.golang.org/protobuf/reflect/protoregistry"

	"verif/harness/drv"
	"verif/harness/gen"
	"verif/harness/ir"
	"verif/harness/scratch"
)

func init() { Registry["C17"] = C17 }

var c17Parallelism = []int{1, 2, 4, 16}

// c17Call is one call of a multiset: a route, a shared client, per-call options.
type c17Call struct {
	idx     int
	mi      *methodInfo
	client  *c17Client
	opts    [][2]string // per-call header options, in application order
	callCT  string
	classes []string
	op      map[string]any
}

// c17Client is one generated client object shared by many calls.
type c17Client struct {
	svc      *ir.Service
	key      string
	ct       string
	defaults [][2]string
	home     *methodInfo // the route whose own required header the defaults carry
	// shareOpts: the application keeps its header call options in variables: one option VALUE per
	// (header, value) is passed to every call that needs it
	shareOpts bool
}

func canonKey(k string) string { return textproto.CanonicalMIMEHeaderKey(k) }

func canonPairs(ps [][2]string) [][2]string {
	out := make([][2]string, len(ps))
	for i, p := range ps {
		out[i] = [2]string{canonKey(p[0]), p[1]}
	}
	return out
}

func pairsAny(ps [][2]string) []any {
	out := []any{}
	for _, p := range ps {
		out = append(out, []any{p[0], p[1]})
	}
	return out
}

func sortedPairs(v any) [][2]string {
	var out [][2]string
	for _, p := range asList(v) {
		q := asList(p)
		if len(q) == 2 {
			out = append(out, [2]string{fmt.Sprint(q[0]), fmt.Sprint(q[1])})
		}
	}
	sort.Slice(out, func(a, b int) bool { return out[a][0]+"\x00"+out[a][1] < out[b][0]+"\x00"+out[b][1] })
	return out
}

// c17Obs is everything observable of one call, in a form that does not depend on Go's map
// iteration order (the server lists header violations in map order).
func c17Obs(o map[string]any) map[string]any {
	obs := map[string]any{}
	for _, k := range []string{"fault", "register", "harness_err", "got", "called", "rpc", "seen", "seen_eq", "served"} {
		if v, ok := o[k]; ok {
			obs[k] = v
		}
	}
	// the request on the wire: the body is compared as JSON value, or (binary: proto.Marshal
	// orders map entries at random) by length and through what the handler decoded (`seen`)
	var wire []any
	for _, w := range asList(o["wire"]) {
		wm, _ := w.(map[string]any)
		cw := map[string]any{}
		for k, v := range wm {
			if k == "body" {
				cw["body_len"] = len(fmt.Sprint(v))
				continue
			}
			cw[k] = v
		}
		wire = append(wire, cw)
	}
	obs["wire"] = wire
	if e, ok := o["err"].(map[string]any); ok {
		ce := map[string]any{"class": e["class"], "message": e["message"]}
		if e["class"] == "validation" {
			ce["violations"] = sortedPairs(e["violations"])
		} else {
			ce["text"] = e["text"]
		}
		obs["err"] = ce
	} else {
		obs["err"] = nil
	}
	return obs
}

// headerGate reads a client-side error as the server's header gate: the names of the headers it
// rejected (nil, false when the call was not rejected for its headers).
func headerGate(o map[string]any) ([]string, bool) {
	e, _ := o["err"].(map[string]any)
	if e == nil || e["class"] != "validation" || jsonInt(o["called"]) != 0 {
		return nil, false
	}
	var names []string
	for _, v := range asList(e["violations"]) {
		p := asList(v)
		if len(p) != 2 {
			return nil, false
		}
		d := fmt.Sprint(p[1])
		if !strings.HasPrefix(d, "required header '") && !strings.HasPrefix(d, "header '") {
			return nil, false
		}
		names = append(names, fmt.Sprint(p[0]))
	}
	sort.Strings(names)
	return names, len(names) > 0
}

// typedHeader: the declared type has invalid values that are plain ASCII text (they travel
// through JSON to the runner unchanged).
func typedHeader(h ir.Header) bool {
	return h.Type == "integer" || h.Type == "number" || h.Type == "boolean"
}

func declares(mi *methodInfo, name string) bool {
	for _, h := range mi.svc.Headers {
		if strings.EqualFold(h.Name, name) {
			return true
		}
	}
	for _, h := range mi.m.Headers {
		if strings.EqualFold(h.Name, name) {
			return true
		}
	}
	return false
}

// C17: a request's outcome does not depend on other requests, concurrent or earlier.
func C17(c *Ctx) error { return c17Run(c, nil) }

// c17Build is buildBatch with a hook between code generation and compilation (the self-test of
// this check edits the emitted text there; the check itself passes nil).
func c17Build(n int, mk func(i int) *ir.Request, add scratch.AddOpts, hook func(bt *scratch.Batch) error) (*scratch.Batch, []*rtItem, error) {
	bt, err := scratch.NewBatch()
	if err != nil {
		return nil, nil, err
	}
	items := make([]*rtItem, n)
	var firstErr error
	var emu sync.Mutex
	parallel(n, func(i int) {
		req := mk(i)
		it, err := bt.Add(fmt.Sprintf("s%04d", i), req, add)
		if err == nil {
			var ds *protoregistry.Files
			if ds, err = gen.Descs(req); err == nil {
				items[i] = &rtItem{req: req, file: req.FileByName(req.PrimaryName()), it: it, descs: ds}
			}
		}
		if err != nil {
			emu.Lock()
			firstErr = err
			emu.Unlock()
		}
	})
	if firstErr == nil && hook != nil {
		firstErr = hook(bt)
	}
	if firstErr == nil {
		firstErr = bt.Build(true)
	}
	if firstErr != nil {
		bt.Close()
		return nil, nil, firstErr
	}
	return bt, items, nil
}

func c17Run(c *Ctx, hook func(bt *scratch.Batch) error) error {
	res := c.Res
	res.Rule = "schemas with two or three services in ONE generated Go package (3..8 RPCs each, all verbs, path and query parameters, service- and method-level headers, one required header per route that no other route declares), emitted package and runner built with -race; " +
		"per schema random multisets of calls over all routes (random requests, scripted per-call responses, per-call header options incl. overrides of defaults and repeated keys, per-call content type) through ONE shared generated client per (service, key) with default headers against ONE shared generated mux, each multiset executed in a fresh process at parallelism 1, 2, 4, 16, plus scripted sequences (call with options, then call without, on the same client); every call is also issued alone in its own process; " +
		"a case is one call in one execution; non-trivial = executed together with other calls on a shared client and server; distinct by (schema, route, parallelism, option classes, outcome)"
	res.Assumptions = append(res.Assumptions,
		"the race detector reports races that happen in the explored executions only (Go memory model: partial by nature, see Props/C17 docstring)",
		"header names within one option list differ by more than case (Go map iteration order would otherwise decide which value net/http keeps)",
		"rule violations come from /verif/stubs/protovalidate")
	r := gen.New(c.Seed)
	n := c.N(2, 5)
	rounds := c.N(1, 3)
	per := c.N(48, 160)
	bt, items, err := c17Build(n, func(i int) *ir.Request {
		return gen.GenMultiServiceFile(r.Fork(fmt.Sprint("c17-", i)), i, gen.RuntimeOpts{Headers: true, ManyMethods: i%2 == 1, ErrorTypes: i%2 == 0, FlattenHome: true, SharedRequest: true})
	}, scratch.AddOpts{GoHTTP: true, GoClient: true}, hook)
	if err != nil {
		return err
	}
	defer bt.Close()

	type run struct {
		name  string
		ops   []any
		flat  []*c17Call // the calls in the order their answers come back
		outs  []map[string]any
		p     int
		err   string
		races string
	}
	type round struct {
		x      *rtItem
		id     string
		calls  []*c17Call
		seq    []*c17Call
		runs   []*run
		alone  []*run // one per call of calls ++ seq
		model  map[*c17Call]map[string]any
		dops   []map[string]any
		dcalls [][]*c17Call
	}
	var all []*round
	for xi, x := range items {
		if !x.it.Built {
			res.Violation("build", "a schema generated to be valid does not build with -race: "+x.it.GenErr+firstLines(x.it.BuildLog, 8), map[string]any{"schema": x.req})
			continue
		}
		if len(x.file.Services) < 2 {
			return fmt.Errorf("generator produced fewer than two services")
		}
		for ri := 0; ri < rounds; ri++ {
			rr := r.Fork(fmt.Sprintf("round-%d-%d", xi, ri))
			rd := &round{x: x, id: fmt.Sprintf("%s/r%d", x.it.ID, ri), model: map[*c17Call]map[string]any{}}
			methods := x.methods()
			bySvc := map[string][]*methodInfo{}
			for _, mi := range methods {
				bySvc[mi.svc.Name] = append(bySvc[mi.svc.Name], mi)
			}
			// ---- clients: two per service ----
			var clients []*c17Client
			for _, s := range x.file.Services {
				for k := 0; k < 2; k++ {
					cl := &c17Client{svc: s, key: fmt.Sprintf("r%d-k%d", ri, k), ct: gen.Pick(rr, []string{"application/json", "application/json", "application/x-protobuf"})}
					cl.home = gen.Pick(rr, bySvc[s.Name])
					for _, h := range s.Headers {
						if h.Required || rr.Bool() {
							cl.defaults = append(cl.defaults, [2]string{h.Name, clearlyValidHeader(rr, h)})
						}
					}
					for _, h := range cl.home.m.Headers {
						if h.Required {
							cl.defaults = append(cl.defaults, [2]string{h.Name, clearlyValidHeader(rr, h)})
						}
					}
					cl.defaults = append(cl.defaults, [2]string{"X-Client", cl.svc.Name + "-" + cl.key})
					cl.shareOpts = rr.Bool()
					clients = append(clients, cl)
				}
			}
			mkCall := func(idx int, mi *methodInfo, cl *c17Client, bare bool) *c17Call {
				k := &c17Call{idx: idx, mi: mi, client: cl}
				md := x.msgDesc(mi.m.Input)
				od := x.msgDesc(mi.m.Output)
				pb := map[string]bool{}
				for _, v := range mi.pathVars {
					pb[v] = true
				}
				reqMsg := gen.RandomMessage(rr, md, &gen.ValOpts{PathBound: pb, SparseP: 1}, 0)
				respMsg := gen.RandomMessage(rr, od, &gen.ValOpts{SparseP: 3}, 0)
				respMsg.Set(od.Fields().ByName("id"), protoreflect.ValueOfString(fmt.Sprintf("answer-%s-%d", rd.id, idx)))
				handler := map[string]any{"kind": "ok", "resp": jsonRaw(gen.PJ(respMsg))}
				if rr.P(1, 8) {
					handler = map[string]any{"kind": "err_sebuf", "msg": fmt.Sprintf("failure-%s-%d", rd.id, idx)}
					k.classes = append(k.classes, "handler_error")
				}
				if !bare {
					// an option value the application created once and passes FIRST to many calls
					if cl.shareOpts && rr.P(2, 3) {
						k.opts = append(k.opts, [2]string{"X-Shared-Opt", "kept-" + cl.key})
						k.classes = append(k.classes, "reused_option_value")
					}
					// the route's own method-level headers
					for _, h := range mi.m.Headers {
						switch p := rr.Intn(10); {
						case p < 7 || (!h.Required && p < 9):
							k.opts = append(k.opts, [2]string{h.Name, clearlyValidHeader(rr, h)})
							k.classes = append(k.classes, "own_valid")
						case p == 7 && typedHeader(h):
							k.opts = append(k.opts, [2]string{h.Name, invalidHeader(rr, h)})
							k.classes = append(k.classes, "own_invalid")
						default:
							k.classes = append(k.classes, "own_absent")
						}
					}
					// override a default of the client
					if len(cl.defaults) > 0 && rr.P(1, 3) {
						d := cl.defaults[rr.Intn(len(cl.defaults))]
						v := fmt.Sprintf("override-%d", idx)
						for _, h := range append(append([]ir.Header{}, mi.svc.Headers...), mi.m.Headers...) {
							if strings.EqualFold(h.Name, d[0]) {
								v = clearlyValidHeader(rr, h)
								if rr.P(1, 4) && typedHeader(h) {
									v = invalidHeader(rr, h)
								}
							}
						}
						k.opts = append(k.opts, [2]string{d[0], v})
						k.classes = append(k.classes, "overrides_default")
					}
					// a header of ANOTHER route (must make no difference to this one beyond being carried)
					if rr.P(1, 4) {
						o := gen.Pick(rr, methods)
						if o != mi && len(o.m.Headers) > 0 {
							h := o.m.Headers[len(o.m.Headers)-1]
							if !declares(mi, h.Name) {
								k.opts = append(k.opts, [2]string{h.Name, clearlyValidHeader(rr, h)})
								k.classes = append(k.classes, "foreign_route_header")
							}
						}
					}
					// the call's own mark, sometimes set twice (the later option wins)
					if rr.P(5, 6) {
						if rr.P(1, 4) {
							k.opts = append(k.opts, [2]string{"X-Call-Id", fmt.Sprintf("stale-%d", idx)})
							k.classes = append(k.classes, "repeated_key")
						}
						k.opts = append(k.opts, [2]string{"X-Call-Id", fmt.Sprint(idx)})
					}
					if rr.P(1, 5) {
						k.callCT = gen.Pick(rr, []string{"application/json", "application/x-protobuf"})
						k.classes = append(k.classes, "call_ct")
					}
				} else {
					k.classes = append(k.classes, "no_options")
				}
				if len(k.classes) == 0 {
					k.classes = []string{"plain"}
				}
				sort.Strings(k.classes)
				k.op = map[string]any{"op": "call", "id": fmt.Sprint(idx), "rpc": mi.svc.Name + "." + mi.m.Name, "req_type": strings.TrimPrefix(mi.m.Input, "."),
					"req": jsonRaw(gen.PJ(reqMsg)), "handler": handler, "client_key": cl.key, "client_ct": cl.ct,
					"default_headers": cl.defaults, "call_headers": orEmptyPairs(k.opts)}
				if k.callCT != "" {
					k.op["call_ct"] = k.callCT
				}
				if cl.shareOpts {
					k.op["share_opts"] = cl.svc.Name + "-" + cl.key
				}
				return k
			}
			clientsOf := func(s string) []*c17Client {
				var out []*c17Client
				for _, cl := range clients {
					if cl.svc.Name == s {
						out = append(out, cl)
					}
				}
				return out
			}
			// ---- the multiset: every route at least twice, then random routes ----
			for i := 0; i < per || i < 2*len(methods); i++ {
				mi := methods[i%len(methods)]
				if i >= 2*len(methods) {
					mi = gen.Pick(rr, methods)
				}
				cl := gen.Pick(rr, clientsOf(mi.svc.Name))
				if rr.P(1, 3) {
					mi = cl.home
				}
				k := mkCall(i, mi, cl, rr.P(1, 6))
				rd.calls = append(rd.calls, k)
				if rr.P(1, 6) {
					// the SAME call three more times: one prepared request message object passed to every one of them,
					// and a handler that answers all of them with one cached response object — marshalling a message
					// must not write to it
					k.op["shared_msgs"] = true
					if h, ok := k.op["handler"].(map[string]any); ok && h["kind"] == "ok" {
						h["shared_resp"] = true
					}
					k.classes = append(k.classes, "shared_message_objects")
					sort.Strings(k.classes)
					for t := 0; t < 3; t++ {
						twin := *k
						twin.idx = 100000 + 10*i + t
						twin.op = map[string]any{}
						for kk, vv := range k.op {
							twin.op[kk] = vv
						}
						twin.op["id"] = fmt.Sprint(twin.idx)
						rd.calls = append(rd.calls, &twin)
					}
				}
			}
			// ---- sequences on one client: A with options, B (home route) without, A', B again ----
			si := len(rd.calls)
			for _, cl := range clients {
				for rep := 0; rep < 2; rep++ {
					a := gen.Pick(rr, bySvc[cl.svc.Name])
					rd.seq = append(rd.seq, mkCall(si, a, cl, false))
					si++
					rd.seq = append(rd.seq, mkCall(si, cl.home, cl, true))
					si++
				}
			}
			// ---- one request OBJECT kept by the caller and updated in place between calls (three calls per client on a
			// body-verb route, binary and JSON transport): what an earlier call left inside the object (cached sizes,
			// a nil-ed child) must not change a later call
			for _, cl := range clients {
				var body []*methodInfo
				for _, mi := range bySvc[cl.svc.Name] {
					if mi.bodyVerb() {
						body = append(body, mi)
					}
				}
				if len(body) == 0 {
					continue
				}
				mi := gen.Pick(rr, body)
				for rep := 0; rep < 3; rep++ {
					k := mkCall(si, mi, cl, true)
					k.op["reuse_object"] = fmt.Sprintf("%s-%s-%s", cl.svc.Name, cl.key, mi.m.Name)
					k.op["call_ct"] = []string{"application/x-protobuf", "application/x-protobuf", "application/json"}[rep]
					k.callCT = fmt.Sprint(k.op["call_ct"])
					k.classes = append(k.classes, "reused_request_object")
					sort.Strings(k.classes)
					rd.seq = append(rd.seq, k)
					si++
				}
			}
			// ---- executions ----
			var ops []any
			for _, k := range rd.calls {
				ops = append(ops, k.op)
			}
			for _, p := range c17Parallelism {
				rd.runs = append(rd.runs, &run{name: fmt.Sprintf("parallel-%d", p), p: p, flat: rd.calls,
					ops: []any{map[string]any{"op": "parallel", "id": "multiset", "parallel": p, "ops": ops}}})
			}
			var sops []any
			for _, k := range rd.seq {
				sops = append(sops, k.op)
			}
			rd.runs = append(rd.runs, &run{name: "sequence", p: 0, flat: rd.seq, ops: sops})
			for _, k := range append(append([]*c17Call{}, rd.calls...), rd.seq...) {
				rd.alone = append(rd.alone, &run{name: "alone", flat: []*c17Call{k}, ops: []any{k.op}})
			}
			// ---- model: one driver op per client ----
			for _, cl := range clients {
				var ks []*c17Call
				var dcs []any
				libs := map[string]bool{}
				var lib []any
				addLib := func(v string) {
					if !libs[v] {
						libs[v] = true
						m := libVerdicts(v)
						m["value"] = v
						lib = append(lib, m)
					}
				}
				for _, d := range cl.defaults {
					addLib(d[1])
				}
				for _, k := range append(append([]*c17Call{}, rd.calls...), rd.seq...) {
					if k.client != cl {
						continue
					}
					opts := canonPairs(k.opts)
					if k.callCT != "" {
						opts = append([][2]string{{"Content-Type", k.callCT}}, opts...)
					}
					for _, o := range opts {
						addLib(o[1])
					}
					ks = append(ks, k)
					dcs = append(dcs, map[string]any{"opts": pairsAny(opts), "service": hspecs(k.mi.svc.Headers), "method": hspecs(k.mi.m.Headers)})
				}
				if len(ks) == 0 {
					continue
				}
				rd.dops = append(rd.dops, map[string]any{"op": "c17_calls", "ct": cl.ct, "defaults": pairsAny(canonPairs(cl.defaults)), "calls": dcs, "lib": orEmpty(lib)})
				rd.dcalls = append(rd.dcalls, ks)
			}
			all = append(all, rd)
		}
	}

	// ---- run everything: one process per execution ----
	type job struct {
		rd *round
		rn *run
	}
	var jobs []job
	for _, rd := range all {
		for _, rn := range rd.runs {
			jobs = append(jobs, job{rd, rn})
		}
		for _, rn := range rd.alone {
			jobs = append(jobs, job{rd, rn})
		}
	}
	var mu sync.Mutex
	parallel(len(jobs), func(i int) {
		j := jobs[i]
		outs, stderr, err := j.rd.x.it.Run(j.rn.ops, 5*time.Minute)
		mu.Lock()
		defer mu.Unlock()
		if strings.Contains(stderr, "DATA RACE") {
			j.rn.races = stderr
		}
		if len(outs) != len(j.rn.ops) {
			j.rn.err = fmt.Sprintf("runner gave %d/%d answers: %v stderr=%s", len(outs), len(j.rn.ops), err, firstLines(stderr, 12))
			return
		}
		if err != nil && j.rn.races == "" {
			j.rn.err = fmt.Sprintf("runner failed: %v stderr=%s", err, firstLines(stderr, 12))
			return
		}
		if len(outs) == 1 && outs[0]["op"] == "parallel" {
			for _, o := range asList(outs[0]["results"]) {
				m, _ := o.(map[string]any)
				j.rn.outs = append(j.rn.outs, m)
			}
		} else {
			j.rn.outs = outs
		}
		if len(j.rn.outs) != len(j.rn.flat) {
			j.rn.err = fmt.Sprintf("runner answered %d calls, %d were issued", len(j.rn.outs), len(j.rn.flat))
		}
	})

	// ---- the model's predictions ----
	modelOK := false
	if drv.Available() {
		var dops []map[string]any
		for _, rd := range all {
			dops = append(dops, rd.dops...)
		}
		douts, err := drv.Run(dops)
		if err != nil {
			res.Corr("driver", "Lean driver failed: "+err.Error(), nil)
		} else {
			modelOK = true
			di := 0
			for _, rd := range all {
				for gi := range rd.dops {
					cs := asList(douts[di]["calls"])
					di++
					if len(cs) != len(rd.dcalls[gi]) {
						res.Corr("driver", fmt.Sprintf("driver answered %d calls for %d", len(cs), len(rd.dcalls[gi])), nil)
						modelOK = false
						continue
					}
					for ci, k := range rd.dcalls[gi] {
						m, _ := cs[ci].(map[string]any)
						rd.model[k] = m
					}
				}
			}
		}
	} else {
		res.Corr("driver", "Lean driver binary missing (model did not build)", nil)
	}

	// ---- decide ----
	for _, rd := range all {
		aloneOf := map[*c17Call]map[string]any{}
		for _, rn := range rd.alone {
			if rn.err != "" {
				return fmt.Errorf("%s isolated call: %s", rd.id, rn.err)
			}
			if rn.races != "" {
				res.Violation("data_race", "the race detector reports a data race for a single call issued alone: "+raceSummary(rn.races),
					map[string]any{"schema": rd.x.req, "ops": rn.ops, "race_report": firstLines(rn.races, 80)})
			}
			aloneOf[rn.flat[0]] = rn.outs[0]
		}
		for _, rn := range rd.runs {
			if rn.races != "" {
				res.Violation("data_race", fmt.Sprintf("%s %s: the race detector reports a data race: %s", rd.id, rn.name, raceSummary(rn.races)),
					map[string]any{"schema": rd.x.req, "execution": rn.name, "ops": rn.ops, "race_report": firstLines(rn.races, 120)})
			}
			if rn.err != "" {
				// every call of this execution answered when issued alone (checked above): a runner
				// that dies or hangs when they are issued together is the property failing
				if rn.races == "" {
					res.Violation("execution_crashed", fmt.Sprintf("%s %s: the process serving the calls together did not answer: %s", rd.id, rn.name, rn.err),
						map[string]any{"schema": rd.x.req, "execution": rn.name, "ops": rn.ops})
				}
				continue
			}
			for i, k := range rn.flat {
				o := rn.outs[i]
				alone := aloneOf[k]
				status := "ok"
				if e, _ := o["err"].(map[string]any); e != nil {
					status = fmt.Sprint(e["class"])
				}
				names, gated := headerGate(o)
				if gated {
					status = "header_gate"
				}
				res.Case(map[string]any{"schema": rd.x.it.ID, "rpc": k.op["rpc"], "execution": rn.name, "classes": k.classes, "outcome": status}, true)
				res.Count("execution:" + rn.name)
				res.Count("outcome:" + status)
				for _, cl := range k.classes {
					res.Count("options:" + cl)
				}
				replay := map[string]any{"schema": rd.x.req, "execution": rn.name, "parallelism": rn.p, "call_index": k.idx, "call": k.op, "together": o, "alone": alone, "model": rd.model[k], "all_ops": rn.ops}
				label := fmt.Sprintf("%s %s call %d (%v)", rd.id, rn.name, k.idx, k.op["rpc"])
				if f, _ := o["fault"].(string); f != "" {
					res.Violation("fault", label+": "+f, replay)
					continue
				}
				if he, _ := o["harness_err"].(string); he != "" {
					return fmt.Errorf("%s: %s", label, he)
				}
				// (i) oracle: together == alone
				a, b := c17Obs(o), c17Obs(alone)
				if !jsonEq(a, b) {
					diff := []string{}
					for _, key := range []string{"err", "got", "called", "rpc", "seen", "seen_eq", "wire", "served", "fault"} {
						if !jsonEq(a[key], b[key]) {
							diff = append(diff, key)
						}
					}
					res.Violation("not_isolated:"+strings.Join(diff, "+"), fmt.Sprintf("%s: the call's %s differ from the same call issued alone on a fresh server and client", label, strings.Join(diff, ", ")), replay)
				}
				// (iii) per-call options stay with their call; route configuration stays with its route
				wire := asList(o["wire"])
				if len(wire) != 1 {
					res.Violation("wire_count", fmt.Sprintf("%s: %d requests on the wire for one call", label, len(wire)), replay)
					continue
				}
				w, _ := wire[0].(map[string]any)
				sent := sortedPairs(w["headers"])
				wantMark := ""
				for _, p := range k.opts {
					if p[0] == "X-Call-Id" {
						wantMark = p[1]
					}
				}
				wantClient := k.client.svc.Name + "-" + k.client.key
				for _, p := range k.opts {
					if p[0] == "X-Client" {
						wantClient = p[1]
					}
				}
				for _, p := range sent {
					if p[0] == "X-Call-Id" && p[1] != wantMark {
						res.Violation("option_leak", fmt.Sprintf("%s: carries X-Call-Id %q, its own options say %q", label, p[1], wantMark), replay)
					}
					if p[0] == "X-Client" && p[1] != wantClient {
						res.Violation("default_leak", fmt.Sprintf("%s: carries the default header of another client (%q)", label, p[1]), replay)
					}
				}
				if gated {
					for _, nm := range names {
						if !declares(k.mi, nm) {
							res.Violation("foreign_route_config", fmt.Sprintf("%s: rejected for header %s, which its route does not declare", label, nm), replay)
						}
					}
				}
				// routes that declare method headers end with one required header no other route has
				if nh := len(k.mi.m.Headers); nh > 0 {
					own := k.mi.m.Headers[nh-1]
					carriesOwn := false
					for _, p := range sent {
						if strings.EqualFold(p[0], own.Name) {
							carriesOwn = true
						}
					}
					if !carriesOwn && jsonInt(o["called"]) > 0 {
						res.Violation("own_route_config_missing", fmt.Sprintf("%s: dispatched without the route's own required header %s", label, own.Name), replay)
					}
				}
				// correspondence with the model
				m := rd.model[k]
				if !modelOK || m == nil {
					continue
				}
				agree := true
				if want := sortedPairs(m["headers"]); fmt.Sprint(want) != fmt.Sprint(sent) {
					agree = false
					what := fmt.Sprintf("%s: request carries %v, the model (defaults then the call's own options) says %v", label, sent, want)
					if fmt.Sprint(sortedPairs(m["leak"])) == fmt.Sprint(sent) {
						what += " — this is what a client that writes per-call options into its default map sends"
					}
					res.Corr("request_headers", what, replay)
				}
				var mviol []string
				for _, v := range asList(m["violations"]) {
					mviol = append(mviol, fmt.Sprint(v))
				}
				sort.Strings(mviol)
				mdisp, _ := m["dispatched"].(bool)
				if mdisp == gated || (gated && fmt.Sprint(mviol) != fmt.Sprint(names)) {
					agree = false
					res.Corr("header_gate", fmt.Sprintf("%s: server header gate rejected=%v %v; the model of the route's own declarations says dispatched=%v %v", label, gated, names, mdisp, mviol), replay)
				}
				if agree {
					res.CorrAgree()
				}
			}
		}
	}
	res.Programs = len(items)
	res.Note(fmt.Sprintf("%d processes run (%d multiset/sequence executions, the rest single isolated calls)", len(jobs), len(all)*(len(c17Parallelism)+1)))
	return nil
}

func raceSummary(stderr string) string {
	var fns []string
	lines := strings.Split(stderr, "\n")
	for i, l := range lines {
		if strings.HasPrefix(l, "WARNING: DATA RACE") || strings.HasPrefix(l, "Previous ") {
			for j := i + 1; j < len(lines) && j < i+4; j++ {
				t := strings.TrimSpace(lines[j])
				if t != "" && !strings.HasPrefix(t, "Write at") && !strings.HasPrefix(t, "Read at") && !strings.HasPrefix(t, "/") {
					fns = append(fns, t)
					break
				}
			}
		}
		if len(fns) >= 2 {
			break
		}
	}
	return strings.Join(fns, " / ")
}

func orEmptyPairs(p [][2]string) [][2]string {
	if p == nil {
		return [][2]string{}
	}
	return p
}
