package gen

import (
	"strings"

	"verif/harness/ir"
)

// SplitPathQuery returns a copy of req in which no GET/DELETE route combines path variables with
// query parameters: such routes alternately lose their query fields or their path variables.
// Before /repo 41e5e05 the emitted TS server module of the ORIGINAL failed to load as a whole
// (duplicate `const url`); the split copies kept every other route running and are kept as a
// shape of their own (path-only and query-only GET/DELETE routes) next to the originals. The
// result says how many routes were changed.
func SplitPathQuery(req *ir.Request) (*ir.Request, int) {
	c := req.Clone()
	changed := 0
	for _, f := range c.Files {
		for _, s := range f.Services {
			for _, m := range s.Methods {
				if m.Config == nil || (m.Config.Method != "GET" && m.Config.Method != "DELETE") {
					continue
				}
				in, _ := c.FindMessage(m.Input)
				if in == nil {
					continue
				}
				vars := map[string]bool{}
				for _, seg := range strings.Split(m.Config.Path, "/") {
					if strings.HasPrefix(seg, "{") && strings.HasSuffix(seg, "}") {
						vars[seg[1:len(seg)-1]] = true
					}
				}
				nq := 0
				for _, fl := range in.Fields {
					if fl.Ann.Query != nil {
						nq++
					}
				}
				if len(vars) == 0 || nq == 0 {
					continue
				}
				changed++
				var keep []*ir.Field
				if changed%2 == 1 {
					// path only
					for _, fl := range in.Fields {
						if fl.Ann.Query == nil {
							keep = append(keep, fl)
						}
					}
				} else {
					// query only
					var segs []string
					for _, seg := range strings.Split(m.Config.Path, "/") {
						if !(strings.HasPrefix(seg, "{") && strings.HasSuffix(seg, "}")) {
							segs = append(segs, seg)
						}
					}
					m.Config.Path = strings.Join(segs, "/")
					for _, fl := range in.Fields {
						if !vars[fl.Name] {
							keep = append(keep, fl)
						}
					}
				}
				in.Fields = keep
			}
		}
	}
	return c, changed
}

// InteropCorpus is the fixed corpus of the TS/Go interoperation property: hand-written schemas
// placed first in every run. Variant 0 has no GET/DELETE route with both path variables and
// query parameters and covers every verb, a service base path with two segments,
// two services in one file, adjacent / first / last path variables, query parameters of every
// TS-visible kind, service- and method-level headers and two headers whose TypeScript option
// property coincides (X-API-Key / Api-Key). Variant 1 adds the canonical REST shape
// `GET /items/{item_id}?page=` (path variable + query parameter).
func InteropCorpus(variant int) *ir.Request {
	pkg := "shop.v1"
	P := "." + pkg + "."
	f := &ir.File{Name: "interop/api.proto", Package: pkg, GoPackage: "example.com/gen/shop/v1;shopv1"}
	q := func(n string) ir.Ann { return ir.Ann{Query: &ir.Query{Name: n}} }
	f.Enums = []*ir.Enum{{Name: "Color", Values: []ir.EnumValue{{Name: "COLOR_UNSPECIFIED", Number: 0}, {Name: "COLOR_RED", Number: 1}}}}
	f.Messages = []*ir.Message{
		{Name: "Leaf", Fields: []*ir.Field{{Name: "street", Number: 1, Kind: "string"}, {Name: "zip_code", Number: 2, Kind: "int32"}}},
		{Name: "Reply", Fields: []*ir.Field{
			{Name: "id", Number: 1, Kind: "string"}, {Name: "count", Number: 2, Kind: "int64"}, {Name: "ok", Number: 3, Kind: "bool"},
			{Name: "tags", Number: 4, Kind: "string", Card: "repeated"}, {Name: "leaf", Number: 5, Kind: "message", TypeName: P + "Leaf"},
			{Name: "color", Number: 6, Kind: "enum", TypeName: P + "Color"}, {Name: "blob", Number: 7, Kind: "bytes"},
			{Name: "at", Number: 8, Kind: "message", TypeName: tsType}, {Name: "score", Number: 9, Kind: "double"},
			{Name: "maybe", Number: 10, Kind: "int32", Card: "optional"}, {Name: "u", Number: 11, Kind: "uint64"},
			{Name: "attrs", Number: 12, Kind: "string", Card: "map", MapKey: "string"}}},
		{Name: "GetItemReq", Fields: []*ir.Field{{Name: "item_id", Number: 1, Kind: "string"}}},
		{Name: "SearchReq", Fields: []*ir.Field{
			{Name: "q", Number: 1, Kind: "string", Ann: q("q")}, {Name: "limit", Number: 2, Kind: "int32", Ann: q("limit")},
			{Name: "cursor", Number: 3, Kind: "int64", Ann: q("cursor")}, {Name: "flag", Number: 4, Kind: "bool", Ann: q("flag")},
			{Name: "ratio", Number: 5, Kind: "double", Ann: q("ratio")}, {Name: "tenant_name", Number: 6, Kind: "string", Ann: q("")},
			{Name: "big", Number: 7, Kind: "uint64", Ann: q("big")}}},
		{Name: "AddUserReq", Fields: []*ir.Field{
			{Name: "org", Number: 1, Kind: "string"}, {Name: "user_id", Number: 2, Kind: "int64"},
			{Name: "page", Number: 3, Kind: "int32", Ann: q("page")},
			{Name: "title", Number: 4, Kind: "string"}, {Name: "amount", Number: 5, Kind: "int64"},
			{Name: "labels", Number: 6, Kind: "string", Card: "repeated"}, {Name: "home", Number: 7, Kind: "message", TypeName: P + "Leaf"},
			{Name: "shade", Number: 8, Kind: "enum", TypeName: P + "Color"}, {Name: "raw", Number: 9, Kind: "bytes"},
			{Name: "when", Number: 10, Kind: "message", TypeName: tsType}, {Name: "weight", Number: 11, Kind: "double"},
			{Name: "opt_text", Number: 12, Kind: "string", Card: "optional"}}},
		{Name: "DelTagReq", Fields: []*ir.Field{{Name: "item_id", Number: 1, Kind: "uint32"}, {Name: "name", Number: 2, Kind: "string"}}},
		{Name: "PutReq", Fields: []*ir.Field{{Name: "flag", Number: 1, Kind: "bool"}, {Name: "ratio", Number: 2, Kind: "float"},
			{Name: "title", Number: 3, Kind: "string"}, {Name: "props", Number: 4, Kind: "int32", Card: "map", MapKey: "string"}}},
		{Name: "PatchReq", Fields: []*ir.Field{{Name: "name", Number: 1, Kind: "string"}, {Name: "nums", Number: 2, Kind: "sint64", Card: "repeated"}}},
		{Name: "PingReq", Fields: []*ir.Field{{Name: "since", Number: 1, Kind: "fixed64", Ann: q("since")}}},
		{Name: "EchoReq", Fields: []*ir.Field{{Name: "name", Number: 1, Kind: "string"}, {Name: "title", Number: 2, Kind: "string"}}},
		// explicit json_name on path-bound, query-bound and body fields: the TS request object carries
		// the descriptor's JSON names, which is what every generated client and server must read
		{Name: "AliasGetReq", Fields: []*ir.Field{{Name: "user_id", Number: 1, Kind: "string", JSONName: "uid"},
			{Name: "page_size", Number: 2, Kind: "int32", JSONName: "ps", Ann: q("page_size")}}},
		// the singular REST shape: a literal segment spelled like the variable that follows it
		{Name: "MemberReq", Fields: []*ir.Field{{Name: "org", Number: 1, Kind: "string"}, {Name: "member", Number: 2, Kind: "string"}, {Name: "title", Number: 3, Kind: "string"}}},
		{Name: "AliasPutReq", Fields: []*ir.Field{{Name: "user_id", Number: 1, Kind: "string", JSONName: "uid"},
			{Name: "display_name", Number: 2, Kind: "string", JSONName: "label"}, {Name: "big_total", Number: 3, Kind: "int64", JSONName: "total"}}},
	}
	shop := &ir.Service{Name: "Shop", BasePath: "/api/v1",
		Headers: []ir.Header{{Name: "X-API-Key", Type: "string", Format: "uuid", Required: true}, {Name: "X-Tenant", Type: "string"}},
		Methods: []*ir.Method{
			{Name: "GetItem", Input: P + "GetItemReq", Output: P + "Reply", Config: &ir.HTTPConfig{Path: "/items/{item_id}", Method: "GET"}},
			{Name: "Search", Input: P + "SearchReq", Output: P + "Reply", Config: &ir.HTTPConfig{Path: "/search", Method: "GET"},
				Headers: []ir.Header{{Name: "X-Count", Type: "integer", Required: true}}},
			{Name: "AddUser", Input: P + "AddUserReq", Output: P + "Reply", Config: &ir.HTTPConfig{Path: "/orgs/{org}/{user_id}/users", Method: "POST"},
				Headers: []ir.Header{{Name: "Api-Key", Type: "integer", Required: true}}},
			{Name: "DelTag", Input: P + "DelTagReq", Output: P + "Reply", Config: &ir.HTTPConfig{Path: "/items/{item_id}/tags/{name}", Method: "DELETE"},
				Headers: []ir.Header{{Name: "X-When", Type: "string", Format: "date-time"}}},
			{Name: "PutThing", Input: P + "PutReq", Output: P + "Reply", Config: &ir.HTTPConfig{Path: "/{flag}/things/{ratio}", Method: "PUT"}},
			{Name: "PutMember", Input: P + "MemberReq", Output: P + "Reply", Config: &ir.HTTPConfig{Path: "/org/{org}/member/{member}", Method: "PUT"}},
		}}
	aux := &ir.Service{Name: "Aux", BasePath: "/aux",
		Headers: []ir.Header{{Name: "Authorization", Type: "string", Required: true}},
		Methods: []*ir.Method{
			{Name: "Patch", Input: P + "PatchReq", Output: P + "Reply", Config: &ir.HTTPConfig{Path: "/p/{name}", Method: "PATCH"},
				Headers: []ir.Header{{Name: "X-Flag", Type: "boolean", Required: true}}},
			// header names whose part after an optional "X-" itself starts with X or '-': helper / option
			// names must come from stripping the literal prefix once, not a character set
			{Name: "Ping", Input: P + "PingReq", Output: P + "Reply", Config: &ir.HTTPConfig{Path: "/ping", Method: "GET"},
				Headers: []ir.Header{{Name: "X-XSRF-Token", Type: "string", Required: true}, {Name: "XSS-Mode", Type: "string", Required: true}, {Name: "X-X-Trace", Type: "string"}}},
			{Name: "Echo", Input: P + "EchoReq", Output: P + "Reply", Config: &ir.HTTPConfig{Path: "/echo/{name}", Method: "POST"}},
			{Name: "PutAlias", Input: P + "AliasPutReq", Output: P + "Reply", Config: &ir.HTTPConfig{Path: "/alias/{user_id}", Method: "PUT"}},
		}}
	f.Services = []*ir.Service{shop, aux}
	if variant == 1 {
		f.Name = "interop1/api.proto"
		f.Messages = append(f.Messages, &ir.Message{Name: "ListReq", Fields: []*ir.Field{
			{Name: "item_id", Number: 1, Kind: "string"}, {Name: "page", Number: 2, Kind: "int32", Ann: q("page")}}})
		shop.Methods = append(shop.Methods, &ir.Method{Name: "ListParts", Input: P + "ListReq", Output: P + "Reply",
			Config: &ir.HTTPConfig{Path: "/items/{item_id}/parts", Method: "GET"}},
			&ir.Method{Name: "GetAlias", Input: P + "AliasGetReq", Output: P + "Reply", Config: &ir.HTTPConfig{Path: "/alias/{user_id}", Method: "GET"}})
	}
	return &ir.Request{Files: []*ir.File{f}, Generate: []string{f.Name}}
}

// InteropHeaderZoo is a fixed schema whose routes declare, between them, every header shape:
// type ∈ {unset, string, integer, number, boolean, array} × format ∈ {unset, uuid, email,
// date-time, date, time} × required / optional at method level, over a service that declares a
// required string, a required integer and an optional number header; the last routes re-declare
// a service header at method level (other type, optional, other letter case).
func InteropHeaderZoo() *ir.Request {
	pkg := "hz.v1"
	P := "." + pkg + "."
	f := &ir.File{Name: "hzoo/api.proto", Package: pkg, GoPackage: "example.com/gen/hz/v1;hzv1"}
	f.Messages = []*ir.Message{{Name: "In", Fields: []*ir.Field{{Name: "title", Number: 1, Kind: "string"}}},
		{Name: "Out", Fields: []*ir.Field{{Name: "id", Number: 1, Kind: "string"}}}}
	svc := &ir.Service{Name: "Hz", BasePath: "/hz", Headers: []ir.Header{
		{Name: "X-S-Str", Type: "string", Required: true}, {Name: "X-S-Int", Type: "integer", Required: true}, {Name: "X-S-Opt", Type: "number"}}}
	types := []string{"", "string", "integer", "number", "boolean", "array"}
	formats := []string{"", "uuid", "email", "date-time", "date", "time"}
	n := 0
	for _, t := range types {
		for _, fm := range formats {
			for _, req := range []bool{true, false} {
				// one method-level header per route, so that a verdict is about that header alone
				svc.Methods = append(svc.Methods, &ir.Method{Name: "M" + itoa(n), Input: P + "In", Output: P + "Out",
					Config:  &ir.HTTPConfig{Path: "/m" + itoa(n), Method: "POST"},
					Headers: []ir.Header{{Name: "X-H" + itoa(n), Type: t, Format: fm, Required: req}}})
				n++
			}
		}
	}
	over := []struct {
		name string
		h    ir.Header
	}{
		{"OverStrAsInt", ir.Header{Name: "X-S-Str", Type: "integer", Required: true}},
		{"OverIntAsStr", ir.Header{Name: "X-S-Int", Type: "string", Required: true}},
		{"OverIntOptional", ir.Header{Name: "X-S-Int", Type: "integer"}},
		{"OverIntAsUuid", ir.Header{Name: "X-S-Int", Type: "string", Format: "uuid", Required: true}},
		{"OverCase", ir.Header{Name: "x-s-int", Type: "integer", Required: true}},
		{"OverOptRequired", ir.Header{Name: "X-S-Opt", Type: "number", Required: true}},
	}
	for i, o := range over {
		svc.Methods = append(svc.Methods, &ir.Method{Name: o.name, Input: P + "In", Output: P + "Out",
			Config: &ir.HTTPConfig{Path: "/o" + itoa(i), Method: "POST"}, Headers: []ir.Header{o.h}})
	}
	f.Services = []*ir.Service{svc}
	return &ir.Request{Files: []*ir.File{f}, Generate: []string{f.Name}}
}

func itoa(n int) string {
	if n == 0 {
		return "0"
	}
	s := ""
	for n > 0 {
		s = string(rune('0'+n%10)) + s
		n /= 10
	}
	return s
}
