package props

import (
	"fmt"
	"net/url"
	"sort"
	"strconv"
	"strings"
	"sync"
	"sync/atomic"
	"time"
	"unicode/utf8"

	"google.golang.org/protobuf/reflect/protoreflect"

	"verif/harness/drv"
	"verif/harness/gen"
	"verif/harness/ir"
	"verif/harness/scratch"
)

func init() { Registry["C09"] = C09 }

// clearlyValidHeader: a value every reading of the published type/format allows.
func clearlyValidHeader(r *gen.R, h ir.Header) string {
	switch h.Type {
	case "integer":
		return gen.Pick(r, []string{"42", "0", "-7", "9223372036854775807"})
	case "number":
		return gen.Pick(r, []string{"3.14", "0", "-1.5e3", "42"})
	case "boolean":
		return gen.Pick(r, []string{"true", "false"})
	case "array":
		return gen.Pick(r, []string{"a,b,c", "x"})
	}
	switch h.Format {
	case "uuid":
		return gen.Pick(r, []string{"123e4567-e89b-42d3-a456-426614174000", "00000000-0000-4000-8000-000000000000"})
	case "email":
		return gen.Pick(r, []string{"user@example.com", "a.b+c@sub.example.org"})
	case "date-time":
		return gen.Pick(r, []string{"2020-01-02T03:04:05Z", "1999-12-31T23:59:59.123+02:00"})
	case "date":
		return gen.Pick(r, []string{"2020-01-02", "1999-12-31"})
	case "time":
		return gen.Pick(r, []string{"03:04:05", "23:59:59"})
	}
	return gen.Pick(r, []string{"abc", "Bearer tok-123", "x y"})
}

// invalidCursor makes invalidHeader walk through each pool in order (per type / format), so that
// every listed malformation is sent within a few draws instead of with probability 1/len.
var invalidCursor sync.Map

func cyclePick(key string, pool []string) string {
	v, _ := invalidCursor.LoadOrStore(key, new(atomic.Int64))
	n := v.(*atomic.Int64).Add(1) - 1
	return pool[int(n)%len(pool)]
}

func invalidHeader(r *gen.R, h ir.Header) string {
	switch h.Type {
	// (the last entries of the typed pools are ill-formed AND not valid UTF-8: whatever the server quotes of the value,
	// the answer is still a ValidationError that can be encoded)
	case "integer":
		return cyclePick("integer", []string{"abc", "1.5", "12x", "12\xff", "7\xa0"})
	case "number":
		return cyclePick("number", []string{"abc", "1,5", "--1", "0,5\xe9", "\xfe1.5"})
	case "boolean":
		return cyclePick("boolean", []string{"yes", "2", "tru", "tru\xe9", "\xff"})
	case "array":
		return gen.Pick(r, []string{" ", "\t"})
	}
	switch h.Format {
	case "uuid":
		return cyclePick("uuid", []string{"123e4567e89b42d3a456426614174000", "123e4567-e89b-42d3-a456-42661417400", "zzzzzzzz-zzzz-zzzz-zzzz-zzzzzzzzzzzz", "123e4567+e89b+42d3+a456+426614174000",
			// dashes where hex digits belong, in even numbers (what is left after removing them is still an even count of hex digits)
			"123e4567-e89b-12d3-a456-4266141740--", "12-e4567-e89b-12d3-a456-426614174-00", "------------------------------------"})
	case "email":
		return cyclePick("email", []string{"no-at-sign", "@", "a@", "@b", "a@b@c.test", "alice@@example.com", "alice@example.com@evil.test"})
	case "date-time":
		return cyclePick("date-time", []string{"2020-01-02", "yesterday", "2020-13-01T00:00:00Z", "2020-01-02T03:04:05", "2020-01-02 03:04:05Z"})
	case "date":
		return cyclePick("date", []string{"2020-1-2", "01/02/2020", "2020-02-30", "2020-01-02T00:00:00Z"})
	case "time":
		return cyclePick("time", []string{"3:4:5", "25:00:00", "noon", "03:04", "03:04:05Z"})
	}
	return "\xff\xfe" // not valid UTF-8
}

func libVerdicts(v string) map[string]any {
	_, ferr := strconv.ParseFloat(v, 64)
	_, dterr := time.Parse(time.RFC3339, v)
	_, derr := time.Parse("2006-01-02", v)
	_, terr := time.Parse("15:04:05", v)
	return map[string]any{"utf8": utf8.ValidString(v), "float": ferr == nil, "datetime": dterr == nil, "date": derr == nil, "time": terr == nil}
}

func hspecs(hs []ir.Header) []any {
	out := []any{}
	for _, h := range hs {
		out = append(out, map[string]any{"name": h.Name, "type": h.Type, "format": h.Format, "required": h.Required})
	}
	return out
}

// C09: requests are dispatched only when every required header is present and valid.
func C09(c *Ctx) error {
	res := c.Res
	res.Rule = "services with service- and method-level header declarations (required/optional x type x format x overriding x case variants) on the really compiled generated Go server; per request each declared header is sent clearly-valid / exotic-valid / invalid for its type or format / empty / absent / under a different case, with a valid or a malformed body; " +
		"a case is one request; non-trivial = the route declares at least one header; distinct by (per-header (type, format, required, level, value class), body class)"
	r := gen.New(c.Seed)
	n := c.N(8, 50)
	per := c.N(40, 200)
	bt, items, err := buildBatch(n, func(i int) *ir.Request {
		q := gen.GenRuntimeFile(r.Fork(fmt.Sprint("c09-", i)), i, gen.RuntimeOpts{Headers: true})
		if i < 2 {
			// two fixed header layouts: a service with 3 (5) required headers whose FIRST RPC declares a header of
			// its own that sorts before them, a same-named override in the middle, and plain RPCs after both —
			// what one operation declares must not show in what a later operation of the service publishes or validates
			svc := q.Files[0].Services[0]
			svc.Headers = []ir.Header{{Name: "X-Request-ID", Type: "string", Format: "uuid", Required: true}, {Name: "X-Tenant", Type: "string", Required: true}, {Name: "X-Count", Type: "integer", Required: true}}
			if i == 1 {
				svc.Headers = append(svc.Headers, ir.Header{Name: "X-Flag", Type: "boolean", Required: true}, ir.Header{Name: "X-Trace", Type: "string"})
			}
			for mi, m := range svc.Methods {
				switch mi {
				case 0:
					m.Headers = []ir.Header{{Name: "Accept-Language", Type: "string", Required: true}}
				case 2:
					m.Headers = []ir.Header{{Name: "X-Request-ID", Type: "integer", Required: true}, {Name: "Api-Key", Type: "string", Required: true}}
				default:
					m.Headers = nil
				}
			}
		}
		return q
	}, scratch.AddOpts{GoHTTP: true}, false)
	if err != nil {
		return err
	}
	defer bt.Close()
	type sent struct {
		h     ir.Header
		level string
		class string
		name  string
		value string
		has   bool
	}
	type kase struct {
		x       *rtItem
		mi      *methodInfo
		op      map[string]any
		dop     map[string]any
		sent    []sent
		badBody bool
	}
	var all []*kase
	for xi, x := range items {
		if !x.it.Built {
			res.Violation("build", "a schema generated to be valid does not build: "+x.it.GenErr+firstLines(x.it.BuildLog, 8), map[string]any{"schema": x.req})
			continue
		}
		rr := r.Fork(fmt.Sprint("cases-", xi))
		for _, mi := range x.methods() {
			if len(mi.svc.Headers)+len(mi.m.Headers) == 0 {
				continue
			}
			md := x.msgDesc(mi.m.Input)
			for k := 0; k < per/len(x.methods())+1; k++ {
				ks := &kase{x: x, mi: mi}
				// a URL and body that bind cleanly
				pb := map[string]bool{}
				for _, v := range mi.pathVars {
					pb[v] = true
				}
				sample := gen.RandomMessage(rr, md, &gen.ValOpts{PathBound: pb, SparseP: 0}, 0)
				target := strings.TrimSuffix(mi.svc.BasePath, "/")
				for _, seg := range strings.Split(mi.m.Config.Path, "/")[1:] {
					if strings.HasPrefix(seg, "{") {
						fd := md.Fields().ByName(protoreflect.Name(seg[1 : len(seg)-1]))
						target += "/" + url.PathEscape(sprintField(fd, sample.Get(fd)))
					} else {
						target += "/" + seg
					}
				}
				var qs []string
				for _, f := range mi.query {
					fd := md.Fields().ByName(protoreflect.Name(f.Name))
					qs = append(qs, url.QueryEscape(mi.queryName(f))+"="+url.QueryEscape(sprintField(fd, sample.Get(fd))))
				}
				if len(qs) > 0 {
					target += "?" + strings.Join(qs, "&")
				}
				hdrs := [][2]string{{"Content-Type", "application/json"}}
				var hdrsB64 [][2]string
				// decide the value for every declared header name (method declaration shadows)
				decl := map[string]sent{}
				var order []string
				for _, h := range mi.svc.Headers {
					k := strings.ToLower(h.Name)
					if _, ok := decl[k]; !ok {
						order = append(order, k)
					}
					decl[k] = sent{h: h, level: "service"}
				}
				for _, h := range mi.m.Headers {
					k := strings.ToLower(h.Name)
					lvl := "method"
					if _, ok := decl[k]; ok {
						lvl = "method-overrides-service"
					} else {
						order = append(order, k)
					}
					decl[k] = sent{h: h, level: lvl}
				}
				for _, k2 := range order {
					s := decl[k2]
					s.name = s.h.Name
					s.has = true
					switch p := rr.Intn(12); {
					case p < 5:
						s.class, s.value = "clearly_valid", clearlyValidHeader(rr, s.h)
					case p == 5:
						s.class, s.has = "absent", false
					case p == 6:
						s.class, s.value = "empty", ""
					case p == 7 || p == 8:
						s.class, s.value = "invalid", invalidHeader(rr, s.h)
					case p == 9:
						s.class, s.value, s.name = "clearly_valid_other_case", clearlyValidHeader(rr, s.h), strings.ToUpper(s.h.Name)
					case p == 10 && s.h.Type == "integer":
						s.class, s.value = "integer_beyond_int64", "99999999999999999999"
					default:
						s.class, s.value = "clearly_valid", clearlyValidHeader(rr, s.h)
					}
					if s.has {
						hdrsB64 = append(hdrsB64, [2]string{s.name, b64([]byte(s.value))})
					}
					ks.sent = append(ks.sent, s)
				}
				body := "{}"
				if rr.P(1, 5) {
					body, ks.badBody = "{not json", true
				}
				ks.op = map[string]any{"op": "serve", "method": mi.verb, "url": target, "headers": hdrs, "headers_b64": hdrsB64, "body": b64([]byte(body)), "handler": map[string]any{"kind": "ok"}}
				var ds []any
				for _, s := range ks.sent {
					if s.has {
						// net/http (textproto) strips optional white space around a field value
						seenVal := strings.Trim(s.value, " \t")
						m := libVerdicts(seenVal)
						m["name"], m["value"] = s.name, seenVal
						ds = append(ds, m)
					}
				}
				ks.dop = map[string]any{"op": "header_check", "service": hspecs(mi.svc.Headers), "method": hspecs(mi.m.Headers), "sent": orEmpty(ds)}
				all = append(all, ks)
			}
		}
	}
	byItem := map[*rtItem][]*kase{}
	for _, k := range all {
		byItem[k.x] = append(byItem[k.x], k)
	}
	outs := map[*kase]map[string]any{}
	var mu sync.Mutex
	var runErr error
	var its []*rtItem
	for x := range byItem {
		its = append(its, x)
	}
	parallel(len(its), func(i int) {
		x := its[i]
		var ops []any
		for _, k := range byItem[x] {
			ops = append(ops, k.op)
		}
		o, err := runItem(x, ops)
		mu.Lock()
		defer mu.Unlock()
		if err != nil {
			runErr = err
			return
		}
		for j, k := range byItem[x] {
			outs[k] = o[j]
		}
	})
	if runErr != nil {
		return runErr
	}
	var dops []map[string]any
	for _, k := range all {
		dops = append(dops, k.dop)
	}
	var douts []map[string]any
	if drv.Available() {
		if douts, err = drv.Run(dops); err != nil {
			res.Corr("driver", "Lean driver failed: "+err.Error(), nil)
			douts = nil
		}
	} else {
		res.Corr("driver", "Lean driver binary missing (model did not build)", nil)
	}
	for i, k := range all {
		o := outs[k]
		var canon []string
		for _, s := range k.sent {
			canon = append(canon, fmt.Sprintf("%s/%s/%v/%s/%s", s.h.Type, s.h.Format, s.h.Required, s.level, s.class))
			res.Count("value:" + s.class)
		}
		res.Case(map[string]any{"headers": canon, "bad_body": k.badBody}, true)
		replay := map[string]any{"schema": k.x.req, "request": k.op, "real": o}
		if fault, _ := o["fault"].(string); fault != "" {
			// net/http refuses some header bytes before the handler runs; that is not the generated code
			if strings.HasPrefix(fault, "bad request") {
				continue
			}
			res.Violation("fault", fmt.Sprint(k.op["url"])+": "+fault, replay)
			continue
		}
		status := jsonInt(o["status"])
		called := jsonInt(o["called"])
		var realViol []string
		if bj, ok := o["body_json"].(map[string]any); ok {
			for _, v := range asList(bj["violations"]) {
				vm, _ := v.(map[string]any)
				realViol = append(realViol, fmt.Sprint(vm["field"]))
			}
		}
		sort.Strings(realViol)
		// ---- correspondence ----
		implAgrees := false
		var d map[string]any
		if douts != nil {
			d = douts[i]
			replay["impl"] = d
			implDisp, _ := d["dispatched"].(bool)
			var implViol []string
			for _, v := range asList(d["violations"]) {
				implViol = append(implViol, fmt.Sprint(v))
			}
			sort.Strings(implViol)
			headerRejected := status == 400 && !(len(realViol) == 1 && realViol[0] == "body")
			if implDisp {
				implAgrees = !headerRejected
			} else {
				implAgrees = headerRejected && fmt.Sprint(realViol) == fmt.Sprint(implViol) && called == 0
			}
			if implAgrees {
				res.CorrAgree()
			} else {
				res.Corr("headers", fmt.Sprintf("%v: real status %d violations %v calls %d; the model says dispatched=%v violations %v", k.op["url"], status, realViol, called, implDisp, implViol), replay)
			}
		}
		// ---- oracle ----
		// (2) a header rejection is a 400 listing distinct declared headers and never the body
		if status == 400 && called == 0 && !(len(realViol) == 1 && realViol[0] == "body") {
			seen := map[string]bool{}
			for _, v := range realViol {
				if seen[v] {
					res.Violation("duplicate_violation", fmt.Sprintf("%v: header %s listed twice", k.op["url"], v), replay)
				}
				seen[v] = true
				if v == "body" {
					res.Violation("body_read_before_headers", fmt.Sprintf("%v: a header rejection also reports the body", k.op["url"]), replay)
				}
			}
		}
		// (2') a request refused for its headers is answered with a ValidationError that NAMES at least one header: a 400
		// that lists nothing (an error body that could not be encoded and fell back to plain text) tells the caller
		// nothing the property promises
		if status == 400 && called == 0 && len(realViol) == 0 && !k.badBody {
			res.Violation("header_rejection_lists_nothing", fmt.Sprintf("%v: refused with status 400, but the answer lists no violation (content type %v, body %.80q)", k.op["url"], o["ct"], fmt.Sprint(o["body"])), replay)
		}
		if d == nil {
			continue
		}
		// (1) gate: dispatched => every header Spec requires is present and not clearly invalid
		if called > 0 {
			for _, b := range asList(d["spec_gate_bad"]) {
				name := fmt.Sprint(b)
				cls := ""
				for _, s := range k.sent {
					if strings.EqualFold(s.h.Name, name) {
						cls = s.h.Format + ":" + s.class
						if s.class == "invalid" {
							cls = s.h.Format + ":" + s.value
						}
					}
				}
				key := "dispatched_with_bad_header:" + cls
				if strings.HasPrefix(cls, "uuid:") && strings.Contains(cls, "zzzz") || strings.Contains(cls, "+e89b+") {
					key = "dispatched_with_bad_header:uuid_accepts_non_hex"
				}
				res.Divergence(key, fmt.Sprintf("%v: dispatched although required header %s is missing or clearly invalid", k.op["url"], name), implAgrees, replay)
			}
		}
		// (3) a request whose headers satisfy the published types and formats is never rejected for its headers
		allPublishedOK := true
		specReq := map[string]bool{}
		for _, v := range asList(d["spec_required"]) {
			specReq[strings.ToLower(fmt.Sprint(v))] = true
		}
		beyond := false
		for _, s := range k.sent {
			switch s.class {
			case "clearly_valid", "clearly_valid_other_case":
			case "integer_beyond_int64":
				beyond = true
			case "absent":
				if specReq[strings.ToLower(s.h.Name)] {
					allPublishedOK = false
				}
			default:
				// a header the published contract does not require may carry anything only if absent; present values must be valid
				allPublishedOK = false
			}
		}
		if allPublishedOK && status == 400 && called == 0 && len(realViol) > 0 && realViol[0] != "body" {
			key := "published_valid_rejected"
			switch {
			case beyond:
				key += ":integer_beyond_int64"
			default:
				// the recorded class: the method re-declares a service-required header as optional
				for _, v := range realViol {
					if !specReq[strings.ToLower(v)] {
						key = "published_valid_rejected:method_optional_does_not_replace_service_required"
					}
				}
			}
			res.Divergence(key, fmt.Sprintf("%v: every header satisfies the published contract, yet 400 %v", k.op["url"], realViol), implAgrees, replay)
		}
	}
	c09Published(c, items)
	res.Programs = len(items)
	return nil
}
