import Sebuf.DriverSchema
import Sebuf.Mapping
import Sebuf.WireEnc
import Sebuf.GoDec
import Sebuf.Call
namespace Sebuf.Driver
open Sebuf.Mapping

/-- model Json → Lean.Json (objects keep their order; numbers are printed from their exact text). -/
partial def toLeanJson : Sebuf.Json → Lean.Json
  | .null => Lean.Json.null
  | .bool b => Lean.Json.bool b
  | .num (.int i) => Lean.Json.mkObj [("$int", Lean.Json.str (toString i))]
  | .num (.float t) => Lean.Json.mkObj [("$float", Lean.Json.str (String.ofList t))]
  | .str s => Lean.Json.str (String.ofList s)
  | .arr l => Lean.Json.arr (l.map toLeanJson).toArray
  | .obj kvs => Lean.Json.mkObj (kvs.map fun p => (String.ofList p.1, toLeanJson p.2))

partial def valOf (j : Lean.Json) : Val :=
  match j.getObjVal? "i" with
  | .ok (Lean.Json.str s) => .int (s.toInt?.getD 0)
  | _ =>
  match j.getObjVal? "b" with
  | .ok (Lean.Json.bool b) => .bool b
  | _ =>
  match j.getObjVal? "s" with
  | .ok (Lean.Json.str s) => .str s.toList
  | _ =>
  match j.getObjVal? "f" with
  | .ok (Lean.Json.str s) => .float s.toList (getBool j "q")
  | _ =>
  match j.getObjVal? "y" with
  | .ok (Lean.Json.arr a) => .bytes (a.toList.map fun x => match x.getNat? with | .ok n => n | .error _ => 0)
  | _ =>
  match j.getObjVal? "e" with
  | .ok (Lean.Json.str s) => .enum (s.toInt?.getD 0)
  | _ =>
  match j.getObjVal? "ts" with
  | .ok t => .ts ((String.ofList (getStr t "s")).toInt?.getD 0) (getNat t "n") (getStr t "rfc") (getStr t "date")
  | _ =>
  match j.getObjVal? "m" with
  | .ok (Lean.Json.arr a) => .msg (a.toList.map fun p => (getStr p "n", valOf (p.getObjValD "v")))
  | _ =>
  match j.getObjVal? "l" with
  | .ok (Lean.Json.arr a) => .list (a.toList.map valOf)
  | _ =>
  match j.getObjVal? "mp" with
  | .ok (Lean.Json.arr a) => .map (a.toList.map fun p => (getStr p "k", valOf (p.getObjValD "v")))
  | _ => .msg []

/-- `Val` in the harness's value format (the inverse of `valOf`). -/
partial def valToLean : Val → Lean.Json
  | .int i => Lean.Json.mkObj [("i", Lean.Json.str (toString i))]
  | .bool b => Lean.Json.mkObj [("b", Lean.Json.bool b)]
  | .str s => Lean.Json.mkObj [("s", Lean.Json.str (String.ofList s))]
  | .float t q => Lean.Json.mkObj [("f", Lean.Json.str (String.ofList t)), ("q", Lean.Json.bool q)]
  | .bytes b => Lean.Json.mkObj [("y", Lean.Json.arr (b.map fun n => Lean.Json.num (Lean.JsonNumber.fromNat n)).toArray)]
  | .enum n => Lean.Json.mkObj [("e", Lean.Json.str (toString n))]
  | .ts s n _ _ => Lean.Json.mkObj [("ts", Lean.Json.mkObj [("s", Lean.Json.str (toString s)), ("n", Lean.Json.num (Lean.JsonNumber.fromNat n))])]
  | .msg fs => Lean.Json.mkObj [("m", Lean.Json.arr (fs.map fun p => Lean.Json.mkObj [("n", Lean.Json.str (String.ofList p.1)), ("v", valToLean p.2)]).toArray)]
  | .list l => Lean.Json.mkObj [("l", Lean.Json.arr (l.map valToLean).toArray)]
  | .map kvs => Lean.Json.mkObj [("mp", Lean.Json.arr (kvs.map fun p => Lean.Json.mkObj [("k", Lean.Json.str (String.ofList p.1)), ("v", valToLean p.2)]).toArray)]

def decOutcome (r : GoDec.R (List (Str × Val))) : Lean.Json :=
  match r with
  | .ok vs => Lean.Json.mkObj [("val", valToLean (.msg vs))]
  | .error e =>
    let (cls, key) : String × Str := match e with
      | .unknownField k => ("unknown_field", k)
      | .badValue k => ("bad_value", k)
      | .goType k => ("go_type", k)
      | .notObject => ("not_object", [])
      | .unsupported w => ("unsupported", w)
    Lean.Json.mkObj [("err", Lean.Json.mkObj [("class", Lean.Json.str cls), ("key", Lean.Json.str (String.ofList key))])]

/-- insert a binding into a key-sorted association list (byte order of the keys). -/
def insertSorted (p : Str × Sebuf.Json) : List (Str × Sebuf.Json) → List (Str × Sebuf.Json)
  | [] => [p]
  | q :: t => if GoDec.strLt p.1 q.1 then p :: q :: t else q :: insertSorted p t

/-- the document as the harness writes it for the real decoder: `encoding/json` marshals a map with
its keys SORTED, so the first member a decoder trips over is the first in key order at every level
(the model decoder must read the same document, not the declaration-ordered one). -/
partial def sortKeys : Sebuf.Json → Sebuf.Json
  | .obj kvs => .obj ((kvs.map fun p => (p.1, sortKeys p.2)).foldr insertSorted [])
  | .arr l => .arr (l.map sortKeys)
  | x => x

/-- every member key plain protojson would call unknown, at any depth of the document (the decoder
stops at the FIRST one in document order; which one that is depends on the member order of nested
objects, so the harness accepts any of them as "the" unknown field). -/
partial def deepUnknown (rq : Request) (m : Message) (j : Sebuf.Json) : List Str :=
  match j with
  | .obj kvs =>
    let here := (kvs.filter fun p => !(m.fields.any fun f => f.json == p.1 || f.name == p.1)).map (·.1)
    let below := m.fields.flatMap fun f =>
      if f.kind == .message then
        match rq.findMessage f.typeName with
        | none => []
        | some c =>
          let vs : List Sebuf.Json := match (Json.oget f.json kvs).orElse (fun _ => Json.oget f.name kvs) with
            | none => []
            | some v => (match f.card, v with
                | .repeated, .arr l => l
                | .map, .obj es => es.map (·.2)
                | _, x => [x])
          vs.flatMap (deepUnknown rq c)
      else []
    here ++ below
  | _ => []

def opSpecEnc (j : Lean.Json) : Lean.Json :=
  let rq := requestOf (j.getObjValD "rq")
  let ty := getStr j "type"
  match rq.findMessage ty with
  | none => Lean.Json.mkObj [("driver_err", Lean.Json.str "unknown message type")]
  | some m =>
    match valOf (j.getObjValD "val") with
    | .msg vs =>
      let fuel := 64
      let spec := enc rq fuel m vs
      let impl := GoJson.serverEnc rq fuel m vs
      let template : String :=
        if Impl.hasFlatten m then "flatten" else if Impl.needsOneofMarshal m then "oneof"
        else if GoJson.isRootUnwrap m then "root"
        else if GoJson.isContainer rq m then "container" else "surgery"
      Lean.Json.mkObj [("spec", toLeanJson spec), ("pj", toLeanJson (pj rq fuel m vs)),
        ("impl", match impl with | some i => toLeanJson i | none => Lean.Json.null),
        ("modelled", Lean.Json.bool true),
        ("template", Lean.Json.str template),
        ("custom", Lean.Json.bool (WireEnc.hasCustomMarshal rq m)),
        ("encode_fails", Lean.Json.bool impl.isNone),
        ("impl_rt", match impl with | some i => decOutcome (GoDec.serverDec rq fuel m i) | none => Lean.Json.null),
        ("impl_dec_spec", decOutcome (GoDec.serverDec rq fuel m (sortKeys spec))),
        ("spec_unknown_keys", Lean.Json.arr ((deepUnknown rq m spec).map jstr).toArray)]
    | _ => Lean.Json.mkObj [("driver_err", Lean.Json.str "value is not a message")]

/-- which codec `marshalResponse` picks for a request Content-Type (regenerated switch table of the
emitted server, `Gen.Pipeline.marshalResponseTable`), and whether its JSON branches consult the
message's generated `MarshalJSON`. -/
def opRespCodec (j : Lean.Json) : Lean.Json :=
  let ct := String.ofList (getStr j "ct")
  Lean.Json.mkObj [("codec", Lean.Json.str (Call.serverRespCodec ct)),
    ("req_codec", Lean.Json.str (Call.serverReqCodec (if ct = "" then "application/json" else ct))),
    ("custom_marshaler", Lean.Json.bool Gen.Pipeline.marshalResponseUsesCustomMarshaler)]

end Sebuf.Driver
