// Package tsrun loads and runs the TypeScript modules the ts-client / ts-server plugins emit,
// under Node 22 (`--experimental-strip-types`, no tsc), through the JSON runner in runner.mjs.
// No sockets: the client gets an injected fetch, the server's route handlers are called with
// Fetch API Request objects.
package tsrun

import (
	"bufio"
	"bytes"
	_ "embed"
	"encoding/json"
	"fmt"
	"os"
	"os/exec"
	"path/filepath"
	"strings"
	"time"
)

//go:embed runner.mjs
var runnerSource string

const Node = "/root/.nvm/versions/node/v22.22.2/bin/node"

// Available reports whether the Node binary that can strip types is present.
func Available() bool {
	_, err := os.Stat(Node)
	return err == nil
}

// Dir is a scratch directory holding the runner and the emitted modules of many schemas.
type Dir struct {
	Path   string
	runner string
}

func NewDir() (*Dir, error) {
	p, err := os.MkdirTemp("", "sebuf-tsrun-")
	if err != nil {
		return nil, err
	}
	d := &Dir{Path: p, runner: filepath.Join(p, "runner.mjs")}
	if err := os.WriteFile(d.runner, []byte(runnerSource), 0o644); err != nil {
		os.RemoveAll(p)
		return nil, err
	}
	return d, nil
}

func (d *Dir) Close() {
	if os.Getenv("VERIF_KEEP_SCRATCH") != "" {
		fmt.Fprintln(os.Stderr, "keeping ts scratch dir", d.Path)
		return
	}
	os.RemoveAll(d.Path)
}

// WriteModule stores emitted TypeScript under a unique name and returns its path.
func (d *Dir) WriteModule(id, kind, src string) (string, error) {
	p := filepath.Join(d.Path, id+"_"+kind+".ts")
	return p, os.WriteFile(p, []byte(src), 0o644)
}

var seq int64

// Run starts one node process for one schema: it imports the two modules (either may be ""),
// runs ops in order and returns the load report and one answer per op.
func (d *Dir) Run(id, client, server string, ops []any, timeout time.Duration) (load map[string]any, outs []map[string]any, err error) {
	spec := map[string]any{"ops": ops}
	if client != "" {
		spec["client"] = client
	}
	if server != "" {
		spec["server"] = server
	}
	if ops == nil {
		spec["ops"] = []any{}
	}
	b, err := json.Marshal(spec)
	if err != nil {
		return nil, nil, err
	}
	f, err := os.CreateTemp(d.Path, id+"_ops_*.json")
	if err != nil {
		return nil, nil, err
	}
	f.Write(b)
	f.Close()
	defer os.Remove(f.Name())
	cmd := exec.Command(Node, "--experimental-strip-types", "--no-warnings", d.runner, f.Name())
	var stdout, stderr bytes.Buffer
	cmd.Stdout = &stdout
	cmd.Stderr = &stderr
	// the emitted TypeScript is never run in UTC either (see scratch.Item.Run)
	cmd.Env = append(os.Environ(), "TZ=Pacific/Pago_Pago")
	if err := cmd.Start(); err != nil {
		return nil, nil, err
	}
	done := make(chan error, 1)
	go func() { done <- cmd.Wait() }()
	var werr error
	select {
	case werr = <-done:
	case <-time.After(timeout):
		cmd.Process.Kill()
		<-done
		werr = fmt.Errorf("node runner timeout after %v", timeout)
	}
	sc := bufio.NewScanner(&stdout)
	sc.Buffer(make([]byte, 1<<20), 1<<28)
	var lines []map[string]any
	for sc.Scan() {
		var m map[string]any
		dec := json.NewDecoder(bytes.NewReader(sc.Bytes()))
		dec.UseNumber()
		if dec.Decode(&m) != nil {
			return nil, nil, fmt.Errorf("node runner printed a non-JSON line: %.200s", sc.Text())
		}
		lines = append(lines, m)
	}
	if werr != nil || len(lines) != len(ops)+1 {
		return nil, nil, fmt.Errorf("node runner for %s: %v (%d/%d answers) stderr=%s", id, werr, len(lines), len(ops)+1, firstLines(stderr.String(), 10))
	}
	return lines[0], lines[1:], nil
}

func firstLines(s string, n int) string {
	l := strings.Split(strings.TrimSpace(s), "\n")
	if len(l) > n {
		l = l[:n]
	}
	return strings.Join(l, "\n")
}
