package main

import (
	"fmt"
	"go/ast"
	"go/parser"
	"go/token"
	"strconv"
	"strings"
)

// PathParams: how `annotations.ExtractPathParams` — the helper every generator reads the variables of a path template
// with — finds them: the regular expression it applies, the regexp method it calls, which submatch it keeps. The Lean
// scanner `Str.extractPathParams` transcribes `\{([^}]+)\}` with FindAllStringSubmatch (all leftmost non-overlapping
// matches, group 1); a hand-written scanner in its place breaks this tie.
func init() { register("PathParams", extractPathParams) }

func extractPathParams() (string, error) {
	src := "internal/annotations/path.go"
	fset := token.NewFileSet()
	f, err := parser.ParseFile(fset, repo(src), nil, 0)
	if err != nil {
		return "", err
	}
	fd := findFunc(f, "ExtractPathParams")
	if fd == nil {
		return "", fmt.Errorf("ExtractPathParams not found in %s", src)
	}
	// package-level `var X = regexp.MustCompile(<literal>)`
	regexes := map[string]string{}
	for _, d := range f.Decls {
		gd, ok := d.(*ast.GenDecl)
		if !ok || gd.Tok != token.VAR {
			continue
		}
		for _, sp := range gd.Specs {
			vs := sp.(*ast.ValueSpec)
			for i, v := range vs.Values {
				if call, ok := v.(*ast.CallExpr); ok && exprString(call.Fun) == "regexp.MustCompile" && len(call.Args) == 1 && i < len(vs.Names) {
					if bl, ok := call.Args[0].(*ast.BasicLit); ok {
						if t, err := strconv.Unquote(bl.Value); err == nil {
							regexes[vs.Names[i].Name] = t
						}
					}
				}
			}
		}
	}
	pattern, method, limit, kept := "", "", "", ""
	var loops, calls []string
	// names do not matter: the variable that receives the result of the regexp call is `matches`, the element variable
	// of the loop over it is `match`, whatever the source calls them
	resultVar, elemVar := "", ""
	isRegexCall := func(e ast.Expr) bool {
		call, ok := e.(*ast.CallExpr)
		if !ok {
			return false
		}
		sel, ok := call.Fun.(*ast.SelectorExpr)
		if !ok {
			return false
		}
		id, ok := sel.X.(*ast.Ident)
		if !ok {
			return false
		}
		_, ok = regexes[id.Name]
		return ok
	}
	ast.Inspect(fd.Body, func(n ast.Node) bool {
		if as, ok := n.(*ast.AssignStmt); ok && len(as.Lhs) == 1 && len(as.Rhs) == 1 && isRegexCall(as.Rhs[0]) {
			if id, ok := as.Lhs[0].(*ast.Ident); ok {
				resultVar = id.Name
			}
		}
		return true
	})
	ast.Inspect(fd.Body, func(n ast.Node) bool {
		if rs, ok := n.(*ast.RangeStmt); ok {
			if id, ok := rs.X.(*ast.Ident); ok && resultVar != "" && id.Name == resultVar {
				if v, ok := rs.Value.(*ast.Ident); ok {
					elemVar = v.Name
				}
			}
		}
		return true
	})
	ast.Inspect(fd.Body, func(n ast.Node) bool {
		switch x := n.(type) {
		case *ast.CallExpr:
			if sel, ok := x.Fun.(*ast.SelectorExpr); ok {
				if id, ok := sel.X.(*ast.Ident); ok {
					if re, ok := regexes[id.Name]; ok {
						pattern, method = re, sel.Sel.Name
						if len(x.Args) == 2 {
							limit = srcOf(x.Args[1])
						}
					}
				}
			}
			calls = append(calls, exprString(x.Fun))
		case *ast.IndexExpr:
			if id, ok := x.X.(*ast.Ident); ok && elemVar != "" && id.Name == elemVar {
				kept = srcOf(x.Index)
			}
		case *ast.ForStmt:
			loops = append(loops, "for")
		case *ast.RangeStmt:
			if id, ok := x.X.(*ast.Ident); ok && resultVar != "" && id.Name == resultVar {
				loops = append(loops, "range matches")
			} else {
				loops = append(loops, "range "+srcOf(x.X))
			}
		}
		return true
	})
	// no regular expression applied: the facts say so (empty regex / method, the calls and loops found instead), and the
	// theorem that reads them — not every check — stops holding
	if pattern == "" {
		loops = append(loops, "calls: "+strings.Join(calls, ", "))
	}
	var b strings.Builder
	b.WriteString(header("PathParams", src))
	fmt.Fprintf(&b, "/-- the regular expression, the regexp method and its limit argument, the submatch index kept per match, the loops of the function. -/\n")
	fmt.Fprintf(&b, "def regex : String := %s\ndef method : String := %s\ndef limit : String := %s\ndef keptSubmatch : String := %s\ndef loops : List String := %s\n",
		leanStr(pattern), leanStr(method), leanStr(limit), leanStr(kept), leanStrList(loops))
	b.WriteString("end Sebuf.Gen.PathParams\n")
	return b.String(), nil
}
