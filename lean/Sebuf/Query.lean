import Sebuf.Url
/-
Query strings, request targets and path patterns: Go `net/url` (`Values.Encode`,
`ParseQuery`, `URL.Query().Get`) and Go 1.22 `net/http.ServeMux` matching of a pattern made of
literal and `{name}` segments, at the byte level.

Bytes are `Nat` values and byte strings `List Nat` (`Sebuf.Bytes`), as in `Sebuf/Url.lean`.
Everything is structurally recursive so that `decide` evaluates closed terms. Definitions only;
theorems are in `Sebuf/Lemmas/Query.lean`.

Sources transcribed:
* Go `net/url.Values.Encode`: keys sorted with `slices.Sort` (bytewise order), each pair written
  as `QueryEscape(k) + "=" + QueryEscape(v)`, pairs joined by `&`.
* Go `net/url.parseQuery`: repeatedly `strings.Cut(query, "&")`; a piece that contains `;` is an
  error and is skipped; an empty piece is skipped; `strings.Cut(piece, "=")`; both halves go
  through `QueryUnescape`, and a failure of either skips the piece (the error is returned next to
  the map, and `URL.Query()` discards it). `Values.Get(k)` is the first value stored under `k`.
* Go `net/http` `routing_tree.go`: `firstSegment` cuts the ESCAPED path at `/` and applies
  `pathUnescape` (which returns its argument unchanged when `url.PathUnescape` fails) to the
  segment; a literal pattern segment must equal that unescaped segment; a `{name}` wildcard
  matches it when it is non-empty and binds it (`r.PathValue(name)`). The pattern `/` (empty
  template) is a subtree pattern and matches every rooted path. Multi-segment wildcards
  (`{name...}`), `{$}`, hosts and methods are outside this model.
* Go `net/http.cleanPath`: the mux redirects instead of dispatching when
  `cleanPath(path) != path`, i.e. the path is empty or not rooted, has a `.` or `..` segment, or
  has an empty segment other than the one after a trailing slash.
-/
namespace Sebuf

/-! ## Splitting and joining on one byte -/

/-- Put `b` in front of the first piece. -/
def consHead (b : Nat) : List Bytes → List Bytes
  | [] => [[b]]
  | p :: ps => (b :: p) :: ps

/-- Go `strings.Split(s, sep)` for a one-byte separator. Never returns `[]`:
`splitByte sep [] = [[]]`. -/
def splitByte (sep : Nat) : Bytes → List Bytes
  | [] => [[]]
  | b :: bs => if b = sep then [] :: splitByte sep bs else consHead b (splitByte sep bs)

/-- Go `strings.Cut(s, sep)` for a one-byte separator, without the `found` flag: the parts before
and after the FIRST `sep`; when there is none, `(s, [])`. -/
def cutByte (sep : Nat) : Bytes → Bytes × Bytes
  | [] => ([], [])
  | b :: bs => if b = sep then ([], bs) else ((b :: (cutByte sep bs).1), (cutByte sep bs).2)

/-- Go `strings.Join(xs, sep)` for a one-byte separator. -/
def joinWith (sep : Nat) : List Bytes → Bytes
  | [] => []
  | [x] => x
  | x :: y :: r => x ++ sep :: joinWith sep (y :: r)

/-! ## `url.Values.Encode` -/

/-- Bytewise lexicographic `<` (Go string comparison). -/
def bytesLt : Bytes → Bytes → Bool
  | _, [] => false
  | [], _ :: _ => true
  | a :: as, b :: bs => if a < b then true else if b < a then false else bytesLt as bs

/-- Insert a pair into a list sorted by key, after the pairs with a strictly smaller key. -/
def insertPair (p : Bytes × Bytes) : List (Bytes × Bytes) → List (Bytes × Bytes)
  | [] => [p]
  | q :: qs => if bytesLt q.1 p.1 then q :: insertPair p qs else p :: q :: qs

/-- Insertion sort on the keys. -/
def sortPairs (kvs : List (Bytes × Bytes)) : List (Bytes × Bytes) :=
  kvs.foldr insertPair []

/-- `QueryEscape(k) + "=" + QueryEscape(v)`. -/
def encodePair (p : Bytes × Bytes) : Bytes :=
  queryEscape p.1 ++ 61 :: queryEscape p.2

/-- The pairs in the given order, joined by `&`. -/
def encodeValuesUnsorted (kvs : List (Bytes × Bytes)) : Bytes :=
  joinWith 38 (kvs.map encodePair)

/-- Go `url.Values.Encode()` for single-valued parameters with distinct keys. -/
def encodeValues (kvs : List (Bytes × Bytes)) : Bytes :=
  encodeValuesUnsorted (sortPairs kvs)

/-! ## `url.ParseQuery` -/

/-- Which `&`-separated pieces `parseQuery` looks at: non-empty and without `;` (59). -/
def pieceOK (piece : Bytes) : Bool :=
  decide (piece ≠ []) && decide (59 ∉ piece)

/-- One `key=value` piece; `none` when either half fails to unescape. -/
def parsePiece (piece : Bytes) : Option (Bytes × Bytes) :=
  match queryUnescape (cutByte 61 piece).1, queryUnescape (cutByte 61 piece).2 with
  | some k, some v => some (k, v)
  | _, _ => none

/-- Go `url.ParseQuery` / `URL.Query()` with the error discarded, as the association list of
(key, value) in order of appearance. -/
def parseQuery (s : Bytes) : List (Bytes × Bytes) :=
  ((splitByte 38 s).filter pieceOK).filterMap parsePiece

/-- `query[k][0]`: the first value under key `k` (`none` when the key is absent; note that
Go's `Values.Get` conflates that with an empty value). -/
def queryGet (k : Bytes) : List (Bytes × Bytes) → Option Bytes
  | [] => none
  | p :: rest => if p.1 = k then some p.2 else queryGet k rest

/-- `query[k]`: all values under key `k`, in order. -/
def queryGetAll (k : Bytes) (q : List (Bytes × Bytes)) : List Bytes :=
  (q.filter (fun p => p.1 = k)).map Prod.snd

/-! ## Request target -/

/-- (path, rawQuery): the request target cut at the first `?` (63). -/
def splitTarget (t : Bytes) : Bytes × Bytes := cutByte 63 t

/-! ## Path templates -/

/-- `strings.Split(p, "/")`: `"/a/b"` gives `[[], a, b]`. -/
def splitSlash (p : Bytes) : List Bytes := splitByte 47 p

/-- `strings.Join(segs, "/")`. -/
def joinSlash (segs : List Bytes) : Bytes := joinWith 47 segs

/-- A segment of a path template: a literal or `{name}`. -/
inductive Seg
  | lit (s : Bytes)
  | var (name : Bytes)
  deriving DecidableEq, Repr

/-- What a literal template segment is assumed to look like: non-empty, no `/`, `?`, `%`. -/
def LitOK (s : Bytes) : Prop := 47 ∉ s ∧ 63 ∉ s ∧ 37 ∉ s ∧ s ≠ []

instance (s : Bytes) : Decidable (LitOK s) := by unfold LitOK; exact inferInstance

/-- How the generated clients write one segment: `url.PathEscape` of the value for a variable. -/
def renderSeg (vals : Bytes → Bytes) : Seg → Bytes
  | .lit s => s
  | .var n => pathEscape (vals n)

/-- The path the client builds: `/` followed by the rendered segments joined by `/`. -/
def renderPath (tpl : List Seg) (vals : Bytes → Bytes) : Bytes :=
  47 :: joinSlash (tpl.map (renderSeg vals))

/-- The bindings a faithful server must see: `(name, vals name)` for the variables of the
template, in template order. -/
def pathBindings (tpl : List Seg) (vals : Bytes → Bytes) : List (Bytes × Bytes) :=
  tpl.filterMap (fun s => match s with
    | .lit _ => none
    | .var n => some (n, vals n))

/-- `net/http.pathUnescape`: `url.PathUnescape`, or the argument itself when that fails. -/
def segUnescape (seg : Bytes) : Bytes := (pathUnescape seg).getD seg

/-- Pattern segments against the segments of the escaped path (leading empty one removed). -/
def matchSegs : List Seg → List Bytes → Option (List (Bytes × Bytes))
  | [], [] => some []
  | [], _ :: _ => none
  | _ :: _, [] => none
  | .lit s :: tpl, seg :: segs =>
    if segUnescape seg = s then matchSegs tpl segs else none
  | .var n :: tpl, seg :: segs =>
    if segUnescape seg = [] then none
    else (matchSegs tpl segs).map (fun bs => (n, segUnescape seg) :: bs)

/-- Go 1.22 `ServeMux` matching of a pattern of literal and `{name}` segments against the
ESCAPED request path; `some bindings` (template order) on a match. The empty template is the
pattern `/`, which matches every rooted path. -/
def matchPath (tpl : List Seg) (path : Bytes) : Option (List (Bytes × Bytes)) :=
  match tpl, splitSlash path with
  | [], [] :: _ :: _ => some []
  | _ :: _, [] :: segs => matchSegs tpl segs
  | _, _ => none

/-- `.` or `..`. -/
def isDotSeg (s : Bytes) : Bool := decide (s = [46]) || decide (s = [46, 46])

/-- `cleanPath(path) != path`: when `ServeMux` answers with a redirect to the cleaned path
instead of dispatching. True when the path is empty or not rooted, when a segment is `.` or
`..`, or when a segment other than the last is empty (`//`). -/
def needsCleaning (path : Bytes) : Bool :=
  match splitSlash path with
  | [] :: seg :: segs =>
    (seg :: segs).any isDotSeg || (seg :: segs).dropLast.any (fun s => decide (s = []))
  | _ => true

end Sebuf
