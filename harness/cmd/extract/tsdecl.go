package main

import (
	"bytes"
	"crypto/sha256"
	"encoding/hex"
	"fmt"
	"go/ast"
	"go/printer"
	"go/token"
	"os"
	"strings"
)

// TsDecl: where the two TypeScript plugins take their type declarations from.
//
// For `tsclientgen.generateClientFile` and `tsservergen.generateServerFile` the ordered list of
// `tscommon` functions reached for the declaration block (package-local wrappers resolved — a
// wrapper must be a single `return tscommon.F(args)` / `tscommon.F(args)` passing its own
// parameters through, anything else fails the extraction); the normalised body of
// `resolveOutputType` in both generators; the expression that names the request type in both.
func init() { register("TsDecl", extractTsDecl) }

// wrapperTarget returns "tscommon.F" when fd is a pass-through wrapper around tscommon.F.
func wrapperTarget(fd *ast.FuncDecl) (string, bool) {
	if fd.Body == nil || len(fd.Body.List) != 1 {
		return "", false
	}
	var call *ast.CallExpr
	switch st := fd.Body.List[0].(type) {
	case *ast.ReturnStmt:
		if len(st.Results) != 1 {
			return "", false
		}
		call, _ = st.Results[0].(*ast.CallExpr)
	case *ast.ExprStmt:
		call, _ = st.X.(*ast.CallExpr)
	}
	if call == nil {
		return "", false
	}
	sel, ok := call.Fun.(*ast.SelectorExpr)
	if !ok {
		return "", false
	}
	pk, ok := sel.X.(*ast.Ident)
	if !ok || pk.Name != "tscommon" {
		return "", false
	}
	// parameters passed through unchanged and in order (a printer may be converted with tscommon.Printer)
	var params []string
	for _, f := range fd.Type.Params.List {
		for _, n := range f.Names {
			params = append(params, n.Name)
		}
	}
	if len(params) != len(call.Args) {
		return "", false
	}
	for i, a := range call.Args {
		if c, ok := a.(*ast.CallExpr); ok && len(c.Args) == 1 {
			if s, ok := c.Fun.(*ast.SelectorExpr); ok && s.Sel.Name == "Printer" {
				a = c.Args[0]
			}
		}
		id, ok := a.(*ast.Ident)
		if !ok || id.Name != params[i] {
			return "", false
		}
	}
	return "tscommon." + sel.Sel.Name, true
}

// tscommonCalls lists, in source order, the tscommon functions a function body reaches, resolving
// package-local pass-through wrappers (plain functions and methods on the generator).
func tscommonCalls(p *pkgFuncs, fn string) ([]string, error) {
	fd := p.funcs[fn]
	if fd == nil {
		return nil, fmt.Errorf("function %s not found", fn)
	}
	var out []string
	var err error
	ast.Inspect(fd.Body, func(n ast.Node) bool {
		c, ok := n.(*ast.CallExpr)
		if !ok {
			return true
		}
		switch f := c.Fun.(type) {
		case *ast.SelectorExpr:
			if id, ok := f.X.(*ast.Ident); ok {
				if id.Name == "tscommon" {
					if f.Sel.Name != "Printer" {
						out = append(out, "tscommon."+f.Sel.Name)
					}
					return true
				}
				if id.Name == "g" {
					if w := p.funcs[f.Sel.Name]; w != nil {
						if t, ok := wrapperTarget(w); ok {
							out = append(out, t)
						}
					}
				}
			}
		case *ast.Ident:
			if w := p.funcs[f.Name]; w != nil {
				if t, ok := wrapperTarget(w); ok {
					out = append(out, t)
				} else if callsTscommon(w) {
					err = fmt.Errorf("%s calls %s, which uses tscommon but is not a pass-through wrapper", fn, f.Name)
				}
			}
		}
		return true
	})
	return out, err
}

func callsTscommon(fd *ast.FuncDecl) bool {
	found := false
	ast.Inspect(fd.Body, func(n ast.Node) bool {
		if s, ok := n.(*ast.SelectorExpr); ok {
			if id, ok := s.X.(*ast.Ident); ok && id.Name == "tscommon" {
				found = true
			}
		}
		return true
	})
	return found
}

// normBody prints a function body with local wrapper calls replaced by their tscommon targets.
func normBody(p *pkgFuncs, fn string) (string, error) {
	fd := p.funcs[fn]
	if fd == nil {
		return "", fmt.Errorf("function %s not found", fn)
	}
	var buf bytes.Buffer
	if err := printer.Fprint(&buf, token.NewFileSet(), fd.Body); err != nil {
		return "", err
	}
	s := buf.String()
	for name, w := range p.funcs {
		if t, ok := wrapperTarget(w); ok {
			s = strings.ReplaceAll(s, " "+name+"(", " "+t+"(")
			s = strings.ReplaceAll(s, "\t"+name+"(", "\t"+t+"(")
		}
	}
	return strings.Join(strings.Fields(s), " "), nil
}

// assignRHS returns the printed right-hand side of `name := …` inside fn.
func assignRHS(p *pkgFuncs, fn, name string) (string, error) {
	fd := p.funcs[fn]
	if fd == nil {
		return "", fmt.Errorf("function %s not found", fn)
	}
	res := ""
	ast.Inspect(fd.Body, func(n ast.Node) bool {
		as, ok := n.(*ast.AssignStmt)
		if !ok || len(as.Lhs) != 1 || len(as.Rhs) != 1 {
			return true
		}
		if id, ok := as.Lhs[0].(*ast.Ident); ok && id.Name == name && res == "" {
			var buf bytes.Buffer
			printer.Fprint(&buf, token.NewFileSet(), as.Rhs[0])
			res = buf.String()
		}
		return true
	})
	if res == "" {
		return "", fmt.Errorf("no assignment to %s in %s", name, fn)
	}
	return res, nil
}

// scalarTable reads the `switch kind` of tscommon.TSScalarType: protoreflect kind -> TypeScript type.
func scalarTable() ([][2]string, error) {
	_, f, err := parseFile("internal/tscommon/types.go")
	if err != nil {
		return nil, err
	}
	consts := stringConsts(f)
	fd := findFunc(f, "TSScalarType")
	if fd == nil {
		return nil, fmt.Errorf("tscommon.TSScalarType not found")
	}
	var sw *ast.SwitchStmt
	ast.Inspect(fd.Body, func(n ast.Node) bool {
		if s, ok := n.(*ast.SwitchStmt); ok && sw == nil {
			sw = s
		}
		return true
	})
	if sw == nil {
		return nil, fmt.Errorf("TSScalarType: no switch")
	}
	var out [][2]string
	for _, st := range sw.Body.List {
		cc := st.(*ast.CaseClause)
		var ret *ast.ReturnStmt
		for _, b := range cc.Body {
			if r, ok := b.(*ast.ReturnStmt); ok {
				ret = r
			}
		}
		if ret == nil || len(ret.Results) != 1 {
			return nil, fmt.Errorf("TSScalarType: case without a single return")
		}
		val := ""
		switch r := ret.Results[0].(type) {
		case *ast.Ident:
			v, ok := consts[r.Name]
			if !ok {
				return nil, fmt.Errorf("TSScalarType: unknown constant %s", r.Name)
			}
			val = v
		case *ast.BasicLit:
			val = strings.Trim(r.Value, "\"")
		default:
			return nil, fmt.Errorf("TSScalarType: unexpected return expression")
		}
		for _, e := range cc.List {
			sel, ok := e.(*ast.SelectorExpr)
			if !ok || !strings.HasSuffix(sel.Sel.Name, "Kind") {
				return nil, fmt.Errorf("TSScalarType: unexpected case expression")
			}
			k := strings.ToLower(strings.TrimSuffix(sel.Sel.Name, "Kind"))
			if k == "group" {
				continue
			}
			out = append(out, [2]string{k, val})
		}
	}
	return out, nil
}

func extractTsDecl() (string, error) {
	cl, err := loadPkg("internal/tsclientgen")
	if err != nil {
		return "", err
	}
	sv, err := loadPkg("internal/tsservergen")
	if err != nil {
		return "", err
	}
	cc, err := tscommonCalls(cl, "generateClientFile")
	if err != nil {
		return "", err
	}
	sc, err := tscommonCalls(sv, "generateServerFile")
	if err != nil {
		return "", err
	}
	if len(cc) == 0 || len(sc) == 0 {
		return "", fmt.Errorf("no tscommon calls found in generateClientFile / generateServerFile")
	}
	cr, err := normBody(cl, "resolveOutputType")
	if err != nil {
		return "", err
	}
	sr, err := normBody(sv, "resolveOutputType")
	if err != nil {
		return "", err
	}
	ci, err := assignRHS(cl, "generateRPCMethod", "inputType")
	if err != nil {
		return "", err
	}
	si, err := assignRHS(sv, "generateHandlerInterface", "inputType")
	if err != nil {
		return "", err
	}
	src, err := os.ReadFile(repo("internal/tscommon/types.go"))
	if err != nil {
		return "", err
	}
	h := sha256.Sum256(src)
	var b strings.Builder
	b.WriteString(header("TsDecl", "internal/tsclientgen/*.go, internal/tsservergen/generator.go, internal/tscommon/types.go"))
	b.WriteString("/-- tscommon functions `tsclientgen.generateClientFile` reaches, in order (local pass-through wrappers resolved). -/\n")
	b.WriteString("def clientDeclCalls : List String := " + leanStrList(cc) + "\n")
	b.WriteString("/-- tscommon functions `tsservergen.generateServerFile` reaches, in order. -/\n")
	b.WriteString("def serverDeclCalls : List String := " + leanStrList(sc) + "\n")
	b.WriteString("/-- normalised body of `resolveOutputType` (result type incl. root unwrap) in each generator. -/\n")
	b.WriteString("def clientResolveOutput : String := " + leanStr(cr) + "\n")
	b.WriteString("def serverResolveOutput : String := " + leanStr(sr) + "\n")
	b.WriteString("/-- the expression naming the request type (`req: T`) in each generator. -/\n")
	b.WriteString("def clientRequestType : String := " + leanStr(ci) + "\n")
	b.WriteString("def serverRequestType : String := " + leanStr(si) + "\n")
	tab, err := scalarTable()
	if err != nil {
		return "", err
	}
	b.WriteString("/-- `tscommon.TSScalarType`: protoreflect kind -> TypeScript type. -/\n")
	b.WriteString("def scalarTable : List (String × String) := [")
	for i, e := range tab {
		if i > 0 {
			b.WriteString(", ")
		}
		b.WriteString("(" + leanStr(e[0]) + ", " + leanStr(e[1]) + ")")
	}
	b.WriteString("]\n")
	b.WriteString("/-- sha256 of internal/tscommon/types.go (evidence only; no theorem depends on it). -/\n")
	b.WriteString("def typesGoDigest : String := " + leanStr(hex.EncodeToString(h[:])) + "\n")
	b.WriteString("end Sebuf.Gen.TsDecl\n")
	return b.String(), nil
}
