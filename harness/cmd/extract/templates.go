package main

import (
	"bytes"
	"crypto/sha256"
	"encoding/hex"
	"fmt"
	"go/ast"
	"go/parser"
	"go/printer"
	"go/token"
	"os"
	"sort"
	"strings"
)

func init() { register("Templates", extractTemplates) }

// sharedCodecFiles are the generator source files duplicated between httpgen and clientgen.
var sharedCodecFiles = []string{"encoding", "enum_encoding", "nullable", "empty_behavior", "timestamp_format", "bytes_encoding", "flatten", "oneof_discriminator"}

// funcDigests returns funcName -> sha256 of the comment-free, gofmt-normalised source of every
// function of one generator file, with the one sanctioned difference (the header writer's
// name) folded away.
func funcDigests(rel string) (map[string]string, error) {
	fset := token.NewFileSet()
	f, err := parser.ParseFile(fset, repo(rel), nil, 0) // comments dropped
	if err != nil {
		return nil, err
	}
	out := map[string]string{}
	for _, d := range f.Decls {
		fd, ok := d.(*ast.FuncDecl)
		if !ok {
			continue
		}
		if fd.Name.Name == "writeEncodingHeader" || fd.Name.Name == "writeHeader" {
			continue
		}
		ast.Inspect(fd, func(n ast.Node) bool {
			if id, ok := n.(*ast.Ident); ok && id.Name == "writeEncodingHeader" {
				id.Name = "writeHeader"
			}
			return true
		})
		var buf bytes.Buffer
		if err := (&printer.Config{Mode: printer.RawFormat}).Fprint(&buf, token.NewFileSet(), fd); err != nil {
			return nil, err
		}
		h := sha256.Sum256(buf.Bytes())
		out[fd.Name.Name] = hex.EncodeToString(h[:12])
	}
	return out, nil
}

func extractTemplates() (string, error) {
	var b strings.Builder
	b.WriteString(header("Templates", "internal/httpgen/*.go and internal/clientgen/*.go (duplicated codec generators; digest of each function's comment-free source)"))
	for _, pk := range []string{"httpgen", "clientgen"} {
		fmt.Fprintf(&b, "def %s : List (String × String) := [\n", pk)
		var rows []string
		for _, base := range sharedCodecFiles {
			rel := "internal/" + pk + "/" + base + ".go"
			if _, err := os.Stat(repo(rel)); err != nil {
				return "", fmt.Errorf("%s missing", rel)
			}
			ds, err := funcDigests(rel)
			if err != nil {
				return "", err
			}
			var names []string
			for n := range ds {
				names = append(names, n)
			}
			sort.Strings(names)
			for _, n := range names {
				rows = append(rows, fmt.Sprintf("  (%s, %s)", leanStr(base+"."+n), leanStr(ds[n])))
			}
		}
		b.WriteString(strings.Join(rows, ",\n"))
		b.WriteString("\n]\n")
	}
	b.WriteString("end Sebuf.Gen.Templates\n")
	return b.String(), nil
}
