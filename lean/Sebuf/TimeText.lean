/-!
# RFC 3339 text of an instant in a zone whose offset has seconds

The generated `UnmarshalJSON` of a `UNIX_SECONDS` / `UNIX_MILLIS` timestamp rebuilds RFC 3339 text for protojson:
`time.Unix(n, 0).Format(time.RFC3339Nano)`. Go writes the zone of the `Time` value as `±hh:mm`, computed as
`offset / 60` with Go's integer division (toward zero): the SECONDS of the offset are not in the text. The clock
fields are the instant plus the full offset. Whoever parses the text subtracts the written offset.

Instants and offsets are whole seconds here (the sub-second part is copied through untouched).
-/
namespace Sebuf.TimeText

/-- what the text says: the clock reading (seconds since the epoch, read as if UTC) and the written offset in minutes. -/
structure Text where
  clock : Int
  offsetMinutes : Int
deriving DecidableEq, Repr

/-- `t.In(zone).Format(time.RFC3339)`: clock = instant + offset, written offset = offset / 60 toward zero. -/
def format (instant offsetSeconds : Int) : Text :=
  { clock := instant + offsetSeconds, offsetMinutes := offsetSeconds.tdiv 60 }

/-- `time.Parse(time.RFC3339, …)` / protojson's reading of the text: the instant is clock − written offset. -/
def parse (x : Text) : Int := x.clock - x.offsetMinutes * 60

/-- the emitted decode edit before `fix: … decode unix seconds / millis in UTC`: format in the process's zone. -/
def decodeLocal (n zoneOffsetSeconds : Int) : Int := parse (format n zoneOffsetSeconds)

/-- the emitted decode edit now: `.UTC()` first. -/
def decodeUTC (n : Int) : Int := parse (format n 0)

end Sebuf.TimeText
