package props

import (
	"encoding/base64"
	"encoding/json"
	"fmt"
	"math"
	"os"
	"regexp"
	"sort"
	"strconv"
	"strings"

	"google.golang.org/protobuf/encoding/protojson"
	"google.golang.org/protobuf/reflect/protoreflect"
	"google.golang.org/protobuf/types/dynamicpb"
	"google.golang.org/protobuf/types/known/wrapperspb"

	"verif/harness/drv"
	"verif/harness/gen"
	"verif/harness/ir"
	"verif/harness/plug"
	"verif/harness/scratch"
)

func init() { Registry["C20"] = C20 }

// ---- what the harness tells the Lean model about a schema ----

// mockDecls lists every field that declares examples: message full name, field, examples.
func mockDecls(req *ir.Request) []map[string]any {
	out := []map[string]any{}
	for _, f := range req.Files {
		pfx := "."
		if f.Package != "" {
			pfx = "." + f.Package + "."
		}
		var walk func(p string, ms []*ir.Message)
		walk = func(p string, ms []*ir.Message) {
			for _, m := range ms {
				for _, fl := range m.Fields {
					if len(fl.Ann.Examples) > 0 {
						out = append(out, map[string]any{"msg": p + m.Name, "field": fl.Name, "examples": fl.Ann.Examples})
					}
				}
				walk(p+m.Name+".", m.Nested)
			}
		}
		walk(pfx, f.Messages)
	}
	return out
}

// doubleText is the text protojson prints for a double (real library), and whether it quotes it.
func doubleText(v float64) (string, bool) {
	b, err := protojson.Marshal(wrapperspb.Double(v))
	if err != nil {
		return "?", false
	}
	s := string(b)
	if strings.HasPrefix(s, `"`) {
		return strings.Trim(s, `"`), true
	}
	return s, false
}

// mockFloatRows is the strconv.ParseFloat(·, 64) contract on every string the model may ask about:
// each declared example and its reading as a Go string literal.
func mockFloatRows(req *ir.Request) []map[string]any {
	seen := map[string]bool{}
	rows := []map[string]any{}
	add := func(s string) {
		if seen[s] {
			return
		}
		seen[s] = true
		v, err := strconv.ParseFloat(s, 64)
		if err != nil {
			return
		}
		tok, q := doubleText(v)
		rows = append(rows, map[string]any{"s": s, "tok": tok, "quoted": q, "zero": math.Float64bits(v) == 0})
	}
	for _, d := range mockDecls(req) {
		for _, e := range d["examples"].([]string) {
			add(e)
			if u, err := strconv.Unquote(`"` + e + `"`); err == nil {
				add(u)
			}
		}
	}
	return rows
}

var mockErrLine = regexp.MustCompile(`(?m)^\S*?([A-Za-z0-9_]+)\.pb\.go:\d+:\d+: (.*)$`)
var mockCannotUse = regexp.MustCompile(`cannot use select\w+Example\(.*\) \(value of type \w+\) as (\*|\[\])?\w+ value in assignment`)

// mockBuildClasses maps compiler diagnostics of the mock file to the statement classes of Sebuf.Mock.stmtDefects.
func mockBuildClasses(log string) []string {
	set := map[string]bool{}
	for _, m := range mockErrLine.FindAllStringSubmatch(log, -1) {
		file, msg := m[1], m[2]
		cls := ""
		switch {
		case strings.Contains(msg, "too many errors"):
			continue
		case !strings.HasSuffix(file, "_http_mock"):
			cls = "outside_mock_file: " + file + ": " + msg
		case mockCannotUse.MatchString(msg):
			switch mockCannotUse.FindStringSubmatch(msg)[1] {
			case "*":
				cls = "optional_scalar"
			case "[]":
				cls = "repeated_scalar"
			default:
				cls = "selector_type_mismatch"
			}
		case strings.Contains(msg, "undefined (type ") && strings.Contains(msg, "has no field or method"):
			cls = "oneof_member"
		case strings.HasPrefix(msg, `cannot use "" (untyped string constant) as`):
			cls = "map_value_default_literal"
		case strings.HasPrefix(msg, "cannot use make(map["):
			cls = "map_value_type"
		default:
			cls = "unrecognised: " + msg
		}
		set[cls] = true
	}
	var out []string
	for c := range set {
		out = append(out, c)
	}
	sort.Strings(out)
	return out
}

// ---- the independent oracle for "takes one of its examples, parsed to the field's type" ----

type exViolation struct {
	path  string
	class string
	what  string
}

func eqScalar(kind string, a, b protoreflect.Value) bool {
	switch kind {
	case "float", "double":
		x, y := a.Float(), b.Float()
		if x != x && y != y {
			return true
		}
		return math.Float64bits(x) == math.Float64bits(y)
	case "bytes":
		return string(a.Bytes()) == string(b.Bytes())
	}
	return a.Interface() == b.Interface()
}

type mockOracle struct {
	req  *ir.Request
	file *ir.File // the generated file
}

// parseExample is the oracle's "parsed to the field's type" (strconv with the kind's bit size; enum by value name).
func (o *mockOracle) parseExample(f *ir.Field, ex string) (protoreflect.Value, bool) {
	switch f.Kind {
	case "enum":
		if e := o.req.FindEnum(f.TypeName); e != nil {
			for _, v := range e.Values {
				if v.Name == ex {
					return protoreflect.ValueOfEnum(protoreflect.EnumNumber(v.Number)), true
				}
			}
		}
		return protoreflect.Value{}, false
	case "bytes", "message":
		return protoreflect.Value{}, false
	}
	return specConvert(f.Kind, ex)
}

var mockSelectorKinds = map[string]bool{"string": true, "int32": true, "int64": true, "bool": true, "float": true, "double": true}

func (o *mockOracle) classify(msgFull string, mi *ir.Message, f *ir.Field) string {
	if !mockSelectorKinds[f.Kind] {
		return "example_ignored:kind_without_selector"
	}
	_, owner := o.req.FindMessage(msgFull)
	if owner != o.file {
		return "example_ignored:message_of_other_file"
	}
	pfx := "."
	if o.file.Package != "" {
		pfx = "." + o.file.Package + "."
	}
	if strings.Contains(strings.TrimPrefix(msgFull, pfx), ".") {
		for _, t := range o.file.Messages {
			if t.Name == mi.Name {
				if tf := t.Field(f.Name); tf != nil && len(tf.Ann.Examples) > 0 {
					return "example_wrong:short_name_collision"
				}
			}
		}
		return "example_ignored:nested_message_key"
	}
	if f.Kind == "string" {
		for _, e := range f.Ann.Examples {
			if strings.ContainsAny(e, "\\\"") {
				return "example_altered:go_literal_reading"
			}
		}
		return "example:unexplained"
	}
	for _, e := range f.Ann.Examples {
		if _, ok := o.parseExample(f, e); !ok {
			return "example_fallback:unparsable_member"
		}
	}
	return "example:unexplained"
}

func (o *mockOracle) walk(msgFull string, m protoreflect.Message, path string, out *[]exViolation) {
	mi, _ := o.req.FindMessage(msgFull)
	if mi == nil {
		return
	}
	for _, f := range mi.Fields {
		fd := m.Descriptor().Fields().ByName(protoreflect.Name(f.Name))
		if fd == nil {
			continue
		}
		p := path + "." + f.Name
		switch {
		case f.Card == "map":
			if f.Kind == "message" {
				var keys []protoreflect.MapKey
				m.Get(fd).Map().Range(func(k protoreflect.MapKey, _ protoreflect.Value) bool { keys = append(keys, k); return true })
				sort.Slice(keys, func(a, b int) bool { return keys[a].String() < keys[b].String() })
				for _, k := range keys {
					o.walk(f.TypeName, m.Get(fd).Map().Get(k).Message(), p+"[]", out)
				}
			}
		case f.Card == "repeated":
		case f.Kind == "message":
			if m.Has(fd) {
				o.walk(f.TypeName, m.Get(fd).Message(), p, out)
			}
		default:
			var parsed []protoreflect.Value
			for _, e := range f.Ann.Examples {
				if v, ok := o.parseExample(f, e); ok {
					parsed = append(parsed, v)
				}
			}
			if len(parsed) == 0 {
				continue
			}
			got := m.Get(fd) // the default when not populated
			hit := false
			for _, v := range parsed {
				if eqScalar(f.Kind, got, v) {
					hit = true
				}
			}
			if !hit {
				*out = append(*out, exViolation{path: p, class: o.classify(msgFull, mi, f),
					what: fmt.Sprintf("%s (%s %s) = %v, declared examples %q", strings.TrimPrefix(msgFull, ".")+"."+f.Name, f.Kind, orSingularCard(f), got.Interface(), f.Ann.Examples)})
			}
		}
	}
}

func orSingular(card string) string {
	if card == "" {
		return "singular"
	}
	return card
}

func orSingularCard(f *ir.Field) string {
	if f.Oneof != "" {
		return "oneof member"
	}
	if f.Card == "" {
		return "singular"
	}
	return f.Card
}

// ---- OpenAPI ----

type oaDoc struct {
	comps map[string]any
	resp  map[string]any // operationId -> 200 response schema
}

func mockOpenAPI(req *ir.Request) (map[string]*oaDoc, string) {
	r := req.Clone()
	r.Parameter = "format=json"
	res, err := plug.Run(plug.OpenAPI, r, nil)
	if err != nil {
		return nil, err.Error()
	}
	if !res.OK() {
		return nil, res.Outcome() + " " + errText(res)
	}
	out := map[string]*oaDoc{}
	for name, content := range res.Files {
		var d map[string]any
		dec := json.NewDecoder(strings.NewReader(content))
		dec.UseNumber()
		if err := dec.Decode(&d); err != nil {
			return nil, "openapi json: " + err.Error()
		}
		doc := &oaDoc{comps: map[string]any{}, resp: map[string]any{}}
		if c, ok := d["components"].(map[string]any); ok {
			if s, ok := c["schemas"].(map[string]any); ok {
				doc.comps = s
			}
		}
		if paths, ok := d["paths"].(map[string]any); ok {
			for _, pi := range paths {
				for _, opv := range pi.(map[string]any) {
					op, ok := opv.(map[string]any)
					if !ok {
						continue
					}
					id, _ := op["operationId"].(string)
					if rs, ok := op["responses"].(map[string]any); ok {
						if ok200, ok := rs["200"].(map[string]any); ok {
							if ct, ok := ok200["content"].(map[string]any); ok {
								if aj, ok := ct["application/json"].(map[string]any); ok {
									doc.resp[id] = aj["schema"]
								}
							}
						}
					}
				}
			}
		}
		out[strings.TrimSuffix(name, ".openapi.json")] = doc
	}
	return out, ""
}

// ---- the check ----

type c20Spec struct {
	req  *ir.Request
	kind string
	tags []string
}

// C20: the optional mock server builds and answers with contract-conformant examples.
func C20(c *Ctx) error {
	res := c.Res
	res.Rule = "accepted schemas with generate_mock=true: the full kind x cardinality matrix of single response fields (17 kinds + Timestamp x singular/optional/repeated/map/oneof, map key kinds), generated responses (1-2 services, 1-3 RPCs each, nested / colliding / repeated / map / optional / enum / oneof / self- and mutually recursive fields, example lists: plain, non-ASCII, empty, unparsable, boundary numerals, Go escapes, literal-breaking) and recursive response types (self, mutual, through map values, oneof members, nested types, repeated only); " +
		"each schema is generated, compiled and vetted with go-http+go-client, every RPC of a built schema is called repeatedly through the real server backed by NewMock<Service>Server(); a case is one (schema build) or one (RPC invocation); non-trivial = the response type has at least one populated field or one example; distinct by (schema shape, rpc, request variant) - repeated invocations of one request differ only in the mock's own random draws"
	res.Assumptions = append(res.Assumptions, "strconv.ParseFloat and the protojson text of a double enter the model as a table computed by the real library",
		"'accepted' = all five plugins answer without error when generate_mock is off")
	r := gen.New(c.Seed)
	var specs []*c20Spec
	// 1. matrix: every (kind, cardinality) cell; quick runs a seeded third of it
	kinds := []string{"double", "float", "int64", "uint64", "int32", "fixed64", "fixed32", "bool", "string", "bytes", "uint32", "enum", "sfixed32", "sfixed64", "sint32", "sint64", "message", "timestamp"}
	cards := []string{"", "optional", "repeated", "map", "oneof"}
	cell := 0
	mr := r.Fork("matrix")
	for _, k := range kinds {
		for _, cd := range cards {
			cell++
			if !c.Thorough() && (cell+int(c.Seed))%3 != 0 {
				continue
			}
			var ex []string
			if cd == "" && k != "message" && k != "timestamp" && k != "bytes" && mr.Bool() {
				var tg []string
				ex = gen.MockExamplesFor(mr.Fork(fmt.Sprint("ex", cell)), k, &tg)
			}
			specs = append(specs, &c20Spec{req: gen.MockMatrixSchema(k, cd, gen.Pick(mr, []string{"string", "int32", "uint64", "bool", "sfixed32"}), ex), kind: "matrix", tags: []string{"cell:" + k + "/" + orSingular(cd)}})
		}
	}
	// 1b. one single-string-field schema per example whose reading as a Go literal differs from its text
	lit := gen.MockLiteralExamples()
	for _, cls := range []string{"breaking", "escape", "bad_utf8"} {
		for i, e := range lit[cls] {
			cell++
			if !c.Thorough() && (cell+int(c.Seed))%3 != 0 {
				continue
			}
			specs = append(specs, &c20Spec{req: gen.MockMatrixSchema("string", "", "", []string{"plain one", e}), kind: "matrix", tags: []string{fmt.Sprintf("cell:string_example/%s#%d", cls, i)}})
		}
	}
	// 1c. the empty string is an example like any other ("no suffix", "no coupon"): lists that contain it
	for i, ex := range [][]string{{"", "Jr."}, {"", "SAVE10", "WELCOME"}, {""}} {
		specs = append(specs, &c20Spec{req: gen.MockMatrixSchema("string", "", "", ex), kind: "matrix", tags: []string{fmt.Sprintf("cell:string_example/empty_string#%d", i)}})
	}
	// 2. generated schemas
	n := c.N(24, 220)
	for i := 0; i < n; i++ {
		rr := r.Fork(fmt.Sprint("c20-", i))
		o := gen.MockOpts{Buildable: i%3 != 0, Breaking: i%6 == 0}
		ms := gen.GenMockSchema(rr, i, o)
		kind := "any"
		if o.Buildable {
			kind = "buildable"
		}
		specs = append(specs, &c20Spec{req: ms.Req, kind: kind, tags: ms.Tags})
	}
	// 3. recursive response types (C20 names them): generated, built and called like any other schema
	recs := gen.MockRecursiveSchemas()
	var recNames []string
	for nme := range recs {
		recNames = append(recNames, nme)
	}
	sort.Strings(recNames)
	for _, nme := range recNames {
		specs = append(specs, &c20Spec{req: recs[nme], kind: "recursive", tags: []string{"cell:recursive/" + nme}})
	}
	// 4. two versions of one API (same message and field names, different examples) generated together:
	// the runner serves v2, which the plugin handles after v1
	for _, first := range []bool{false, true} {
		for _, serve := range []string{"v1", "v2"} {
			specs = append(specs, &c20Spec{req: gen.MockVersionedSchema(first, serve), kind: "buildable", tags: []string{fmt.Sprintf("cell:versioned_packages/v1_first=%v/%s_served", first, serve)}})
		}
	}
	if only := os.Getenv("VERIF_C20_ONLY"); only != "" { // debugging aid: keep the specs whose tags mention `only`
		var keep []*c20Spec
		for _, s := range specs {
			if strings.Contains(strings.Join(s.tags, " "), only) {
				keep = append(keep, s)
			}
		}
		specs = keep
	}
	// accepted = every plugin answers without the mock option
	accepted := make([]bool, len(specs))
	var accErr error
	parallel(len(specs), func(i int) {
		rs, err := runAll(specs[i].req)
		if err != nil {
			accErr = err
			return
		}
		ok := true
		for _, pr := range rs {
			if !pr.OK() {
				ok = false
			}
		}
		accepted[i] = ok
	})
	if accErr != nil {
		return accErr
	}
	var acc []*c20Spec
	for i, s := range specs {
		if accepted[i] {
			acc = append(acc, s)
		} else {
			res.Count("refused_without_mock")
		}
	}
	specs = acc
	res.Programs = len(specs)

	// model, static part
	var static []map[string]any
	if drv.Available() {
		var dops []map[string]any
		for _, s := range specs {
			f := s.req.FileByName(s.req.PrimaryName())
			for _, sv := range f.Services {
				for _, m := range sv.Methods {
					dops = append(dops, map[string]any{"op": "mock_answer", "rq": s.req.ToModel(), "file": f.Name, "type": m.Output, "decls": mockDecls(s.req), "floats": mockFloatRows(s.req)})
				}
			}
		}
		var err error
		if static, err = drv.Run(dops); err != nil {
			res.Corr("driver", "Lean driver failed: "+err.Error(), nil)
			static = nil
		}
	} else {
		res.Corr("driver", "Lean driver binary missing (model did not build)", nil)
	}
	// per schema: union over its RPCs
	type pred struct {
		defects []string
		table   string
		can500  map[string]bool // by method name
		fin     bool
	}
	preds := make([]*pred, len(specs))
	if static != nil {
		k := 0
		for i, s := range specs {
			p := &pred{table: "ok", can500: map[string]bool{}, fin: true}
			f := s.req.FileByName(s.req.PrimaryName())
			set := map[string]bool{}
			for _, sv := range f.Services {
				for _, m := range sv.Methods {
					o := static[k]
					k++
					if e, ok := o["driver_err"]; ok {
						res.Corr("driver", fmt.Sprint("mock_answer: ", e), map[string]any{"schema": s.req})
						continue
					}
					for _, d := range strList(o["defects"]) {
						set[d] = true
					}
					p.table = fmt.Sprint(o["table"])
					if b, _ := o["finishes"].(bool); !b {
						p.fin = false
					}
					p.can500[m.Name], _ = o["can_500"].(bool)
				}
			}
			for d := range set {
				p.defects = append(p.defects, d)
			}
			sort.Strings(p.defects)
			preds[i] = p
		}
	}

	// real: generate with the mock option, compile, vet
	bt, items, err := buildBatch(len(specs), func(i int) *ir.Request { return specs[i].req }, scratch.AddOpts{GoHTTP: true, GoClient: true, Mock: true}, false)
	if err != nil {
		return err
	}
	defer bt.Close()
	bt.Vet()
	type runJob struct {
		i    int
		x    *rtItem
		ops  []any
		meta []*ir.Method
		svc  []*ir.Service
		outs []map[string]any
		err  error
	}
	var jobs []*runJob
	for i, x := range items {
		s := specs[i]
		p := preds[i]
		for _, t := range s.tags {
			res.Count(t)
		}
		res.Count("kind:" + s.kind)
		res.Case(map[string]any{"shape": hashStr(s.req.ShapeKey()), "case": "build"}, true)
		replay := map[string]any{"schema": s.req, "parameter": "generate_mock=true"}
		if p != nil {
			replay["model"] = map[string]any{"defects": p.defects, "table": p.table}
		}
		// (a0) generation
		if x.it.GenErr != "" && (strings.Contains(x.it.GenErr, "timeout") || strings.Contains(x.it.GenErr, "crash") || strings.Contains(x.it.GenErr, "oom")) {
			// no answer at all (before b58be88: unbounded recursion on recursive response types)
			res.Count("outcome:mock_generation_no_answer")
			replay["plugin_error"] = firstLines(x.it.GenErr, 6)
			if p != nil {
				if !p.fin {
					res.CorrAgree()
				} else {
					res.Corr("terminates", "go-http with generate_mock=true does not answer although the model's guarded recursion finishes: "+firstLine(x.it.GenErr), replay)
				}
			}
			res.Divergence("generate:recursive_response_type", "go-http with generate_mock=true gives no mock file for an accepted schema: "+firstLine(x.it.GenErr), p != nil && !p.fin, replay)
			continue
		}
		if p != nil && !p.fin {
			res.Corr("terminates", "the model's recursion does not finish within #messages+2 levels although the plugin answered", replay)
		}
		if x.it.GenErr != "" {
			res.Count("outcome:mock_generation_error")
			replay["plugin_error"] = firstLines(x.it.GenErr, 4)
			agrees := p != nil && p.table == "unparsable"
			if p != nil && p.table != "outside" {
				if agrees {
					res.CorrAgree()
				} else {
					res.Corr("generate", "go-http with generate_mock=true answers with an error but the model reads the example table as "+p.table+": "+firstLine(x.it.GenErr), replay)
				}
			}
			res.Divergence("generate:example_breaks_go_literal", "a definition every plugin accepts makes protoc-gen-go-http fail once generate_mock=true is set: "+firstLine(x.it.GenErr), agrees, replay)
			continue
		}
		if p != nil && p.table == "unparsable" {
			res.Corr("generate", "the model predicts an unparsable mock file, the plugin emitted one", replay)
		} else if p != nil && p.table == "ok" {
			res.CorrAgree()
		}
		// (a) build + vet
		log := ""
		if !x.it.Built {
			log = x.it.BuildLog
		} else if !x.it.VetOK {
			log = x.it.VetLog
		}
		real := mockBuildClasses(log)
		if log != "" && len(real) == 0 {
			real = []string{"unrecognised: " + errorClass(log)}
		}
		replay["compiler"] = firstLines(log, 14)
		if p != nil && p.table != "outside" {
			agree := (len(real) == 0) == (len(p.defects) == 0)
			for _, rc := range real {
				if !contains(p.defects, rc) {
					agree = false
				}
			}
			if !strings.Contains(log, "too many errors") {
				for _, pc := range p.defects {
					if !contains(real, pc) {
						agree = false
					}
				}
			}
			if agree {
				res.CorrAgree()
			} else {
				res.Corr("build", fmt.Sprintf("[%s] real defect classes %v, the model predicts %v", s.kind, real, p.defects), replay)
			}
		}
		if len(real) > 0 {
			res.Count("outcome:does_not_build")
			for _, rc := range real {
				what := "does not compile"
				if x.it.Built {
					what = "fails go vet"
				}
				res.Divergence("build:"+rc, fmt.Sprintf("[%s] the package with the emitted mock %s: %s", s.kind, what, firstLine(strings.TrimSpace(errLine.FindString(log)))), p != nil && contains(p.defects, rc), replay)
			}
			continue
		}
		res.Count("outcome:builds")
		// (b) run every RPC repeatedly
		j := &runJob{i: i, x: x}
		f := x.file
		reps := c.N(6, 10)
		for _, sv := range f.Services {
			for _, m := range sv.Methods {
				for k := 0; k < reps; k++ {
					body := []string{`{"q":"x"}`, `{}`, `{"q":"héllo"}`}[k%3]
					op := map[string]any{"op": "serve", "id": fmt.Sprintf("%s#%d", m.Name, k), "method": m.Config.Method, "url": sv.BasePath + m.Config.Path,
						"headers": [][2]string{{"Content-Type", "application/json"}}, "handler": map[string]any{"kind": "mock"}}
					if m.Config.Method == "GET" {
						op["no_body"] = true
						if k%3 != 1 {
							op["url"] = sv.BasePath + m.Config.Path + "?q=x"
						}
					} else {
						op["body"] = base64.StdEncoding.EncodeToString([]byte(body))
					}
					j.ops = append(j.ops, op)
					j.meta = append(j.meta, m)
					j.svc = append(j.svc, sv)
				}
			}
		}
		jobs = append(jobs, j)
	}
	parallel(len(jobs), func(k int) {
		j := jobs[k]
		j.outs, j.err = runItem(j.x, j.ops)
	})
	// model + Spec on every real answer
	type ans struct {
		j      *runJob
		k      int
		status int
		body   []byte
		msg    *dynamicpb.Message
		dop    int
		sop    int
		schema any
		comps  map[string]any
	}
	var answers []*ans
	var dops []map[string]any
	for _, j := range jobs {
		if j.err != nil {
			return j.err
		}
		s := specs[j.i]
		docs, oaErr := mockOpenAPI(s.req)
		if oaErr != "" {
			res.Count("openapi_unavailable")
		}
		for k, o := range j.outs {
			m := j.meta[k]
			a := &ans{j: j, k: k, dop: -1, sop: -1}
			if st, ok := o["status"].(json.Number); ok {
				v, _ := st.Int64()
				a.status = int(v)
			}
			a.body, _ = base64.StdEncoding.DecodeString(fmt.Sprint(o["body"]))
			answers = append(answers, a)
			if f, ok := o["fault"]; ok && f != nil {
				a.status = -1
				continue
			}
			if a.status != 200 {
				continue
			}
			md := j.x.msgDesc(m.Output)
			msg := dynamicpb.NewMessage(md)
			if err := protojson.Unmarshal(a.body, msg); err != nil {
				a.status = -2
				continue
			}
			a.msg = msg
			if doc := docs[j.svc[k].Name]; doc != nil && doc.resp[m.Name] != nil {
				a.schema, a.comps = doc.resp[m.Name], doc.comps
			}
			if static != nil {
				f := s.req.FileByName(s.req.PrimaryName())
				op := map[string]any{"op": "mock_answer", "rq": s.req.ToModel(), "file": f.Name, "type": m.Output, "decls": mockDecls(s.req), "floats": mockFloatRows(s.req),
					"real": gen.ValJSON(msg.ProtoReflect())}
				if a.schema != nil {
					op["components"], op["schema"] = a.comps, a.schema
				} else {
					op["components"], op["schema"] = map[string]any{}, map[string]any{}
				}
				a.dop = len(dops)
				dops = append(dops, op)
				if a.schema != nil {
					a.sop = len(dops)
					dops = append(dops, map[string]any{"op": "schema_valid", "components": a.comps, "schema": a.schema, "instances": []any{canonJSONBytes(a.body)}})
				}
			}
		}
	}
	var douts []map[string]any
	if static != nil && len(dops) > 0 {
		if douts, err = drv.Run(dops); err != nil {
			res.Corr("driver", "Lean driver failed: "+err.Error(), nil)
			douts = nil
		}
	}
	for _, a := range answers {
		j, k := a.j, a.k
		s := specs[j.i]
		m := j.meta[k]
		p := preds[j.i]
		nontrivial := a.msg == nil || len(mockDecls(s.req)) > 0
		if a.msg != nil {
			a.msg.Range(func(protoreflect.FieldDescriptor, protoreflect.Value) bool { nontrivial = true; return false })
		}
		res.Case(map[string]any{"shape": hashStr(s.req.ShapeKey()), "rpc": m.Name, "request": k % 3}, nontrivial)
		res.Count(fmt.Sprintf("status:%d", a.status))
		replay := map[string]any{"schema": s.req, "parameter": "generate_mock=true", "rpc": j.svc[k].Name + "." + m.Name, "request": j.ops[k], "status": a.status, "body": string(a.body)}
		switch {
		case a.status == 500 && strings.Contains(string(a.body), "invalid UTF-8"):
			can := p != nil && p.can500[m.Name]
			if p != nil {
				if can {
					res.CorrAgree()
				} else {
					res.Corr("answer", "the server answered 500 (invalid UTF-8) but no draw of the model yields an invalid string", replay)
				}
			}
			res.Divergence("serialize:string_not_utf8", "the mock filled a string field with bytes that are not UTF-8 (an escape sequence in a declared example was interpreted): the generated server cannot serialise the response and answers 500: "+string(a.body), can, replay)
			continue
		case a.status != 200:
			res.Divergence(fmt.Sprintf("answer:status_%d", a.status), fmt.Sprintf("mock RPC %s answered a valid request with status %d: %s", m.Name, a.status, firstLine(string(a.body))), false, replay)
			continue
		}
		// Go-side oracle
		var viol []exViolation
		(&mockOracle{req: s.req, file: j.x.file}).walk(m.Output, a.msg, "", &viol)
		solved := false
		if douts != nil && a.dop >= 0 {
			o := douts[a.dop]
			if e, ok := o["driver_err"]; ok {
				res.Corr("driver", fmt.Sprint("mock_answer: ", e), replay)
			} else {
				solved, _ = o["solved"].(bool)
				replay["model_wire"] = o["model_wire"]
				if solved {
					res.CorrAgree()
				} else {
					res.Corr("answer", fmt.Sprintf("no choice of random draws makes the model return the real answer of %s: real %s", m.Name, string(a.body)), replay)
				}
				if wt, _ := o["well_typed"].(bool); !wt {
					res.Corr("well_typed", "the real answer (decoded with the response type) is not well typed for the model", replay)
				}
				// the Lean Spec and the Go oracle must name the same fields
				var gp []string
				for _, v := range viol {
					gp = append(gp, v.path)
				}
				lp := strList(o["dishonoured"])
				sort.Strings(gp)
				sort.Strings(lp)
				if strings.Join(gp, ",") != strings.Join(lp, ",") {
					res.Corr("spec_oracle", fmt.Sprintf("Lean Spec.dishonoured = %v, Go oracle = %v", lp, gp), replay)
				} else {
					res.CorrAgree()
				}
				// schema validity: Lean validator on the real body vs on the model's wire form of the real value
				if a.sop >= 0 {
					so := douts[a.sop]
					valid := false
					if rs := asList(so["results"]); len(rs) == 1 {
						valid, _ = rs[0].(map[string]any)["valid"].(bool)
					}
					if mv, _ := o["schema_valid"].(bool); mv != valid {
						res.Corr("wire_enc", fmt.Sprintf("Schema.valid on the real body = %v, on the model's encoding of the same value = %v", valid, mv), replay)
					} else {
						res.CorrAgree()
					}
					if !valid {
						key := "schema_invalid:other"
						if strings.Contains(string(a.body), `"NaN"`) || strings.Contains(string(a.body), `Infinity"`) {
							key = "schema_invalid:non_finite_double"
						}
						res.Divergence(key, fmt.Sprintf("the answer of %s does not validate against the published response schema: %s", m.Name, string(a.body)), solved, replay)
					}
				}
			}
		}
		seen := map[string]bool{}
		for _, v := range viol {
			if seen[v.class] {
				continue
			}
			seen[v.class] = true
			rp := map[string]any{}
			for kk, vv := range replay {
				rp[kk] = vv
			}
			rp["field"] = v.path
			res.Divergence(v.class, "a response field that declares examples holds none of them: "+v.what, solved, rp)
		}
	}

	// "emitted on request": the option is a boolean flag; every spelling a boolean flag accepts asks
	// for (or declines) the mock
	{
		f := &ir.File{Name: "opt/api.proto", Package: "opt.v1", GoPackage: "example.com/gen/opt/v1;optv1",
			Messages: []*ir.Message{{Name: "Q", Fields: []*ir.Field{{Name: "q", Number: 1, Kind: "string"}}}, {Name: "A", Fields: []*ir.Field{{Name: "name", Number: 1, Kind: "string"}, {Name: "ok", Number: 2, Kind: "bool"}}}},
			Services: []*ir.Service{{Name: "Opt", Methods: []*ir.Method{{Name: "Get", Input: ".opt.v1.Q", Output: ".opt.v1.A", Config: &ir.HTTPConfig{Path: "/g", Method: "POST"}}}}}}
		base := &ir.Request{Files: []*ir.File{f}, Generate: []string{f.Name}}
		for _, sp := range []struct {
			param string
			want  bool
		}{{"generate_mock=true", true}, {"generate_mock=1", true}, {"generate_mock=t", true}, {"generate_mock=T", true}, {"generate_mock=TRUE", true}, {"generate_mock=True", true},
			{"generate_mock=false", false}, {"generate_mock=0", false}, {"generate_mock=F", false}, {"", false},
			{"paths=source_relative,generate_mock=1", true}} {
			rq := base.Clone()
			rq.Parameter = sp.param
			pr, err := plug.Run(plug.GoHTTP, rq, nil)
			if err != nil {
				return err
			}
			res.Case(map[string]any{"option_spelling": sp.param}, true)
			res.Count("cell:option_spelling")
			got := false
			for n := range pr.Files {
				if strings.HasSuffix(n, "_http_mock.pb.go") {
					got = true
				}
			}
			replay := map[string]any{"schema": base, "parameter": sp.param, "files": pr.Order, "class": answerClass(pr), "stderr": firstLines(pr.Stderr, 3)}
			if !pr.OK() {
				res.Violation("option_spelling:error", fmt.Sprintf("go-http answers %s for parameter %q", answerClass(pr), sp.param), replay)
			} else if got != sp.want {
				res.Violation("option_spelling:mock_emitted_mismatch", fmt.Sprintf("parameter %q: mock file emitted=%v, a boolean flag means %v", sp.param, got, sp.want), replay)
			} else {
				res.CorrAgree()
			}
		}
	}
	return nil
}
