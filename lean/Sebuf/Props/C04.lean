import Sebuf.TimeText
import Sebuf.Gen.Decoders
import Sebuf.Lemmas.Surgery
import Sebuf.Lemmas.Bytes
import Sebuf.Props.C14
import Sebuf.Lemmas.GoJson
/-!
# C04 — generated Go JSON codecs round-trip every message value

Every generated codec has the shape `protojson → raw map → per-field edit → json.Marshal`, and
the inverse edit before `protojson.Unmarshal`. protojson's own round trip is a library leaf
(trusted, and exercised by the harness); what sebuf adds are the EDITS. Proved here, for every
object, key and value: decode-edit ∘ encode-edit restores the protojson object the library
round-trips (int64 NUMBER, nullable, UNIX_SECONDS up to the documented sub-second loss, every
bytes encoding), and the go-http / go-client templates are the same program. The flatten template
resets the child it has just assigned (`flatten_child_lost`, known finding), the corrected order
would keep it.

Three templates encode and decode children through Go's `encoding/json` (flatten, discriminated
oneof, map-value-unwrap container; root unwrap of scalars likewise). For those the `Impl` model is
value-level and executable: `GoJson.serverEnc` / `GoDec.serverDec` predict the emitted bytes and
the decoded message (or the error) exactly; the harness checks both against the compiled code on
every case. Proved about them here: the flattened-oneof round trip under the side condition
"the members encoding/json writes are the ones the decoder looks up" (single-word field names),
`oneof_flatten_roundtrip_partial`, with the multi-word counter-witness; and, by kernel evaluation
of the model on closed schemas, one witness per root cause the harness files a divergence under
(these are the `lean_theorem`s of the C04 entries of known_findings.json) next to the round trips
that DO hold (empty / all-default flattened variants, map-value unwrap of scalar lists).
The harness runs real encode→decode on the emitted code for every generated schema × value, and
decodes `Spec` JSON (the canonical form another party produces).
-/
namespace Sebuf.C04
open Sebuf Sebuf.Surgery Sebuf.Json

/-- `int64_encoding = NUMBER`: encode-edit then decode-edit gives back the protojson object. -/
theorem int64_number_roundtrip (k : Str) (v : Int) (p : Obj) (hp : Int64Number.Contract k v p) :
    ObjEq (Int64Number.decEdit k (Int64Number.encEdit k v p)) p :=
  Int64Number.int64_number_roundtrip k v p hp

/-- and the string handed to protojson parses to the original integer (no precision loss in the
codec itself, any magnitude). -/
theorem int64_number_value (k : Str) (v : Int) (p : Obj) (hv : v ≠ 0) :
    (oget k (Int64Number.decEdit k (Int64Number.encEdit k v p))).map
      (fun j => match j with | str s => parseSigned s | _ => none) = some (some v) :=
  Int64Number.int64_number_reparse k v p hv

/-- `nullable`: explicit `null` on the wire, absent after decoding, set values untouched. -/
theorem nullable_roundtrip (k : Str) (unset : Bool) (p : Obj) (hp : Nullable.Contract k unset p) :
    ObjEq (Nullable.decEdit k (Nullable.encEdit k unset p)) p :=
  Nullable.nullable_roundtrip k unset p hp

/-- `timestamp_format = UNIX_SECONDS`: round trip up to the documented truncation — the decoded
object is the protojson object of the same message with `nanos = 0`. -/
theorem unix_seconds_roundtrip (rfcOfSecs : Int → Str) (rfcFull : Int → Nat → Str)
    (hrfc : ∀ s, rfcFull s 0 = rfcOfSecs s) (k : Str) (secs : Int) (nanos : Nat) (p₁ p₀ : Obj)
    (h₁ : UnixSeconds.Contract rfcFull k secs nanos p₁) (h₀ : UnixSeconds.Contract rfcFull k secs 0 p₀)
    (hother : ∀ k', k' ≠ k → oget k' p₁ = oget k' p₀) :
    ObjEq (UnixSeconds.decEdit rfcOfSecs k (UnixSeconds.encEdit k (some (secs, nanos)) p₁)) p₀ :=
  UnixSeconds.unix_seconds_roundtrip_lossy rfcOfSecs rfcFull hrfc k secs nanos p₁ p₀ h₁ h₀ hother

/-- every `bytes_encoding` (default, BASE64, BASE64_RAW, BASE64URL, BASE64URL_RAW, HEX and any
unknown enum number) decodes what it encodes, for every byte string. -/
theorem bytes_roundtrip (e : Nat) (bs : Bytes) (h : ∀ b ∈ bs, b < 256) :
    sebufBytesDecode e (sebufBytesEncode e bs) = some bs := sebufBytes_roundtrip e bs h

/-- go-http and go-client emit their codecs from byte-identical generator functions
(regenerated digests), so both outputs behave identically. -/
theorem http_client_templates_identical : Gen.Templates.httpgen = Gen.Templates.clientgen :=
  C14.templates_identical

/-- **flatten does not round-trip** (known finding): the template assigns the child and then lets
`protojson.Unmarshal` reset the message, whatever the JSON. -/
theorem flatten_loses_child (childKeys : List Str) (raw : Obj) :
    (flattenDecode childKeys raw).child = none := flatten_child_lost childKeys raw

/-- with the two steps in the other order the child would survive. -/
theorem flatten_other_order_keeps_child (childKeys : List Str) (raw : Obj)
    (h : extractChild childKeys raw ≠ []) :
    (flattenDecodeFixed childKeys raw).child = some (extractChild childKeys raw) :=
  flatten_fixed_keeps_child childKeys raw h

/-! ### the encoding/json templates (value-level `Impl` model) -/

section GoJsonTemplates
open Sebuf.GoJson Sebuf.GoDec Sebuf.GoJson.W Sebuf.Mapping

/-- **flattened discriminated oneof, partial round trip** (object surgery, any parent object `p`,
any variant members `vm`, any re-marshalling): when every member encoding/json wrote for the
variant is a name the decoder looks up — the struct tag (proto name) equals the JSON name, i.e.
single-word field names — the decoder extracts exactly what the encoder merged and hands
protojson the parent's own object with the variant member restored. -/
theorem oneof_flatten_roundtrip_partial (disc vk : Str) (tag : Json) (names : List Str)
    (remarshal : Obj → Json) (vm p : Obj)
    (hnd : (Json.keys vm).Nodup) (hsingle : ∀ k ∈ Json.keys vm, k ∈ names)
    (hdisjoint : ∀ n ∈ names, oget n p = none) (hdiscN : disc ∉ names) (hvkN : vk ∉ names)
    (hvd : vk ≠ disc) (hdp : oget disc p = none) :
    ObjEq (OneofFlat.extract names (OneofFlat.encEdit disc tag vk vm p)) vm ∧
    ObjEq (OneofFlat.decEdit disc vk names remarshal (OneofFlat.encEdit disc tag vk vm p))
      (oset vk (remarshal (OneofFlat.extract names (OneofFlat.encEdit disc tag vk vm p))) p) :=
  OneofFlat.roundtrip_partial disc vk tag names remarshal vm p hnd hsingle hdisjoint hdiscN hvkN hvd hdp

/-- non-vacuity: the `single` variant of the witness schema (`body` is a single-word name). -/
example : (Json.keys [(s "body", W.str "b")]).Nodup ∧ (∀ k ∈ Json.keys [(s "body", W.str "b")], k ∈ [s "body", s "big", s "ratio"]) ∧
    (∀ n ∈ [s "body", s "big", s "ratio"], oget n [(s "ident", W.str "i")] = none) ∧
    s "type" ∉ [s "body", s "big", s "ratio"] ∧ s "single" ∉ [s "body", s "big", s "ratio"] ∧ s "single" ≠ s "type" := by decide

/-- the model's encoder merges a flattened variant with the very `merge` of that theorem. -/
theorem oneof_flatten_model_merge (kvs raw : List (Str × Json)) : mergeInto [] kvs raw = OneofFlat.merge kvs raw :=
  mergeInto_nil kvs raw

/-- the side condition holds on the value level: single-word variant fields round-trip, a 64-bit
integer included (written as a number by encoding/json, read back by protojson). -/
theorem oneof_flatten_roundtrip_single_word :
    roundTrip oneFlat [(s "ident", vstr "i"), (s "single", .msg [(s "body", vstr "b"), (s "big", .int 5)])] =
    some (.ok [(s "ident", vstr "i"), (s "single", .msg [(s "body", vstr "b"), (s "big", .int 5)])]) := oneFlat_roundtrip_single

/-- a selected variant that contributes NO member (empty message type, or every field at its
default) keeps its oneof case through the round trip. -/
theorem oneof_flatten_roundtrip_empty_variant :
    roundTrip oneFlat [(s "ident", vstr "i"), (s "gone", .msg [])] = some (.ok [(s "ident", vstr "i"), (s "gone", .msg [])]) ∧
    roundTrip oneFlat [(s "single", .msg [])] = some (.ok [(s "single", .msg [])]) :=
  ⟨oneFlat_roundtrip_empty_variant, oneFlat_roundtrip_default_variant⟩

/-- **counter-witness** (known finding `roundtrip_error:oneof_flatten_multiword_variant_key`): the
multi-word field `lang_code` is written under its struct tag and looked up as `langCode`; the
member stays in the object and protojson refuses it. -/
theorem oneof_flatten_roundtrip_multiword_rejected :
    roundTrip oneFlat [(s "ident", vstr "i"), (s "multi_word", .msg [(s "lang_code", vstr "en")])] =
    some (.error (.unknownField (s "lang_code"))) := oneFlat_roundtrip_multiword

/-- `roundtrip:oneof_flatten_variant_dropped_on_marshal_error`: NaN in a flattened variant — the
marshal error is swallowed, the variant's members never reach the wire. -/
theorem oneof_flatten_nan_variant_dropped :
    roundTrip oneFlat [(s "single", .msg [(s "body", vstr "b"), (s "ratio", .float (s "NaN") true)])] =
    some (.ok [(s "single", .msg [])]) := oneFlat_roundtrip_nan

/-- `roundtrip_error:oneof_nested_variant_via_encoding_json`: the nested variant is written by
protojson (64-bit integer = string) and pre-read by encoding/json (string into int64 = error). -/
theorem oneof_nested_roundtrip_int64_rejected :
    roundTrip oneNest [(s "single", .msg [(s "big", .int 5)])] = some (.error (.goType (s "big"))) := oneNest_roundtrip_int64

/-- `roundtrip_error:flatten_multiword_child_key`. -/
theorem flatten_roundtrip_rejects_own_output :
    roundTrip flat [(s "title", vstr "t"), (s "home", .msg [(s "zip_code", vstr "z")])] =
    some (.error (.unknownField (s "home_zip_code"))) := flat_roundtrip_multiword

/-- `roundtrip:flatten_child_lost`, on the value level (cf. `flatten_loses_child`). -/
theorem flatten_roundtrip_loses_child_value :
    roundTrip flat [(s "title", vstr "t"), (s "home", .msg [(s "street", vstr "x")])] = some (.ok [(s "title", vstr "t")]) :=
  flat_roundtrip_child_lost

/-- `roundtrip_error:flatten_child_oneof_key`: a child with a oneof always contributes
`prefix + GoFieldName` (`null` when unset), which no decoder step consumes. -/
theorem flatten_child_oneof_key_rejected :
    roundTrip flatPick [(s "inner", .msg [(s "name", vstr "n")])] = some (.error (.unknownField (s "in_MyChoice"))) := flatPick_roundtrip

/-- map-value unwrap of SCALAR lists round-trips, in a container and as the combined root map
(several entries of equal length: every entry keeps its own list). -/
theorem unwrap_map_scalar_roundtrip :
    roundTrip cont [(s "by_n", .map [(s "x", .msg [(s "nums", .list [.int 1, .int 2])]), (s "y", .msg [(s "nums", .list [.int 3, .int 4])])]), (s "big_i", .int 7)] =
      some (.ok [(s "by_n", .map [(s "x", .msg [(s "nums", .list [.int 1, .int 2])]), (s "y", .msg [(s "nums", .list [.int 3, .int 4])])]), (s "big_i", .int 7)]) ∧
    roundTrip root [(s "entries", .map [(s "x", .msg [(s "nums", .list [.int 1, .int 2])]), (s "y", .msg [(s "nums", .list [.int 3, .int 4])])])] =
      some (.ok [(s "entries", .map [(s "x", .msg [(s "nums", .list [.int 1, .int 2])]), (s "y", .msg [(s "nums", .list [.int 3, .int 4])])])]) :=
  ⟨cont_roundtrip, root_roundtrip⟩

/-- `roundtrip:negative_zero_dropped_by_omitempty` (`x.Dbl != 0` / `omitempty` skip -0.0). -/
theorem container_negative_zero_lost : roundTrip cont [(s "dbl", .float (s "-0") false)] = some (.ok []) := cont_roundtrip_negzero

/-- `roundtrip:optional_empty_bytes_dropped_by_omitempty` (`optional bytes` is a plain slice). -/
theorem container_empty_optional_bytes_lost :
    roundTrip cont [(s "by_o", .map [(s "k", .msg [(s "opt_y", .bytes []), (s "tag", vstr "t")])])] =
    some (.ok [(s "by_o", .map [(s "k", .msg [(s "tag", vstr "t")])])]) := cont_roundtrip_empty_optional_bytes

/-- `encode_error:*`: encoding/json fails on NaN / ±Inf and on `map<bool, _>`. -/
theorem encoding_json_encode_errors :
    serverEnc W.rq 12 flatFlags [(s "inner", .msg [(s "ratio", .float (s "NaN") true)])] = none ∧
    serverEnc W.rq 12 flatFlags [(s "inner", .msg [(s "flags", .map [(s "true", vstr "x")])])] = none ∧
    serverEnc W.rq 12 ratios [(s "items", .list [.float (s "Infinity") true])] = none ∧
    serverEnc W.rq 12 cont [(s "dbl", .float (s "NaN") true)] = none :=
  ⟨flatFlags_nan, flatFlags_bool_map, ratios_nan, cont_nan⟩

/-- `decode_contract_form*`: the documented JSON written by another party. -/
theorem contract_form_decoding :
    -- flatten: accepted, the child is gone
    serverDec W.rq 12 flat (Json.obj [(s "title", W.str "t"), (s "home_street", W.str "x"), (s "home_zipCode", W.str "z")]) = .ok [(s "title", vstr "t")] ∧
    -- flatten: a 64-bit child field in its documented form (decimal string) is refused
    serverDec W.rq 12 flat (Json.obj [(s "home_big", W.str "5")]) = .error (.goType (s "big")) ∧
    -- flattened oneof: the multi-word member is dropped
    serverDec W.rq 12 oneFlat (Json.obj [(s "type", W.str "mw"), (s "langCode", W.str "en"), (s "url", W.str "u")]) = .ok [(s "multi_word", .msg [(s "url", vstr "u")])] ∧
    serverDec W.rq 12 oneFlat (Json.obj [(s "type", W.str "single"), (s "big", W.str "5")]) = .error (.goType (s "big")) ∧
    serverDec W.rq 12 oneFlat (Json.obj [(s "type", W.str "single"), (s "ratio", Json.num (JNum.float (s "-0")))]) = .ok [(s "single", .msg [])] ∧
    serverDec W.rq 12 oneNest (Json.obj [(s "type", W.str "single"), (s "single", Json.obj [(s "big", W.str "5")])]) = .error (.goType (s "big")) ∧
    -- unwrap: scalars are read by encoding/json
    serverDec W.rq 12 numList (Json.arr [W.str "5"]) = .error (.goType (s "nums")) ∧
    serverDec W.rq 12 cont (Json.obj [(s "bigI", W.str "7")]) = .error (.goType (s "big_i")) ∧
    serverDec W.rq 12 cont (Json.obj [(s "byK", Json.obj [(s "k", Json.obj [(s "street", W.str "x"), (s "zipCode", W.str "z")])])]) =
      .ok [(s "by_k", .map [(s "k", .msg [(s "street", vstr "x")])])] :=
  ⟨flat_contract_child_lost, flat_contract_int64, oneFlat_contract_multiword_dropped, oneFlat_contract_int64, oneFlat_contract_negzero,
   oneNest_contract_int64, numList_contract, cont_contract_int64, cont_contract_member_dropped⟩

end GoJsonTemplates

/-- non-vacuity: a protojson object meeting the int64 contract. -/
example : Int64Number.Contract "big".toList 5 [("a".toList, Json.bool true), ("big".toList, str (intToDec 5))] := by
  unfold Int64Number.Contract; decide

/-- the statements by which an emitted decoder hands the (edited) document to `protojson.Unmarshal(…, x)`,
which resets `x` before filling it. -/
def resetStatements : List String := ["return protojson.Unmarshal(modified, x)", "return protojson.Unmarshal(remaining, x)"]

def endsInProtojsonReset (shape : List String) : Bool :=
  match shape.getLast? with
  | some s => resetStatements.contains s
  | none => false

/-- the statements by which a root-unwrap decoder allocates its only field anew before filling it. -/
def allocStatements : List String :=
  ["x.Bars = make([]*Leaf, 0, len(itemsRaw))", "x.Items = make([]*Leaf, 0, len(itemsRaw))", "x.Entries = make(map[string]*Leaf)"]

def allocatesItsField (shape : List String) : Bool := shape.any allocStatements.contains

/-- the emitted decoders (of the decoder-zoo probe) that neither reset their target nor allocate their only
field anew: what they leave of a value the target already held is up to the statements in between. -/
def keepsTargetState : List String :=
  (Gen.Decoders.unmarshalShape.filter fun p => !(endsInProtojsonReset p.2 || allocatesItsField p.2)).map (·.1)

set_option maxRecDepth 20000 in
/-- **which emitted decoders reset their target** (over the regenerated statement skeletons of the decoder-zoo
probe): every generated `UnmarshalJSON` ends in `protojson.Unmarshal(…, x)` — which resets `x` — or allocates its
only field anew, except the enum decoder (assigns `*x`), the map-value-unwrap container (`MapValReq`: assigns
member by member and returns) and the scalar root unwrap (`json.Unmarshal(data, &x.<Field>)`: encoding/json
truncates a slice but keeps the entries of a non-nil map). The last two are the recorded
`decoder_keeps_target_state` findings; any other decoder joining this list is a regression. -/
theorem decoders_that_keep_target_state : keepsTargetState = ["Status", "MapValReq", "UnwrapScalarsReq"] := by decide

/-! ## unix-seconds / unix-millis decode and the zone of the process

`Sebuf.TimeText` models what `time.Time.Format(time.RFC3339Nano)` writes for a zone whose offset has seconds and
what a reader makes of it. The decode edit is pinned to the `.UTC()` form by `C11.edit_blocks_transcribed`. -/

open TimeText in
/-- **in UTC the round trip through the text is exact**, for every instant (the emitted edit since `9170ac2`). -/
theorem unix_decode_exact_in_utc (n : Int) : decodeUTC n = n := by
  simp [decodeUTC, parse, format]

open TimeText in
/-- **in a local zone the decoded instant is off by the seconds of the zone's offset** (what the edit did before):
the text cannot carry them. -/
theorem unix_decode_local_error (n off : Int) : decodeLocal n off = n + off.tmod 60 := by
  have h := Int.tmod_add_mul_tdiv off 60
  simp only [decodeLocal, parse, format]
  omega

open TimeText in
/-- so the local form is exact exactly for the offsets that are whole minutes. -/
theorem unix_decode_local_exact_iff (n off : Int) : decodeLocal n off = n ↔ off.tmod 60 = 0 := by
  rw [unix_decode_local_error]; omega

open TimeText in
/-- regression witness (the input fix `9170ac2` was found on): year 1 in `Pacific/Kiritimati`-like local mean time
+12:37:12 reads 12 s late; a whole-minute zone (+14:00) is exact. -/
theorem w_unix_decode_lmt_offset :
    decodeLocal (-62135596800) 45432 = -62135596800 + 12 ∧ decodeLocal (-62135596800) 50400 = -62135596800 := by
  decide

end Sebuf.C04
