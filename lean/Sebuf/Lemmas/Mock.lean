import Sebuf.Mock
/-!
Helper lemmas for C20 (`Sebuf/Props/C20.lean` holds the property theorems).
-/
namespace Sebuf.Mock
open Sebuf Sebuf.Mapping

theorem nth?_mem {α} (l : List α) (i : Nat) (x : α) (h : nth? l i = some x) : x ∈ l := by
  unfold nth? at h
  exact List.mem_of_getElem? h

theorem nth?_isSome {α} (l : List α) (i : Nat) (h : l ≠ []) : ∃ x, nth? l i = some x := by
  unfold nth?
  have hl : 0 < l.length := List.length_pos_iff.mpr h
  have : i % l.length < l.length := Nat.mod_lt _ hl
  exact ⟨l[i % l.length], List.getElem?_eq_getElem this⟩

/-- a clean table: every literal in it is valid UTF-8 text. -/
def CleanTable (t : Table) : Prop := ∀ k v, v ∈ t.get k → v.isSome = true

theorem selString_some (env : Env) (hc : CleanTable env.tbl) (site key fname : Str) :
    ∃ s, selString env site key fname = some s := by
  unfold selString
  cases h : env.tbl.get key with
  | nil => exact ⟨_, rfl⟩
  | cons e es =>
    simp only
    obtain ⟨x, hx⟩ := nth?_isSome (e :: es) (env.pick site) (by simp)
    have hm : x ∈ env.tbl.get key := by rw [h]; exact nth?_mem _ _ _ hx
    have := hc key x hm
    unfold pickOf
    rw [hx]
    cases x with
    | none => simp at this
    | some s => exact ⟨s, rfl⟩


theorem int64_range_parseInt (s : Str) (i : Int) (h : parseInt s = some i) : int64Min ≤ i ∧ i ≤ int64Max := by
  unfold parseInt at h
  cases hr : parseIntRaw s with
  | none => simp [hr] at h
  | some v =>
    simp only [hr] at h
    by_cases hv : inInt64 v = true
    · simp only [hv, if_true] at h
      cases h
      exact of_decide_eq_true hv
    · simp [hv] at h

theorem selInt_range (env : Env) (site key : Str) : int64Min ≤ selInt env site key ∧ selInt env site key ≤ int64Max := by
  unfold selInt
  generalize env.tbl.get key = l
  cases l with
  | nil => simp only; exact ⟨by decide, by decide⟩
  | cons e es =>
    simp only
    generalize (pickOf env site (e :: es)).getD none = x
    cases x with
    | none => simp only [Option.bind, Option.getD]; exact ⟨by decide, by decide⟩
    | some s =>
      cases hp : parseInt s with
      | none => simp only [Option.bind, hp, Option.getD]; exact ⟨by decide, by decide⟩
      | some v => simp only [Option.bind, hp, Option.getD]; exact int64_range_parseInt s v hp

theorem scalar_defects_nil (f : Field) (a : Action) (k : Kind)
    (h : (if f.oneof.isSome then ["oneof_member"] else if f.card == .optional then ["optional_scalar"]
          else if f.card == .repeated then ["repeated_scalar"]
          else if a.retTy != goScalar k then ["selector_type_mismatch"] else []) = ([] : List String)) :
    f.oneof.isSome = false ∧ (f.card == Card.optional) = false ∧ (f.card == Card.repeated) = false ∧
      (a.retTy != goScalar k) = false := by
  by_cases h1 : f.oneof.isSome = true
  · simp [h1] at h
  · by_cases h2 : (f.card == Card.optional) = true
    · simp [h1, h2] at h
    · by_cases h3 : (f.card == Card.repeated) = true
      · simp [h1, h2, h3] at h
      · by_cases h4 : (a.retTy != goScalar k) = true
        · simp [h1, h2, h3, h4] at h
        · exact ⟨by simpa using h1, by simpa using h2, by simpa using h3, by simpa using h4⟩

/-- the typing of one field's value, given the typing of the levels below. -/
theorem fieldWT_mockField (rq : Request) (env : Env) (hc : CleanTable env.tbl) (fuel : Nat) (vis : List Str)
    (hrec : ∀ site c, msgDefects rq fuel vis c = [] → wt rq fuel c (mockMsg rq env fuel vis site c) = true)
    (site mname : Str) (f : Field) (v : Val)
    (hdef : stmtDefects rq vis (msgDefects rq fuel vis) f = [])
    (hmf : mockField rq env vis (mockMsg rq env fuel vis) site mname f = some v) :
    fieldWT rq (wt rq fuel) f v = true := by
  unfold mockField at hmf
  unfold stmtDefects at hdef
  unfold fieldWT
  by_cases hmap : f.card = .map
  · -- map field
    simp only [hmap, beq_self_eq_true, if_true] at hmf hdef ⊢
    by_cases hk : f.kind = .message
    · simp only [hk, beq_self_eq_true, if_true] at hmf hdef
      by_cases hv : vis.contains f.typeName = true
      · rw [if_pos hv] at hmf; cases hmf
      · have hv' : vis.contains f.typeName = false := by simpa using hv
        simp only [hv', Bool.false_eq_true, if_false] at hmf hdef
        cases hfm : rq.findMessage f.typeName with
        | none =>
          simp only [hfm] at hmf
          cases hmf
          simp [elemWT, hk, hfm]
        | some c =>
          simp only [hfm] at hmf hdef
          cases hmf
          by_cases hts : isTimestampName f.typeName = true
          · simp [hts] at hdef
          · simp only [hts] at hdef
            simp only [List.all_cons, List.all_nil, Bool.and_true, elemWT, hk, beq_self_eq_true, if_true, hfm]
            exact hrec _ c (by simpa using hdef)
    · have hk' : (f.kind == Kind.message) = false := by simpa using hk
      simp only [hk', if_false, Bool.false_eq_true] at hmf hdef
      cases hmf
      simp only [List.all_cons, List.all_nil, Bool.and_true]
      unfold elemWT
      simp only [hk', if_false, Bool.false_eq_true]
      revert hdef hk
      cases f.kind <;> simp [emittedScalarTy, goScalar, defaultLit, litAssignable, mapScalarDefault, leafWT, int32Min, int32Max, int64Min, int64Max]
  · have hmap' : (f.card == Card.map) = false := by simpa using hmap
    simp only [hmap', if_false, Bool.false_eq_true] at hmf hdef ⊢
    cases hk : f.kind <;> simp only [hk, actionOf] at hmf hdef
    all_goals first
      | (cases hmf; done)
      | skip
    case float =>
      have := (scalar_defects_nil f .selFloat .float hdef).2.2.2
      simp [Action.retTy, goScalar] at this
    case int32 =>
      have := (scalar_defects_nil f .selInt .int32 hdef).2.2.2
      simp [Action.retTy, goScalar] at this
    case double =>
      obtain ⟨_, _, h3, _⟩ := scalar_defects_nil f .selFloat .double hdef
      rw [if_neg (by simp [h3])]
      unfold elemWT
      simp only [hk]
      split at hmf
      · cases hmf
      · cases hmf; simp [leafWT]
    case bool =>
      obtain ⟨_, _, h3, _⟩ := scalar_defects_nil f .selBool .bool hdef
      rw [if_neg (by simp [h3])]
      unfold elemWT
      simp only [hk]
      split at hmf
      · cases hmf; simp [leafWT]
      · cases hmf
    case int64 =>
      obtain ⟨_, _, h3, _⟩ := scalar_defects_nil f .selInt .int64 hdef
      rw [if_neg (by simp [h3])]
      unfold elemWT
      simp only [hk]
      split at hmf
      · cases hmf
      · cases hmf
        have := selInt_range env site (mname ++ ['.'] ++ f.name)
        simp only [leafWT]
        exact decide_eq_true this
    case string =>
      obtain ⟨_, _, h3, _⟩ := scalar_defects_nil f .selString .string hdef
      rw [if_neg (by simp [h3])]
      unfold elemWT
      simp only [hk]
      obtain ⟨s, hs⟩ := selString_some env hc site (mname ++ ['.'] ++ f.name) f.name
      rw [hs] at hmf
      cases s with
      | nil => simp at hmf
      | cons c cs => simp at hmf; subst hmf; simp [leafWT]
    case message =>
      by_cases h3 : (f.card == Card.repeated) = true
      · simp [h3] at hmf
      · have h3' : (f.card == Card.repeated) = false := by simpa using h3
        simp only [h3', Bool.false_eq_true, if_false] at hmf hdef ⊢
        unfold elemWT
        simp only [hk, beq_self_eq_true, if_true]
        by_cases hv : vis.contains f.typeName = true
        · rw [if_pos hv] at hmf; cases hmf
        have hv' : vis.contains f.typeName = false := by simpa using hv
        simp only [hv', Bool.false_eq_true, if_false] at hmf hdef
        by_cases ho : f.oneof.isSome = true
        · simp [ho] at hdef
        · by_cases hts : isTimestampName f.typeName = true
          · simp [ho, hts] at hdef
          · simp only [ho, hts, Bool.false_eq_true, if_false] at hdef
            cases hfm : rq.findMessage f.typeName with
            | none => simp only [hfm] at hmf; cases hmf; simp
            | some c => simp only [hfm] at hmf hdef; cases hmf; exact hrec _ c hdef

/-- **the typing core**: when every emitted assignment type-checks (`msgDefects = []`) and the
example table holds text only, the value the mock returns inhabits the response type. -/
theorem wt_mockMsg (rq : Request) (env : Env) (hc : CleanTable env.tbl) :
    ∀ fuel path site m, msgDefects rq fuel path m = [] → wt rq fuel m (mockMsg rq env fuel path site m) = true := by
  intro fuel
  induction fuel with
  | zero => intro path site m _; simp [mockMsg, wt]
  | succ n ih =>
    intro path site m hd
    unfold msgDefects at hd
    unfold mockMsg wt
    rw [List.all_eq_true]
    intro p hp
    obtain ⟨f, hf, hfp⟩ := List.mem_filterMap.mp hp
    cases hm : mockField rq env (m.fullName :: path) (mockMsg rq env n (m.fullName :: path)) (site ++ ['.'] ++ f.name) m.name f with
    | none => rw [hm] at hfp; cases hfp
    | some v =>
      rw [hm] at hfp
      cases hfp
      rw [List.any_eq_true]
      refine ⟨f, hf, ?_⟩
      have hdf : stmtDefects rq (m.fullName :: path) (msgDefects rq n (m.fullName :: path)) f = [] := (List.flatMap_eq_nil_iff.mp hd) f hf
      simp only [beq_self_eq_true, Bool.true_and]
      exact fieldWT_mockField rq env hc n (m.fullName :: path) (ih (m.fullName :: path)) _ m.name f v hdf hm

/-! ### plain examples reach the table unchanged -/

theorem litValue_chars (ex : Str) : litValue (ex.map Piece.c) [] = some ex := by
  induction ex with
  | nil => simp [litValue, decodeRun]
  | cons c cs ih => simp [litValue, decodeRun, ih]

theorem lexBody_plain : ∀ (ex : Str) (fuel : Nat) (acc : List Piece) (tail : Str), plain ex = true → ex.length < fuel →
    lexBody fuel (ex ++ '"' :: tail) acc = .done (acc ++ ex.map Piece.c) tail := by
  intro ex
  induction ex with
  | nil =>
    intro fuel acc tail _ hf
    cases fuel with
    | zero => cases hf
    | succ k => simp [lexBody]
  | cons c cs ih =>
    intro fuel acc tail hp hf
    cases fuel with
    | zero => cases hf
    | succ k =>
      have hp' : (!(c == '"' || c == '\\' || illegalChar c)) = true ∧ plain cs = true := by
        simpa [plain, List.all_cons] using hp
      obtain ⟨hc, hcs⟩ := hp'
      have h1 : c ≠ '"' := by intro e; subst e; simp at hc
      have h2 : c ≠ '\\' := by intro e; subst e; simp at hc
      have h3 : illegalChar c = false := by
        cases hi : illegalChar c with
        | false => rfl
        | true => simp [hi] at hc
      have hlen : cs.length < k := by simp at hf; omega
      have := ih k (acc ++ [Piece.c c]) tail hcs hlen
      simp only [List.cons_append, lexBody, h1, h2, h3, if_false, Bool.false_eq_true]
      rw [this]
      simp

theorem afterLit_end (k : Nat) (acc : List (Option Str)) : afterLit (k + 1) [','] acc = .entries acc := by
  simp [afterLit, isBlank]

theorem tableLine_plain (ex : Str) (h : plain ex = true) : tableLine ex = .entries [some ex] := by
  unfold tableLine
  have := lexBody_plain ex ((ex ++ ['"', ',']).length + 1) [] [','] h (by simp; omega)
  simp only [List.nil_append] at this
  simp only [this, afterLit_end, litValue_chars]

end Sebuf.Mock
