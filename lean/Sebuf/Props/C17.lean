import Sebuf.Lemmas.Conc
/-!
# C17 — a request's outcome does not depend on other requests, concurrent or earlier

`Sebuf.Conc` is an interleaving model of the generated Go server: the only state shared between
calls is the validator cell behind `sync.Once`; every call is three atomic steps. `isolation`
quantifies over ALL schedules. The facts that make the model the right one (no other
package-level variable is written outside `sync.Once`/`init`, route closures capture their
configuration by value, client RPC methods never write client fields) are regenerated from the
emitted Go on every run into `Gen.Globals` and decided in `Props/C17Facts`.

Partial by nature: a data race is a property of the Go memory model which this step machine
does not have; `race_run` builds the emitted package with `-race` and compares parallel with
isolated executions.
-/
namespace Sebuf.C17
open Sebuf.Conc

variable {Input Output Val : Type}

/-- **isolation**: under any complete schedule every call's result equals the result of issuing
that call alone. -/
theorem isolation (mk : Val) (f : Input → Val → Output) (inputs : List Input) (sched : List Nat)
    (h : complete sched inputs.length) :
    (run mk f sched (init inputs)).calls.map (·.result) = inputs.map (fun x => some (alone mk f x)) :=
  Sebuf.Conc.isolation mk f inputs sched h

/-- even under an incomplete schedule any published result is the isolated one. -/
theorem isolation_any_prefix (mk : Val) (f : Input → Val → Output) (inputs : List Input) (sched : List Nat) :
    ∀ c ∈ (run mk f sched (init inputs)).calls, ∀ r, c.result = some r → r = alone mk f c.input :=
  isolation_partial_schedules mk f inputs sched

/-- the validator cell only ever holds the one validator. -/
theorem cell_once (mk : Val) (f : Input → Val → Output) (inputs : List Input) (sched : List Nat) :
    (run mk f sched (init inputs)).shared.cell = none ∨ (run mk f sched (init inputs)).shared.cell = some mk :=
  cell_invariant mk f inputs sched

/-- **per-call options are local**: the headers of call `i` are the client defaults overridden by
call `i`'s own options, and do not change when another call's options change. -/
theorem call_options_local (defaults : Headers) (opts : List Headers) (i : Nat) (hi : i < opts.length) :
    requestHeaders defaults opts i = applyHeaders defaults (opts.getD i []) :=
  Sebuf.Conc.call_options_local defaults opts i hi

theorem call_options_independent (defaults : Headers) (opts : List Headers) (i j : Nat)
    (hi : i < opts.length) (hij : i ≠ j) (o : Headers) :
    requestHeaders defaults (opts.set j o) i = requestHeaders defaults opts i :=
  Sebuf.Conc.call_options_independent defaults opts i j hi hij o

/-- what a regression would look like (a shared variable read by `compute`, a client field
written by an RPC): isolation fails. -/
theorem shared_write_breaks_isolation :
    ∃ (inputs : List Nat) (sched₁ sched₂ : List Nat), completeN sched₁ inputs.length ∧ completeN sched₂ inputs.length ∧
      resultsBad () (fun a b (_ : Unit) => a + b) sched₁ inputs ≠ resultsBad () (fun a b (_ : Unit) => a + b) sched₂ inputs :=
  bad_model_not_isolated

end Sebuf.C17
