/-
Theorems about the percent-encoding model of `Sebuf/Url.lean`: decode ∘ encode = id for the
three encoder/decoder pairs, and the separator bytes an encoded string can never contain.
-/
import Sebuf.Url

namespace Sebuf

/-! ## Hex digits -/

theorem unhex_hexUpper (n : Nat) (h : n < 16) : unhex (hexUpper n) = some n := by
  unfold hexUpper unhex
  by_cases h10 : n < 10
  · have h1 : 48 ≤ 48 + n ∧ 48 + n ≤ 57 := by omega
    simp [h10, h1]
  · have h1 : ¬ (48 ≤ 55 + n ∧ 55 + n ≤ 57) := by omega
    have h2 : ¬ (97 ≤ 55 + n ∧ 55 + n ≤ 102) := by omega
    have h3 : 65 ≤ 55 + n ∧ 55 + n ≤ 70 := by omega
    simp only [h10, h1, h2, h3, if_true, if_false, and_self]
    congr 1
    omega

/-- `hexUpper` only produces `'0'..'9'` and bytes `≥ 'A'`. -/
theorem hexUpper_range (n : Nat) : (48 ≤ hexUpper n ∧ hexUpper n ≤ 57) ∨ 65 ≤ hexUpper n := by
  unfold hexUpper
  by_cases h10 : n < 10
  · simp only [h10, if_true]; omega
  · simp only [h10, if_false]; omega

/-! ## Character classes -/

theorem pathKeep_ne_pct (b : Nat) (h : pathKeep b = true) : b ≠ 37 := by
  intro hb; subst hb; revert h; decide

theorem queryKeep_ne_pct (b : Nat) (h : queryKeep b = true) : b ≠ 37 := by
  intro hb; subst hb; revert h; decide

theorem queryKeep_ne_plus (b : Nat) (h : queryKeep b = true) : b ≠ 43 := by
  intro hb; subst hb; revert h; decide

theorem uriComponentKeep_ne_pct (b : Nat) (h : uriComponentKeep b = true) : b ≠ 37 := by
  intro hb; subst hb; revert h; decide

/-! ## Decoder equations -/

theorem unescapeWith_nil (p : Bool) : unescapeWith p [] = some [] := by
  simp [unescapeWith]

theorem unescapeWith_cons_ne (p : Bool) (c : Nat) (rest : Bytes) (hc : c ≠ 37) :
    unescapeWith p (c :: rest) =
      (unescapeWith p rest).map (fun t => (if p && c == 43 then 32 else c) :: t) := by
  rw [unescapeWith.eq_def]
  simp only [if_neg hc]

theorem unescapeWith_pct (p : Bool) (a b x y : Nat) (r : Bytes)
    (ha : unhex a = some x) (hb : unhex b = some y) :
    unescapeWith p (37 :: a :: b :: r) =
      (unescapeWith p r).map (fun t => (16 * x + y) :: t) := by
  rw [unescapeWith.eq_def]
  simp only [if_true, ha, hb]

/-! ## Generic round trip -/

theorem unescapeWith_escapeWith (keep : Nat → Bool) (sp : Bool)
    (hpct : ∀ b, keep b = true → b ≠ 37)
    (hplus : sp = true → ∀ b, keep b = true → b ≠ 43)
    (bs : Bytes) (h : ∀ b ∈ bs, b < 256) :
    unescapeWith sp (escapeWith keep sp bs) = some bs := by
  induction bs with
  | nil => simp [escapeWith, unescapeWith]
  | cons b bs ih =>
    have hb : b < 256 := h b (List.mem_cons_self ..)
    have ih' := ih (fun x hx => h x (List.mem_cons_of_mem _ hx))
    unfold escapeWith
    by_cases hk : keep b = true
    · rw [if_pos hk, unescapeWith_cons_ne _ _ _ (hpct b hk), ih']
      cases sp with
      | false => simp
      | true =>
        have : b ≠ 43 := hplus rfl b hk
        simp [this]
    · rw [if_neg hk]
      by_cases hs : (sp && b == 32) = true
      · rw [if_pos hs, unescapeWith_cons_ne _ _ _ (by decide), ih']
        simp only [Bool.and_eq_true, beq_iff_eq] at hs
        simp [hs.1, hs.2]
      · rw [if_neg hs,
          unescapeWith_pct sp _ _ (b / 16) (b % 16) _
            (unhex_hexUpper _ (by omega)) (unhex_hexUpper _ (by omega)), ih']
        have : 16 * (b / 16) + b % 16 = b := by omega
        simp [this]

/-! ## Generic "byte never produced" -/

/-- A byte that is not kept, is not `%`, is not an upper-case hex digit (stated as: lies
outside `'0'..'9'` and below `'A'`), and is not the `+` written for a space, never occurs in
the output of the encoder. -/
theorem not_mem_escapeWith (keep : Nat → Bool) (sp : Bool) (c : Nat)
    (hk : keep c = false) (hpct : c ≠ 37) (hhex : (c < 48 ∨ 57 < c) ∧ c < 65)
    (hplus : sp = true → c ≠ 43) (bs : Bytes) :
    c ∉ escapeWith keep sp bs := by
  induction bs with
  | nil => simp [escapeWith]
  | cons b bs ih =>
    unfold escapeWith
    have hx : ∀ n, c ≠ hexUpper n := by
      intro n hn
      have := hexUpper_range n
      omega
    by_cases hkb : keep b = true
    · rw [if_pos hkb]
      have : c ≠ b := by
        intro hcb; subst hcb; rw [hk] at hkb; exact Bool.noConfusion hkb
      simp [this, ih]
    · rw [if_neg hkb]
      by_cases hs : (sp && b == 32) = true
      · rw [if_pos hs]
        simp only [Bool.and_eq_true] at hs
        simp [hplus hs.1, ih]
      · rw [if_neg hs]
        simp [hpct, hx, ih]

/-! ## The requested theorems -/

theorem pathUnescape_pathEscape (bs : Bytes) (h : ∀ b ∈ bs, b < 256) :
    pathUnescape (pathEscape bs) = some bs :=
  unescapeWith_escapeWith pathKeep false pathKeep_ne_pct (fun hf => Bool.noConfusion hf) bs h

theorem queryUnescape_queryEscape (bs : Bytes) (h : ∀ b ∈ bs, b < 256) :
    queryUnescape (queryEscape bs) = some bs :=
  unescapeWith_escapeWith queryKeep true queryKeep_ne_pct (fun _ => queryKeep_ne_plus) bs h

theorem decodeURIComponent_encodeURIComponent (bs : Bytes) (h : ∀ b ∈ bs, b < 256) :
    decodeURIComponent (encodeURIComponent bs) = some bs :=
  unescapeWith_escapeWith uriComponentKeep false uriComponentKeep_ne_pct
    (fun hf => Bool.noConfusion hf) bs h

/-- An escaped path segment never contains `/`. -/
theorem pathEscape_no_slash (bs : Bytes) : 47 ∉ pathEscape bs :=
  not_mem_escapeWith pathKeep false 47 (by decide) (by decide) (by decide)
    (fun hf => Bool.noConfusion hf) bs

/-- An escaped path segment never contains `?`. -/
theorem pathEscape_no_question (bs : Bytes) : 63 ∉ pathEscape bs :=
  not_mem_escapeWith pathKeep false 63 (by decide) (by decide) (by decide)
    (fun hf => Bool.noConfusion hf) bs

/-- An escaped query component never contains `&` or `=`. -/
theorem queryEscape_no_amp_eq (bs : Bytes) : 38 ∉ queryEscape bs ∧ 61 ∉ queryEscape bs :=
  ⟨not_mem_escapeWith queryKeep true 38 (by decide) (by decide) (by decide)
      (fun _ => by decide) bs,
   not_mem_escapeWith queryKeep true 61 (by decide) (by decide) (by decide)
      (fun _ => by decide) bs⟩

theorem pathEscape_nonempty (bs : Bytes) : bs ≠ [] → pathEscape bs ≠ [] := by
  intro hne
  cases bs with
  | nil => exact absurd rfl hne
  | cons b bs =>
    unfold pathEscape escapeWith
    by_cases hk : pathKeep b = true
    · rw [if_pos hk]; exact List.cons_ne_nil _ _
    · rw [if_neg hk]
      simp

/-- Go's `PathEscape` does not escape `.`, so the dot segments survive (recorded defect
witness: a path value `..` reaches the URL unescaped). -/
theorem pathEscape_dotdot : pathEscape [46, 46] = [46, 46] := by decide

/-! ## Concrete evaluations -/

/-- The bytes of an ASCII string literal. -/
private def ascii (s : String) : Bytes := s.toList.map Char.toNat

example : hexUpper 0 = 48 ∧ hexUpper 9 = 57 ∧ hexUpper 10 = 65 ∧ hexUpper 15 = 70 := by decide
example : unhex 48 = some 0 ∧ unhex 102 = some 15 ∧ unhex 70 = some 15 ∧ unhex 103 = none ∧
    unhex 71 = none ∧ unhex 47 = none ∧ unhex 58 = none ∧ unhex 64 = none ∧ unhex 96 = none := by
  decide

-- "a/b c" ↦ "a%2Fb%20c"
example : pathEscape [97, 47, 98, 32, 99] = [97, 37, 50, 70, 98, 37, 50, 48, 99] := by decide
example : pathEscape (ascii "a/b c") = ascii "a%2Fb%20c" := by decide
-- "a b&c" ↦ "a+b%26c"
example : queryEscape [97, 32, 98, 38, 99] = [97, 43, 98, 37, 50, 54, 99] := by decide
example : queryEscape (ascii "a b&c") = ascii "a+b%26c" := by decide
-- PathEscape keeps "$&+=:@" and escapes ",;/?"
example : pathEscape (ascii "$&+=:@-_.~") = ascii "$&+=:@-_.~" := by decide
example : pathEscape (ascii ",;/?") = ascii "%2C%3B%2F%3F" := by decide
-- QueryEscape escapes all of those
example : queryEscape (ascii "$&+=:@,;/?") = ascii "%24%26%2B%3D%3A%40%2C%3B%2F%3F" := by decide
-- encodeURIComponent keeps "-_.!~*'()" and escapes "$&+=:@,;/? "
example : encodeURIComponent (ascii "-_.!~*'()") = ascii "-_.!~*'()" := by decide
example : encodeURIComponent (ascii "a b+c/d") = ascii "a%20b%2Bc%2Fd" := by decide
-- "é" = C3 A9 in UTF-8, upper-case hex
example : encodeURIComponent [195, 169] = ascii "%C3%A9" := by decide
example : pathEscape [0, 255] = ascii "%00%FF" := by decide
-- Decoder inputs are written as literal byte lists: a lazily evaluated `ascii "…"` argument is
-- re-evaluated at every nested match of `unescapeWith` during kernel reduction and `decide`
-- then does not terminate in reasonable time (the model itself evaluates instantly).
-- "a%2fb%2Fc+d": either hex case; `+` kept by PathUnescape, turned into a space by QueryUnescape
example : pathUnescape [97, 37, 50, 102, 98, 37, 50, 70, 99, 43, 100] = some (ascii "a/b/c+d") := by
  decide
example : queryUnescape [97, 37, 50, 102, 98, 37, 50, 70, 99, 43, 100] = some (ascii "a/b/c d") := by
  decide
-- "%c3%A9"
example : decodeURIComponent [37, 99, 51, 37, 65, 57] = some [195, 169] := by decide
-- malformed escapes are errors: "%", "ab%4", "%4G", "%zz", "100%"
example : pathUnescape [37] = none ∧ pathUnescape [97, 98, 37, 52] = none ∧
    pathUnescape [37, 52, 71] = none ∧ queryUnescape [37, 122, 122] = none ∧
    decodeURIComponent [49, 48, 48, 37] = none := by decide
example : pathUnescape [] = some [] ∧ pathEscape [] = [] := by decide
-- round trip on a concrete value
example : pathUnescape (pathEscape [97, 47, 98, 32, 99]) = some [97, 47, 98, 32, 99] := by decide
example : queryUnescape (queryEscape [97, 32, 43, 38, 99]) = some [97, 32, 43, 38, 99] := by decide

end Sebuf
