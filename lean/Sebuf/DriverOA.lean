import Sebuf.DriverC05
import Sebuf.OpenApi
import Sebuf.OaComp
import Sebuf.OaEmit
import Sebuf.OaParams
import Sebuf.DriverSchema
import Sebuf.OaSchema
namespace Sebuf.Driver

instance instInhabitedJsonOA : Inhabited Sebuf.Json := ⟨Sebuf.Json.null⟩

/-- Lean.Json → model Json: integers stay exact; other numbers become float tokens. -/
partial def ofLeanJson : Lean.Json → Sebuf.Json
  | .null => .null
  | .bool b => .bool b
  | .num n => if n.exponent == 0 then .num (.int n.mantissa) else .num (.float (toString n).toList)
  | .str s => .str s.toList
  | .arr a => .arr (a.toList.map ofLeanJson)
  | .obj kvs => .obj (kvs.toList.map fun p => (p.1.toList, ofLeanJson p.2))

def strArr (l : List Str) : Lean.Json := Lean.Json.arr (l.map jstr).toArray

def opOaWf (j : Lean.Json) : Lean.Json :=
  let doc := ofLeanJson (j.getObjValD "doc")
  let wf := OpenApi.check doc
  let comps := OpenApi.components doc
  Lean.Json.mkObj [("refs_resolve", Lean.Json.bool wf.refsResolve), ("path_vars_declared", Lean.Json.bool wf.pathVarsDeclared),
    ("param_names_unique", Lean.Json.bool wf.paramNamesUnique), ("op_ids_unique", Lean.Json.bool wf.opIdsUnique),
    ("unresolved", strArr wf.unresolved), ("components", strArr (comps.map Prod.fst)),
    ("unknown_keywords", strArr ((comps.flatMap fun c => Schema.unknownKeywords c.2).eraseDups))]

/-- validate instances against a component (or inline) schema of a document. -/
def opSchemaValid (j : Lean.Json) : Lean.Json :=
  let comps := OpenApi.objOf (ofLeanJson (j.getObjValD "components"))
  let schema := ofLeanJson (j.getObjValD "schema")
  let insts := (getArr j "instances").map ofLeanJson
  Lean.Json.mkObj [("results", Lean.Json.arr (insts.map fun i =>
    let fuel := Schema.defaultFuel comps schema i
    Lean.Json.mkObj [("valid", Lean.Json.bool (Schema.valid comps fuel schema i)),
      ("undeclared", strArr (Schema.undeclaredDeep comps fuel [schema] i []).eraseDups),
      ("failing", strArr (Schema.failingPaths comps fuel [schema] i []).eraseDups)]).toArray)]


def evArr (l : List OaComp.Ev) : Lean.Json := Lean.Json.arr (l.map fun e => Lean.Json.arr #[jstr e.1, jstr e.2]).toArray

/-- predicted component schemas (name, what it describes) and reachable messages of one service. -/
def opOaComponents (j : Lean.Json) : Lean.Json :=
  let rq := requestOf (j.getObjValD "model")
  let svcName := getStr j "service"
  match (rq.files.flatMap (·.services)).find? (·.name == svcName) with
  | none => Lean.Json.mkObj [("driver_err", Lean.Json.str "no such service")]
  | some svc =>
    let fuel := OaComp.defaultFuel rq
    let comps := OaComp.components rq fuel svc
    Lean.Json.mkObj [("components", evArr comps), ("reach", strArr (OaComp.Spec.reach rq fuel svc)),
      ("complete", Lean.Json.bool (OaComp.Spec.complete rq fuel svc comps))]

/-- predicted output file names for a `format` parameter value (absent = no "param" key). -/
def opOaNames (j : Lean.Json) : Lean.Json :=
  let param : Option String := match j.getObjValAs? String "param" with | .ok s => some s | .error _ => none
  let svcs := (getStrList j "services").map String.ofList
  Lean.Json.mkObj [("format", Lean.Json.str (OaEmit.formatOf param)),
    ("names", Lean.Json.arr ((OaEmit.docNames param svcs).map Lean.Json.str).toArray)]


/-- the output format constant for each raw plugin parameter string (`OaParams.formatOfParam`). -/
def opOaFormat (j : Lean.Json) : Lean.Json :=
  Lean.Json.mkObj [("formats", Lean.Json.arr ((getStrList j "params").map fun p =>
    Lean.Json.str (OaParams.formatOfParam (some p))).toArray)]

/-- YAML 1.1 re-typing of property names / plain scalars in the JSON rendering. -/
def opYaml11 (j : Lean.Json) : Lean.Json :=
  let ss := (getStrList j "strings").map String.ofList
  Lean.Json.mkObj [("keys", Lean.Json.arr (ss.map fun s => Lean.Json.str (OaEmit.jsonRenderKey s)).toArray),
    ("retyped", Lean.Json.arr (ss.map fun s => Lean.Json.bool (OaEmit.yaml11Bool s).isSome).toArray),
    ("crashes", Lean.Json.bool (OaEmit.jsonRenderCrashes ss))]


/-- predicted component schema of a message (Impl model of the OpenAPI generator). -/
def opOaSchema (j : Lean.Json) : Lean.Json :=
  let rq := requestOf (j.getObjValD "model")
  Lean.Json.arr ((getStrList j "messages").map fun full =>
    match rq.findMessage full with
    | none => Lean.Json.mkObj [("full", jstr full), ("modelled", Lean.Json.bool false)]
    | some m => Lean.Json.mkObj [("full", jstr full), ("modelled", Lean.Json.bool (OaSchema.componentModelled m)),
        ("schema", toLeanJson (OaSchema.componentSchema rq m)),
        ("variants", Lean.Json.mkObj ((OaSchema.flattenedVariantComponents rq m).map fun c => (String.ofList c.1, toLeanJson c.2)))]).toArray |> fun a => Lean.Json.mkObj [("schemas", a),
    ("builtin", Lean.Json.mkObj (OaSchema.builtinComponents.map fun c => (String.ofList c.1, toLeanJson c.2)))]

end Sebuf.Driver
