import Sebuf.Serve
/-!
# C11 — malformed traffic is rejected cleanly and never crashes server or client

The logic part: whatever the bytes and the content type, the body step either dispatches
exactly what the chosen decoder produced or answers 400 on field `body` without invoking the
handler; every content-type string selects one of the two decoders.

Partial by nature: panics, hangs, stack exhaustion and runtime 5xx are not expressible in a
total functional model. The `serve` correspondence runs mutated and random bodies under every
content type against the really compiled server (and canned responses against the compiled
client) with per-request time limits; it is used as correspondence and failing-input search.
-/
namespace Sebuf.C11
open Sebuf Sebuf.Bind Sebuf.Call Sebuf.Serve

variable {V : Type}

/-- **server_total**: a dispatched request on a body verb with a non-empty body carries exactly
what the decoder selected for the content type returned — never a partially decoded message. -/
theorem server_total (dj db : Bytes → Option (Fields V)) (r : SReq) (m0 m : Fields V)
    (h : serveBody dj db r m0 = .dispatch m) (hv : r.bodyVerb = true) (hb : r.rawBody ≠ []) :
    decodeBody dj db r.ct r.rawBody = some m := by
  unfold serveBody at h
  have he : r.rawBody.isEmpty = false := by
    cases hr : r.rawBody with
    | nil => exact absurd hr hb
    | cons _ _ => rfl
  simp only [hv, Bool.not_true, Bool.false_eq_true, if_false, he, Bool.and_false] at h
  cases hd : decodeBody dj db r.ct r.rawBody with
  | some fs => rw [hd] at h; cases h; rfl
  | none => rw [hd] at h; cases h

/-- **undecodable ⇒ 400 on `body`, handler not invoked**. -/
theorem undecodable_is_400 (dj db : Bytes → Option (Fields V)) (r : SReq) (m0 : Fields V)
    (hv : r.bodyVerb = true) (hb : r.rawBody ≠ []) (hd : decodeBody dj db r.ct r.rawBody = none) :
    serveBody dj db r m0 = .bad400 "body".toList := by
  unfold serveBody
  have he : r.rawBody.isEmpty = false := by
    cases hr : r.rawBody with
    | nil => exact absurd hr hb
    | cons _ _ => rfl
  simp [hv, he, hd]

/-- bodiless verbs never look at the body. -/
theorem bodiless_ignores_body (dj db : Bytes → Option (Fields V)) (r : SReq) (m0 : Fields V)
    (hv : r.bodyVerb = false) : serveBody dj db r m0 = .dispatch m0 := by
  unfold serveBody; simp [hv]

/-- an empty body is not decoded (regenerated fact), so the URL-bound message is dispatched. -/
theorem empty_body_dispatches (dj db : Bytes → Option (Fields V)) (r : SReq) (m0 : Fields V)
    (hb : r.rawBody = []) : serveBody dj db r m0 = .dispatch m0 := by
  unfold serveBody
  have : Gen.Pipeline.emptyBodySkipsDecode = true := by decide
  by_cases hv : r.bodyVerb = true <;> simp [hv, hb, this]

theorem lookupOr_mem (t : List (String × String)) (d k : String) :
    lookupOr t d k = d ∨ lookupOr t d k ∈ t.map Prod.snd := by
  unfold lookupOr
  cases h : t.find? (·.1 == k) with
  | none => exact Or.inl rfl
  | some p => exact Or.inr (List.mem_map.mpr ⟨p, List.mem_of_find?_eq_some h, rfl⟩)

/-- **every content type selects a decoder**: there is no content-type string for which the
emitted dispatch has no branch (unknown types fall back to JSON). -/
theorem codec_total (ct : String) : serverReqCodec ct = "json" ∨ serverReqCodec ct = "binary" := by
  unfold serverReqCodec
  rcases lookupOr_mem Gen.Pipeline.bindDataBasedOnContentTypeTable Gen.Pipeline.bindDataBasedOnContentTypeDefault (filterFlags ct) with h | h
  · rw [h]; decide
  · have : ∀ x ∈ Gen.Pipeline.bindDataBasedOnContentTypeTable.map Prod.snd, x = "json" ∨ x = "binary" := by decide
    exact this _ h

/-- the client's response decoder is total in the same sense. -/
theorem client_codec_total (ct : String) : clientRespCodec ct = "json" ∨ clientRespCodec ct = "binary" := by
  unfold clientRespCodec
  rcases lookupOr_mem Gen.Pipeline.clientUnmarshalResponseTable Gen.Pipeline.clientUnmarshalResponseDefault ct with h | h
  · rw [h]; decide
  · have : ∀ x ∈ Gen.Pipeline.clientUnmarshalResponseTable.map Prod.snd, x = "json" ∨ x = "binary" := by decide
    exact this _ h

/-- non-vacuity: a body verb with a non-empty body whose decoder fails. -/
example : serveBody (V := Nat) (fun _ => none) (fun _ => none) { bodyVerb := true, rawBody := [123], ct := "application/json" } [] =
    .bad400 "body".toList :=
  undecodable_is_400 _ _ _ _ rfl (by decide) (by unfold decodeBody; split <;> rfl)

end Sebuf.C11
