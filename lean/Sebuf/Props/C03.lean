import Sebuf.Route
import Sebuf.Gen.PathParams
import Sebuf.Lemmas.PropsC03
import Sebuf.Lemmas.PropsC18
/-!
# C03 — all five generators agree on each RPC's verb, path and parameter placement

Full statement (`PathsAgree`, `PlacementAgree`, `OneOperation`) is kept visible; the current
code does not satisfy it (witness theorems `not_*`), so the proved theorems are the `_partial`
ones, each under an explicit decidable side condition, plus `verbs_agree` (full).

`knownVerbs` and the operation table model (`upsert`, `opKey`, `oaOps`) are defined in
`Sebuf.Lemmas.PropsC03`, next to the helper lemmas whose statements use them.
-/
namespace Sebuf.C03
open Sebuf

/-- witness records (one field per line: Lean's structure-instance layout rule). -/
def mk (svc meth goName pkg base : String) (cfg : Bool) (path : String) (verb : Nat) (qs : List String) : MethodIn :=
  { svcName := svc.toList
    methName := meth.toList
    methGoName := goName.toList
    goPkg := pkg.toList
    base := base.toList
    hasConfig := cfg
    path := path.toList
    verbNum := verb
    queryNames := qs.map String.toList }

/-- Every string the regenerated `HTTPMethodToString` table can return is one of the five verbs. -/
theorem table_known : ∀ p ∈ Gen.Verbs.table, p.2.toList ∈ knownVerbs := by decide

/-- the `default:` branch of `HTTPMethodToString` returns one of the five verbs too. -/
theorem fallback_known : Gen.Verbs.fallback.toList ∈ knownVerbs := by decide

/-- the verb under which OpenAPI files an operation (lower-cased, unknown ⇒ `post`) is, upper-cased,
the verb the other generators use. -/
theorem openapi_verb (m : MethodIn) : toUpperStr (openapiVerbLower m) = verbOf m := by
  unfold openapiVerbLower verbOf
  by_cases hc : m.hasConfig
  · simp only [hc, if_true]
    have hk := verbOfNum_known m.verbNum
    have := upper_lower_known _ hk
    simp only [this.2, if_false]
    exact this.1
  · have hc' : m.hasConfig = false := by simpa using hc
    simp only [hc', Bool.false_eq_true, if_false]
    decide

/-- **C03 (verbs), full**: all five generators use the same HTTP verb for every RPC. -/
theorem verbs_agree (m : MethodIn) (g g' : Generator) : (route g m).verb = (route g' m).verb := by
  have h := openapi_verb m
  cases g <;> cases g' <;> simp [route, h]

/-- **C03 (clients), full**: the Go client, TS client and TS server derive identical routes. -/
theorem clients_agree (m : MethodIn) :
    route .goClient m = route .tsClient m ∧ route .tsClient m = route .tsServer m := ⟨rfl, rfl⟩

/-- Full path-agreement statement (false today, see `not_paths_agree`). -/
def PathsAgree : Prop := ∀ (m : MethodIn) (g g' : Generator), (route g m).template = (route g' m).template

/-- Side condition of the partial theorem: an explicit method path, and leading slashes where
the generators disagree about adding them. -/
def ExplicitPathOK (m : MethodIn) : Prop :=
  m.hasConfig = true ∧ m.path ≠ [] ∧ (m.base = [] → hasPrefixSlash m.path = true) ∧
  (m.base ≠ [] → hasPrefixSlash m.base = true)

/-- under `ExplicitPathOK` the Go server's path template is the clients'. -/
theorem goHttp_eq_client (m : MethodIn) (h : ExplicitPathOK m) : goHttpPath m = clientPath m := by
  obtain ⟨hc, hp, hb0, hb1⟩ := h
  unfold goHttpPath clientPath customPath buildHTTPPath
  simp only [hc, if_true]
  by_cases hb : m.base = []
  · simp [hb, hp, ensure_of_prefix (hb0 hb)]
  · simp [hb, hp, ensure_of_prefix (hb1 hb), slash_trim]

/-- under `ExplicitPathOK` the OpenAPI path template is the clients'. -/
theorem openapi_eq_client (m : MethodIn) (h : ExplicitPathOK m) : openapiPath m = clientPath m := by
  obtain ⟨hc, hp, _, _⟩ := h
  unfold openapiPath clientPath customPath
  simp [hc, hp]

/-- **C03 (paths), partial**: with an explicit method path (and leading slashes present) the
five path templates coincide. -/
theorem paths_agree_partial (m : MethodIn) (h : ExplicitPathOK m) (g g' : Generator) :
    (route g m).template = (route g' m).template := by
  have h1 := goHttp_eq_client m h
  have h2 := openapi_eq_client m h
  cases g <;> cases g' <;> simp [route, h1, h2]

/-- non-vacuity: a concrete RPC satisfies the side condition. -/
example : ExplicitPathOK (mk "S" "Get" "Get" "p" "/api" true "/users/{id}" 1 []) := by
  unfold ExplicitPathOK; decide

/-- **¬ PathsAgree** (known finding C03:default_path): an un-annotated RPC under a base path. -/
theorem not_paths_agree : ¬ PathsAgree := by
  intro h
  have := h (mk "S" "Echo" "Echo" "p" "/api/v1" false "" 0 []) .goHttp .openapi
  revert this; decide

/-- the three default paths differ pairwise when there is neither base path nor config. -/
theorem default_paths_differ :
    let m : MethodIn := mk "Svc" "GetUser" "GetUser" "pkgv1" "" false "" 0 []
    (route .goHttp m).template = "/pkgv1/get_user".toList ∧
    (route .goClient m).template = "/getUser".toList ∧
    (route .openapi m).template = "/Svc/GetUser".toList := by decide

/-- Placement (which fields travel where) as each generator sees it. -/
def placement (g : Generator) (m : MethodIn) : List Str × List Str × Bool :=
  ((route g m).pathVars, (route g m).queryNames, (route g m).hasBody)

def PlacementAgree : Prop := ∀ m g g', placement g m = placement g' m

/-- OpenAPI declares every variable of the full template exactly once: with a base path that holds
no variable and a method path that repeats none, these are the variables the other generators bind. -/
theorem openapi_path_vars_eq (m : MethodIn) (hb : '{' ∉ m.base) (hnd : (pathVarsOf m).Nodup) :
    openapiPathVars m = pathVarsOf m := by
  unfold openapiPathVars pathVarsOf at *
  by_cases hc : m.hasConfig = true
  · have hcp : customPath m = m.path := by simp [customPath, hc]
    simp only [hc, or_true, if_true] at *
    rw [hcp, C18.extract_buildHTTPPath m.base m.path hb, C18.uniqueFirst_of_nodup _ hnd]
  · have hcf : m.hasConfig = false := by simpa using hc
    have hcp : customPath m = [] := by simp [customPath, hcf]
    simp only [hcf, Bool.false_eq_true, or_false, if_false]
    split
    · rw [hcp, C18.extract_buildHTTPPath m.base [] hb]; rfl
    · rfl

/-- **C03 (placement), partial**: for bodiless verbs, or when no field is query-annotated, all
five generators place every field identically — OpenAPI's declared path parameters being those of
the whole template, this needs a base path without variables and no repeated variable. -/
theorem placement_partial (m : MethodIn)
    (h : isQueryVerb (verbOf m) = true ∨ m.queryNames = []) (hb : '{' ∉ m.base) (hnd : (pathVarsOf m).Nodup)
    (g g' : Generator) :
    placement g m = placement g' m := by
  have hv := openapi_verb m
  have hp := openapi_path_vars_eq m hb hnd
  rcases h with h | h
  · cases g <;> cases g' <;> simp [placement, route, hv, h, hp]
  · cases g <;> cases g' <;> simp [placement, route, hv, h, hp]

/-- **¬ PlacementAgree** (known finding C03:query_on_body_verb): a POST with a query-annotated
field is a query parameter for the Go server and OpenAPI but part of the body for the clients. -/
theorem not_placement_agree : ¬ PlacementAgree := by
  intro h
  have := h (mk "S" "Find" "Find" "p" "" true "/find" 2 ["q"]) .goHttp .goClient
  revert this; decide

/-! ## One operation per RPC in the OpenAPI document -/

/-- **C03 (one operation per RPC), partial**: when the (path, verb) pairs of a service's RPCs
are pairwise distinct, the document has exactly one operation per RPC, in declaration order. -/
theorem one_operation_partial (ms : List MethodIn) (h : (ms.map opKey).Nodup) :
    (oaOps ms).map Prod.snd = ms.map (·.methName) := by
  unfold oaOps
  rw [oaOps_aux ms [] (by simpa using h)]
  simp [List.map_map, Function.comp_def]

def OneOperation : Prop := ∀ ms : List MethodIn, (oaOps ms).length = ms.length

/-- **¬ OneOperation** (known finding C03:openapi_base_path_overwrite): two un-annotated RPCs of
a service with a base path both get the bare base path and the second replaces the first. -/
theorem not_one_operation : ¬ OneOperation := by
  intro h
  have := h [mk "S" "A" "A" "p" "/api" false "" 0 [], mk "S" "B" "B" "p" "/api" false "" 0 []]
  revert this; decide

/-! ### required query parameters -/

/-- **the contract marks as required exactly what the Go server requires**: the OpenAPI document's
`required: true` query parameters are the go-http `QueryParamConfig` rows with `Required: true`,
for every RPC and every verb (both read the flag of each query annotation itself). -/
theorem required_flags_agree (m : MethodIn) :
    (route .openapi m).queryRequired = (route .goHttp m).queryRequired ∧ (route .goHttp m).queryRequired = m.queryRequired := ⟨rfl, rfl⟩

/-- non-vacuity: an RPC whose parameters are required-first, optional-last keeps the distinction. -/
example :
    let m : MethodIn := { mk "S" "Find" "Find" "p" "/v1" true "/find" 1 ["tenant", "limit"] with queryRequired := ["tenant".toList] }
    (route .openapi m).queryRequired = ["tenant".toList] ∧ (route .openapi m).queryNames = ["tenant".toList, "limit".toList] := by decide

/-- **how every generator finds the variables of a path template**, regenerated from `annotations.ExtractPathParams`:
all matches (`limit = -1`) of `\{([^}]+)\}`, group 1 of each — which is what the scanner `extractPathParams`
transcribes (leftmost, non-overlapping; a `{` opens a candidate, the next `}` closes it, an empty candidate is no match). -/
theorem path_param_extraction_transcribed :
    Gen.PathParams.regex = "\\{([^}]+)\\}" ∧ Gen.PathParams.method = "FindAllStringSubmatch" ∧ Gen.PathParams.limit = "-1" ∧
    Gen.PathParams.keptSubmatch = "1" ∧ Gen.PathParams.loops = ["range matches"] := by decide

/-- the scanner on the templates a hand-written replacement gets wrong: variables that share their segment with
literal text, two variables in one segment, stray / doubled / nested braces, an unclosed or empty candidate. -/
example :
    extractPathParams "/users/{user_id}:archive".toList = ["user_id".toList] ∧
    extractPathParams "/compare/{base}...{head}".toList = ["base".toList, "head".toList] ∧
    extractPathParams "/v{version}/users".toList = ["version".toList] ∧
    extractPathParams "/archive}/{user_id}/{post_id}".toList = ["user_id".toList, "post_id".toList] ∧
    extractPathParams "/users/{user_id}}/posts/{post_id}".toList = ["user_id".toList, "post_id".toList] ∧
    extractPathParams "/users/{{user_id}}/posts/{{post_id}}".toList = ["{user_id".toList, "{post_id".toList] ∧
    extractPathParams "/users/{user_id:[0-9]{4}}/posts/{post_id}".toList = ["user_id:[0-9]{4".toList, "post_id".toList] ∧
    extractPathParams "/users/{user_id".toList = [] ∧ extractPathParams "/users/{}/x/{post_id}".toList = ["post_id".toList] := by decide

end Sebuf.C03
