import Sebuf.DriverSchema
import Sebuf.Mapping
import Sebuf.WireEnc
namespace Sebuf.Driver
open Sebuf.Mapping

/-- model Json → Lean.Json (objects keep their order; numbers are printed from their exact text). -/
partial def toLeanJson : Sebuf.Json → Lean.Json
  | .null => Lean.Json.null
  | .bool b => Lean.Json.bool b
  | .num (.int i) => Lean.Json.mkObj [("$int", Lean.Json.str (toString i))]
  | .num (.float t) => Lean.Json.mkObj [("$float", Lean.Json.str (String.ofList t))]
  | .str s => Lean.Json.str (String.ofList s)
  | .arr l => Lean.Json.arr (l.map toLeanJson).toArray
  | .obj kvs => Lean.Json.mkObj (kvs.map fun p => (String.ofList p.1, toLeanJson p.2))

partial def valOf (j : Lean.Json) : Val :=
  match j.getObjVal? "i" with
  | .ok (Lean.Json.str s) => .int (s.toInt?.getD 0)
  | _ =>
  match j.getObjVal? "b" with
  | .ok (Lean.Json.bool b) => .bool b
  | _ =>
  match j.getObjVal? "s" with
  | .ok (Lean.Json.str s) => .str s.toList
  | _ =>
  match j.getObjVal? "f" with
  | .ok (Lean.Json.str s) => .float s.toList (getBool j "q")
  | _ =>
  match j.getObjVal? "y" with
  | .ok (Lean.Json.arr a) => .bytes (a.toList.map fun x => match x.getNat? with | .ok n => n | .error _ => 0)
  | _ =>
  match j.getObjVal? "e" with
  | .ok (Lean.Json.str s) => .enum (s.toInt?.getD 0)
  | _ =>
  match j.getObjVal? "ts" with
  | .ok t => .ts ((String.ofList (getStr t "s")).toInt?.getD 0) (getNat t "n") (getStr t "rfc") (getStr t "date")
  | _ =>
  match j.getObjVal? "m" with
  | .ok (Lean.Json.arr a) => .msg (a.toList.map fun p => (getStr p "n", valOf (p.getObjValD "v")))
  | _ =>
  match j.getObjVal? "l" with
  | .ok (Lean.Json.arr a) => .list (a.toList.map valOf)
  | _ =>
  match j.getObjVal? "mp" with
  | .ok (Lean.Json.arr a) => .map (a.toList.map fun p => (getStr p "k", valOf (p.getObjValD "v")))
  | _ => .msg []

def opSpecEnc (j : Lean.Json) : Lean.Json :=
  let rq := requestOf (j.getObjValD "rq")
  let ty := getStr j "type"
  match rq.findMessage ty with
  | none => Lean.Json.mkObj [("driver_err", Lean.Json.str "unknown message type")]
  | some m =>
    match valOf (j.getObjValD "val") with
    | .msg vs =>
      let fuel := 64
      Lean.Json.mkObj [("spec", toLeanJson (enc rq fuel m vs)), ("pj", toLeanJson (pj rq fuel m vs)),
        ("impl", toLeanJson (WireEnc.wireEnc rq fuel m vs)), ("modelled", Lean.Json.bool (WireEnc.modelled rq m)),
        ("custom", Lean.Json.bool (WireEnc.hasCustomMarshal rq m)),
        ("encode_fails", Lean.Json.bool (WireEnc.encodeFails m vs))]
    | _ => Lean.Json.mkObj [("driver_err", Lean.Json.str "value is not a message")]

end Sebuf.Driver
