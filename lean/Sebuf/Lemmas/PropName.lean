import Sebuf.PropName
namespace Sebuf.PropName
open Sebuf

theorem find_name_of_distinct (fields : List Field) (f : Field) (hf : f ∈ fields)
    (hd : (fields.map Field.name).Nodup) : fields.find? (fun g => g.name == f.name) = some f := by
  induction fields with
  | nil => cases hf
  | cons g gs ih =>
    rw [List.map_cons, List.nodup_cons] at hd
    rw [List.find?_cons]
    by_cases hg : g.name = f.name
    · have : g = f := by
        rcases List.mem_cons.1 hf with h | h
        · exact h.symm
        · exact absurd (hg ▸ List.mem_map_of_mem (f := Field.name) h) hd.1
      simp [this]
    · have hne : (g.name == f.name) = false := by simpa using hg
      rw [hne]
      rcases List.mem_cons.1 hf with h | h
      · exact absurd (h ▸ rfl) hg
      · exact ih h hd.2

end Sebuf.PropName
