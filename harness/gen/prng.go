// Package gen holds the single PRNG every random choice of the harness derives from, and the
// schema / value generators built on it.
package gen

// R is splitmix64.
type R struct{ s uint64 }

func New(seed int64) *R { return &R{s: uint64(seed)*0x9E3779B97F4A7C15 + 0x1234567} }

func (r *R) U64() uint64 {
	r.s += 0x9E3779B97F4A7C15
	z := r.s
	z = (z ^ (z >> 30)) * 0xBF58476D1CE4E5B9
	z = (z ^ (z >> 27)) * 0x94D049BB133111EB
	return z ^ (z >> 31)
}

func (r *R) Intn(n int) int {
	if n <= 0 {
		return 0
	}
	return int(r.U64() % uint64(n))
}

func (r *R) Bool() bool { return r.U64()&1 == 1 }

// P is true with probability num/den.
func (r *R) P(num, den int) bool { return r.Intn(den) < num }

func Pick[T any](r *R, xs []T) T { return xs[r.Intn(len(xs))] }

// Fork derives an independent stream (so that adding choices in one place does not shift others).
func (r *R) Fork(label string) *R {
	// pure: does not advance r (forks may be taken concurrently and in any order)
	h := r.s ^ 0x9E3779B97F4A7C15
	for i := 0; i < len(label); i++ {
		h = (h ^ uint64(label[i])) * 0x100000001b3
	}
	z := h
	z = (z ^ (z >> 30)) * 0xBF58476D1CE4E5B9
	z = (z ^ (z >> 27)) * 0x94D049BB133111EB
	return &R{s: z ^ (z >> 31)}
}
