import Sebuf.Lemmas.Conc
import Sebuf.Gen.Globals
/-!
# C17 — a request's outcome does not depend on other requests, concurrent or earlier

`Sebuf.Conc` is an interleaving model of the generated Go server: the only state shared between
calls is the validator cell behind `sync.Once`; every call is three atomic steps. `isolation`
quantifies over ALL schedules. The facts that make the model the right one are regenerated from
the EMITTED Go (go-http with the mock file, go-client, a probe schema with three services in one
package) on every run into `Sebuf.Gen.Globals` by `harness/cmd/extract/globals.go` and decided
here:

* `shared_state_is_once`: every write to a package-level variable sits inside the func literal
  passed to `validatorOnce.Do` (or in `init`), the written variables are the validator cell, and
  the only method ever called on a package-level variable is `validatorOnce.Do`;
* `routes_share_no_config`: no func literal captures a variable its enclosing function assigns
  more than once; the reused `methodHeaders` variable of `Register*Server` only ever occurs as an
  assignment target or as a by-value call argument; executing `Register*Server` symbolically,
  every route was built from the header getter and the path / query tables named after ITS OWN
  RPC; patterns and (service, RPC) pairs are pairwise distinct;
* `client_fields_readonly`: no method of a generated client struct writes through its receiver
  (fields, maps and slices reachable from it, local aliases included); per-call option functions
  are applied to a composite literal created in the call; header writes go to the request
  created in the call.

Partial by nature: a data race is a property of the Go memory model which this step machine
does not have. The harness check (`harness/props/c17.go`) builds the emitted package with
`-race`, runs random call multisets through ONE shared generated client per service against ONE
shared generated mux at parallelism 1, 2, 4, 16, compares every call with the same call issued
alone on a fresh process, and compares the headers each call carries and the server's dispatch
decision with this model (driver op `c17_calls` over `Conc.requestHeadersOrd` and
`Headers.violations`); any race report is a violation.
-/
namespace Sebuf.C17
open Sebuf.Conc

variable {Input Output Val : Type}

/-- **isolation**: under any complete schedule every call's result equals the result of issuing
that call alone. -/
theorem isolation (mk : Val) (f : Input → Val → Output) (inputs : List Input) (sched : List Nat)
    (h : complete sched inputs.length) :
    (run mk f sched (init inputs)).calls.map (·.result) = inputs.map (fun x => some (alone mk f x)) :=
  Sebuf.Conc.isolation mk f inputs sched h

/-- even under an incomplete schedule any published result is the isolated one. -/
theorem isolation_any_prefix (mk : Val) (f : Input → Val → Output) (inputs : List Input) (sched : List Nat) :
    ∀ c ∈ (run mk f sched (init inputs)).calls, ∀ r, c.result = some r → r = alone mk f c.input :=
  isolation_partial_schedules mk f inputs sched

/-- the validator cell only ever holds the one validator. -/
theorem cell_once (mk : Val) (f : Input → Val → Output) (inputs : List Input) (sched : List Nat) :
    (run mk f sched (init inputs)).shared.cell = none ∨ (run mk f sched (init inputs)).shared.cell = some mk :=
  cell_invariant mk f inputs sched

/-- **per-call options are local**: the headers of call `i` are the client defaults overridden by
call `i`'s own options, and do not change when another call's options change. -/
theorem call_options_local (defaults : Headers) (opts : List Headers) (i : Nat) (hi : i < opts.length) :
    requestHeaders defaults opts i = applyHeaders defaults (opts.getD i []) :=
  Sebuf.Conc.call_options_local defaults opts i hi

theorem call_options_independent (defaults : Headers) (opts : List Headers) (i j : Nat)
    (hi : i < opts.length) (hij : i ≠ j) (o : Headers) :
    requestHeaders defaults (opts.set j o) i = requestHeaders defaults opts i :=
  Sebuf.Conc.call_options_independent defaults opts i j hi hij o

/-- what a regression would look like (a shared variable read by `compute`, a client field
written by an RPC): isolation fails. -/
theorem shared_write_breaks_isolation :
    ∃ (inputs : List Nat) (sched₁ sched₂ : List Nat), completeN sched₁ inputs.length ∧ completeN sched₂ inputs.length ∧
      resultsBad () (fun a b (_ : Unit) => a + b) sched₁ inputs ≠ resultsBad () (fun a b (_ : Unit) => a + b) sched₂ inputs :=
  bad_model_not_isolated


/-! ## Facts regenerated from the emitted Go (`Sebuf.Gen.Globals`) -/

open Sebuf.Gen.Globals in
/-- **the validator cell is the only shared mutable state, and it is written under `sync.Once`
only**: no write to a package-level variable of the emitted package sits outside a
`sync.Once.Do` literal or `init`; every write there is is to `validator` / `validatorErr` under
`validatorOnce`; and `validatorOnce.Do` is the only method called on a package-level variable.
This is the shape `Conc.stepOne` transcribes (step 0 = fill-and-read the cell atomically). -/
theorem shared_state_is_once :
    writesOutsideOnceOrInit = [] ∧
    (∀ w ∈ globalWrites, w.2.2.2.1 = "once:validatorOnce" ∧ (w.1 = "validator" ∨ w.1 = "validatorErr")) ∧
    globalWrites ≠ [] ∧
    onceVars = ["validatorOnce"] ∧
    (∀ c ∈ globalMethodCalls, c.1 = "validatorOnce" ∧ c.2.1 = "Do") := by
  decide

open Sebuf.Gen.Globals in
/-- **per-route configuration is never shared between routes**: no closure captures a variable
that its enclosing function re-assigns; the re-assigned `methodHeaders` local of
`Register*Server` is only ever assigned or passed by value; and each registered route holds the
header getter, path table and query table of its own RPC (symbolic execution of the emitted
`Register*Server` bodies, so a hoisted or stale `methodHeaders` would show here). -/
theorem routes_share_no_config :
    sharedCaptures = [] ∧
    (∀ u ∈ reassignedUses, u.2.2 = "assigned" ∨ u.2.2 = "call-argument-by-value") ∧
    (∀ r ∈ routes, r.methodHeadersOwner = r.method ∧ r.pathParamsOwner = r.method ∧
                   r.queryParamsOwner = r.method) ∧
    (routes.map fun r => (r.register, r.method)).Nodup ∧
    (routes.map (·.pattern)).Nodup ∧
    generatorAssignsMethodHeadersPerIteration = true := by
  decide

open Sebuf.Gen.Globals in
/-- **an RPC only reads the client**: no method of a generated client struct writes through its
receiver; per-call options are applied to an object created in the call; headers are written to
the request created in the call. This is `Conc.rpc` (and not `Conc.rpcBad`). -/
theorem client_fields_readonly :
    clientFieldWritesInRpc = [] ∧
    (∀ t ∈ perCallOptionTargets, t.2.2.1 = "fresh-composite-literal") ∧
    (∀ t ∈ headerWriteTargets, t.2.2.1 = "request-created-in-method") := by
  decide

/-- non-vacuity of the three fact theorems: the probe really has several services with at least
three RPCs each, routes were read for every RPC, every RPC has a client method whose option and
header targets were found. -/
example : 2 ≤ Sebuf.Gen.Globals.probeServices.length ∧
    (∀ s ∈ Sebuf.Gen.Globals.probeServices, 3 ≤ s.2) ∧
    Sebuf.Gen.Globals.routes.length = (Sebuf.Gen.Globals.probeServices.map (·.2)).sum ∧
    (Sebuf.Gen.Globals.clientMethods.filter (·.2.2 = "rpc")).length = Sebuf.Gen.Globals.routes.length ∧
    Sebuf.Gen.Globals.perCallOptionTargets.length = Sebuf.Gen.Globals.routes.length ∧
    Sebuf.Gen.Globals.headerWriteTargets.length = Sebuf.Gen.Globals.routes.length ∧
    3 ≤ Sebuf.Gen.Globals.reassignedInRegister.length := by
  decide

/-- what the writing client would do (`Conc.rpcBad`, the shape `client_fields_readonly` excludes):
call 0's per-call option reaches call 1, which passed none. -/
theorem client_write_breaks_locality :
    ∃ (defaults : Headers) (opts : List Headers) (i j : Nat),
      i < opts.length ∧ j < opts.length ∧ i ≠ j ∧
      requestHeadersBad defaults opts j ≠ applyHeaders defaults (opts.getD j []) ∧
      hget "X-Trace" (requestHeadersBad defaults opts j) = hget "X-Trace" (opts.getD i []) :=
  call_options_leak_bad

/-- per-call options are local in ANY order of issue (sequences: A with options, then B without;
or B first): the headers of call `i` are the defaults overridden by its own options. -/
theorem call_options_local_any_order (order : List Nat) (defaults : Headers) (opts : List Headers)
    (i : Nat) (hi : i ∈ order) :
    requestHeadersOrd rpc order defaults opts i = some (applyHeaders defaults (opts.getD i [])) :=
  call_options_local_ord order defaults opts i hi

example : requestHeadersOrd rpc [1, 0] [("Accept", "a")] [[("X-Trace", "abc")], []] 1 = some [("Accept", "a")] := by
  decide

end Sebuf.C17
