import Sebuf.Driver
import Sebuf.DriverC01
import Sebuf.DriverC09
import Sebuf.TsRoute
import Sebuf.TsHeaders
import Sebuf.Bind
/-!
Driver ops of C08: what the model says a call does in each of the three directions
(TS client → Go server, Go client → TS server, TS client → TS server): the URL each client
writes, what `fetch` makes of it, what each server extracts from it, the header record each
client sends and each server's verdict on it, and the outcome class.
-/
namespace Sebuf.Driver
open Lean (Json)
open Sebuf.Call Sebuf.TsRoute

def c08OptBytes (j : Json) (k : String) : Option Bytes :=
  match j.getObjVal? k with
  | .ok (Json.arr a) => some (a.toList.map fun x => match x.getNat? with | .ok n => n | .error _ => 0)
  | _ => none

def c08BytesJson (b : Bytes) : Json := Json.arr (b.map fun (n : Nat) => Json.num (Lean.JsonNumber.fromNat n)).toArray

def qkindOf (s : Str) : QKind :=
  match String.ofList s with
  | "number" => .number
  | "boolean" => .boolean
  | "int64" => .int64
  | _ => .string

structure C08Field where
  name     : Bytes
  qname    : Bytes
  isPath   : Bool
  kind     : QKind
  text     : Option Bytes   -- `String(req.x)` (V8), `none` for undefined / null
  goText   : Bytes          -- `fmt.Sprint(req.X)`
  goSent   : Bool           -- the Go client's zero test lets the query parameter through
  required : Bool
deriving Repr

def c08FieldOf (j : Json) : C08Field :=
  { name := bytesOfStr (getStr j "name"), qname := bytesOfStr (getStr j "qname"), isPath := getBool j "is_path",
    kind := qkindOf (getStr j "kind"), text := c08OptBytes j "text", goText := getBytes j "go_text",
    goSent := getBool j "go_sent", required := getBool j "required" }

def c08Segs (j : Json) (k : String) : List Seg :=
  (getArr j k).map fun s =>
    match s.getObjValAs? String "var" with
    | .ok v => Seg.var (bytesOfStr v.toList)
    | .error _ => Seg.lit (bytesOfStr (getStr s "lit"))

def c08StrPairs (j : Json) (k : String) : List (Str × Str) :=
  (getArr j k).map fun p =>
    match p with
    | Json.arr #[Json.str a, Json.str b] => (a.toList, b.toList)
    | _ => ([], [])

def c08PairsJson (l : List (Str × Str)) : Json :=
  Json.arr (l.map fun p => Json.arr #[jstr p.1, jstr p.2]).toArray

def isDotText (t : Bytes) : Bool := t == lit "." || t == lit ".."

def jsValJson : JsVal → Json
  | .str b => Json.mkObj [("str", c08BytesJson b)]
  | .numOf t => Json.mkObj [("number_of", c08BytesJson t)]
  | .bool b => Json.mkObj [("bool", Json.bool b)]

/-- what the emitted TS server does with a request target for one route. -/
structure TsServed where
  matched    : Bool
  pathParams : List (Bytes × Option Bytes)
  fields     : List (Bytes × JsVal)     -- URL-derived properties of the handler argument, by proto field name

def tsServe (tpl : List Seg) (fs : List C08Field) (bodyVerb : Bool) (target : Bytes) : TsServed :=
  let pathname := urlNormPath (splitTarget target).1
  let search := (splitTarget target).2
  let full := tplString tpl
  let pp := (varsOf tpl).map fun n => (n, tsPathParam full n pathname)
  let qf : List (Bytes × JsVal) :=
    if bodyVerb then []
    else (fs.filter (!·.isPath)).map fun f => (f.name, tsQueryField f.kind (tsQueryGet f.qname search))
  let pf : List (Bytes × JsVal) := (fs.filter (·.isPath)).map fun f =>
    (f.name, tsPathField f.kind (((pp.lookup f.name).getD none).getD []))
  { matched := demoMatch pathname full, pathParams := pp, fields := qf ++ pf }

def tsServedJson (s : TsServed) : Json :=
  Json.mkObj [("matched", Json.bool s.matched),
    ("path_params", Json.arr (s.pathParams.map fun p => Json.arr #[c08BytesJson p.1, match p.2 with | some b => c08BytesJson b | none => Json.null]).toArray),
    ("fields", Json.arr (s.fields.map fun p => Json.arr #[c08BytesJson p.1, jsValJson p.2]).toArray)]

/-- class of the first URL-derived property that is not (proto3 JSON-wise) the value sent. -/
def tsArgClass (fs : List C08Field) (sent : C08Field → Option Bytes) (bodyVerb : Bool) (s : TsServed) : String :=
  let bad := fs.filter fun f =>
    if !f.isPath && bodyVerb then false
    else match s.fields.lookup f.name with
      | some v => !(JsVal.sameProto v (specField f.kind (sent f)))
      | none => true
  match bad with
  | [] => "ok"
  | f :: _ =>
    if f.isPath && (sent f).any isDotText then "path_value_dot_segment"
    else if f.isPath && f.kind == .boolean then "ts_server_bool_path_param_is_string"
    else if !f.isPath && f.kind == .int64 && (sent f).isNone then "ts_server_absent_64bit_query_is_empty_string"
    else "url_value_mismatch"

def c08LibFor (libs : List (Str × Headers.Lib × TsHeaders.JsLib)) (v : Str) : Headers.Lib × TsHeaders.JsLib :=
  match libs.find? (·.1 == v) with
  | some p => p.2
  | none => ({}, {})

def opC08Case (j : Json) : Json :=
  let tpl := c08Segs j "template"
  let verb := String.ofList (getStr j "verb")
  let bodyVerb := Gen.Pipeline.bodyVerbs.contains verb
  let fs := (getArr j "fields").map c08FieldOf
  let scenario := String.ofList (getStr j "scenario")
  let serverLoads := getBool j "server_loads"
  -- the TS client's URL
  let jsVals (n : Bytes) : Bytes := ((fs.find? fun f => f.isPath && f.name == n).bind (·.text)).getD (lit "undefined")
  let tsPath := tsClientPath (tplString tpl) (varsOf tpl) jsVals
  let tsPairs := tsClientQuery verb ((fs.filter (!·.isPath)).map fun f => { name := f.qname, kind := f.kind, text := f.text })
  let tsRaw := tsClientTarget tsPath tsPairs
  let tsFetch := urlNormPath tsPath ++ (if formSerialize tsPairs = [] then [] else 63 :: formSerialize tsPairs)
  -- the Go client's URL
  let goVals (n : Bytes) : Bytes := ((fs.find? fun f => f.isPath && f.name == n).map (·.goText)).getD []
  let goPath := renderPath tpl goVals
  let goPairs := if bodyVerb then [] else (fs.filter fun f => !f.isPath && f.goSent).map fun f => (f.qname, f.goText)
  let goEnc := encodeValues goPairs
  let goTarget := goPath ++ (if goEnc = [] then [] else 63 :: goEnc)
  -- headers
  let hs := j.getObjValD "headers"
  let svcH := (getArr hs "service").map hspecOf
  let methH := (getArr hs "method").map hspecOf
  let ts := hs.getObjValD "ts"
  let tsRec := tsCallHeaders (svcH.map (·.name)) (methH.map (·.name)) (c08StrPairs ts "defaults") (c08StrPairs ts "client_opts")
    (c08StrPairs ts "call_headers") (c08StrPairs ts "call_opts")
  let goRec := (c08StrPairs hs "go").foldl (fun acc p => recSet (Headers.lower p.1) p.2 acc) []
  let intended := c08StrPairs hs "intended"
  let libs : List (Str × Headers.Lib × TsHeaders.JsLib) := (getArr hs "libs").map fun l =>
    (getStr l "value", libOf l, { numberOK := getBool l "js_number" })
  -- a record as the servers see it: names case-insensitive, values of equal names joined by ", "
  let joined (r : List (Str × Str)) (n : Str) : Option Str :=
    match (r.filter fun p => Headers.lower p.1 == n).map (·.2) with
    | [] => none
    | v :: vs => some (vs.foldl (fun a b => a ++ ", ".toList ++ b) v)
  let goView (r : List (Str × Str)) : Headers.Hdrs := fun n => (joined r n).map fun v => (v, (c08LibFor libs v).1)
  let tsView (r : List (Str × Str)) : TsHeaders.Hdrs := fun n => (joined r n).map fun v => (v, (c08LibFor libs v).2)
  -- the option helpers wrote something else than the caller meant, for some declared header
  let conflict := ((svcH ++ methH).map (·.name)).any fun n =>
    joined tsRec (Headers.lower n) != ((intended.find? fun p => Headers.lower p.1 == Headers.lower n).map (·.2))
  let hdrClass (dispatched : Bool) (fromTs : Bool) : String :=
    if dispatched then
      (if scenario == "ok" then "ok"
       else if fromTs && conflict then "ts_header_option_shared"
       else "dispatched_despite_" ++ scenario ++ "_header")
    else if scenario != "ok" then "rejected_headers"
    else if fromTs && conflict then "ts_header_option_shared"
    else "rejected_headers_unexpected"
  let anyDotJs := fs.any fun f => f.isPath && f.text.any isDotText
  let anyDotGo := fs.any fun f => f.isPath && isDotText f.goText
  -- TS client -> Go server
  let fetchPath := (splitTarget tsFetch).1
  let goBind := matchPath tpl fetchPath
  let goQuery := parseQuery (splitTarget tsFetch).2
  let tsGo : String :=
    if needsCleaning fetchPath || goBind.isNone then (if anyDotJs then "path_value_dot_segment" else "route_mismatch")
    else
      let h := hdrClass (Headers.dispatched svcH methH (goView tsRec)) true
      if h != "ok" then h
      else if (fs.any fun f => !f.isPath && f.required && (queryGet f.qname goQuery).isNone) then
        (if bodyVerb then "required_query_on_body_verb" else "required_query_zero_value")
      else if (fs.any fun f => f.isPath && ((goBind.getD []).lookup f.name) != f.text) then "url_value_mismatch"
      else "ok"
  -- Go client -> TS server ; TS client -> TS server
  let served (target : Bytes) (rec : List (Str × Str)) (fromTs : Bool) (sent : C08Field → Option Bytes) (anyDot : Bool) : String × TsServed :=
    let s := tsServe tpl fs bodyVerb target
    let cls :=
      if !serverLoads then "ts_server_module_does_not_load"
      else if !s.matched then (if anyDot then "path_value_dot_segment" else "route_mismatch")
      else
        let h := hdrClass (TsHeaders.dispatched svcH methH (tsView rec)) fromTs
        if h != "ok" then h else tsArgClass fs sent bodyVerb s
    (cls, s)
  let goSentText (f : C08Field) : Option Bytes := if f.isPath || f.goSent then some f.goText else none
  let tsSentText (f : C08Field) : Option Bytes := if f.isPath then f.text else (if sendsQuery f.kind f.text then f.text else none)
  let gt := served goTarget goRec false goSentText anyDotGo
  let tt := served tsFetch tsRec true tsSentText anyDotJs
  Json.mkObj [
    ("ts_raw_target", jstr (strOfBytes tsRaw)), ("ts_fetch_target", jstr (strOfBytes tsFetch)), ("go_target", jstr (strOfBytes goTarget)),
    ("ts_headers", c08PairsJson tsRec), ("header_conflict", Json.bool conflict),
    ("go_verdict_on_ts_headers", Json.arr ((Headers.violations svcH methH (goView tsRec)).map jstr).toArray),
    ("ts_verdict_on_ts_headers", Json.arr ((TsHeaders.violations svcH methH (tsView tsRec)).map jstr).toArray),
    ("ts_verdict_on_go_headers", Json.arr ((TsHeaders.violations svcH methH (tsView goRec)).map jstr).toArray),
    ("ts_go", Json.str tsGo), ("go_ts", Json.str gt.1), ("ts_ts", Json.str tt.1),
    ("ts_on_go", tsServedJson gt.2), ("ts_on_ts", tsServedJson tt.2)]

/-- `ts_header_check`: the TS server's and the Go server's verdicts on one set of sent headers. -/
def opTsHeaderCheck (j : Json) : Json :=
  let svc := (getArr j "service").map hspecOf
  let meth := (getArr j "method").map hspecOf
  let sent : List (Str × Str × Headers.Lib × TsHeaders.JsLib) := (getArr j "sent").map fun h =>
    (Headers.lower (getStr h "name"), getStr h "value", libOf h, { numberOK := getBool h "js_number" })
  let goReq : Headers.Hdrs := fun n => (sent.find? (·.1 == n)).map fun p => (p.2.1, p.2.2.1)
  let tsReq : TsHeaders.Hdrs := fun n => (sent.find? (·.1 == n)).map fun p => (p.2.1, p.2.2.2)
  let specReq := Headers.specRequired svc meth
  let gateBad := specReq.filter fun h =>
    match goReq (Headers.lower h.name) with
    | none => true
    | some (v, lib) => v == [] || Headers.clearlyInvalid lib h v
  Json.mkObj [("ts_dispatched", Json.bool (TsHeaders.dispatched svc meth tsReq)),
              ("ts_violations", Json.arr ((TsHeaders.violations svc meth tsReq).map jstr).toArray),
              ("go_dispatched", Json.bool (Headers.dispatched svc meth goReq)),
              ("go_violations", Json.arr ((Headers.violations svc meth goReq).map jstr).toArray),
              ("spec_required", Json.arr (specReq.map fun h => jstr h.name).toArray),
              ("spec_gate_bad", Json.arr (gateBad.map fun h => jstr h.name).toArray)]

/-- `ts_extract`: what the emitted TS server extracts from a raw request target, and what Go's
`ServeMux` + `url.ParseQuery` extract from it. -/
def opTsExtract (j : Json) : Json :=
  let tpl := c08Segs j "template"
  let fs := (getArr j "fields").map c08FieldOf
  let bodyVerb := getBool j "body_verb"
  let target := getBytes j "target"
  let s := tsServe tpl fs bodyVerb target
  let path := (splitTarget target).1
  let goBind := if needsCleaning path then none else matchPath tpl path
  let goQuery := parseQuery (splitTarget target).2
  -- the emitted Go middleware decodes the body in the step `Gen.Pipeline.order` lists last among
  -- path / query / body: URL-bound fields then come from the body (C02 `body_resets_url_fields`)
  let bodyLast := (Bind.relevant Bind.currentOrder).getLast? == some Bind.Step.body
  Json.mkObj [("ts", tsServedJson s),
    ("go_url_fields_from_body", Json.bool (bodyLast && bodyVerb && getBool j "has_body")),
    ("ts_reads_query", Json.bool (!bodyVerb)),
    ("go_matched", Json.bool goBind.isSome),
    ("go_path", Json.arr ((goBind.getD []).map fun p => Json.arr #[c08BytesJson p.1, c08BytesJson p.2]).toArray),
    ("go_query", Json.arr ((fs.filter (!·.isPath)).map fun f =>
      Json.arr #[c08BytesJson f.name, match queryGet f.qname goQuery with | some b => c08BytesJson b | none => Json.null]).toArray)]

end Sebuf.Driver
