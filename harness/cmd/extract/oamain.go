package main

import (
	"fmt"
	"go/ast"
	"go/token"
	"strconv"
	"strings"
)

func init() { register("OpenApiMain", extractOpenAPIMain) }

// extractOpenAPIMain reads cmd/protoc-gen-openapiv3/main.go: the `format` parameter switch,
// the default format, the extension chosen per format and the file-name pattern.
func extractOpenAPIMain() (string, error) {
	_, f, err := parseFile("cmd/protoc-gen-openapiv3/main.go")
	if err != nil {
		return "", err
	}
	pf := findFunc(f, "parseFormat")
	if pf == nil {
		return "", fmt.Errorf("parseFormat not found")
	}
	def := ""
	var rows [][2]string
	paramKey := ""
	ast.Inspect(pf.Body, func(n ast.Node) bool {
		switch x := n.(type) {
		case *ast.AssignStmt:
			if len(x.Lhs) == 1 && exprString(x.Lhs[0]) == "format" && x.Tok == token.DEFINE {
				def = exprString(x.Rhs[0])
			}
		case *ast.IndexExpr:
			// the key read from the parameter map: `params["format"]`, or `parseParameters(…)["format"]`
			if bl, ok := x.Index.(*ast.BasicLit); ok && bl.Kind == token.STRING {
				if exprString(x.X) == "params" || strings.HasPrefix(exprString(x.X), "parseParameters") {
					paramKey, _ = strconv.Unquote(bl.Value)
				}
			}
		case *ast.SwitchStmt:
			for _, c := range x.Body.List {
				cc := c.(*ast.CaseClause)
				val := ""
				for _, st := range cc.Body {
					// `format = V` or, in the early-return form, `return V`
					if as, ok := st.(*ast.AssignStmt); ok && len(as.Rhs) == 1 {
						val = exprString(as.Rhs[0])
					}
					if rs, ok := st.(*ast.ReturnStmt); ok && len(rs.Results) == 1 {
						val = exprString(rs.Results[0])
					}
				}
				if cc.List == nil && val != "" && def == "" {
					def = val // `default: return V`
				}
				for _, e := range cc.List {
					if bl, ok := e.(*ast.BasicLit); ok {
						s, _ := strconv.Unquote(bl.Value)
						rows = append(rows, [2]string{s, val})
					}
				}
			}
		}
		return true
	})
	wf := findFunc(f, "writeServiceFile")
	if wf == nil {
		return "", fmt.Errorf("writeServiceFile not found")
	}
	defExt, jsonExt, pattern, nameArg := "", "", "", ""
	ast.Inspect(wf.Body, func(n ast.Node) bool {
		switch x := n.(type) {
		case *ast.AssignStmt:
			if len(x.Lhs) == 1 && exprString(x.Lhs[0]) == "ext" {
				if bl, ok := x.Rhs[0].(*ast.BasicLit); ok {
					s, _ := strconv.Unquote(bl.Value)
					if x.Tok == token.DEFINE {
						defExt = s
					} else {
						jsonExt = s
					}
				}
			}
		case *ast.CallExpr:
			if exprString(x.Fun) == "fmt.Sprintf" && len(x.Args) >= 2 {
				if bl, ok := x.Args[0].(*ast.BasicLit); ok {
					pattern, _ = strconv.Unquote(bl.Value)
					nameArg = fullExprString(x.Args[1])
				}
			}
		}
		return true
	})
	// one document per service of each file to generate
	perService := false
	if ps := findFunc(f, "processFileServices"); ps != nil {
		ast.Inspect(ps.Body, func(n ast.Node) bool {
			if rs, ok := n.(*ast.RangeStmt); ok && exprString(rs.X) == "file.Services" {
				perService = true
			}
			return true
		})
	}
	skipsNonGenerate := false
	if gf := findFunc(f, "generateOpenAPIFiles"); gf != nil {
		ast.Inspect(gf.Body, func(n ast.Node) bool {
			if u, ok := n.(*ast.UnaryExpr); ok && u.Op == token.NOT && exprString(u.X) == "file.Generate" {
				skipsNonGenerate = true
			}
			return true
		})
	}
	// parseParameters: how the parameter string is cut and what is stored in the map
	pp := findFunc(f, "parseParameters")
	if pp == nil {
		return "", fmt.Errorf("parseParameters not found")
	}
	pairSplit, kvSplit, storeKey, storeValue := "", "", "", ""
	kvLimit := -1
	cutKey, cutVal := "", ""
	limits := map[string]int{}
	ast.Inspect(pp.Body, func(n ast.Node) bool {
		switch x := n.(type) {
		case *ast.ValueSpec: // const splitLimit = 2
			for i, nm := range x.Names {
				if i < len(x.Values) {
					if bl, ok := x.Values[i].(*ast.BasicLit); ok {
						if v, err := strconv.Atoi(bl.Value); err == nil {
							limits[nm.Name] = v
						}
					}
				}
			}
		case *ast.CallExpr:
			switch exprString(x.Fun) {
			case "strings.Split":
				pairSplit = srcOf(x)
			case "strings.SplitSeq":
				// the iterator form of the same cut
				pairSplit = strings.Replace(srcOf(x), "strings.SplitSeq(", "strings.Split(", 1)
			case "strings.Cut":
				// `k, v, found := strings.Cut(pair, "=")` is `strings.SplitN(pair, "=", 2)` with found = two pieces
				if len(x.Args) == 2 {
					kvSplit = "strings.SplitN(" + srcOf(x.Args[0]) + ", " + srcOf(x.Args[1]) + ", splitLimit)"
					kvLimit = 2
				}
			case "strings.SplitN":
				kvSplit = srcOf(x)
				if len(x.Args) == 3 {
					if bl, ok := x.Args[2].(*ast.BasicLit); ok {
						kvLimit, _ = strconv.Atoi(bl.Value)
					} else if v, ok := limits[exprString(x.Args[2])]; ok {
						kvLimit = v
					}
				}
			}
		case *ast.AssignStmt:
			if len(x.Lhs) == 3 && len(x.Rhs) == 1 {
				if c, ok := x.Rhs[0].(*ast.CallExpr); ok && exprString(c.Fun) == "strings.Cut" {
					cutKey, cutVal = exprString(x.Lhs[0]), exprString(x.Lhs[1])
				}
			}
			if len(x.Lhs) == 1 && len(x.Rhs) == 1 {
				if ix, ok := x.Lhs[0].(*ast.IndexExpr); ok && exprString(ix.X) == "params" {
					storeKey, storeValue = srcOf(ix.Index), srcOf(x.Rhs[0])
				}
			}
		}
		return true
	})
	if cutKey != "" {
		// the two results of Cut are the two pieces
		storeKey = strings.ReplaceAll(storeKey, "("+cutKey+")", "(kv[0])")
		storeValue = strings.ReplaceAll(storeValue, "("+cutVal+")", "(kv[1])")
	}
	if pairSplit == "" || kvSplit == "" || storeKey == "" || kvLimit < 0 {
		return "", fmt.Errorf("parseParameters: expected strings.Split / strings.SplitN / params[k] = v, found split=%q cut=%q limit=%d store=%q", pairSplit, kvSplit, kvLimit, storeKey)
	}
	var b strings.Builder
	b.WriteString(header("OpenApiMain", "cmd/protoc-gen-openapiv3/main.go"))
	fmt.Fprintf(&b, "def paramKey : String := %s\n", leanStr(paramKey))
	fmt.Fprintf(&b, "def defaultFormat : String := %s\n", leanStr(strings.TrimPrefix(def, "openapiv3.")))
	var lr [][2]string
	for _, r := range rows {
		lr = append(lr, [2]string{r[0], strings.TrimPrefix(r[1], "openapiv3.")})
	}
	fmt.Fprintf(&b, "/-- value of the `format` parameter ↦ output format constant. -/\ndef formatTable : List (String × String) := %s\n", leanPairs(lr))
	fmt.Fprintf(&b, "def defaultExt : String := %s\ndef jsonExt : String := %s\n", leanStr(defExt), leanStr(jsonExt))
	fmt.Fprintf(&b, "def fileNamePattern : String := %s\ndef fileNameArg : String := %s\n", leanStr(pattern), leanStr(nameArg))
	fmt.Fprintf(&b, "def onePerService : Bool := %v\ndef skipsNonGenerate : Bool := %v\n", perService, skipsNonGenerate)
	b.WriteString("/-- `parseParameters`: how the parameter string is cut and what is stored. -/\n")
	fmt.Fprintf(&b, "def pairSplit : String := %s\ndef kvSplit : String := %s\ndef kvLimit : Nat := %d\n", leanStr(pairSplit), leanStr(kvSplit), kvLimit)
	fmt.Fprintf(&b, "def storeKey : String := %s\ndef storeValue : String := %s\n", leanStr(storeKey), leanStr(storeValue))
	b.WriteString("end Sebuf.Gen.OpenApiMain\n")
	return b.String(), nil
}
