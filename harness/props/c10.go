package props

import (
	"encoding/base64"
	"fmt"
	"sort"
	"strings"
	"sync"
	"time"
	"verif/harness/plug"
	"verif/harness/tsrun"

	"google.golang.org/protobuf/encoding/protojson"
	"google.golang.org/protobuf/proto"
	"google.golang.org/protobuf/reflect/protoreflect"
	"google.golang.org/protobuf/types/dynamicpb"

	"verif/harness/drv"
	"verif/harness/gen"
	"verif/harness/ir"
	"verif/harness/scratch"
)

func init() { Registry["C10"] = C10 }

var c10Sources = []string{"header_violation", "url_binding", "malformed_body", "rule_violation", "plain_error", "sebuf_error", "wrapped_sebuf_error",
	"validation_from_handler", "wrapped_validation_from_handler", "custom_message", "wrapped_custom_message"}
var c10Hooks = []string{"none", "nil", "message", "status", "status_message", "headers", "headers_status", "body"}
var hookStatus = map[string]int{"status": 418, "status_message": 422, "headers_status": 503, "body": 409}

// C10: errors surface with the documented status, body, format and client-side type.
func C10(c *Ctx) error {
	res := c.Res
	res.Rule = "every error source {header violation, URL-binding violation, malformed body, rule violation with top-level / nested / repeated / map field paths, plain error, sebuf Error (plain, wrapped), ValidationError from the handler (plain, wrapped), custom *Error message (plain, wrapped)} x content type {JSON, binary} x error hook behaviour {none, nil, message, status, status+message, headers, headers+status, writes body}, raw against the compiled Go server and through the compiled Go client; " +
		"a case is one request; every case is non-trivial; distinct by (source, variant, content type, hook, via)"
	res.Assumptions = append(res.Assumptions, "rule violations come from /verif/stubs/protovalidate (field paths built as the real library documents them)")
	r := gen.New(c.Seed)
	n := c.N(2, 6)
	bt, items, err := buildBatch(n, func(i int) *ir.Request { return gen.GenErrorFile(r.Fork(fmt.Sprint("c10-", i)), i) },
		scratch.AddOpts{GoHTTP: true, GoClient: true}, false)
	if err != nil {
		return err
	}
	defer bt.Close()
	type kase struct {
		x        *rtItem
		src      string
		variant  string
		ct       string
		hook     string
		via      string // serve | client
		op       map[string]any
		wantViol []string // expected violation field names (as a set)
		wantMsg  string
		wantJSON any // custom message as JSON
	}
	var all []*kase
	for xi, x := range items {
		if !x.it.Built {
			res.Violation("build", "the error schema does not build: "+x.it.GenErr+firstLines(x.it.BuildLog, 8), map[string]any{"schema": x.req})
			continue
		}
		rr := r.Fork(fmt.Sprint("cases-", xi))
		pkg := x.file.Package
		leafMD := x.msgDesc("." + pkg + ".Leaf")
		street := string(leafMD.Fields().Get(0).Name())
		postMD := x.msgDesc("." + pkg + ".PostReq")
		nfMD := x.msgDesc("." + pkg + ".NotFoundError")
		goodPost := `{"name":"n","qty":1}`
		for _, src := range c10Sources {
			variants := []string{""}
			if src == "rule_violation" {
				variants = []string{"top", "child", "repeated", "map", "two_fields", "repeated_two", "map_two", "repeated_many"}
			}
			if src == "plain_error" || src == "validation_from_handler" {
				// "large": an error body well beyond any small buffer (4 KiB, 8 KiB): it is carried whole
				variants = []string{"", "large"}
			}
			if src == "url_binding" {
				variants = []string{"bad_path_int", "missing_required_query", "bad_path_range", "bad_query_int", "bad_query_bool"}
			}
			for _, variant := range variants {
				for _, ct := range []string{"application/json", "application/x-protobuf"} {
					for _, hook := range c10Hooks {
						if !c.Thorough() && rr.P(1, 2) && hook != "none" {
							continue
						}
						for _, via := range []string{"serve", "client"} {
							ks := &kase{x: x, src: src, variant: variant, ct: ct, hook: hook, via: via}
							hdrs := [][2]string{{"Content-Type", ct}, {"X-Req", "1"}}
							if via == "serve" && rr.P(1, 4) {
								// a media-type parameter does not change the codec: the error is encoded the way the request was
								hdrs[0][1] = ct + gen.Pick(rr, []string{"; charset=utf-8", ";version=1", "; q=1"})
								ks.variant += "+ct_parameter"
							}
							method, url, body := "POST", "/e/p", goodPost
							handler := map[string]any{"kind": "ok"}
							switch src {
							case "header_violation":
								hdrs = hdrs[:1]
								ks.wantViol = []string{"X-Req"}
							case "url_binding":
								method, body = "GET", ""
								switch variant {
								case "bad_path_int":
									url, ks.wantViol = "/e/g/abc?must=x", []string{"num"}
								case "bad_path_range":
									url, ks.wantViol = "/e/g/2147483648?must=x", []string{"num"}
								case "bad_query_int":
									// the violation names the FIELD (limit), not the wire name (page_size)
									url, ks.wantViol = "/e/g/5?must=x&page_size=ten", []string{"limit"}
								case "bad_query_bool":
									url, ks.wantViol = "/e/g/5?must=x&archived=maybe", []string{"include_archived"}
								default:
									url, ks.wantViol = "/e/g/5", []string{"must"}
								}
							case "malformed_body":
								body, ks.wantViol = `{"name": `, []string{"body"}
							case "rule_violation":
								switch variant {
								case "top":
									body, ks.wantViol = `{"name":"","qty":1}`, []string{"name"}
								case "child":
									body, ks.wantViol = fmt.Sprintf(`{"name":"n","home":{"%s":""}}`, ir.JSONName(street)), []string{"home." + street}
								case "repeated":
									body, ks.wantViol = fmt.Sprintf(`{"name":"n","places":[{"%s":"ok"},{"%s":""}]}`, ir.JSONName(street), ir.JSONName(street)), []string{"places." + street}
								case "map":
									body, ks.wantViol = fmt.Sprintf(`{"name":"n","byKey":{"k":{"%s":""}}}`, ir.JSONName(street)), []string{"by_key." + street}
								case "repeated_two":
									// two failing elements: two violations whose field paths coincide — both are reported
									body, ks.wantViol = fmt.Sprintf(`{"name":"n","places":[{"%s":""},{"%s":"ok"},{"%s":""}]}`, ir.JSONName(street), ir.JSONName(street), ir.JSONName(street)), []string{"places." + street, "places." + street}
								case "repeated_many":
									// 150 failing elements: an error body of several KiB, every violation reported
									var els []string
									for e := 0; e < 150; e++ {
										els = append(els, fmt.Sprintf(`{"%s":""}`, ir.JSONName(street)))
										ks.wantViol = append(ks.wantViol, "places."+street)
									}
									body = `{"name":"n","places":[` + strings.Join(els, ",") + `]}`
								case "map_two":
									body, ks.wantViol = fmt.Sprintf(`{"name":"n","byKey":{"a":{"%s":""},"b":{"%s":""}}}`, ir.JSONName(street), ir.JSONName(street)), []string{"by_key." + street, "by_key." + street}
								default:
									body, ks.wantViol = `{"name":"","qty":-5}`, []string{"name", "qty"}
								}
							case "plain_error":
								handler, ks.wantMsg = map[string]any{"kind": "err_plain", "msg": "boom é"}, "boom é"
								if variant == "large" {
									long := "boom é " + strings.Repeat("0123456789abcdef", 600)
									handler, ks.wantMsg = map[string]any{"kind": "err_plain", "msg": long}, long
								}
							case "sebuf_error":
								handler, ks.wantMsg = map[string]any{"kind": "err_sebuf", "msg": "denied"}, "denied"
							case "wrapped_sebuf_error":
								handler = map[string]any{"kind": "err_sebuf", "msg": "denied", "wrapped": true}
								ks.wantMsg = "denied" // err.Error() of the wrapper contains the message
							case "validation_from_handler":
								handler = map[string]any{"kind": "err_validation", "violations": [][2]string{{"a.b", "bad"}, {"c", "worse"}}}
								ks.wantViol = []string{"a.b", "c"}
								if variant == "large" {
									var vs [][2]string
									ks.wantViol = nil
									for e := 0; e < 200; e++ {
										vs = append(vs, [2]string{fmt.Sprintf("items[%d].name", e), "must not be empty, nor longer than 64 characters"})
										ks.wantViol = append(ks.wantViol, fmt.Sprintf("items[%d].name", e))
									}
									handler = map[string]any{"kind": "err_validation", "violations": vs}
								}
							case "wrapped_validation_from_handler":
								handler = map[string]any{"kind": "err_validation", "violations": [][2]string{{"a.b", "bad"}}, "wrapped": true}
								ks.wantMsg = "bad"
							case "custom_message", "wrapped_custom_message":
								nf := dynamicpb.NewMessage(nfMD)
								// (percent signs, a format verb and an escaped slash: an error body is quoted, never interpreted)
								nf.Set(nfMD.Fields().ByName("resource"), protoreflect.ValueOfString("user/7 95% full %d ssd%2Feu"))
								nf.Set(nfMD.Fields().ByName("code"), protoreflect.ValueOfInt32(404))
								lf := dynamicpb.NewMessage(leafMD)
								lf.Set(leafMD.Fields().Get(0), protoreflect.ValueOfString("x"))
								nf.Set(nfMD.Fields().ByName("detail"), protoreflect.ValueOfMessage(lf))
								nf.Mutable(nfMD.Fields().ByName("ids")).List().Append(protoreflect.ValueOfInt64(9007199254740993))
								handler = map[string]any{"kind": "err_custom", "err_type": pkg + ".NotFoundError", "err_val": jsonRaw(gen.PJ(nf)), "wrapped": src == "wrapped_custom_message"}
								ks.wantJSON = canonJSONBytes(gen.PJ(nf))
								ks.wantMsg = "user/7 95% full %d ssd%2Feu"
							}
							if via == "serve" {
								raw := []byte(body)
								if ct != "application/json" && body != "" && src != "malformed_body" {
									m := dynamicpb.NewMessage(postMD)
									if err := protojson.Unmarshal([]byte(body), m); err == nil {
										raw, _ = proto.Marshal(m)
									}
								}
								if ct != "application/json" && src == "malformed_body" {
									raw = []byte{0x0a, 0xff, 0xff}
								}
								ks.op = map[string]any{"op": "serve", "method": method, "url": url, "headers": hdrs, "body": b64(raw), "hook": hook, "handler": handler, "err_type": pkg + ".NotFoundError"}
								if method == "GET" {
									ks.op["no_body"] = true
								}
							} else {
								// through the generated client: sources a well-behaved client can trigger
								if src == "url_binding" || src == "malformed_body" {
									continue
								}
								op := map[string]any{"op": "call", "rpc": "Errs.Post", "req_type": pkg + ".PostReq", "req": jsonRaw([]byte(body)), "hook": hook, "handler": handler, "client_ct": ct}
								// half of the client cases carry the content type as a PER-CALL option over a client
								// whose default is the other one: the error body must be read with the call's codec
								if rr.Bool() {
									other := "application/json"
									if ct == other {
										other = "application/x-protobuf"
									}
									op["client_ct"] = other
									op["call_ct"] = ct
									ks.variant += "+per_call_ct"
								}
								if src != "header_violation" {
									op["default_headers"] = [][2]string{{"X-Req", "1"}}
								}
								ks.op = op
							}
							// a third of the cases register the services anew, AFTER registrations made with other hooks
							// in the same process: options given to one Register call must not reach another
							if rr.P(1, 3) {
								ks.op["fresh_mux"] = true
							}
							all = append(all, ks)
						}
					}
				}
			}
		}
	}
	byItem := map[*rtItem][]*kase{}
	for _, k := range all {
		byItem[k.x] = append(byItem[k.x], k)
	}
	outs := map[*kase]map[string]any{}
	var mu sync.Mutex
	var runErr error
	var its []*rtItem
	for x := range byItem {
		its = append(its, x)
	}
	parallel(len(its), func(i int) {
		x := its[i]
		var ops []any
		for _, k := range byItem[x] {
			ops = append(ops, k.op)
		}
		o, err := runItem(x, ops)
		mu.Lock()
		defer mu.Unlock()
		if err != nil {
			runErr = err
			return
		}
		for j, k := range byItem[x] {
			outs[k] = o[j]
		}
	})
	if runErr != nil {
		return runErr
	}
	var dops []map[string]any
	for _, k := range all {
		dops = append(dops, map[string]any{"op": "error_case", "src": k.src, "hook": k.hook, "binary": k.ct != "application/json"})
	}
	var douts []map[string]any
	if drv.Available() {
		if douts, err = drv.Run(dops); err != nil {
			res.Corr("driver", "Lean driver failed: "+err.Error(), nil)
			douts = nil
		}
	} else {
		res.Corr("driver", "Lean driver binary missing (model did not build)", nil)
	}
	for i, k := range all {
		o := outs[k]
		res.Case(map[string]any{"src": k.src, "variant": k.variant, "ct": k.ct, "hook": k.hook, "via": k.via, "schema": k.x.it.ID}, true)
		res.Count("src:" + k.src)
		res.Count("hook:" + k.hook)
		replay := map[string]any{"schema": k.x.req, "case": map[string]any{"src": k.src, "variant": k.variant, "ct": k.ct, "hook": k.hook, "via": k.via}, "op": k.op, "real": o}
		if fault, _ := o["fault"].(string); fault != "" {
			res.Violation("fault", fmt.Sprintf("%s/%s/%s: %s", k.src, k.hook, k.via, fault), replay)
			continue
		}
		if douts == nil {
			continue
		}
		d := douts[i]
		replay["model"] = d
		impl, _ := d["impl"].(map[string]any)
		spec, _ := d["spec"].(map[string]any)
		label := fmt.Sprintf("%s%s [%s, hook %s, %s]", k.src, ifs(k.variant != "", ":"+k.variant, ""), k.ct, k.hook, k.via)
		if k.via == "serve" {
			obs := observeServe(k.ct, k.hook, o)
			// correspondence with Impl, oracle with Spec (both finite descriptions)
			for which, want := range map[string]map[string]any{"impl": impl, "spec": spec} {
				bad := compareResp(want, obs, k.hook)
				if bad == "" && which == "spec" {
					bad = checkPayload(k.src, fmt.Sprint(want["body"]), obs, k.wantViol, k.wantMsg, k.wantJSON)
				}
				if bad == "" {
					if which == "impl" {
						res.CorrAgree()
					}
					continue
				}
				if which == "impl" {
					res.Corr("error_response", label+": real "+bad+" (model: "+fmt.Sprint(want)+")", replay)
				} else {
					res.Violation("error_response:"+k.src+":"+k.hook, label+": "+bad+" (documented: "+fmt.Sprint(want)+")", replay)
				}
			}
			// encoded in the request's content type
			if fmt.Sprint(spec["body"]) != "hook_body" {
				wantCT := "application/json"
				if k.ct != "application/json" {
					wantCT = "application/x-protobuf"
				}
				implCT, _ := impl["ct_header"].(bool)
				if !obs.decodes {
					res.Violation("error_body_codec", label+": the error body is not encoded in the request's content type", replay)
				} else if obs.ct != wantCT {
					res.Divergence("content_type_header_lost_after_hook_writeheader", fmt.Sprintf("%s: Content-Type header is %q, body is %s", label, obs.ct, wantCT), !implCT, replay)
				} else if !implCT {
					res.Corr("ct_header", label+": the model says the Content-Type header is lost, the real response carries it", replay)
				}
			}
			continue
		}
		// ---- through the Go client ----
		e, _ := o["err"].(map[string]any)
		if e == nil {
			res.Violation("client_no_error", label+": the client returned no error", replay)
			continue
		}
		cls, _ := e["class"].(string)
		implCls, _ := d["client_impl"].(string)
		specCls, _ := d["client_spec"].(string)
		specBody := fmt.Sprint(spec["body"])
		if cls != implCls {
			res.Corr("client_mapping", fmt.Sprintf("%s: client error class %s (%v), the model says %s", label, cls, e["text"], implCls), replay)
		}
		if cls != specCls {
			res.Divergence("client_binary_error_body_misread", fmt.Sprintf("%s: client error class %s (%v), documented %s", label, cls, e["text"], specCls), cls == implCls && k.ct != "application/json", replay)
			continue
		}
		res.CorrAgree()
		switch cls {
		case "validation":
			var got []string
			for _, v := range asList(e["violations"]) {
				p := asList(v)
				if len(p) > 0 {
					got = append(got, fmt.Sprint(p[0]))
				}
			}
			sort.Strings(got)
			want := append([]string{}, k.wantViol...)
			sort.Strings(want)
			if fmt.Sprint(got) != fmt.Sprint(want) {
				res.Violation("client_violations", fmt.Sprintf("%s: client carries violations %v, server produced %v", label, got, want), replay)
			}
		case "error":
			if specBody == "error_message" && k.wantMsg != "" && !strings.Contains(fmt.Sprint(e["message"]), k.wantMsg) {
				res.Violation("client_message", fmt.Sprintf("%s: client error message %q does not carry %q", label, e["message"], k.wantMsg), replay)
			}
		case "other":
			wantStatus := 500
			if hs, ok := hookStatus[k.hook]; ok {
				wantStatus = hs
			}
			if k.wantMsg != "" && specBody == "custom_message" && !strings.Contains(fmt.Sprint(e["text"]), fmt.Sprint(wantStatus)) {
				res.Violation("client_status", fmt.Sprintf("%s: client error %q does not carry the status", label, e["text"]), replay)
			}
			// … and the body as the server sent it (percent signs and all): the message text is a member of that body
			if k.wantMsg != "" && specBody == "custom_message" && k.ct == "application/json" && !strings.Contains(fmt.Sprint(e["text"]), k.wantMsg) {
				res.Violation("client_body_altered", fmt.Sprintf("%s: client error %q does not carry the response body's text %q", label, e["text"], k.wantMsg), replay)
			}
		}
	}
	// ---- the generated TypeScript client on the same error responses ---------------------------
	// every JSON error response the Go server really produced is handed to the emitted TS client as the
	// answer to a call: a 400 carrying violations must come out as ValidationError with the same
	// violations, anything else as ApiError with the same status and body
	if tsrun.Available() {
		td, err := tsrun.NewDir()
		if err == nil {
			defer td.Close()
			for _, x := range its {
				pr, err := plug.Run(plug.TSClient, x.req, nil)
				if err != nil || !pr.OK() {
					res.Corr("ts_client", "ts-client gives no module for the error schema", map[string]any{"schema": x.req})
					continue
				}
				path, err := td.WriteModule(x.it.ID, "client", onlyFile(pr))
				if err != nil {
					return err
				}
				var ops []any
				var ks []*kase
				for _, k := range byItem[x] {
					o := outs[k]
					if k.via != "serve" || k.ct != "application/json" || o == nil || o["status"] == nil {
						continue
					}
					body, _ := base64.StdEncoding.DecodeString(fmt.Sprint(o["body"]))
					ops = append(ops, map[string]any{"op": "ts_call", "svc": "Errs", "rpc": "post", "base": "http://h.test", "req": map[string]any{"name": "n", "qty": 1},
						"canned": map[string]any{"status": jsonInt(o["status"]), "headers": [][2]string{{"content-type", fmt.Sprint(o["ct"])}}, "body": string(body)}})
					ks = append(ks, k)
				}
				if len(ops) == 0 {
					continue
				}
				_, touts, err := td.Run(x.it.ID, path, "", ops, 3*time.Minute)
				if err != nil {
					res.Corr("ts_client", "node runner failed: "+err.Error(), map[string]any{"schema": x.req})
					continue
				}
				for i, k := range ks {
					o, to := outs[k], touts[i]
					status := jsonInt(o["status"])
					obs := observeServe(k.ct, k.hook, o)
					e, _ := to["error"].(map[string]any)
					label := fmt.Sprintf("%s%s [hook %s, ts-client]", k.src, ifs(k.variant != "", ":"+k.variant, ""), k.hook)
					replay := map[string]any{"schema": k.x.req, "case": map[string]any{"src": k.src, "variant": k.variant, "hook": k.hook}, "served": o, "ts_client": to}
					res.Case(map[string]any{"src": k.src, "variant": k.variant, "hook": k.hook, "via": "ts-client", "schema": k.x.it.ID}, true)
					res.Count("ts_client:status_" + fmt.Sprint(status))
					if e == nil {
						if status >= 200 && status < 300 {
							continue
						}
						res.Violation("ts_client_no_error", fmt.Sprintf("%s: status %d, the TS client returned without an error: %v", label, status, to), replay)
						continue
					}
					isVal, _ := e["is_validation"].(bool)
					isAPI, _ := e["is_api"].(bool)
					if status == 400 && obs.kind == "violations" {
						var got []string
						for _, v := range asList(e["violations"]) {
							vm, _ := v.(map[string]any)
							got = append(got, fmt.Sprint(vm["field"]))
						}
						want := append([]string{}, obs.fields...)
						sort.Strings(got)
						sort.Strings(want)
						if !isVal || fmt.Sprint(got) != fmt.Sprint(want) {
							res.Violation("ts_client_validation", fmt.Sprintf("%s: a 400 with violations %v reached the TS caller as %v (ValidationError=%v) carrying %v", label, want, e["name"], isVal, got), replay)
						} else {
							res.CorrAgree()
						}
						continue
					}
					if !isAPI || isVal || jsonInt(e["statusCode"]) != status || fmt.Sprint(e["body"]) != obs.raw {
						res.Violation("ts_client_error", fmt.Sprintf("%s: status %d body %.80q reached the TS caller as %v (ApiError=%v, ValidationError=%v) with statusCode %v body %.80q",
							label, status, obs.raw, e["name"], isAPI, isVal, e["statusCode"], fmt.Sprint(e["body"])), replay)
					} else {
						res.CorrAgree()
					}
				}
			}
		}
	} else {
		res.Note("node 22 not found: the TS client's error mapping is not exercised")
	}
	if err := c10TSServer(c, its); err != nil {
		return err
	}
	res.Programs = len(items)
	return nil
}

func ifs(c bool, a, b string) string {
	if c {
		return a
	}
	return b
}

type servedErr struct {
	status  int
	ct      string
	xhook   bool
	kind    string // violations | error_message | custom_message | hook_body | unknown
	fields  []string
	message string
	custom  any
	decodes bool
	raw     string
}

func observeServe(ct, hook string, o map[string]any) servedErr {
	s := servedErr{status: jsonInt(o["status"]), xhook: o["x_hook"] == "1"}
	s.ct, _ = o["ct"].(string)
	if i := strings.Index(s.ct, ";"); i >= 0 {
		s.ct = s.ct[:i]
	}
	rawB, _ := base64.StdEncoding.DecodeString(fmt.Sprint(o["body"]))
	s.raw = string(rawB)
	if s.raw == "custom body" {
		s.kind, s.decodes = "hook_body", true
		return s
	}
	var body map[string]any
	if ct == "application/json" {
		body, _ = o["body_json"].(map[string]any)
		if body != nil {
			s.decodes = true
		}
	}
	pick := func(m map[string]any) {
		if vs, ok := m["violations"]; ok {
			s.kind = "violations"
			for _, v := range asList(vs) {
				vm, _ := v.(map[string]any)
				s.fields = append(s.fields, fmt.Sprint(vm["field"]))
			}
			return
		}
		if msg, ok := m["message"]; ok && len(m) == 1 {
			s.kind, s.message = "error_message", fmt.Sprint(msg)
			return
		}
		if len(m) == 0 {
			s.kind = "empty"
			return
		}
		s.kind, s.custom = "custom_message", m
	}
	if body != nil {
		pick(body)
		return s
	}
	if ct != "application/json" {
		// a binary body: decide by which of the three candidate types reproduces the bytes
		ve, _ := o["body_pb_verr"].(map[string]any)
		em, _ := o["body_pb_err_msg"].(map[string]any)
		cm, _ := o["body_pb_custom"].(map[string]any)
		s.decodes = ve != nil || em != nil || cm != nil
		switch {
		case cm != nil && len(cm) > 1:
			s.kind, s.custom = "custom_message", cm
		case ve != nil && len(asList(ve["violations"])) > 0 && validViolations(ve):
			pick(ve)
		case em != nil:
			pick(em)
		case cm != nil:
			s.kind, s.custom = "custom_message", cm
		}
	}
	return s
}

func validViolations(ve map[string]any) bool {
	for _, v := range asList(ve["violations"]) {
		vm, _ := v.(map[string]any)
		if _, ok := vm["field"]; !ok {
			return false
		}
	}
	return true
}

func compareResp(want map[string]any, obs servedErr, hook string) string {
	ws := fmt.Sprint(want["status"])
	expect := 0
	switch ws {
	case "400":
		expect = 400
	case "500":
		expect = 500
	default:
		expect = hookStatus[hook]
	}
	if obs.status != expect {
		return fmt.Sprintf("status %d, expected %d", obs.status, expect)
	}
	wb := fmt.Sprint(want["body"])
	switch wb {
	case "hook_message":
		if obs.kind != "error_message" || !strings.HasPrefix(obs.message, "hooked") {
			return fmt.Sprintf("body is %s %q, expected the hook's message", obs.kind, obs.message)
		}
	case "hook_body":
		if obs.kind != "hook_body" {
			return fmt.Sprintf("body is %s (%q), expected the bytes the hook wrote", obs.kind, obs.raw)
		}
	default:
		if obs.kind != wb {
			return fmt.Sprintf("body is %s (%.80q), expected %s", obs.kind, obs.raw, wb)
		}
	}
	if wh, _ := want["hook_header"].(bool); wh != obs.xhook {
		return fmt.Sprintf("hook header present=%v, expected %v", obs.xhook, wh)
	}
	return ""
}

func checkPayload(src, body string, obs servedErr, wantViol []string, wantMsg string, wantJSON any) string {
	switch body {
	case "violations":
		got := append([]string{}, obs.fields...)
		want := append([]string{}, wantViol...)
		sort.Strings(got)
		sort.Strings(want)
		if fmt.Sprint(got) != fmt.Sprint(want) {
			return fmt.Sprintf("violations name %v, expected %v", got, want)
		}
	case "error_message":
		if wantMsg != "" && !strings.Contains(obs.message, wantMsg) {
			return fmt.Sprintf("message %q does not carry %q", obs.message, wantMsg)
		}
	case "custom_message":
		if !jsonEq(obs.custom, wantJSON) {
			return fmt.Sprintf("custom error body %v differs from the message the handler returned %v", obs.custom, wantJSON)
		}
	}
	return ""
}
