import Sebuf.OaEmit
import Sebuf.Route
import Sebuf.Props.C03
/-!
# C18 — each OpenAPI document is well-formed, complete and format-independent

Proved on the model: the `format` parameter table and file naming (regenerated from the plugin's
main), one document per service, and that the path variables of an operation's template are
exactly the declared path parameters when the base path holds no variable. Uniqueness of
operations is `C03.one_operation_partial`. Reference resolution, parameter uniqueness, schema
completeness and JSON/YAML equivalence are evaluated by the Lean `OpenApi.check` / `JsonSchema`
functions on the REAL emitted documents (the `oa_doc` oracle), for every generated schema.
-/
namespace Sebuf.C18
open Sebuf Sebuf.OaEmit

/-- **format parameter table** {absent, yaml, yml, json, anything else}. -/
theorem format_param :
    formatOf none = "FormatYAML" ∧ formatOf (some "yaml") = "FormatYAML" ∧ formatOf (some "yml") = "FormatYAML" ∧
    formatOf (some "json") = "FormatJSON" ∧ formatOf (some "xml") = "FormatYAML" ∧ formatOf (some "") = "FormatYAML" := by decide

theorem extensions : extOf "FormatJSON" = "json" ∧ extOf "FormatYAML" = "yaml" := by decide

/-- the emitter iterates the services of each file to generate and names the document after the
proto service name. -/
theorem naming_facts :
    Gen.OpenApiMain.fileNamePattern = "%s.openapi.%s" ∧ Gen.OpenApiMain.fileNameArg = "service.Desc.Name()" ∧
    Gen.OpenApiMain.onePerService = true ∧ Gen.OpenApiMain.skipsNonGenerate = true ∧ Gen.OpenApiMain.paramKey = "format" := by decide

/-- **one document per service**. -/
theorem one_doc_per_service (param : Option String) (services : List String) :
    (docNames param services).length = services.length := by
  unfold docNames; simp

theorem docName_injective (param : Option String) (a b : String) (h : docName param a = docName param b) : a = b := by
  unfold docName at h
  have h' := congrArg String.toList h
  simp only [String.toList_append] at h'
  have := List.append_cancel_right (List.append_cancel_right h')
  exact String.toList_inj.mp this

/-- distinct services get distinct files. -/
theorem doc_names_distinct (param : Option String) (services : List String) (h : services.Nodup) :
    (docNames param services).Nodup := by
  unfold docNames
  exact List.Pairwise.map _ (fun a b hne hab => hne (docName_injective param a b hab)) h

/-! ### path variables of the template vs declared path parameters -/

theorem aux_none_append (x y : Str) (h : '{' ∉ x) :
    extractPathParamsAux none (x ++ y) = extractPathParamsAux none y := by
  induction x with
  | nil => rfl
  | cons c t ih =>
    have hc : c ≠ '{' := fun e => h (e ▸ List.mem_cons_self)
    have ht : '{' ∉ t := fun m => h (List.mem_cons_of_mem _ m)
    simp only [List.cons_append, extractPathParamsAux, hc, if_false]
    exact ih ht

theorem mem_trimSuffixSlash (x : Str) (c : Char) (h : c ∈ trimSuffixSlash x) : c ∈ x := by
  unfold trimSuffixSlash at h
  split at h
  · exact List.dropLast_subset _ h
  · exact h

theorem mem_ensureLeadingSlash (x : Str) (c : Char) (hc : c ≠ '/') (h : c ∈ ensureLeadingSlash x) : c ∈ x := by
  unfold ensureLeadingSlash at h
  split at h
  · simp at h; exact absurd h hc
  · exact h
  · rcases List.mem_cons.mp h with h | h
    · exact absurd h hc
    · exact h

theorem extract_trimPrefixSlash (p : Str) : extractPathParams (trimPrefixSlash p) = extractPathParams p := by
  unfold trimPrefixSlash extractPathParams
  split
  · simp [extractPathParamsAux]
  · rfl

theorem extract_ensureLeadingSlash (p : Str) : extractPathParams (ensureLeadingSlash p) = extractPathParams p := by
  unfold ensureLeadingSlash extractPathParams
  split
  · simp [extractPathParamsAux]
  · rfl
  · simp [extractPathParamsAux]

/-- `BuildHTTPPath(base, path)` has the variables of `path` when `base` holds none. -/
theorem extract_buildHTTPPath (sp mp : Str) (h : '{' ∉ sp) :
    extractPathParams (buildHTTPPath sp mp) = extractPathParams mp := by
  unfold buildHTTPPath
  split
  · rename_i h0; rw [h0.2]; simp [extractPathParams, extractPathParamsAux]
  · split
    · exact extract_ensureLeadingSlash mp
    · split
      · rename_i hm
        rw [hm, extract_ensureLeadingSlash]
        have : extractPathParamsAux none (sp ++ []) = extractPathParamsAux none [] := aux_none_append sp [] h
        simpa [extractPathParams] using this
      · have hno : '{' ∉ trimSuffixSlash (ensureLeadingSlash sp) := by
          intro hm
          exact h (mem_ensureLeadingSlash sp '{' (by decide) (mem_trimSuffixSlash _ _ hm))
        unfold extractPathParams
        rw [aux_none_append _ _ hno]
        simp only [extractPathParamsAux, show ('/' : Char) ≠ '{' by decide, if_false]
        exact extract_trimPrefixSlash mp

/-- **path variables, partial**: when the service base path holds no `{variable}`, the variables
of the operation's path template are exactly the declared path parameters (same order, same
multiplicity). With a variable in the base path the template has one the operation never declares. -/
theorem path_vars_partial (m : MethodIn) (hb : '{' ∉ m.base) (hc : m.hasConfig = true) :
    extractPathParams (route .openapi m).template = (route .openapi m).pathVars := by
  simp only [route, openapiPath, pathVarsOf, customPath, hc, if_true, or_true]
  exact extract_buildHTTPPath m.base m.path hb

/-- a base path with a variable breaks it (known finding C18 `path_var_in_base_path_undeclared`). -/
theorem base_path_variable_undeclared :
    let m := C03.mk "S" "Get" "Get" "p" "/tenants/{tenant}" true "/users/{id}" 1 []
    extractPathParams (route .openapi m).template = ["tenant".toList, "id".toList] ∧ (route .openapi m).pathVars = ["id".toList] := by decide

/-- a variable used twice in a path is declared twice (known finding C18 `repeated_path_variable`). -/
theorem repeated_variable_declared_twice :
    let m := C03.mk "S" "Get" "Get" "p" "" true "/a/{id}/b/{id}" 1 []
    (route .openapi m).pathVars = ["id".toList, "id".toList] := by decide

end Sebuf.C18
