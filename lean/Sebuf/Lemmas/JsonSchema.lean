import Sebuf.JsonSchema
/-!
Facts about the JSON Schema validator of `Sebuf.JsonSchema`:
boolean schemas, one lemma pair per primitive `type`, integer / length bounds, one-keyword
unfoldings of the applicators, `$ref` name parsing, the meaning of `refsResolve`, fuel
monotonicity for schemas without `not` / `oneOf`, and closed `decide` checks.
-/
namespace Sebuf
open Json Schema

theorem Schema.fuel_succ {fuel : Nat} (h : 0 < fuel) : ∃ n, fuel = n + 1 := ⟨fuel - 1, by omega⟩

/-! ### `$ref` names -/

theorem stripPrefix_append : ∀ (p r : Str), stripPrefix p (p ++ r) = some r
  | [], r => by simp [stripPrefix]
  | c :: p, r => by simp [stripPrefix, stripPrefix_append p r]

theorem stripPrefix_eq_some : ∀ (p s r : Str), stripPrefix p s = some r ↔ s = p ++ r
  | [], s, r => by simp [stripPrefix]
  | _ :: _, [], r => by simp [stripPrefix]
  | c :: p, d :: s, r => by
    by_cases e : c = d
    · subst e; simp [stripPrefix, stripPrefix_eq_some p s r]
    · simp only [stripPrefix, if_neg e]
      constructor
      · intro h; cases h
      · intro h; simp at h; exact absurd h.1.symm e

theorem refName_eq_some (r n : Str) :
    refName r = some n ↔ r = "#/components/schemas/".toList ++ n := by
  have e : "#/components/schemas/".toList = refPrefix := by decide
  rw [e]; unfold refName; exact stripPrefix_eq_some _ _ _

theorem refName_mk (n : Str) : refName ("#/components/schemas/".toList ++ n) = some n :=
  (refName_eq_some _ _).mpr rfl

theorem refsResolve_iff (comps : List (Str × Json)) (s : Json) :
    Schema.refsResolve comps s = true ↔
      ∀ r ∈ Schema.refs s, ∃ n, r = "#/components/schemas/".toList ++ n ∧
        (Json.oget n comps).isSome = true := by
  unfold refsResolve
  rw [List.all_eq_true]
  constructor
  · intro h r hr
    have := h r hr
    unfold refResolves at this
    cases hn : refName r with
    | none => simp [hn] at this
    | some n => exact ⟨n, (refName_eq_some r n).mp hn, by simpa [hn] using this⟩
  · intro h r hr
    obtain ⟨n, e, hs⟩ := h r hr
    unfold refResolves
    rw [(refName_eq_some r n).mpr e]; exact hs

/-! ### closed schemas against arbitrary instances -/

section closed
attribute [local simp] Schema.valid objValid leafOk applicatorsOk typeOk enumOk constOk numericOk
  numBoundOk stringOk countOk arrayCountsOk uniqueOk objectCountsOk requiredOk refOk itemsOk
  propertiesOk propsOf memberOk allOfOk anyOfOk oneOfOk notOk kw Json.oget typeAccepts
  typeEntryAccepts Json.isStr Json.isNull Json.isBool Json.isObj Json.isArr Json.isNum strLen
  arrLen objLen geB leB
  K.ref K.type K.enum K.const K.minimum K.maximum K.exclusiveMinimum K.exclusiveMaximum K.minLength K.maxLength K.pattern K.items K.minItems K.maxItems K.uniqueItems K.properties K.required K.additionalProperties K.minProperties K.maxProperties K.allOf K.anyOf K.oneOf K.not T.null T.boolean T.object T.array T.number T.integer T.string

theorem all_memberOk_nil (rec : Json → Json → Bool) (kvs : List (Str × Json)) :
    kvs.all (memberOk rec [] none) = true := by
  simp [List.all_eq_true]
attribute [local simp] all_memberOk_nil

theorem valid_zero (comps : List (Str × Json)) (s j : Json) : Schema.valid comps 0 s j = false := by
  simp

theorem valid_true (comps : List (Str × Json)) (fuel : Nat) (j : Json) (h : 0 < fuel) :
    Schema.valid comps fuel (Json.bool true) j = true := by
  obtain ⟨n, rfl⟩ := fuel_succ h
  simp

theorem valid_false (comps : List (Str × Json)) (fuel : Nat) (j : Json) :
    Schema.valid comps fuel (Json.bool false) j = false := by
  cases fuel <;> simp

theorem valid_empty_obj (comps : List (Str × Json)) (fuel : Nat) (j : Json) (h : 0 < fuel) :
    Schema.valid comps fuel (Json.obj []) j = true := by
  obtain ⟨n, rfl⟩ := fuel_succ h
  cases j <;> simp

/-- a schema that is not a boolean or an object rejects everything. -/
theorem valid_non_schema (comps : List (Str × Json)) (fuel : Nat) (s j : Json)
    (hb : s.isBool = false) (ho : s.isObj = false) : Schema.valid comps fuel s j = false := by
  cases fuel <;> cases s <;> simp_all

theorem valid_type_null (comps : List (Str × Json)) (fuel : Nat) (h : 0 < fuel) :
    Schema.valid comps fuel (Json.obj [("type".toList, Json.str "null".toList)]) Json.null = true := by
  obtain ⟨n, rfl⟩ := fuel_succ h
  simp

theorem valid_type_null_rejects_bool (comps : List (Str × Json)) (fuel : Nat) (b : Bool) :
    Schema.valid comps fuel (Json.obj [("type".toList, Json.str "null".toList)]) (Json.bool b) = false := by
  cases fuel <;> simp

theorem valid_type_boolean (comps : List (Str × Json)) (fuel : Nat) (b : Bool) (h : 0 < fuel) :
    Schema.valid comps fuel (Json.obj [("type".toList, Json.str "boolean".toList)]) (Json.bool b) = true := by
  obtain ⟨n, rfl⟩ := fuel_succ h
  simp

theorem valid_type_boolean_rejects_null (comps : List (Str × Json)) (fuel : Nat) :
    Schema.valid comps fuel (Json.obj [("type".toList, Json.str "boolean".toList)]) Json.null = false := by
  cases fuel <;> simp

theorem valid_type_object (comps : List (Str × Json)) (fuel : Nat) (kvs : List (Str × Json))
    (h : 0 < fuel) :
    Schema.valid comps fuel (Json.obj [("type".toList, Json.str "object".toList)]) (Json.obj kvs) = true := by
  obtain ⟨n, rfl⟩ := fuel_succ h
  simp

theorem valid_type_object_rejects_arr (comps : List (Str × Json)) (fuel : Nat) (l : List Json) :
    Schema.valid comps fuel (Json.obj [("type".toList, Json.str "object".toList)]) (Json.arr l) = false := by
  cases fuel <;> simp

theorem valid_type_array (comps : List (Str × Json)) (fuel : Nat) (l : List Json) (h : 0 < fuel) :
    Schema.valid comps fuel (Json.obj [("type".toList, Json.str "array".toList)]) (Json.arr l) = true := by
  obtain ⟨n, rfl⟩ := fuel_succ h
  simp

theorem valid_type_array_rejects_obj (comps : List (Str × Json)) (fuel : Nat) (kvs : List (Str × Json)) :
    Schema.valid comps fuel (Json.obj [("type".toList, Json.str "array".toList)]) (Json.obj kvs) = false := by
  cases fuel <;> simp

theorem valid_type_number (comps : List (Str × Json)) (fuel : Nat) (x : JNum) (h : 0 < fuel) :
    Schema.valid comps fuel (Json.obj [("type".toList, Json.str "number".toList)]) (Json.num x) = true := by
  obtain ⟨n, rfl⟩ := fuel_succ h
  simp

theorem valid_type_number_rejects_str (comps : List (Str × Json)) (fuel : Nat) (s : Str) :
    Schema.valid comps fuel (Json.obj [("type".toList, Json.str "number".toList)]) (Json.str s) = false := by
  cases fuel <;> simp

theorem valid_type_integer_int (comps : List (Str × Json)) (fuel : Nat) (i : Int) (h : 0 < fuel) :
    Schema.valid comps fuel (Json.obj [("type".toList, Json.str "integer".toList)])
      (Json.num (JNum.int i)) = true := by
  obtain ⟨n, rfl⟩ := fuel_succ h
  simp

theorem valid_type_integer_rejects_float (comps : List (Str × Json)) (fuel : Nat) (tok : Str) :
    Schema.valid comps fuel (Json.obj [("type".toList, Json.str "integer".toList)])
      (Json.num (JNum.float tok)) = false := by
  cases fuel <;> simp

theorem valid_type_integer_rejects_str (comps : List (Str × Json)) (fuel : Nat) (s : Str) :
    Schema.valid comps fuel (Json.obj [("type".toList, Json.str "integer".toList)]) (Json.str s) = false := by
  cases fuel <;> simp

theorem valid_type_string (comps : List (Str × Json)) (fuel : Nat) (s : Str) (h : 0 < fuel) :
    Schema.valid comps fuel (Json.obj [("type".toList, Json.str "string".toList)]) (Json.str s) = true := by
  obtain ⟨n, rfl⟩ := fuel_succ h
  simp

theorem valid_type_string_rejects_num (comps : List (Str × Json)) (fuel : Nat) (x : JNum) :
    Schema.valid comps fuel (Json.obj [("type".toList, Json.str "string".toList)]) (Json.num x) = false := by
  cases fuel <;> simp

/-- nullable string, the `type: ["string","null"]` form. -/
theorem valid_type_string_or_null (comps : List (Str × Json)) (fuel : Nat) (j : Json) (h : 0 < fuel) :
    Schema.valid comps fuel
      (Json.obj [("type".toList, Json.arr [Json.str "string".toList, Json.str "null".toList])]) j = true ↔
      (j.isStr = true ∨ j.isNull = true) := by
  obtain ⟨n, rfl⟩ := fuel_succ h
  cases j <;> simp

theorem valid_int_bounds (comps : List (Str × Json)) (fuel : Nat) (lo hi i : Int) (h : 0 < fuel) :
    Schema.valid comps fuel
      (Json.obj [("type".toList, Json.str "integer".toList),
                 ("minimum".toList, Json.num (JNum.int lo)),
                 ("maximum".toList, Json.num (JNum.int hi))])
      (Json.num (JNum.int i)) = true ↔ lo ≤ i ∧ i ≤ hi := by
  obtain ⟨n, rfl⟩ := fuel_succ h
  simp

theorem valid_exclusive_bounds (comps : List (Str × Json)) (fuel : Nat) (lo hi i : Int) (h : 0 < fuel) :
    Schema.valid comps fuel
      (Json.obj [("type".toList, Json.str "integer".toList),
                 ("exclusiveMinimum".toList, Json.num (JNum.int lo)),
                 ("exclusiveMaximum".toList, Json.num (JNum.int hi))])
      (Json.num (JNum.int i)) = true ↔ lo < i ∧ i < hi := by
  obtain ⟨n, rfl⟩ := fuel_succ h
  simp

/-- a float-token bound is treated as satisfied. -/
theorem valid_float_bound_satisfied (comps : List (Str × Json)) (fuel : Nat) (tok : Str) (i : Int)
    (h : 0 < fuel) :
    Schema.valid comps fuel
      (Json.obj [("type".toList, Json.str "integer".toList),
                 ("minimum".toList, Json.num (JNum.float tok))])
      (Json.num (JNum.int i)) = true := by
  obtain ⟨n, rfl⟩ := fuel_succ h
  simp

/-- numeric bounds do not apply to non-numbers. -/
theorem valid_minimum_on_string (comps : List (Str × Json)) (fuel : Nat) (lo : Int) (s : Str)
    (h : 0 < fuel) :
    Schema.valid comps fuel (Json.obj [("minimum".toList, Json.num (JNum.int lo))]) (Json.str s) = true := by
  obtain ⟨n, rfl⟩ := fuel_succ h
  simp

theorem valid_minmaxLength (comps : List (Str × Json)) (fuel : Nat) (lo hi : Nat) (s : Str)
    (h : 0 < fuel) :
    Schema.valid comps fuel
      (Json.obj [("type".toList, Json.str "string".toList),
                 ("minLength".toList, Json.num (JNum.int (Int.ofNat lo))),
                 ("maxLength".toList, Json.num (JNum.int (Int.ofNat hi)))])
      (Json.str s) = true ↔ lo ≤ s.length ∧ s.length ≤ hi := by
  obtain ⟨n, rfl⟩ := fuel_succ h
  simp

/-- `minLength` does not apply to numbers. -/
theorem valid_minLength_on_num (comps : List (Str × Json)) (fuel : Nat) (lo : Nat) (x : JNum)
    (h : 0 < fuel) :
    Schema.valid comps fuel (Json.obj [("minLength".toList, Json.num (JNum.int (Int.ofNat lo)))])
      (Json.num x) = true := by
  obtain ⟨n, rfl⟩ := fuel_succ h
  simp

theorem valid_minmaxItems (comps : List (Str × Json)) (fuel : Nat) (lo hi : Nat) (l : List Json)
    (h : 0 < fuel) :
    Schema.valid comps fuel
      (Json.obj [("type".toList, Json.str "array".toList),
                 ("minItems".toList, Json.num (JNum.int (Int.ofNat lo))),
                 ("maxItems".toList, Json.num (JNum.int (Int.ofNat hi)))])
      (Json.arr l) = true ↔ lo ≤ l.length ∧ l.length ≤ hi := by
  obtain ⟨n, rfl⟩ := fuel_succ h
  simp

/-! one-keyword unfoldings of the applicators -/

theorem valid_ref (comps : List (Str × Json)) (fuel : Nat) (name : Str) (j : Json) :
    Schema.valid comps (fuel + 1)
      (Json.obj [("$ref".toList, Json.str ("#/components/schemas/".toList ++ name))]) j =
      (match Json.oget name comps with
       | some s => Schema.valid comps fuel s j
       | none => false) := by
  have hn := refName_mk name
  generalize "#/components/schemas/".toList ++ name = r at hn ⊢
  cases hc : Json.oget name comps <;> cases j <;> simp [hn, hc]

theorem valid_items (comps : List (Str × Json)) (fuel : Nat) (s : Json) (l : List Json) :
    Schema.valid comps (fuel + 1) (Json.obj [("items".toList, s)]) (Json.arr l) =
      l.all (Schema.valid comps fuel s) := by
  simp

theorem valid_allOf (comps : List (Str × Json)) (fuel : Nat) (ss : List Json) (j : Json) :
    Schema.valid comps (fuel + 1) (Json.obj [("allOf".toList, Json.arr ss)]) j =
      ss.all (fun s => Schema.valid comps fuel s j) := by
  cases j <;> simp

theorem valid_anyOf (comps : List (Str × Json)) (fuel : Nat) (ss : List Json) (j : Json) :
    Schema.valid comps (fuel + 1) (Json.obj [("anyOf".toList, Json.arr ss)]) j =
      ss.any (fun s => Schema.valid comps fuel s j) := by
  cases j <;> simp

theorem valid_oneOf (comps : List (Str × Json)) (fuel : Nat) (ss : List Json) (j : Json) :
    Schema.valid comps (fuel + 1) (Json.obj [("oneOf".toList, Json.arr ss)]) j =
      ((ss.filter (fun s => Schema.valid comps fuel s j)).length == 1) := by
  cases j <;> simp

theorem valid_not (comps : List (Str × Json)) (fuel : Nat) (s j : Json) :
    Schema.valid comps (fuel + 1) (Json.obj [("not".toList, s)]) j =
      !(Schema.valid comps fuel s j) := by
  cases j <;> simp

theorem valid_required (comps : List (Str × Json)) (fuel : Nat) (names : List Str)
    (members : List (Str × Json)) :
    Schema.valid comps (fuel + 1)
      (Json.obj [("required".toList, Json.arr (names.map Json.str))]) (Json.obj members) =
      names.all (fun n => (Json.oget n members).isSome) := by
  simp [List.all_map, Function.comp_def, requiredEntryOk]

theorem valid_enum (comps : List (Str × Json)) (fuel : Nat) (vs : List Json) (j : Json) :
    Schema.valid comps (fuel + 1) (Json.obj [("enum".toList, Json.arr vs)]) j =
      vs.any (fun v => Json.beq v j) := by
  cases j <;> simp

theorem valid_const (comps : List (Str × Json)) (fuel : Nat) (v j : Json) :
    Schema.valid comps (fuel + 1) (Json.obj [("const".toList, v)]) j = Json.beq v j := by
  cases j <;> simp

theorem valid_uniqueItems (comps : List (Str × Json)) (fuel : Nat) (l : List Json) :
    Schema.valid comps (fuel + 1) (Json.obj [("uniqueItems".toList, Json.bool true)]) (Json.arr l) =
      Schema.allDistinct l := by
  simp

/-- `additionalProperties: false` with `properties`: every member must be a declared property
that validates. -/
theorem valid_closed_object (comps : List (Str × Json)) (fuel : Nat) (ps members : List (Str × Json)) :
    Schema.valid comps (fuel + 1)
      (Json.obj [("properties".toList, Json.obj ps),
                 ("additionalProperties".toList, Json.bool false)]) (Json.obj members) =
      members.all (fun m => match Json.oget m.1 ps with
        | some s => Schema.valid comps fuel s m.2
        | none => false) := by
  rw [Schema.valid]
  simp [-Schema.valid, -memberOk]
  congr 1
  funext m
  cases h : Json.oget m.1 ps <;> simp [-Schema.valid, h, valid_false]

end closed

/-! ### fuel monotonicity for schemas without `not` / `oneOf` -/

theorem collectKws_nil_of_oget (f : List (Str × Json) → List Str) :
    ∀ (kvs : List (Str × Json)) (k : Str) (v : Json),
    Json.oget k kvs = some v → collectKws f kvs = [] →
    (if schemaKeys.contains k then collect f v
     else if schemaArrayKeys.contains k then collectIn f v
     else if schemaMapKeys.contains k then collectIn f v else []) = []
  | [], k, v, h, _ => by simp [Json.oget] at h
  | (k', v') :: rest, k, v, h, hn => by
    rw [collectKws] at hn
    have ⟨h1, h2⟩ := List.append_eq_nil_iff.mp hn
    by_cases e : k' = k
    · subst e; simp [Json.oget] at h; subst h; exact h1
    · simp [Json.oget, e] at h; exact collectKws_nil_of_oget f rest k v h h2

theorem collectList_nil_of_mem (f : List (Str × Json) → List Str) :
    ∀ (l : List Json) (s : Json), s ∈ l → collectList f l = [] → collect f s = []
  | [], s, h, _ => by simp at h
  | x :: xs, s, h, hn => by
    rw [collectList] at hn
    have ⟨h1, h2⟩ := List.append_eq_nil_iff.mp hn
    rcases List.mem_cons.mp h with e | e
    · subst e; exact h1
    · exact collectList_nil_of_mem f xs s e h2

theorem collectVals_nil_of_oget (f : List (Str × Json) → List Str) :
    ∀ (ps : List (Str × Json)) (k : Str) (s : Json),
    Json.oget k ps = some s → collectVals f ps = [] → collect f s = []
  | [], k, v, h, _ => by simp [Json.oget] at h
  | (k', v') :: rest, k, v, h, hn => by
    rw [collectVals] at hn
    have ⟨h1, h2⟩ := List.append_eq_nil_iff.mp hn
    by_cases e : k' = k
    · subst e; simp [Json.oget] at h; subst h; exact h1
    · simp [Json.oget, e] at h; exact collectVals_nil_of_oget f rest k v h h2

theorem positive_iff (s : Json) : positive s = true ↔ collect ownNegative s = [] := by
  simp [positive, negatives, List.isEmpty_iff]

theorem positive_obj {kvs : List (Str × Json)} (h : positive (Json.obj kvs) = true) :
    ownNegative kvs = [] ∧ collectKws ownNegative kvs = [] := by
  rw [positive_iff, collect] at h
  exact List.append_eq_nil_iff.mp h

theorem positive_sub_schema {kvs : List (Str × Json)} (h : positive (Json.obj kvs) = true)
    (k : Str) (hk : schemaKeys.contains k = true) {s : Json} (hs : Json.oget k kvs = some s) :
    positive s = true := by
  have := collectKws_nil_of_oget _ kvs k s hs (positive_obj h).2
  rw [if_pos hk] at this
  exact (positive_iff s).mpr this

theorem positive_sub_array {kvs : List (Str × Json)} (h : positive (Json.obj kvs) = true)
    (k : Str) (hk0 : schemaKeys.contains k = false) (hk : schemaArrayKeys.contains k = true)
    {ss : List Json} (hs : Json.oget k kvs = some (Json.arr ss)) {s : Json} (hm : s ∈ ss) :
    positive s = true := by
  have := collectKws_nil_of_oget _ kvs k _ hs (positive_obj h).2
  rw [if_neg (by rw [hk0]; decide), if_pos hk, collectIn] at this
  exact (positive_iff s).mpr (collectList_nil_of_mem _ ss s hm this)

theorem positive_sub_property {kvs : List (Str × Json)} (h : positive (Json.obj kvs) = true)
    {ps : List (Str × Json)} (hs : Json.oget K.properties kvs = some (Json.obj ps))
    {k : Str} {s : Json} (hm : Json.oget k ps = some s) :
    positive s = true := by
  have := collectKws_nil_of_oget _ kvs _ _ hs (positive_obj h).2
  rw [if_neg (by decide), if_neg (by decide), if_pos (by decide), collectIn] at this
  exact (positive_iff s).mpr (collectVals_nil_of_oget _ ps k s hm this)

theorem positive_no_neg {kvs : List (Str × Json)} (h : positive (Json.obj kvs) = true) :
    kw K.not kvs = none ∧ kw K.oneOf kvs = none := by
  have := (positive_obj h).1
  unfold ownNegative at this
  have ⟨a, b⟩ := List.append_eq_nil_iff.mp this
  constructor
  · cases hk : kw K.not kvs with
    | none => rfl
    | some x => simp [hk] at a
  · cases hk : kw K.oneOf kvs with
    | none => rfl
    | some x => simp [hk] at b

theorem positiveComps_oget : ∀ {comps : List (Str × Json)}, positiveComps comps = true →
    ∀ {n : Str} {s : Json}, Json.oget n comps = some s → positive s = true
  | [], _, n, s, h => by simp [Json.oget] at h
  | (k', v') :: rest, hc, n, s, h => by
    simp [positiveComps] at hc
    by_cases e : k' = n
    · subst e; simp [Json.oget] at h; subst h; exact hc.1
    · simp [Json.oget, e] at h
      exact positiveComps_oget (comps := rest) (by simpa [positiveComps] using hc.2) h


/-- `rec'` accepts whatever `rec` accepts, on positive schemas. -/
def Schema.RecLe (rec rec' : Json → Json → Bool) : Prop :=
  ∀ s j, positive s = true → rec s j = true → rec' s j = true

theorem refOk_mono {rec rec' : Json → Json → Bool} (hr : RecLe rec rec')
    {comps : List (Str × Json)} (hc : positiveComps comps = true) (kvs : List (Str × Json)) (j : Json)
    (h : refOk rec comps kvs j = true) : refOk rec' comps kvs j = true := by
  unfold refOk at h ⊢
  split <;> simp_all
  split <;> simp_all
  split <;> simp_all
  next s hs => exact hr _ _ (positiveComps_oget hc hs) h

theorem itemsOk_mono {rec rec' : Json → Json → Bool} (hr : RecLe rec rec')
    {kvs : List (Str × Json)} (hp : positive (Json.obj kvs) = true) (j : Json)
    (h : itemsOk rec kvs j = true) : itemsOk rec' kvs j = true := by
  unfold itemsOk at h ⊢
  split
  · rfl
  next s hs =>
    have ps : positive s = true := positive_sub_schema hp K.items (by decide) hs
    rw [hs] at h
    cases j <;> simp_all
    intro x hx; exact hr _ _ ps (h x hx)

theorem propertiesOk_mono {rec rec' : Json → Json → Bool} (hr : RecLe rec rec')
    {kvs : List (Str × Json)} (hp : positive (Json.obj kvs) = true) (j : Json)
    (h : propertiesOk rec kvs j = true) : propertiesOk rec' kvs j = true := by
  unfold propertiesOk at h ⊢
  cases hps : propsOf kvs with
  | none => simp [hps] at h
  | some ps =>
    simp only [hps] at h ⊢
    cases j with
    | obj members =>
      simp only [List.all_eq_true] at h ⊢
      intro m hm
      have hm' := h m hm
      unfold memberOk at hm' ⊢
      cases hk : Json.oget m.1 ps with
      | some s =>
        simp only [hk] at hm' ⊢
        have : positive s = true := by
          unfold propsOf at hps
          cases hq : kw K.properties kvs with
          | none => simp [hq] at hps; subst hps; simp [Json.oget] at hk
          | some q =>
            cases q <;> simp [hq] at hps
            subst hps
            exact positive_sub_property hp hq hk
        exact hr _ _ this hm'
      | none =>
        simp only [hk] at hm' ⊢
        cases ha : kw K.additionalProperties kvs with
        | none => rfl
        | some a =>
          simp only [ha] at hm' ⊢
          exact hr _ _ (positive_sub_schema hp K.additionalProperties (by decide) ha) hm'
    | _ => rfl

theorem allOfOk_mono {rec rec' : Json → Json → Bool} (hr : RecLe rec rec')
    {kvs : List (Str × Json)} (hp : positive (Json.obj kvs) = true) (j : Json)
    (h : allOfOk rec kvs j = true) : allOfOk rec' kvs j = true := by
  unfold allOfOk at h ⊢
  cases hk : kw K.allOf kvs with
  | none => rfl
  | some v =>
    cases v <;> simp [hk] at h ⊢
    next ss =>
      intro s hs
      exact hr _ _ (positive_sub_array hp K.allOf (by decide) (by decide) hk hs) (h s hs)

theorem anyOfOk_mono {rec rec' : Json → Json → Bool} (hr : RecLe rec rec')
    {kvs : List (Str × Json)} (hp : positive (Json.obj kvs) = true) (j : Json)
    (h : anyOfOk rec kvs j = true) : anyOfOk rec' kvs j = true := by
  unfold anyOfOk at h ⊢
  cases hk : kw K.anyOf kvs with
  | none => rfl
  | some v =>
    cases v <;> simp [hk] at h ⊢
    next ss =>
      obtain ⟨s, hs, hv⟩ := h
      exact ⟨s, hs, hr _ _ (positive_sub_array hp K.anyOf (by decide) (by decide) hk hs) hv⟩

theorem objValid_mono {rec rec' : Json → Json → Bool} (hr : RecLe rec rec')
    {comps : List (Str × Json)} (hc : positiveComps comps = true)
    {kvs : List (Str × Json)} (hp : positive (Json.obj kvs) = true) (j : Json)
    (h : objValid rec comps kvs j = true) : objValid rec' comps kvs j = true := by
  have ⟨hnot, hone⟩ := positive_no_neg hp
  simp only [objValid, applicatorsOk, Bool.and_eq_true] at h ⊢
  obtain ⟨hl, ⟨⟨⟨⟨⟨h1, h2⟩, h3⟩, h4⟩, h5⟩, _⟩, _⟩ := h
  refine ⟨hl, ⟨⟨⟨⟨⟨refOk_mono hr hc kvs j h1, itemsOk_mono hr hp j h2⟩, propertiesOk_mono hr hp j h3⟩,
    allOfOk_mono hr hp j h4⟩, anyOfOk_mono hr hp j h5⟩, ?_⟩, ?_⟩
  · simp [oneOfOk, hone]
  · simp [notOk, hnot]

/-- more fuel never invalidates, for schemas (and components) without `not` / `oneOf`. -/
theorem valid_mono_fuel {comps : List (Str × Json)} (hc : Schema.positiveComps comps = true) :
    ∀ (n : Nat) (s j : Json), Schema.positive s = true →
      Schema.valid comps n s j = true → Schema.valid comps (n + 1) s j = true
  | 0, s, j, _, h => by simp [Schema.valid] at h
  | n + 1, s, j, hp, h => by
    cases s with
    | bool b => simpa [Schema.valid] using h
    | obj kvs =>
      rw [Schema.valid] at h ⊢
      exact objValid_mono (fun s j hp h => valid_mono_fuel hc n s j hp h) hc hp j h
    | _ => simp [Schema.valid] at h

theorem valid_mono_fuel_le {comps : List (Str × Json)} (hc : Schema.positiveComps comps = true)
    {n m : Nat} (hnm : n ≤ m) (s j : Json) (hp : Schema.positive s = true)
    (h : Schema.valid comps n s j = true) : Schema.valid comps m s j = true := by
  induction hnm with
  | refl => exact h
  | step _ ih => exact valid_mono_fuel hc _ s j hp ih


/-! ### spelling of the name constants -/

/-- the keyword / type-name constants are spelled as in the standard. -/
theorem supportedKeys_spelled : Schema.supportedKeys =
    ["$ref", "type", "enum", "const", "minimum", "maximum", "exclusiveMinimum",
     "exclusiveMaximum", "minLength", "maxLength", "pattern", "items", "minItems", "maxItems",
     "uniqueItems", "properties", "required", "additionalProperties", "minProperties",
     "maxProperties", "allOf", "anyOf", "oneOf", "not"].map String.toList := by decide

theorem ignoredKeys_spelled : Schema.ignoredKeys =
    ["multipleOf", "propertyNames", "description", "format", "title", "example", "examples",
     "discriminator", "default", "deprecated", "summary", "xml", "externalDocs", "readOnly",
     "writeOnly"].map String.toList := by decide

theorem typeNames_spelled :
    [T.null, T.boolean, T.object, T.array, T.number, T.integer, T.string] =
    ["null", "boolean", "object", "array", "number", "integer", "string"].map String.toList := by
  decide

theorem refPrefix_spelled : Schema.refPrefix = "#/components/schemas/".toList := by decide

/-! ### closed checks -/

namespace JsonSchemaExamples

def S (s : String) : Str := s.toList
def ty (t : String) : Str × Json := (K.type, Json.str (S t))
def ref (n : String) : Json := Json.obj [(K.ref, Json.str (S ("#/components/schemas/" ++ n)))]

/-- `Tree = {type: object, properties: {value: integer, children: [Tree]}, required: [value],
additionalProperties: false}`. -/
def tree : Json := Json.obj [ty "object",
  (K.properties, Json.obj [
    (S "value", Json.obj [ty "integer"]),
    (S "children", Json.obj [ty "array", (K.items, ref "Tree")])]),
  (K.required, Json.arr [Json.str (S "value")]),
  (K.additionalProperties, Json.bool false)]

def comps : List (Str × Json) := [(S "Tree", tree)]

def leaf (n : Int) : Json := Json.obj [(S "value", Json.num (.int n))]
def node (n : Int) (cs : List Json) : Json :=
  Json.obj [(S "value", Json.num (.int n)), (S "children", Json.arr cs)]

/-- recursive `$ref`: a depth-2 instance validates with fuel 10. -/
example : Schema.valid comps 10 (ref "Tree") (node 1 [leaf 2, node 3 [leaf 4]]) = true := by decide
/-- ... and with the default fuel. -/
example : Schema.valid comps (Schema.defaultFuel comps (ref "Tree") (node 1 [leaf 2, node 3 [leaf 4]]))
    (ref "Tree") (node 1 [leaf 2, node 3 [leaf 4]]) = true := by decide
/-- too little fuel answers `false`. -/
example : Schema.valid comps 7 (ref "Tree") (node 1 [leaf 2, node 3 [leaf 4]]) = false := by decide
/-- a wrong leaf deep inside is found. -/
example : Schema.valid comps 10 (ref "Tree")
    (node 1 [leaf 2, node 3 [Json.obj [(S "value", Json.str (S "x"))]]]) = false := by decide
/-- unknown component. -/
example : Schema.valid comps 10 (ref "Nope") (leaf 1) = false := by decide
/-- siblings of `$ref` apply too. -/
example : Schema.valid comps 10
    (Json.obj [(K.ref, Json.str (S "#/components/schemas/Tree")), (K.maxProperties, Json.num (.int 1))])
    (leaf 1) = true := by decide
example : Schema.valid comps 10
    (Json.obj [(K.ref, Json.str (S "#/components/schemas/Tree")), (K.maxProperties, Json.num (.int 1))])
    (node 1 []) = false := by decide

/-- `required`. -/
example : Schema.valid comps 10 (ref "Tree") (Json.obj [(S "children", Json.arr [])]) = false := by decide
/-- `additionalProperties: false` rejects an extra key. -/
example : Schema.valid comps 10 (ref "Tree")
    (Json.obj [(S "value", Json.num (.int 1)), (S "extra", Json.null)]) = false := by decide
example : Schema.undeclared comps 10 (ref "Tree")
    (Json.obj [(S "value", Json.num (.int 1)), (S "extra", Json.null)]) = [S "extra"] := by decide
example : Schema.declaredProps comps 10 (ref "Tree") = [S "value", S "children"] := by decide

/-- `oneOf` of two object schemas: an instance matching both is rejected. -/
def hasA : Json := Json.obj [ty "object", (K.required, Json.arr [Json.str (S "a")])]
def hasB : Json := Json.obj [ty "object", (K.required, Json.arr [Json.str (S "b")])]
def aXorB : Json := Json.obj [(K.oneOf, Json.arr [hasA, hasB])]
example : Schema.valid [] 5 aXorB (Json.obj [(S "a", Json.null)]) = true := by decide
example : Schema.valid [] 5 aXorB (Json.obj [(S "b", Json.null)]) = true := by decide
example : Schema.valid [] 5 aXorB (Json.obj [(S "a", Json.null), (S "b", Json.null)]) = false := by decide
example : Schema.valid [] 5 aXorB (Json.obj []) = false := by decide
example : Schema.valid [] 5 (Json.obj [(K.anyOf, Json.arr [hasA, hasB])])
    (Json.obj [(S "a", Json.null), (S "b", Json.null)]) = true := by decide
example : Schema.valid [] 5 (Json.obj [(K.not, hasA)]) (Json.obj [(S "a", Json.null)]) = false := by decide
example : Schema.positive aXorB = false := by decide
example : Schema.positive tree = true := by decide
example : Schema.positiveComps comps = true := by decide

/-- `uniqueItems`. -/
def uniq : Json := Json.obj [ty "array", (K.uniqueItems, Json.bool true)]
example : Schema.valid [] 3 uniq (Json.arr [Json.num (.int 1), Json.num (.int 2)]) = true := by decide
example : Schema.valid [] 3 uniq (Json.arr [Json.num (.int 1), Json.num (.int 2), Json.num (.int 1)]) = false := by
  decide
/-- an exact integer and a float token are different values. -/
example : Schema.valid [] 3 uniq (Json.arr [Json.num (.int 1), Json.num (.float (S "1.0"))]) = true := by decide

/-- `enum` of strings. -/
def color : Json := Json.obj [ty "string", (K.enum, Json.arr [Json.str (S "RED"), Json.str (S "GREEN")])]
example : Schema.valid [] 3 color (Json.str (S "GREEN")) = true := by decide
example : Schema.valid [] 3 color (Json.str (S "BLUE")) = false := by decide
example : Schema.valid [] 3 (Json.obj [(K.const, Json.str (S "x"))]) (Json.str (S "x")) = true := by decide
example : Schema.valid [] 3 (Json.obj [(K.const, Json.str (S "x"))]) (Json.str (S "y")) = false := by decide

/-- nullable via `type: ["string","null"]`. -/
def nullableStr : Json := Json.obj [(K.type, Json.arr [Json.str (S "string"), Json.str (S "null")])]
example : Schema.valid [] 3 nullableStr Json.null = true := by decide
example : Schema.valid [] 3 nullableStr (Json.str (S "x")) = true := by decide
example : Schema.valid [] 3 nullableStr (Json.num (.int 0)) = false := by decide

/-- a map: `additionalProperties` as a schema; `minProperties` counts distinct keys. -/
def strMap : Json := Json.obj [ty "object", (K.additionalProperties, Json.obj [ty "string"]),
  (K.minProperties, Json.num (.int 2))]
example : Schema.valid [] 4 strMap (Json.obj [(S "a", Json.str []), (S "b", Json.str [])]) = true := by decide
example : Schema.valid [] 4 strMap (Json.obj [(S "a", Json.str []), (S "a", Json.str [])]) = false := by decide
example : Schema.valid [] 4 strMap (Json.obj [(S "a", Json.str []), (S "b", Json.null)]) = false := by decide

/-- malformed keyword values reject; unknown keywords are ignored but reported. -/
example : Schema.valid [] 3 (Json.obj [(K.required, Json.num (.int 3))]) Json.null = false := by decide
example : Schema.valid [] 3 (Json.obj [(S "frobnicate", Json.null), (K.description, Json.null)]) Json.null = true := by
  decide
example : Schema.unknownKeywords (Json.obj [(S "frobnicate", Json.null), (K.description, Json.null),
    (K.items, Json.obj [(S "prefixItems", Json.arr [])])]) = [S "frobnicate", S "prefixItems"] := by decide

/-- references, patterns and float bounds are found at any depth. -/
example : Schema.refs tree = [S "#/components/schemas/Tree"] := by decide
example : Schema.refsResolve comps tree = true := by decide
example : Schema.refsResolve [] tree = false := by decide
example : Schema.refsResolve comps (Json.obj [(K.allOf, Json.arr [Json.obj [(K.ref, Json.str (S "#/definitions/Tree"))]])])
    = false := by decide
example : Schema.usesPattern tree = false := by decide
example : Schema.usesPattern (Json.obj [(K.properties, Json.obj [(S "p", Json.obj [(K.pattern, Json.str (S "^a$"))])])])
    = true := by decide
example : Schema.usesFloatBound (Json.obj [(K.items, Json.obj [(K.maximum, Json.num (.float (S "1.5")))])])
    = true := by decide
example : Schema.usesFloatBound (Json.obj [(K.items, Json.obj [(K.maximum, Json.num (.int 1))])])
    = false := by decide

example : Json.size (node 1 [leaf 2, node 3 [leaf 4]]) = 10 := by decide

end JsonSchemaExamples

end Sebuf
