import Sebuf.GoDec
import Sebuf.Surgery
/-!
Closed witnesses for the encoding/json templates: one small schema, and for every root cause the
harness files a C04 / C05 divergence under, the value (or JSON text) on which the `Impl` model
(`GoJson.serverEnc`, `GoDec.serverDec`) shows it. Every statement is closed by `rfl`: the models
are structurally recursive, the kernel evaluates them.
-/
namespace Sebuf.GoJson.W
open Sebuf Sebuf.Mapping Sebuf.Json Sebuf.GoJson Sebuf.GoDec

def s (x : String) : Str := x.toList

/-- `message Spot { string street = 1; string zip_code = 2; int32 count = 3; int64 big = 4; }` -/
def spot : Message :=
  { fullName := s ".w.Spot", name := s "Spot",
    fields := [{ name := s "street", kind := .string }, { name := s "zip_code", kind := .string },
               { name := s "count", kind := .int32 }, { name := s "big", kind := .int64 }] }
/-- `message Flat { string title = 1; Spot home = 2 [flatten, flatten_prefix "home_"]; }` -/
def flat : Message :=
  { fullName := s ".w.Flat", name := s "Flat",
    fields := [{ name := s "title", kind := .string },
               { name := s "home", kind := .message, typeName := s ".w.Spot", flatten := true, flattenPrefix := s "home_" }] }
/-- two flatten fields of the same child type. -/
def two : Message :=
  { fullName := s ".w.Two", name := s "Two",
    fields := [{ name := s "billing", kind := .message, typeName := s ".w.Spot", flatten := true, flattenPrefix := s "billing_" },
               { name := s "shipping", kind := .message, typeName := s ".w.Spot", flatten := true, flattenPrefix := s "shipping_" }] }
/-- `message Pick { string name = 1; oneof my_choice { string as_text = 2; } }` -/
def pick : Message :=
  { fullName := s ".w.Pick", name := s "Pick",
    fields := [{ name := s "name", kind := .string }, { name := s "as_text", kind := .string, oneof := some (s "my_choice") }],
    oneofs := [{ name := s "my_choice" }] }
def flatPick : Message :=
  { fullName := s ".w.FlatPick", name := s "FlatPick",
    fields := [{ name := s "inner", kind := .message, typeName := s ".w.Pick", flatten := true, flattenPrefix := s "in_" }] }
/-- `message Flags { map<bool, string> flags = 1; double ratio = 2; }` -/
def flags : Message :=
  { fullName := s ".w.Flags", name := s "Flags",
    fields := [{ name := s "flags", kind := .string, card := .map, mapKey := .bool }, { name := s "ratio", kind := .double }] }
def flatFlags : Message :=
  { fullName := s ".w.FlatFlags", name := s "FlatFlags",
    fields := [{ name := s "inner", kind := .message, typeName := s ".w.Flags", flatten := true, flattenPrefix := s "b_" }] }

def gone : Message :=
  { fullName := s ".w.Gone", name := s "Gone" }
/-- `message Single { string body = 1; int64 big = 2; double ratio = 3; }` -/
def single : Message :=
  { fullName := s ".w.Single", name := s "Single",
    fields := [{ name := s "body", kind := .string }, { name := s "big", kind := .int64 }, { name := s "ratio", kind := .double }] }
/-- `message Multi { string lang_code = 1; string url = 2; }` -/
def multi : Message :=
  { fullName := s ".w.Multi", name := s "Multi",
    fields := [{ name := s "lang_code", kind := .string }, { name := s "url", kind := .string }] }
/-- `message Num { int64 big_val = 1 [int64_encoding = NUMBER]; }` -/
def num : Message :=
  { fullName := s ".w.Num", name := s "Num", fields := [{ name := s "big_val", kind := .int64, int64Enc := 2 }] }
def variants : List Field :=
  [{ name := s "gone", kind := .message, typeName := s ".w.Gone", oneof := some (s "content") },
   { name := s "single", kind := .message, typeName := s ".w.Single", oneof := some (s "content") },
   { name := s "multi_word", kind := .message, typeName := s ".w.Multi", oneof := some (s "content"), oneofValue := some (s "mw") },
   { name := s "num", kind := .message, typeName := s ".w.Num", oneof := some (s "content") }]
/-- `oneof content { option (oneof_config) = { discriminator: "type", flatten: true } … }` -/
def oneFlat : Message :=
  { fullName := s ".w.OneFlat", name := s "OneFlat",
    fields := { name := s "ident", kind := .string } :: variants,
    oneofs := [{ name := s "content", hasConfig := true, discriminator := s "type", flatten := true }] }
def oneNest : Message :=
  { fullName := s ".w.OneNest", name := s "OneNest",
    fields := { name := s "ident", kind := .string } :: variants,
    oneofs := [{ name := s "content", hasConfig := true, discriminator := s "type", flatten := false }] }

/-- `message NumList { repeated int64 nums = 1 [unwrap]; }` -/
def numList : Message :=
  { fullName := s ".w.NumList", name := s "NumList",
    fields := [{ name := s "nums", kind := .int64, card := .repeated, unwrap := true }] }
/-- `message Opt { optional bytes opt_y = 1; string tag = 2; }` -/
def opt : Message :=
  { fullName := s ".w.Opt", name := s "Opt",
    fields := [{ name := s "opt_y", kind := .bytes, card := .optional }, { name := s "tag", kind := .string }] }
/-- the container: a map whose value type unwraps, next to sibling fields. -/
def cont : Message :=
  { fullName := s ".w.Cont", name := s "Cont",
    fields := [{ name := s "by_n", kind := .message, typeName := s ".w.NumList", card := .map },
               { name := s "big_i", kind := .int64 }, { name := s "dbl", kind := .double },
               { name := s "by_k", kind := .message, typeName := s ".w.Spot", card := .map },
               { name := s "by_o", kind := .message, typeName := s ".w.Opt", card := .map }] }
/-- the combined root map + value unwrap. -/
def root : Message :=
  { fullName := s ".w.Root", name := s "Root",
    fields := [{ name := s "entries", kind := .message, typeName := s ".w.NumList", card := .map, unwrap := true }] }
/-- `message Ratios { repeated double items = 1 [unwrap]; }` -/
def ratios : Message :=
  { fullName := s ".w.Ratios", name := s "Ratios",
    fields := [{ name := s "items", kind := .double, card := .repeated, unwrap := true }] }

def rq : Request :=
  { files := [{ name := s "w.proto", messages := [spot, flat, two, pick, flatPick, flags, flatFlags, gone, single, multi, num, oneFlat, oneNest, numList, opt, cont, root, ratios] }] }

def str (x : String) : Json := Json.str x.toList
def int (i : Int) : Json := Json.num (JNum.int i)
def vstr (x : String) : Val := Val.str x.toList

/-- `decode(encode v)` as the model predicts it (`none`: the encoder fails). -/
def roundTrip (m : Message) (v : List (Str × Val)) : Option (R (List (Str × Val))) :=
  (serverEnc rq 12 m v).map (serverDec rq 12 m)

/-! ### flatten -/

/-- the wire form of `Flat{title:"t", home:{zip_code:"z"}}`: the child's member is named by the
struct tag (proto name), not by the JSON name. -/
theorem flat_wire : serverEnc rq 12 flat [(s "title", vstr "t"), (s "home", .msg [(s "zip_code", vstr "z")])] =
    some (Json.obj [(s "title", str "t"), (s "home_zip_code", str "z")]) := rfl

/-- 64-bit integers of a flattened child are JSON numbers. -/
theorem flat_wire_int64 : serverEnc rq 12 flat [(s "home", .msg [(s "big", .int 5)])] =
    some (Json.obj [(s "home_big", int 5)]) := rfl

/-- the generated decoder rejects that very output. -/
theorem flat_roundtrip_multiword : roundTrip flat [(s "title", vstr "t"), (s "home", .msg [(s "zip_code", vstr "z")])] =
    some (.error (.unknownField (s "home_zip_code"))) := rfl

/-- with single-word child fields the output is accepted — and the child is gone. -/
theorem flat_roundtrip_child_lost : roundTrip flat [(s "title", vstr "t"), (s "home", .msg [(s "street", vstr "x")])] =
    some (.ok [(s "title", vstr "t")]) := rfl

/-- the same for the documented form written by another party. -/
theorem flat_contract_child_lost : serverDec rq 12 flat (Json.obj [(s "title", str "t"), (s "home_street", str "x"), (s "home_zipCode", str "z")]) =
    .ok [(s "title", vstr "t")] := rfl

/-- the documented form of a 64-bit child field (a decimal string) is refused by encoding/json. -/
theorem flat_contract_int64 : serverDec rq 12 flat (Json.obj [(s "home_big", str "5")]) = .error (.goType (s "big")) := rfl

/-- a child with a oneof always contributes the member `prefix + GoFieldName`, `null` when unset. -/
theorem flatPick_wire : serverEnc rq 12 flatPick [(s "inner", .msg [(s "name", vstr "n")])] =
    some (Json.obj [(s "in_name", str "n"), (s "in_MyChoice", Json.null)]) := rfl
theorem flatPick_roundtrip : roundTrip flatPick [(s "inner", .msg [(s "name", vstr "n")])] =
    some (.error (.unknownField (s "in_MyChoice"))) := rfl

/-- NaN in a flattened child: the encoder fails. -/
theorem flatFlags_nan : serverEnc rq 12 flatFlags [(s "inner", .msg [(s "ratio", .float (s "NaN") true)])] = none := rfl
/-- `map<bool, _>` in a flattened child: the encoder fails. -/
theorem flatFlags_bool_map : serverEnc rq 12 flatFlags [(s "inner", .msg [(s "flags", .map [(s "true", vstr "x")])])] = none := rfl

/-- two flatten fields of one child type keep their members apart. -/
theorem two_wire : serverEnc rq 12 two [(s "billing", .msg [(s "street", vstr "a"), (s "count", .int 12)]), (s "shipping", .msg [(s "street", vstr "b")])] =
    some (Json.obj [(s "billing_street", str "a"), (s "billing_count", int 12), (s "shipping_street", str "b")]) := rfl

/-! ### discriminated oneof -/

theorem oneFlat_wire_multiword : serverEnc rq 12 oneFlat [(s "ident", vstr "i"), (s "multi_word", .msg [(s "lang_code", vstr "en")])] =
    some (Json.obj [(s "ident", str "i"), (s "type", str "mw"), (s "lang_code", str "en")]) := rfl
theorem oneFlat_roundtrip_multiword : roundTrip oneFlat [(s "ident", vstr "i"), (s "multi_word", .msg [(s "lang_code", vstr "en")])] =
    some (.error (.unknownField (s "lang_code"))) := rfl

/-- single-word variant fields round-trip (64-bit integer included: protojson reads the number). -/
theorem oneFlat_roundtrip_single : roundTrip oneFlat [(s "ident", vstr "i"), (s "single", .msg [(s "body", vstr "b"), (s "big", .int 5)])] =
    some (.ok [(s "ident", vstr "i"), (s "single", .msg [(s "body", vstr "b"), (s "big", .int 5)])]) := rfl
/-- a variant whose message contributes no member keeps its oneof case. -/
theorem oneFlat_roundtrip_empty_variant : roundTrip oneFlat [(s "ident", vstr "i"), (s "gone", .msg [])] =
    some (.ok [(s "ident", vstr "i"), (s "gone", .msg [])]) := rfl
theorem oneFlat_roundtrip_default_variant : roundTrip oneFlat [(s "single", .msg [])] = some (.ok [(s "single", .msg [])]) := rfl

/-- the documented form: the multi-word member is looked up (`langCode`), handed to encoding/json,
matches no struct tag and is dropped. -/
theorem oneFlat_contract_multiword_dropped :
    serverDec rq 12 oneFlat (Json.obj [(s "type", str "mw"), (s "langCode", str "en"), (s "url", str "u")]) =
    .ok [(s "multi_word", .msg [(s "url", vstr "u")])] := rfl
theorem oneFlat_contract_int64 : serverDec rq 12 oneFlat (Json.obj [(s "type", str "single"), (s "big", str "5")]) =
    .error (.goType (s "big")) := rfl
/-- -0 survives encoding/json's decoder but not the re-marshalling (`omitempty`). -/
theorem oneFlat_contract_negzero : serverDec rq 12 oneFlat (Json.obj [(s "type", str "single"), (s "ratio", Json.num (JNum.float (s "-0")))]) =
    .ok [(s "single", .msg [])] := rfl
/-- a marshal error of the flattened variant is swallowed: its members vanish from the output. -/
theorem oneFlat_wire_nan : serverEnc rq 12 oneFlat [(s "single", .msg [(s "body", vstr "b"), (s "ratio", .float (s "NaN") true)])] =
    some (Json.obj [(s "type", str "single")]) := rfl
theorem oneFlat_roundtrip_nan : roundTrip oneFlat [(s "single", .msg [(s "body", vstr "b"), (s "ratio", .float (s "NaN") true)])] =
    some (.ok [(s "single", .msg [])]) := rfl

/-- nested (non-flattened) variant: protojson writes it, encoding/json pre-reads it. -/
theorem oneNest_wire : serverEnc rq 12 oneNest [(s "single", .msg [(s "big", .int 5)])] =
    some (Json.obj [(s "single", Json.obj [(s "big", str "5")]), (s "type", str "single")]) := rfl
theorem oneNest_roundtrip_int64 : roundTrip oneNest [(s "single", .msg [(s "big", .int 5)])] = some (.error (.goType (s "big"))) := rfl
theorem oneNest_contract_int64 : serverDec rq 12 oneNest (Json.obj [(s "type", str "single"), (s "single", Json.obj [(s "big", str "5")])]) =
    .error (.goType (s "big")) := rfl
/-- a variant type with its own `MarshalJSON` (int64 NUMBER) nested under the oneof is written by protojson. -/
theorem oneNest_wire_annotated_variant : serverEnc rq 12 oneNest [(s "num", .msg [(s "big_val", .int 5)])] =
    some (Json.obj [(s "num", Json.obj [(s "bigVal", str "5")]), (s "type", str "num")]) := rfl

/-! ### unwrap -/

theorem numList_wire : serverEnc rq 12 numList [(s "nums", .list [.int 5])] = some (Json.arr [int 5]) := rfl
theorem numList_contract : serverDec rq 12 numList (Json.arr [str "5"]) = .error (.goType (s "nums")) := rfl
theorem ratios_nan : serverEnc rq 12 ratios [(s "items", .list [.float (s "Infinity") true])] = none := rfl
theorem root_wire : serverEnc rq 12 root [(s "entries", .map [(s "x", .msg [(s "nums", .list [.int 1, .int 2])]), (s "z", .msg [])])] =
    some (Json.obj [(s "x", Json.arr [int 1, int 2]), (s "z", Json.null)]) := rfl
theorem root_roundtrip : roundTrip root [(s "entries", .map [(s "x", .msg [(s "nums", .list [.int 1, .int 2])]), (s "y", .msg [(s "nums", .list [.int 3, .int 4])])])] =
    some (.ok [(s "entries", .map [(s "x", .msg [(s "nums", .list [.int 1, .int 2])]), (s "y", .msg [(s "nums", .list [.int 3, .int 4])])])]) := rfl

theorem cont_wire : serverEnc rq 12 cont [(s "by_n", .map [(s "x", .msg [(s "nums", .list [.int 5])]), (s "z", .msg [])]), (s "big_i", .int 7)] =
    some (Json.obj [(s "byN", Json.obj [(s "x", Json.arr [int 5]), (s "z", Json.null)]), (s "bigI", int 7)]) := rfl
theorem cont_roundtrip : roundTrip cont [(s "by_n", .map [(s "x", .msg [(s "nums", .list [.int 1, .int 2])]), (s "y", .msg [(s "nums", .list [.int 3, .int 4])])]), (s "big_i", .int 7)] =
    some (.ok [(s "by_n", .map [(s "x", .msg [(s "nums", .list [.int 1, .int 2])]), (s "y", .msg [(s "nums", .list [.int 3, .int 4])])]), (s "big_i", .int 7)]) := rfl
theorem cont_contract_int64 : serverDec rq 12 cont (Json.obj [(s "bigI", str "7")]) = .error (.goType (s "big_i")) := rfl
theorem cont_nan : serverEnc rq 12 cont [(s "dbl", .float (s "NaN") true)] = none := rfl
theorem cont_roundtrip_negzero : roundTrip cont [(s "dbl", .float (s "-0") false)] = some (.ok []) := rfl
theorem cont_roundtrip_empty_optional_bytes : roundTrip cont [(s "by_o", .map [(s "k", .msg [(s "opt_y", .bytes []), (s "tag", vstr "t")])])] =
    some (.ok [(s "by_o", .map [(s "k", .msg [(s "tag", vstr "t")])])]) := rfl
/-- a regular map's message values are read by encoding/json: lowerCamel members match no tag. -/
theorem cont_contract_member_dropped : serverDec rq 12 cont (Json.obj [(s "byK", Json.obj [(s "k", Json.obj [(s "street", str "x"), (s "zipCode", str "z")])])]) =
    .ok [(s "by_k", .map [(s "k", .msg [(s "street", vstr "x")])])] := rfl

end Sebuf.GoJson.W
