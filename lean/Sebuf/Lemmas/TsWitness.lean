import Sebuf.Lemmas.TsType
/-!
Closed schemas and values used by the C07 property theorems: the non-vacuity example of the
`plain_*` theorems (`Ts.Example`) and the counter-witnesses (`Ts.Witness`) with the evaluation of the
(well-founded, hence not kernel-reducible) encoders on them.
-/
namespace Sebuf.Ts.Example
open Sebuf Sebuf.Mapping Sebuf.Ts Sebuf.Ts.Impl

def colorEnum : EnumT :=
  { fullName := ".t.Color".toList,
    values := [(0, "COLOR_UNSPECIFIED".toList, none), (1, "COLOR_RED".toList, none)] }
def nField : Field := { name := "n".toList, kind := .int64 }
def zipField : Field := { name := "zip_code".toList, kind := .int32, card := .optional }
/-- `message Child { int64 n = 1; optional int32 zip_code = 2; }` -/
def child : Message := { fullName := ".t.Child".toList, name := "Child".toList, fields := [nField, zipField] }
def cField : Field := { name := "c".toList, kind := .message, typeName := ".t.Child".toList }
def kidsField : Field := { name := "kids".toList, kind := .message, typeName := ".t.Child".toList, card := .repeated }
def tagsField : Field := { name := "tags".toList, kind := .string, card := .map }
def colorField : Field := { name := "color".toList, kind := .enum, typeName := ".t.Color".toList }
/-- `message Parent { Child c = 1; repeated Child kids = 2; map<string,string> tags = 3; Color color = 4; }` -/
def parent : Message :=
  { fullName := ".t.Parent".toList, name := "Parent".toList,
    fields := [cField, kidsField, tagsField, colorField] }
def rq : Request := { files := [{ name := "t.proto".toList, messages := [parent, child], enums := [colorEnum] }] }

/-- `{ c: {n: 5}, kids: [{zip_code: 7}], tags: {a: "b"}, color: COLOR_RED }` -/
def v : List (Str × Val) :=
  [("c".toList, .msg [("n".toList, .int 5)]), ("kids".toList, .list [.msg [("zip_code".toList, .int 7)]]),
   ("tags".toList, .map [("a".toList, .str "b".toList)]), ("color".toList, .enum 1)]

theorem rq_noAnn : rq.noAnn = true := by decide
theorem rq_nodup : (rq.allMessages.map (·.fullName)).Nodup := by decide

theorem mem_S {m : Message} (hm : m ∈ rq.allMessages) : m = parent ∨ m = child := by
  have : m ∈ [parent, child] := hm
  simpa using this

theorem declares : Declares rq (tsEnvAll rq) rq.allMessages where
  inRq := fun _ hm => hm
  closed := fun _ _ _ _ _ _ m' hfm => Request.findMessage_mem hfm
  msgDecl := by
    intro m hm
    rcases mem_S hm with rfl | rfl <;> rfl
  enumDecl := by
    intro m hm f hf hk
    rcases mem_S hm with rfl | rfl
    · have : f ∈ [cField, kidsField, tagsField, colorField] := hf
      simp only [List.mem_cons, List.not_mem_nil, or_false] at this
      rcases this with rfl | rfl | rfl | rfl
      · cases hk
      · cases hk
      · cases hk
      · exact ⟨colorEnum, rfl, rfl⟩
    · have : f ∈ [nField, zipField] := hf
      simp only [List.mem_cons, List.not_mem_nil, or_false] at this
      rcases this with rfl | rfl <;> cases hk
  jsonDistinct := by
    intro m hm
    rcases mem_S hm with rfl | rfl <;> decide

theorem wt_child (n : Nat) (vs : List (Str × Val)) (h : ∀ f ∈ child.fields, ∀ x, vs.lookup f.name = some x →
    WtField rq (n + 1) f x) : WtMsg rq (n + 3) child vs := WtMsg.mk h

theorem wt_child1 (n : Nat) : WtMsg rq (n + 3) child [("n".toList, .int 5)] := by
  refine WtMsg.mk ?_
  intro f hf x hx
  have : f ∈ [nField, zipField] := hf
  simp only [List.mem_cons, List.not_mem_nil, or_false] at this
  rcases this with rfl | rfl
  · have : x = Val.int 5 := by
      have : ([("n".toList, Val.int 5)] : List (Str × Val)).lookup nField.name = some (Val.int 5) := rfl
      rw [this] at hx; exact (Option.some.inj hx).symm
    subst this
    exact WtField.single (Or.inl rfl) (WtElem.scalar (by decide))
  · have : ([("n".toList, Val.int 5)] : List (Str × Val)).lookup zipField.name = none := rfl
    rw [this] at hx; cases hx

theorem wt_child2 (n : Nat) : WtMsg rq (n + 3) child [("zip_code".toList, .int 7)] := by
  refine WtMsg.mk ?_
  intro f hf x hx
  have : f ∈ [nField, zipField] := hf
  simp only [List.mem_cons, List.not_mem_nil, or_false] at this
  rcases this with rfl | rfl
  · have : ([("zip_code".toList, Val.int 7)] : List (Str × Val)).lookup nField.name = none := rfl
    rw [this] at hx; cases hx
  · have : x = Val.int 7 := by
      have : ([("zip_code".toList, Val.int 7)] : List (Str × Val)).lookup zipField.name = some (Val.int 7) := rfl
      rw [this] at hx; exact (Option.some.inj hx).symm
    subst this
    exact WtField.single (Or.inr rfl) (WtElem.scalar (by decide))

/-- the example value is well-typed for `Parent` and its encoding fits in fuel 8. -/
theorem wt_parent : WtMsg rq 8 parent v := by
  refine WtMsg.mk ?_
  intro f hf x hx
  have : f ∈ [cField, kidsField, tagsField, colorField] := hf
  simp only [List.mem_cons, List.not_mem_nil, or_false] at this
  rcases this with rfl | rfl | rfl | rfl
  · have : x = Val.msg [("n".toList, .int 5)] := by
      have : v.lookup cField.name = some (Val.msg [("n".toList, .int 5)]) := rfl
      rw [this] at hx; exact (Option.some.inj hx).symm
    subst this
    exact WtField.single (Or.inl rfl) (WtElem.msg rfl (by decide) (by rfl) (wt_child1 2))
  · have : x = Val.list [.msg [("zip_code".toList, .int 7)]] := by
      have : v.lookup kidsField.name = some (Val.list [.msg [("zip_code".toList, .int 7)]]) := rfl
      rw [this] at hx; exact (Option.some.inj hx).symm
    subst this
    refine WtField.list rfl ?_
    intro e he
    have : e = Val.msg [("zip_code".toList, .int 7)] := by simpa using he
    subst this
    exact WtElem.msg rfl (by decide) (by rfl) (wt_child2 0)
  · have : x = Val.map [("a".toList, .str "b".toList)] := by
      have : v.lookup tagsField.name = some (Val.map [("a".toList, .str "b".toList)]) := rfl
      rw [this] at hx; exact (Option.some.inj hx).symm
    subst this
    refine WtField.map rfl ?_
    intro p hp
    have : p = ("a".toList, Val.str "b".toList) := by simpa using hp
    subst this
    exact WtMapVal.scalar (by decide)
  · have : x = Val.enum 1 := by
      have : v.lookup colorField.name = some (Val.enum 1) := rfl
      rw [this] at hx; exact (Option.some.inj hx).symm
    subst this
    exact WtField.single (Or.inl rfl) (WtElem.scalar (by decide))


/-- the same messages behind a service: `rpc Get(Parent) returns (Parent)`. -/
def flS : File :=
  { name := "t.proto".toList, messages := [parent, child], enums := [colorEnum],
    services := [{ name := "Api".toList, methods := [{ name := "Get".toList, input := ".t.Parent".toList, output := ".t.Parent".toList }] }] }
def rqS : Request := { files := [flS] }

theorem rqS_noAnn : rqS.noAnn = true := by decide
theorem rqS_nodup : (rqS.allMessages.map (·.fullName)).Nodup := by decide
theorem rqS_declCheck : declCheck rqS flS = true := by decide
/-- the emitted block for the file: `Parent`, `Child`, `Color`, `FieldViolation`. -/
theorem rqS_block : (tsDecls rqS flS).map (·.1) =
    ["Parent".toList, "Child".toList, "Color".toList, "FieldViolation".toList] := by decide
theorem parent_collected : parent ∈ orderedMessages rqS flS := by
  show parent ∈ [parent, child]
  exact List.mem_cons_self

/-- well-typedness does not look at services. -/
theorem wt_parentS : WtMsg rqS 8 parent v := by
  refine WtMsg.mk ?_
  intro f hf x hx
  have : f ∈ [cField, kidsField, tagsField, colorField] := hf
  simp only [List.mem_cons, List.not_mem_nil, or_false] at this
  have hchild1 : WtMsg rqS 5 child [("n".toList, .int 5)] := by
    refine WtMsg.mk ?_
    intro g hg y hy
    have : g ∈ [nField, zipField] := hg
    simp only [List.mem_cons, List.not_mem_nil, or_false] at this
    rcases this with rfl | rfl
    · have : y = Val.int 5 := by
        have : ([("n".toList, Val.int 5)] : List (Str × Val)).lookup nField.name = some (Val.int 5) := rfl
        rw [this] at hy; exact (Option.some.inj hy).symm
      subst this
      exact WtField.single (Or.inl rfl) (WtElem.scalar (n := 2) (by decide))
    · have : ([("n".toList, Val.int 5)] : List (Str × Val)).lookup zipField.name = none := rfl
      rw [this] at hy; cases hy
  have hchild2 : WtMsg rqS 3 child [("zip_code".toList, .int 7)] := by
    refine WtMsg.mk ?_
    intro g hg y hy
    have : g ∈ [nField, zipField] := hg
    simp only [List.mem_cons, List.not_mem_nil, or_false] at this
    rcases this with rfl | rfl
    · have : ([("zip_code".toList, Val.int 7)] : List (Str × Val)).lookup nField.name = none := rfl
      rw [this] at hy; cases hy
    · have : y = Val.int 7 := by
        have : ([("zip_code".toList, Val.int 7)] : List (Str × Val)).lookup zipField.name = some (Val.int 7) := rfl
        rw [this] at hy; exact (Option.some.inj hy).symm
      subst this
      exact WtField.single (Or.inr rfl) (WtElem.scalar (n := 0) (by decide))
  rcases this with rfl | rfl | rfl | rfl
  · have : x = Val.msg [("n".toList, .int 5)] := by
      have : v.lookup cField.name = some (Val.msg [("n".toList, .int 5)]) := rfl
      rw [this] at hx; exact (Option.some.inj hx).symm
    subst this
    exact WtField.single (Or.inl rfl) (WtElem.msg (m := child) rfl (by decide) (by rfl) hchild1)
  · have : x = Val.list [.msg [("zip_code".toList, .int 7)]] := by
      have : v.lookup kidsField.name = some (Val.list [.msg [("zip_code".toList, .int 7)]]) := rfl
      rw [this] at hx; exact (Option.some.inj hx).symm
    subst this
    refine WtField.list rfl ?_
    intro e he
    have : e = Val.msg [("zip_code".toList, .int 7)] := by simpa using he
    subst this
    exact WtElem.msg (m := child) rfl (by decide) (by rfl) hchild2
  · have : x = Val.map [("a".toList, .str "b".toList)] := by
      have : v.lookup tagsField.name = some (Val.map [("a".toList, .str "b".toList)]) := rfl
      rw [this] at hx; exact (Option.some.inj hx).symm
    subst this
    refine WtField.map rfl ?_
    intro p hp
    have : p = ("a".toList, Val.str "b".toList) := by simpa using hp
    subst this
    exact WtMapVal.scalar (n := 3) (by decide)
  · have : x = Val.enum 1 := by
      have : v.lookup colorField.name = some (Val.enum 1) := rfl
      rw [this] at hx; exact (Option.some.inj hx).symm
    subst this
    exact WtField.single (Or.inl rfl) (WtElem.scalar (n := 5) (by decide))

end Sebuf.Ts.Example

namespace Sebuf.Ts.Witness
open Sebuf Sebuf.Mapping Sebuf.Ts Sebuf.Ts.Impl Sebuf.WireEnc.Witness

/-! ### nested annotated child: `int64_encoding = NUMBER` (keys `response:int64@nested:number_vs_string`,
same mechanism for `ts@nested`, `enumnum@nested`, `enumval@nested`, `flatten@nested`, `oneof@nested`,
`unwrap@nested`) -/

/-- `Parent { Child c }`, `Child { int64 big [NUMBER] }`: the TS type of `Child.big` is `number`
(the declaration honours the child's annotation) … -/
theorem nested_decls : tsEnvAll rqNested =
    [("Parent".toList, .obj [("c".toList, true, .ref "Child".toList)]),
     ("Child".toList, .obj [("big".toList, false, .num)])] := rfl

/-! ### `enum_value` custom names (keys `response:enumval@top:union_vs_string`, `…@nested…`) -/

/-- `type Color = "COLOR_UNSPECIFIED" | "red"` … -/
theorem enum_decls : tsEnvAll rqEnum =
    [("Paint".toList, .obj [("color".toList, false, .ref "Color".toList)]),
     ("Color".toList, .union [.lit "COLOR_UNSPECIFIED".toList, .lit "red".toList])] := rfl

/-! ### `enum_encoding = NUMBER` (key `response:enumnum@top:number_vs_string`) -/

def statusField : Field := { name := "status".toList, kind := .enum, typeName := ".t.Shade".toList, enumEnc := 2 }
def statusFieldImpl : Field := { name := "status".toList, kind := .enum, typeName := ".t.Shade".toList }
/-- `message Tin { Shade status = 1 [(sebuf.http.enum_encoding) = NUMBER]; }` -/
def tinMsg : Message := { fullName := ".t.Tin".toList, name := "Tin".toList, fields := [statusField] }
def tinMsgImpl : Message := { fullName := ".t.Tin".toList, name := "Tin".toList, fields := [statusFieldImpl] }
def shadeEnum : EnumT :=
  { fullName := ".t.Shade".toList, values := [(0, "SHADE_UNSPECIFIED".toList, none), (1, "SHADE_DARK".toList, none)] }
def rqTin : Request := { files := [{ name := "t.proto".toList, messages := [tinMsg], enums := [shadeEnum] }] }
def rqTinImpl : Request := { files := [{ name := "t.proto".toList, messages := [tinMsgImpl], enums := [shadeEnum] }] }
def vTin : List (Str × Val) := [("status".toList, Val.enum 1)]

theorem implRq_tin : WireEnc.implRq rqTin tinMsg = rqTinImpl := rfl

/-- declared `status: number` … -/
theorem tin_decls : tsEnvAll rqTin =
    [("Tin".toList, .obj [("status".toList, false, .num)]),
     ("Shade".toList, .union [.lit "SHADE_UNSPECIFIED".toList, .lit "SHADE_DARK".toList])] := rfl

/-- … the server sends the name: `{"status":"SHADE_DARK"}` (there is no Go emitter for NUMBER). -/
theorem tin_wire (n : Nat) : WireEnc.wireEnc rqTin (n + 3) tinMsg vTin =
    Json.obj [("status".toList, Json.str "SHADE_DARK".toList)] := by
  unfold WireEnc.wireEnc
  rw [implRq_tin]
  show encMsg rqTinImpl true true (n + 3) tinMsgImpl vTin = _
  rw [encMsg_obj _ _ _ _ _ _ rfl]
  show Json.obj (encFields _ _ _ _ _ [statusFieldImpl] vTin) = _
  rw [encFields_cons_plain _ _ _ _ _ _ _ _ (Val.enum 1) rfl rfl rfl rfl, encFields_nil, encFieldVal_enum]
  rfl

/-! ### discriminated oneof, not flattened (keys `response:oneof@top:undeclared_property`,
`request:oneof@top:undeclared_property`) -/

def identF : Field := { name := "ident".toList, kind := .string }
def textF : Field :=
  { name := "text".toList, kind := .message, typeName := ".t.TextV".toList, oneof := some "content".toList,
    oneofValue := some "txt".toList }
def codeF : Field := { name := "code".toList, kind := .int32, oneof := some "content".toList }
def bodyF : Field := { name := "body".toList, kind := .string }
def textV : Message := { fullName := ".t.TextV".toList, name := "TextV".toList, fields := [bodyF] }
def contentOneof : OneofDecl := { name := "content".toList, hasConfig := true, discriminator := "type".toList }
/-- `message Ev { string ident = 1; oneof content { option (oneof_config) = {discriminator:"type"};
TextV text = 2 [(oneof_value)="txt"]; int32 code = 3; } }` -/
def evMsg : Message :=
  { fullName := ".t.Ev".toList, name := "Ev".toList, fields := [identF, textF, codeF], oneofs := [contentOneof] }
def rqEv : Request := { files := [{ name := "t.proto".toList, messages := [evMsg, textV] }] }
def vEv : List (Str × Val) :=
  [("ident".toList, .str "i".toList), ("text".toList, .msg [("body".toList, .str "b".toList)])]

/-- the generator nests the union under a property named after the ONEOF:
`interface Ev { ident: string; content?: EvContent }`. -/
theorem ev_decls : tsEnvAll rqEv =
    [("EvContent".toList, .union [
        .obj [("type".toList, false, .lit "txt".toList), ("text".toList, true, .ref "TextV".toList)],
        .obj [("type".toList, false, .lit "code".toList), ("code".toList, true, .num)]]),
     ("Ev".toList, .obj [("ident".toList, false, .str), ("content".toList, true, .ref "EvContent".toList)]),
     ("TextV".toList, .obj [("body".toList, false, .str)])] := rfl

/-- the documented form (annotations.proto: "variant stays nested under its field name with the
discriminator alongside"), which is also what the Go server sends and accepts:
`{"ident":"i","type":"txt","text":{"body":"b"}}`. -/
theorem ev_enc (n : Nat) : enc rqEv (n + 6) evMsg vEv =
    Json.obj [("ident".toList, .str "i".toList), ("type".toList, .str "txt".toList),
      ("text".toList, .obj [("body".toList, .str "b".toList)])] := by
  unfold enc
  rw [encMsg_obj _ _ _ _ _ _ rfl]
  show Json.obj (encFields _ _ _ _ _ [identF, textF, codeF] vEv) = _
  rw [encFields_cons_plain _ _ _ _ _ _ _ _ (Val.str "i".toList) rfl rfl rfl rfl,
    encFields_cons_disc _ _ _ _ _ _ _ (Val.msg [("body".toList, .str "b".toList)]) contentOneof rfl rfl rfl,
    encFields_cons_absent _ _ _ _ _ _ _ _ rfl rfl, Mapping.encFields_nil,
    encFieldVal_scalar _ _ _ _ _ _ (by rfl),
    Mapping.encFieldVal_msg _ _ _ _ _ _ textV rfl, encMsg_obj _ _ _ _ _ _ rfl]
  show Json.obj [_, _, (_, Json.obj (encFields _ _ _ _ _ [bodyF] _))] = _
  rw [encFields_cons_plain _ _ _ _ _ _ _ _ (Val.str "b".toList) rfl rfl rfl rfl, Mapping.encFields_nil,
    encFieldVal_scalar _ _ _ _ _ _ (by rfl)]
  rfl

/-! ### flattened discriminated oneof with no variant set (keys `response:oneof@top:intersection_vs_object`,
`request:oneof@top:intersection_vs_object`) -/

def textFF : Field :=
  { name := "text".toList, kind := .message, typeName := ".t.TextV".toList, oneof := some "content".toList }
def contentFlat : OneofDecl :=
  { name := "content".toList, hasConfig := true, discriminator := "kind".toList, flatten := true }
def evfMsg : Message :=
  { fullName := ".t.EvF".toList, name := "EvF".toList, fields := [identF, textFF], oneofs := [contentFlat] }
def rqEvF : Request := { files := [{ name := "t.proto".toList, messages := [evfMsg, textV] }] }
def vEvF : List (Str × Val) := [("ident".toList, .str "i".toList)]

/-- `type EvF = EvFBase & EvFContent`: every value must carry one of the variants. -/
theorem evf_decls : tsEnvAll rqEvF =
    [("EvFContent".toList, .union [.obj [("kind".toList, false, .lit "text".toList), ("body".toList, false, .str)]]),
     ("EvFBase".toList, .obj [("ident".toList, false, .str)]),
     ("EvF".toList, .inter [.ref "EvFBase".toList, .ref "EvFContent".toList]),
     ("TextV".toList, .obj [("body".toList, false, .str)])] := rfl

theorem evf_enc (n : Nat) : enc rqEvF (n + 3) evfMsg vEvF = Json.obj [("ident".toList, .str "i".toList)] := by
  unfold enc
  rw [encMsg_obj _ _ _ _ _ _ rfl]
  show Json.obj (encFields _ _ _ _ _ [identF, textFF] vEvF) = _
  rw [encFields_cons_plain _ _ _ _ _ _ _ _ (Val.str "i".toList) rfl rfl rfl rfl,
    encFields_cons_absent _ _ _ _ _ _ _ _ rfl rfl, Mapping.encFields_nil,
    encFieldVal_scalar _ _ _ _ _ _ (by rfl)]
  rfl

/-! ### root unwrap as a REQUEST (keys `request:unwrap@top:object_vs_array`, `…:undeclared_property`) -/

def itemsF : Field := { name := "items".toList, kind := .string, card := .repeated, unwrap := true }
/-- `message Names { repeated string items = 1 [(sebuf.http.unwrap) = true]; }` -/
def namesMsg : Message := { fullName := ".t.Names".toList, name := "Names".toList, fields := [itemsF] }
def rqNames : Request := { files := [{ name := "t.proto".toList, messages := [namesMsg] }] }
def vNames : List (Str × Val) := [("items".toList, .list [.str "a".toList])]

/-- as a result type the generator unwraps (`Promise<string[]>`) … -/
theorem names_result : resultTy rqNames namesMsg = .arr .str := rfl
/-- … but the `req` parameter is typed with the interface `Names { items: string[] }`. -/
theorem names_decls : tsEnvAll rqNames = [("Names".toList, .obj [("items".toList, false, .arr .str)])] := rfl

/-- the contract form of the body is the bare array `["a"]` (the Go server accepts exactly that). -/
theorem names_enc (n : Nat) : enc rqNames (n + 4) namesMsg vNames = Json.arr [.str "a".toList] := by
  unfold enc
  rw [encMsg_root _ _ _ _ itemsF _ (Val.list [.str "a".toList]) rfl rfl rfl, encFieldVal_list, encList_cons,
    encList_nil, encFieldVal_scalar _ _ _ _ _ _ (by rfl)]
  rfl

theorem implRq_names : WireEnc.implRq rqNames namesMsg = rqNames := rfl

/-- an EMPTY scalar root unwrap is sent as `null` (`json.Marshal` of a nil slice), keys
`response:unwrap@top:array_vs_null`, `response:unwrap@top:record_vs_null`. -/
theorem names_empty_wire (n : Nat) : WireEnc.wireEnc rqNames (n + 1) namesMsg [] = Json.null := by
  unfold WireEnc.wireEnc
  rw [implRq_names]
  show encMsg rqNames true true (n + 1) namesMsg [] = _
  exact encMsg_root_absent_goNil _ _ _ itemsF _ rfl rfl rfl rfl

/-! ### `empty_behavior = NULL` (keys `response:empty@top:object_vs_null`, `request:empty@top:object_vs_null`) -/

def metaF : Field := { name := "meta".toList, kind := .message, typeName := ".t.TextV".toList, emptyBehavior := 2 }
def boxMsg : Message := { fullName := ".t.Box".toList, name := "Box".toList, fields := [metaF] }
def rqBox : Request := { files := [{ name := "t.proto".toList, messages := [boxMsg, textV] }] }
def vBox : List (Str × Val) := [("meta".toList, .msg [])]

theorem implRq_box : WireEnc.implRq rqBox boxMsg = rqBox := rfl

/-- declared `meta?: TextV` (no `| null`) … -/
theorem box_decls : tsEnvAll rqBox =
    [("Box".toList, .obj [("meta".toList, true, .ref "TextV".toList)]),
     ("TextV".toList, .obj [("body".toList, false, .str)])] := rfl

/-- … the server sends `{"meta":null}` for an empty child, as documented. -/
theorem box_wire (n : Nat) : WireEnc.wireEnc rqBox (n + 2) boxMsg vBox = Json.obj [("meta".toList, Json.null)] := by
  unfold WireEnc.wireEnc
  rw [implRq_box]
  show encMsg rqBox true true (n + 2) boxMsg vBox = _
  rw [encMsg_obj _ _ _ _ _ _ rfl]
  show Json.obj (encFields _ _ _ _ _ [metaF] vBox) = _
  rw [encFields_cons_empty_null _ _ _ _ _ _ _ rfl rfl rfl rfl rfl rfl, Mapping.encFields_nil]
  rfl

/-! ### non-finite floats (keys `response:non_finite_float_as_string`, `request:non_finite_float_as_string`) -/

def scoreF : Field := { name := "score".toList, kind := .double }
def gaugeMsg : Message := { fullName := ".t.Gauge".toList, name := "Gauge".toList, fields := [scoreF] }
def rqGauge : Request := { files := [{ name := "t.proto".toList, messages := [gaugeMsg] }] }
def vGauge : List (Str × Val) := [("score".toList, .float "NaN".toList true)]

theorem gauge_pj (n : Nat) : pj rqGauge (n + 3) gaugeMsg vGauge = Json.obj [("score".toList, .str "NaN".toList)] := by
  unfold pj
  rw [encMsg_pj]
  show Json.obj (encFields _ _ _ _ _ [scoreF] vGauge) = _
  rw [encFields_cons_plain _ _ _ _ _ _ _ _ (Val.float "NaN".toList true) rfl rfl rfl rfl,
    Mapping.encFields_nil]
  show Json.obj [(_, encFieldVal rqGauge false false (n + 1) scoreF _)] = _
  rw [encFieldVal]
  · rfl
  all_goals (intros; contradiction)

/-! ### the TS server's handler argument (keys `handler_arg:path_param:number_vs_string`,
`handler_arg:path_param:boolean_vs_string`, `handler_arg:query_param_enum:union_vs_string`) -/

def userIdF : Field := { name := "user_id".toList, kind := .int32 }
def onF : Field := { name := "on".toList, kind := .bool }
/-- request of `GET /users/{user_id}/{on}` -/
def getReq : Message := { fullName := ".t.GetReq".toList, name := "GetReq".toList, fields := [userIdF, onF] }
def shadeF : Field :=
  { name := "shade".toList, kind := .enum, typeName := ".t.Shade".toList, query := some ("shade".toList, false) }
/-- request of `GET /list?shade=…` -/
def listReq : Message := { fullName := ".t.ListReq".toList, name := "ListReq".toList, fields := [shadeF] }
def rqUrl : Request := { files := [{ name := "t.proto".toList, messages := [getReq, listReq], enums := [shadeEnum] }] }

theorem url_decls : tsEnvAll rqUrl =
    [("GetReq".toList, .obj [("userId".toList, false, .num), ("on".toList, false, .bool)]),
     ("ListReq".toList, .obj [("shade".toList, false, .ref "Shade".toList)]),
     ("Shade".toList, .union [.lit "SHADE_UNSPECIFIED".toList, .lit "SHADE_DARK".toList])] := rfl

/-- `body.userId = pathParams["user_id"]`: the raw path segment, a string. -/
theorem path_arg : handlerArgNoBody getReq [("user_id".toList, "7".toList), ("on".toList, "true".toList)] [] =
    Json.obj [("userId".toList, .str "7".toList), ("on".toList, .str "true".toList)] := rfl

/-! ### one route with path variables AND query parameters (loads since /repo 41e5e05) -/

def tenantF : Field := { name := "tenant".toList, kind := .string }
def bigNumF : Field :=
  { name := "big_num".toList, kind := .uint64, int64Enc := 2, query := some ("big_num".toList, false) }
def bigPlainF : Field := { name := "big_plain".toList, kind := .int64, query := some ("big_plain".toList, false) }
def flagQF : Field := { name := "flag_q".toList, kind := .bool, query := some ("flag_q_param".toList, false) }
def shadeQF : Field :=
  { name := "shade_q".toList, kind := .enum, typeName := ".t.Shade".toList, query := some ("shade_q".toList, false) }
/-- request of `GET /t/{tenant}?big_num=…&big_plain=…&flag_q_param=…&shade_q=…` -/
def mixReq : Message :=
  { fullName := ".t.MixReq".toList, name := "MixReq".toList, fields := [tenantF, bigNumF, bigPlainF, flagQF, shadeQF] }
/-- the same with an int32 path variable -/
def mixReqN : Message :=
  { fullName := ".t.MixReqN".toList, name := "MixReqN".toList, fields := [userIdF, bigNumF, flagQF] }
def rqMix : Request :=
  { files := [{ name := "t.proto".toList, messages := [mixReq, mixReqN], enums := [shadeEnum] }] }

theorem mix_decls : tsEnvAll rqMix =
    [("MixReq".toList, .obj [("tenant".toList, false, .str), ("bigNum".toList, false, .num),
        ("bigPlain".toList, false, .str), ("flagQ".toList, false, .bool), ("shadeQ".toList, false, .ref "Shade".toList)]),
     ("MixReqN".toList, .obj [("userId".toList, false, .num), ("bigNum".toList, false, .num), ("flagQ".toList, false, .bool)]),
     ("Shade".toList, .union [.lit "SHADE_UNSPECIFIED".toList, .lit "SHADE_DARK".toList])] := rfl

/-- query conversions first (`Number` rounds 2^53+1 to the nearest double), then the path merge. -/
theorem mix_arg :
    handlerArgNoBody mixReq [("tenant".toList, "acme".toList)]
      [("big_num".toList, "9007199254740993".toList), ("big_plain".toList, "9007199254740993".toList),
       ("flag_q_param".toList, "true".toList), ("shade_q".toList, "SHADE_DARK".toList)] =
    Json.obj [("bigNum".toList, .num (.int 9007199254740992)), ("bigPlain".toList, .str "9007199254740993".toList),
      ("flagQ".toList, .bool true), ("shadeQ".toList, .str "SHADE_DARK".toList), ("tenant".toList, .str "acme".toList)] := rfl

/-- the nested-`int64` witness value is well-typed (used by `C07.not_full`). -/
theorem wt_nested : WtMsg WireEnc.Witness.rqNested 6 WireEnc.Witness.parentMsg WireEnc.Witness.vNested := by
  refine WtMsg.mk ?_
  intro f hf x hx
  have : f = WireEnc.Witness.cField := by
    have : f ∈ [WireEnc.Witness.cField] := hf
    simpa using this
  subst this
  have : x = Val.msg [("big".toList, Val.int 5)] := by
    have : WireEnc.Witness.vNested.lookup WireEnc.Witness.cField.name = some (Val.msg [("big".toList, Val.int 5)]) := rfl
    rw [this] at hx; exact (Option.some.inj hx).symm
  subst this
  refine WtField.single (Or.inl rfl) (WtElem.msg (m := WireEnc.Witness.childMsg) rfl (by decide) (by rfl) ?_)
  refine WtMsg.mk ?_
  intro g hg y hy
  have : g = WireEnc.Witness.bigField := by
    have : g ∈ [WireEnc.Witness.bigField] := hg
    simpa using this
  subst this
  have : y = Val.int 5 := by
    have : ([("big".toList, Val.int 5)] : List (Str × Val)).lookup WireEnc.Witness.bigField.name = some (Val.int 5) := rfl
    rw [this] at hy; exact (Option.some.inj hy).symm
  subst this
  exact WtField.single (Or.inl rfl) (WtElem.scalar (n := 0) (by decide))


end Sebuf.Ts.Witness
