package gen

import (
	"fmt"
	"strconv"
	"strings"

	"verif/harness/ir"
)

// Rules of property C12, by the names Sebuf.Spec.Rule.name uses.
var JSONRules = []string{
	"unwrap_not_repeated", "unwrap_twice", "map_unwrap_not_alone",
	"nullable_not_optional", "nullable_on_message", "empty_behavior_wrong_type",
	"timestamp_format_wrong_type", "bytes_encoding_wrong_type",
	"flatten_wrong_field", "flatten_collision", "prefix_without_flatten",
	"discriminator_collision", "oneof_flatten_scalar_variant", "oneof_flatten_collision",
	"enum_number_with_custom_values",
}

var HTTPRules = []string{"path_var_no_field", "path_var_non_scalar_kind", "path_var_not_singular", "path_and_query", "bodiless_unbound_fields"}

var Placements = []string{"top", "nested", "other_generated_file", "imported_file", "nested_under_annotated"}

// Broken is a self-contained rule-breaking fragment: messages (the first one is the offender's
// home), enums, and for HTTP rules a method on the offending input message.
type Broken struct {
	Rule     string
	Variant  string
	Offender string // name the error message must mention
	Messages []*ir.Message
	Enums    []*ir.Enum
	Method   *ir.Method // Input/Output are short names, qualified at placement
	// PreMethods are VALID methods on the same input message declared before Method.
	PreMethods []*ir.Method
	// BasePath, when set, becomes the base path of the service the method is placed in.
	BasePath string
}

func child(name string, fields ...string) *ir.Message {
	m := &ir.Message{Name: name}
	for i, f := range fields {
		m.Fields = append(m.Fields, &ir.Field{Name: f, Number: int32(i + 1), Kind: "string"})
	}
	return m
}

func tagNo(tag string) int {
	n, _ := strconv.Atoi(tag)
	return n
}

// BreakJSONRule builds a fragment that breaks exactly one JSON-mapping rule. pkgPrefix is
// ".pkg." of the file the fragment will live in; tag makes names unique.
func BreakJSONRule(r *R, rule, pkgPrefix, tag string) *Broken {
	B := "Bad" + tag
	C := "BadChild" + tag
	b := &Broken{Rule: rule}
	bad := &ir.Message{Name: B}
	switch rule {
	case "unwrap_not_repeated":
		k := Pick(r, []string{"string", "int64", "message"})
		f := &ir.Field{Name: "solo", Number: 1, Kind: k, Ann: ir.Ann{Unwrap: true}}
		if k == "message" {
			b.Messages = append(b.Messages, child(C, "v"))
			f.TypeName = pkgPrefix + C
		}
		b.Variant = k
		bad.Fields = []*ir.Field{f}
		b.Offender = "solo"
	case "unwrap_twice":
		bad.Fields = []*ir.Field{
			{Name: "first", Number: 1, Kind: "string", Card: "repeated", Ann: ir.Ann{Unwrap: true}},
			{Name: "second", Number: 2, Kind: "int32", Card: "repeated", Ann: ir.Ann{Unwrap: true}},
		}
		b.Offender = "second"
	case "map_unwrap_not_alone":
		bad.Fields = []*ir.Field{
			{Name: "entries", Number: 1, Kind: "string", Card: "map", MapKey: "string", Ann: ir.Ann{Unwrap: true}},
			{Name: "extra", Number: 2, Kind: "string"},
		}
		b.Offender = "entries"
	case "nullable_not_optional":
		card := []string{"", "repeated", "oneof_member", "map"}[tagNo(tag)%4] // every variant within any four consecutive cases
		b.Variant = "card=" + card
		fl := &ir.Field{Name: "maybe", Number: 1, Kind: Pick(r, []string{"string", "int32", "bool"}), Card: card, Ann: ir.Ann{Nullable: bp(true)}}
		bad.Fields = []*ir.Field{fl}
		switch card {
		case "oneof_member":
			// a member of a REAL oneof has presence too, but is no proto3 `optional` field
			fl.Card, fl.Oneof = "", "choice"
			bad.Oneofs = []*ir.Oneof{{Name: "choice"}}
			bad.Fields = append(bad.Fields, &ir.Field{Name: "other", Number: 2, Kind: "string", Oneof: "choice"})
		case "map":
			fl.MapKey = "string"
		}
		b.Offender = "maybe"
	case "nullable_on_message":
		b.Messages = append(b.Messages, child(C, "v"))
		bad.Fields = []*ir.Field{{Name: "maybe_msg", Number: 1, Kind: "message", TypeName: pkgPrefix + C, Card: "optional", Ann: ir.Ann{Nullable: bp(true)}}}
		b.Offender = "maybe_msg"
	case "empty_behavior_wrong_type":
		eb := Pick(r, []string{"PRESERVE", "NULL", "OMIT"})
		switch v := r.Intn(3); v {
		case 0:
			b.Variant = "scalar"
			bad.Fields = []*ir.Field{{Name: "meta", Number: 1, Kind: "string", Ann: ir.Ann{EmptyBehavior: eb}}}
		case 1:
			b.Variant = "repeated"
			b.Messages = append(b.Messages, child(C, "v"))
			bad.Fields = []*ir.Field{{Name: "meta", Number: 1, Kind: "message", TypeName: pkgPrefix + C, Card: "repeated", Ann: ir.Ann{EmptyBehavior: eb}}}
		default:
			b.Variant = "map"
			b.Messages = append(b.Messages, child(C, "v"))
			bad.Fields = []*ir.Field{{Name: "meta", Number: 1, Kind: "message", TypeName: pkgPrefix + C, Card: "map", MapKey: "string", Ann: ir.Ann{EmptyBehavior: eb}}}
		}
		b.Offender = "meta"
	case "timestamp_format_wrong_type":
		tf := Pick(r, []string{"RFC3339", "UNIX_SECONDS", "UNIX_MILLIS", "DATE"})
		if r.Bool() {
			b.Variant = "string"
			bad.Fields = []*ir.Field{{Name: "when", Number: 1, Kind: Pick(r, []string{"string", "int64"}), Ann: ir.Ann{TsFormat: tf}}}
		} else {
			b.Variant = "other message"
			b.Messages = append(b.Messages, child(C, "v"))
			bad.Fields = []*ir.Field{{Name: "when", Number: 1, Kind: "message", TypeName: pkgPrefix + C, Ann: ir.Ann{TsFormat: tf}}}
		}
		b.Offender = "when"
	case "bytes_encoding_wrong_type":
		bad.Fields = []*ir.Field{{Name: "blob", Number: 1, Kind: Pick(r, []string{"string", "int32"}), Ann: ir.Ann{BytesEnc: Pick(r, []string{"HEX", "BASE64URL", "BASE64"})}}}
		b.Offender = "blob"
	case "flatten_wrong_field":
		b.Messages = append(b.Messages, child(C, "street"))
		switch v := r.Intn(4); v {
		case 0:
			b.Variant = "repeated"
			bad.Fields = []*ir.Field{{Name: "home", Number: 1, Kind: "message", TypeName: pkgPrefix + C, Card: "repeated", Ann: ir.Ann{Flatten: bp(true)}}}
		case 1:
			b.Variant = "map"
			bad.Fields = []*ir.Field{{Name: "home", Number: 1, Kind: "message", TypeName: pkgPrefix + C, Card: "map", MapKey: "string", Ann: ir.Ann{Flatten: bp(true)}}}
		case 2:
			b.Variant = "scalar"
			bad.Fields = []*ir.Field{{Name: "home", Number: 1, Kind: "string", Ann: ir.Ann{Flatten: bp(true)}}}
		default:
			b.Variant = "oneof member"
			bad.Oneofs = []*ir.Oneof{{Name: "pick"}}
			bad.Fields = []*ir.Field{{Name: "home", Number: 1, Kind: "message", TypeName: pkgPrefix + C, Oneof: "pick", Ann: ir.Ann{Flatten: bp(true)}},
				{Name: "other", Number: 2, Kind: "string", Oneof: "pick"}}
		}
		b.Offender = "home"
	case "flatten_collision":
		if r.Bool() {
			b.Variant = "child vs parent field"
			b.Messages = append(b.Messages, child(C, "title", "zip_code"))
			bad.Fields = []*ir.Field{{Name: "title", Number: 1, Kind: "string"},
				{Name: "home", Number: 2, Kind: "message", TypeName: pkgPrefix + C, Ann: ir.Ann{Flatten: bp(true)}}}
			if r.Bool() {
				// the plain field is declared AFTER the flattened one
				b.Variant = "child vs parent field declared later"
				bad.Fields = []*ir.Field{{Name: "home", Number: 1, Kind: "message", TypeName: pkgPrefix + C, Ann: ir.Ann{Flatten: bp(true)}},
					{Name: "title", Number: 2, Kind: "string"}}
			}
		} else {
			b.Variant = "two flattened children, prefixed name equals parent json name"
			b.Messages = append(b.Messages, child(C, "street"))
			bad.Fields = []*ir.Field{{Name: "home", Number: 1, Kind: "message", TypeName: pkgPrefix + C, Ann: ir.Ann{Flatten: bp(true), FlattenPrefix: sp("x")}},
				{Name: "work", Number: 2, Kind: "message", TypeName: pkgPrefix + C, Ann: ir.Ann{Flatten: bp(true), FlattenPrefix: sp("x")}}}
		}
		b.Offender = "home"
		if !strings.HasPrefix(b.Variant, "child vs parent field") {
			b.Offender = "work"
		}
	case "prefix_without_flatten":
		b.Messages = append(b.Messages, child(C, "street"))
		bad.Fields = []*ir.Field{{Name: "home", Number: 1, Kind: "message", TypeName: pkgPrefix + C, Ann: ir.Ann{FlattenPrefix: sp("home_")}}}
		if r.Bool() {
			bad.Fields[0].Ann.Flatten = bp(false)
			b.Variant = "flatten=false"
		}
		b.Offender = "home"
	case "discriminator_collision":
		b.Messages = append(b.Messages, child(C, "body"))
		bad.Oneofs = []*ir.Oneof{{Name: "content", HasConfig: true, Discriminator: sp("eventType"), Flatten: r.Bool()}}
		bad.Fields = []*ir.Field{{Name: "event_type", Number: 1, Kind: "string"},
			{Name: "text", Number: 2, Kind: "message", TypeName: pkgPrefix + C, Oneof: "content"}}
		switch r.Intn(3) {
		case 1:
			// the colliding field is a proto3 optional (member of a synthetic oneof)
			b.Variant = "colliding field is optional"
			bad.Fields[0].Card = "optional"
		case 2:
			// the colliding field is a variant of a second, plain oneof
			b.Variant = "colliding field in another oneof"
			bad.Oneofs = append(bad.Oneofs, &ir.Oneof{Name: "extra"})
			bad.Fields[0].Oneof = "extra"
			// members of one oneof are declared consecutively
			bad.Fields = []*ir.Field{bad.Fields[0], {Name: "other", Number: 3, Kind: "int32", Oneof: "extra"}, bad.Fields[1]}
		}
		b.Offender = "content"
	case "oneof_flatten_scalar_variant":
		b.Messages = append(b.Messages, child(C, "body"))
		bad.Oneofs = []*ir.Oneof{{Name: "content", HasConfig: true, Discriminator: sp("type"), Flatten: true}}
		bad.Fields = []*ir.Field{{Name: "text", Number: 1, Kind: "message", TypeName: pkgPrefix + C, Oneof: "content"},
			{Name: "code", Number: 2, Kind: "int32", Oneof: "content"}}
		b.Offender = "content"
	case "oneof_flatten_collision":
		if r.Bool() {
			b.Variant = "child vs parent field"
			b.Messages = append(b.Messages, child(C, "body", "ident"))
			bad.Oneofs = []*ir.Oneof{{Name: "content", HasConfig: true, Discriminator: sp("type"), Flatten: true}}
			bad.Fields = []*ir.Field{{Name: "ident", Number: 1, Kind: "string"},
				{Name: "text", Number: 2, Kind: "message", TypeName: pkgPrefix + C, Oneof: "content"}}
		} else {
			b.Variant = "child vs discriminator"
			b.Messages = append(b.Messages, child(C, "body", "type"))
			bad.Oneofs = []*ir.Oneof{{Name: "content", HasConfig: true, Discriminator: sp("type"), Flatten: true}}
			bad.Fields = []*ir.Field{{Name: "ident", Number: 1, Kind: "string"},
				{Name: "text", Number: 2, Kind: "message", TypeName: pkgPrefix + C, Oneof: "content"}}
		}
		b.Offender = "content"
	case "enum_number_with_custom_values":
		en := "BadEnum" + tag
		b.Enums = append(b.Enums, &ir.Enum{Name: en, Values: []ir.EnumValue{{Name: "BAD" + tag + "_ZERO", Number: 0}, {Name: "BAD" + tag + "_ONE", Number: 1, Custom: sp("one")}}})
		f := &ir.Field{Name: "state", Number: 1, Kind: "enum", TypeName: pkgPrefix + en, Ann: ir.Ann{EnumEnc: "NUMBER"}}
		switch r.Intn(4) {
		case 0:
			f.Card = "repeated"
			b.Variant = "repeated"
		case 1:
			f.Card = "map"
			f.MapKey = "string"
			b.Variant = "map value"
		case 2:
			f.Card = "optional"
			b.Variant = "optional"
		}
		bad.Fields = []*ir.Field{f}
		b.Offender = "state"
	default:
		panic("unknown rule " + rule)
	}
	// the offender is not always the FIRST use of the types it refers to: in one case of three an earlier message
	// (or, for the enum rule, an earlier field of the same message) refers to the same enum / child message in a
	// perfectly valid way — a validator that looks at each type once only would stop before the offender
	var prior *ir.Message
	switch tagNo(tag) % 3 {
	case 1:
		seen := map[string]bool{}
		pm := &ir.Message{Name: "Prior" + tag}
		for _, f := range bad.Fields {
			if f.TypeName == "" || seen[f.TypeName] {
				continue
			}
			seen[f.TypeName] = true
			pm.Fields = append(pm.Fields, &ir.Field{Name: fmt.Sprintf("earlier_%d", len(pm.Fields)+1), Number: int32(len(pm.Fields) + 1), Kind: f.Kind, TypeName: f.TypeName})
		}
		if len(pm.Fields) > 0 {
			prior = pm
			b.Variant = strings.TrimSpace(b.Variant + " +earlier valid use in another message")
		}
	case 2:
		if rule == "enum_number_with_custom_values" {
			f := bad.Fields[0]
			bad.Fields = append([]*ir.Field{{Name: "kind", Number: 9, Kind: "enum", TypeName: f.TypeName, Ann: ir.Ann{EnumEnc: "STRING"}}}, bad.Fields...)
			b.Variant = strings.TrimSpace(b.Variant + " +earlier valid field of the same enum")
		}
	}
	b.Messages = append([]*ir.Message{bad}, b.Messages...)
	if prior != nil {
		b.Messages = append([]*ir.Message{prior}, b.Messages...)
	}
	return b
}

// BreakHTTPRule builds an input message + method config that breaks one HTTP rule.
func BreakHTTPRule(r *R, rule, pkgPrefix, tag string) *Broken {
	B := "BadReq" + tag
	C := "BadChild" + tag
	b := &Broken{Rule: rule}
	bad := &ir.Message{Name: B}
	meth := &ir.Method{Name: "Bad" + tag, Input: B, Output: B}
	switch rule {
	case "path_var_no_field":
		switch r.Intn(3) {
		case 0:
			bad.Fields = []*ir.Field{{Name: "id", Number: 1, Kind: "string"}}
			meth.Config = &ir.HTTPConfig{Path: "/things/{thing_id}", Method: Pick(r, []string{"POST", "PUT", "PATCH"})}
			b.Offender = "thing_id"
		case 1:
			// the variable spells a field's JSON name (lowerCamel), not its proto name: no field matches
			b.Variant = "json_name_of_a_field"
			bad.Fields = []*ir.Field{{Name: "thing_id", Number: 1, Kind: "string"}, {Name: "note", Number: 2, Kind: "string"}}
			meth.Config = &ir.HTTPConfig{Path: "/things/{thingId}", Method: Pick(r, []string{"POST", "PUT", "PATCH"})}
			b.Offender = "thingId"
		default:
			// … or an explicit json_name
			b.Variant = "explicit_json_name_of_a_field"
			bad.Fields = []*ir.Field{{Name: "tag_name", Number: 1, Kind: "string", JSONName: "tag"}, {Name: "note", Number: 2, Kind: "string"}}
			meth.Config = &ir.HTTPConfig{Path: "/things/{tag}", Method: Pick(r, []string{"POST", "PUT", "PATCH"})}
			b.Offender = "tag"
		}
	case "path_var_non_scalar_kind":
		k := []string{"message", "enum", "bytes", "repeated enum"}[tagNo(tag)%4]
		b.Variant = k
		f := &ir.Field{Name: "id", Number: 1, Kind: k}
		if k == "repeated enum" {
			k = "enum"
			f.Kind, f.Card = "enum", "repeated"
		}
		if k == "message" {
			b.Messages = append(b.Messages, child(C, "v"))
			f.TypeName = pkgPrefix + C
		}
		if k == "enum" {
			en := "BadEnum" + tag
			b.Enums = append(b.Enums, &ir.Enum{Name: en, Values: []ir.EnumValue{{Name: "BADE" + tag + "_ZERO", Number: 0}}})
			f.TypeName = pkgPrefix + en
		}
		bad.Fields = []*ir.Field{f}
		meth.Config = &ir.HTTPConfig{Path: "/things/{id}", Method: "POST"}
		b.Offender = "id"
	case "path_var_not_singular":
		card := Pick(r, []string{"repeated", "map"})
		b.Variant = card
		f := &ir.Field{Name: "id", Number: 1, Kind: "string", Card: card}
		if card == "map" {
			f.MapKey = "string"
		}
		bad.Fields = []*ir.Field{f}
		meth.Config = &ir.HTTPConfig{Path: "/things/{id}", Method: "POST"}
		b.Offender = "id"
	case "path_and_query":
		qn := Pick(r, []string{"id", "", "ident", "thing-id"})
		b.Variant = "query name " + strconv.Quote(qn)
		bad.Fields = []*ir.Field{{Name: "id", Number: 1, Kind: "string", Ann: ir.Ann{Query: &ir.Query{Name: qn}}}}
		meth.Config = &ir.HTTPConfig{Path: "/things/{id}", Method: Pick(r, []string{"GET", "POST"})}
		b.Offender = "id"
	case "bodiless_unbound_fields":
		bad.Fields = []*ir.Field{{Name: "id", Number: 1, Kind: "string"}, {Name: "loose", Number: 2, Kind: "string"}}
		meth.Config = &ir.HTTPConfig{Path: "/things/{id}", Method: Pick(r, []string{"GET", "DELETE"})}
		b.Offender = "loose"
		if tagNo(tag)%2 == 1 {
			// no path of its own (the default path, no variables): the rule is about the VERB
			b.Variant = "default path"
			bad.Fields = []*ir.Field{{Name: "loose", Number: 1, Kind: "string"}, {Name: "page", Number: 2, Kind: "int32", Ann: ir.Ann{Query: &ir.Query{Name: "page"}}}}
			meth.Config = &ir.HTTPConfig{Method: Pick(r, []string{"GET", "DELETE"})}
		} else if tagNo(tag)%4 == 2 {
			// the service BASE PATH has a variable spelled like the unbound field: nothing binds base-path variables, so
			// the field is as unbound as before
			b.Variant = "unbound field named like a base-path variable"
			b.BasePath = "/owners/{loose}"
		} else if r.Bool() {
			// the same request message is first used by a bodiless method that binds EVERY field
			b.Variant = "after a method binding every field"
			b.PreMethods = []*ir.Method{{Name: "Full" + tag, Config: &ir.HTTPConfig{Path: "/full/{id}/{loose}", Method: Pick(r, []string{"GET", "DELETE"})}}}
		}
	default:
		panic("unknown rule " + rule)
	}
	// every third case: the offending variable shares its path segment with literal text (`{id}:archive`,
	// `{id}.csv`, `v{id}`) — it is a variable of the template all the same
	if rule != "bodiless_unbound_fields" && meth.Config != nil && tagNo(tag)%3 == 2 {
		v := "{" + b.Offender + "}"
		if rule == "path_and_query" || rule == "path_var_non_scalar_kind" || rule == "path_var_not_singular" {
			v = "{id}"
		}
		if strings.Contains(meth.Config.Path, v) {
			meth.Config.Path = strings.Replace(meth.Config.Path, v, []string{v + ":archive", v + ".csv", "v" + v}[tagNo(tag)/3%3], 1)
			b.Variant += " [variable inside a segment]"
		}
	}
	b.Messages = append([]*ir.Message{bad}, b.Messages...)
	b.Method = meth
	return b
}

// Place puts a broken fragment into a valid surrounding request at the given placement and
// returns the request. For HTTP rules only "top" and "other_generated_file" make sense.
func Place(r *R, idx int, rule, placement string) (*ir.Request, *Broken) {
	main := GenAnnotFile(r.Fork("main"), idx, AnnotOpts{Pkg: "demo.v1", FileName: fmt.Sprintf("inv%d/main.proto", idx), Features: map[string]bool{"plain": true, "int64": true, "nullable": true}})
	isHTTP := false
	for _, h := range HTTPRules {
		if h == rule {
			isHTTP = true
		}
	}
	tag := fmt.Sprint(idx)
	mk := func(pkgPrefix string) *Broken {
		if isHTTP {
			return BreakHTTPRule(r, rule, pkgPrefix, tag)
		}
		return BreakJSONRule(r, rule, pkgPrefix, tag)
	}
	req := &ir.Request{Files: []*ir.File{main}, Generate: []string{main.Name}}
	switch placement {
	case "top":
		b := mk(".demo.v1.")
		main.Messages = append(main.Messages, b.Messages...)
		main.Enums = append(main.Enums, b.Enums...)
		if b.Method != nil {
			b.Method.Input = ".demo.v1." + b.Method.Input
			b.Method.Output = b.Method.Input
			for _, pm := range b.PreMethods {
				pm.Input, pm.Output = b.Method.Input, b.Method.Output
				main.Services[0].Methods = append(main.Services[0].Methods, pm)
			}
			main.Services[0].Methods = append(main.Services[0].Methods, b.Method)
			if b.BasePath != "" {
				main.Services[0].BasePath = b.BasePath
			}
		}
		return req, b
	case "nested":
		// the offender nested inside a valid top-level message
		holder := &ir.Message{Name: "Holder" + tag, Fields: []*ir.Field{{Name: "note", Number: 1, Kind: "string"}}}
		b := mk(".demo.v1.Holder" + tag + ".")
		holder.Nested = append(holder.Nested, b.Messages...)
		holder.Enums = append(holder.Enums, b.Enums...)
		main.Messages = append(main.Messages, holder)
		if b.Method != nil {
			b.Method.Input = ".demo.v1.Holder" + tag + "." + b.Method.Input
			b.Method.Output = b.Method.Input
			for _, pm := range b.PreMethods {
				pm.Input, pm.Output = b.Method.Input, b.Method.Output
				main.Services[0].Methods = append(main.Services[0].Methods, pm)
			}
			main.Services[0].Methods = append(main.Services[0].Methods, b.Method)
			if b.BasePath != "" {
				main.Services[0].BasePath = b.BasePath
			}
		}
		return req, b
	case "nested_under_annotated":
		// the offender nested inside a message that itself carries VALID annotations of the same families (a root
		// unwrap list, an int64 encoding, a nullable field): a collector that stops descending once a parent is
		// "handled" never sees what its nested declarations do
		var holder *ir.Message
		if tagNo(tag)%2 == 0 {
			holder = &ir.Message{Name: "Holder" + tag, Fields: []*ir.Field{{Name: "items", Number: 1, Kind: "string", Card: "repeated", Ann: ir.Ann{Unwrap: true}}}}
		} else {
			holder = &ir.Message{Name: "Holder" + tag, Fields: []*ir.Field{{Name: "big", Number: 1, Kind: "int64", Ann: ir.Ann{Int64Enc: "NUMBER"}},
				{Name: "maybe", Number: 2, Kind: "string", Card: "optional", Ann: ir.Ann{Nullable: bp(true)}}}}
		}
		b := mk(".demo.v1.Holder" + tag + ".")
		holder.Nested = append(holder.Nested, b.Messages...)
		holder.Enums = append(holder.Enums, b.Enums...)
		main.Messages = append(main.Messages, holder)
		if b.Method != nil {
			b.Method.Input = ".demo.v1.Holder" + tag + "." + b.Method.Input
			b.Method.Output = b.Method.Input
			for _, pm := range b.PreMethods {
				pm.Input, pm.Output = b.Method.Input, b.Method.Output
				main.Services[0].Methods = append(main.Services[0].Methods, pm)
			}
			main.Services[0].Methods = append(main.Services[0].Methods, b.Method)
			if b.BasePath != "" {
				main.Services[0].BasePath = b.BasePath
			}
		}
		return req, b
	case "other_generated_file":
		other := &ir.File{Name: fmt.Sprintf("inv%d/types.proto", idx), Package: "demo.v1", GoPackage: main.GoPackage}
		b := mk(".demo.v1.")
		other.Messages = b.Messages
		other.Enums = b.Enums
		if b.Method != nil {
			b.Method.Input = ".demo.v1." + b.Method.Input
			b.Method.Output = b.Method.Input
			var ms []*ir.Method
			for _, pm := range b.PreMethods {
				pm.Input, pm.Output = b.Method.Input, b.Method.Output
				ms = append(ms, pm)
			}
			other.Services = []*ir.Service{{Name: "OtherSvc" + tag, BasePath: b.BasePath, Methods: append(ms, b.Method)}}
		}
		req.Files = append(req.Files, other)
		req.Generate = append(req.Generate, other.Name)
		return req, b
	case "imported_file":
		other := &ir.File{Name: fmt.Sprintf("inv%d/imported.proto", idx), Package: "demo.v1", GoPackage: main.GoPackage}
		b := mk(".demo.v1.")
		other.Messages = b.Messages
		other.Enums = b.Enums
		if b.Method != nil {
			b.Method.Input = ".demo.v1." + b.Method.Input
			b.Method.Output = b.Method.Input
			other.Services = []*ir.Service{{Name: "OtherSvc" + tag, BasePath: b.BasePath, Methods: []*ir.Method{b.Method}}}
		}
		// imported, not generated
		main.Deps = append(main.Deps, other.Name)
		req.Files = []*ir.File{other, main}
		return req, b
	}
	panic("unknown placement " + placement)
}
