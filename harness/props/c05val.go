package props

import (
	"fmt"
	"math"
	"strconv"

	"google.golang.org/protobuf/reflect/protoreflect"
	"google.golang.org/protobuf/types/dynamicpb"
)

// valToMsg builds the message the Lean decoder model predicts. The input is a Sebuf.Mapping.Val
// in the driver's value format (the format gen.ValJSON writes): {"m":[{"n":name,"v":val}]} with
// leaves i (decimal text) / b / s / f+q (float text, quoted for NaN and infinities) / y (byte
// values) / e (enum number) / ts {s, n} / l (list) / mp ([{k, v}]).
func valToMsg(md protoreflect.MessageDescriptor, v any) (*dynamicpb.Message, error) {
	m := dynamicpb.NewMessage(md)
	obj, _ := v.(map[string]any)
	if obj == nil {
		return nil, fmt.Errorf("value of %s is not an object", md.FullName())
	}
	if ts, ok := obj["ts"].(map[string]any); ok {
		if md.FullName() != "google.protobuf.Timestamp" {
			return nil, fmt.Errorf("timestamp value for %s", md.FullName())
		}
		secs, err := strconv.ParseInt(fmt.Sprint(ts["s"]), 10, 64)
		if err != nil {
			return nil, err
		}
		nanos, err := strconv.ParseInt(fmt.Sprint(ts["n"]), 10, 32)
		if err != nil {
			return nil, err
		}
		if secs != 0 {
			m.Set(md.Fields().ByName("seconds"), protoreflect.ValueOfInt64(secs))
		}
		if nanos != 0 {
			m.Set(md.Fields().ByName("nanos"), protoreflect.ValueOfInt32(int32(nanos)))
		}
		return m, nil
	}
	fields, ok := obj["m"].([]any)
	if !ok {
		return nil, fmt.Errorf("value of %s has no field list", md.FullName())
	}
	for _, fv := range fields {
		fo, _ := fv.(map[string]any)
		name, _ := fo["n"].(string)
		fd := md.Fields().ByName(protoreflect.Name(name))
		if fd == nil {
			return nil, fmt.Errorf("%s has no field %q", md.FullName(), name)
		}
		val, _ := fo["v"].(map[string]any)
		switch {
		case fd.IsMap():
			kvs, ok := val["mp"].([]any)
			if !ok {
				return nil, fmt.Errorf("%s.%s: not a map value", md.FullName(), name)
			}
			mp := m.Mutable(fd).Map()
			for _, e := range kvs {
				eo, _ := e.(map[string]any)
				k, err := mapKeyOf(fd.MapKey(), fmt.Sprint(eo["k"]))
				if err != nil {
					return nil, err
				}
				ev, err := elemOf(fd.MapValue(), eo["v"])
				if err != nil {
					return nil, err
				}
				mp.Set(k, ev)
			}
		case fd.IsList():
			l, ok := val["l"].([]any)
			if !ok {
				return nil, fmt.Errorf("%s.%s: not a list value", md.FullName(), name)
			}
			lst := m.Mutable(fd).List()
			for _, e := range l {
				ev, err := elemOf(fd, e)
				if err != nil {
					return nil, err
				}
				lst.Append(ev)
			}
		default:
			ev, err := elemOf(fd, fo["v"])
			if err != nil {
				return nil, err
			}
			m.Set(fd, ev)
		}
	}
	return m, nil
}

func mapKeyOf(fd protoreflect.FieldDescriptor, s string) (protoreflect.MapKey, error) {
	switch fd.Kind() {
	case protoreflect.StringKind:
		return protoreflect.ValueOfString(s).MapKey(), nil
	case protoreflect.BoolKind:
		return protoreflect.ValueOfBool(s == "true").MapKey(), nil
	case protoreflect.Int32Kind, protoreflect.Sint32Kind, protoreflect.Sfixed32Kind:
		n, err := strconv.ParseInt(s, 10, 32)
		return protoreflect.ValueOfInt32(int32(n)).MapKey(), err
	case protoreflect.Int64Kind, protoreflect.Sint64Kind, protoreflect.Sfixed64Kind:
		n, err := strconv.ParseInt(s, 10, 64)
		return protoreflect.ValueOfInt64(n).MapKey(), err
	case protoreflect.Uint32Kind, protoreflect.Fixed32Kind:
		n, err := strconv.ParseUint(s, 10, 32)
		return protoreflect.ValueOfUint32(uint32(n)).MapKey(), err
	default:
		n, err := strconv.ParseUint(s, 10, 64)
		return protoreflect.ValueOfUint64(n).MapKey(), err
	}
}

func elemOf(fd protoreflect.FieldDescriptor, v any) (protoreflect.Value, error) {
	o, _ := v.(map[string]any)
	if o == nil {
		return protoreflect.Value{}, fmt.Errorf("%s: not a value object", fd.FullName())
	}
	bad := func() (protoreflect.Value, error) {
		return protoreflect.Value{}, fmt.Errorf("%s: value %v does not fit kind %s", fd.FullName(), v, fd.Kind())
	}
	switch fd.Kind() {
	case protoreflect.MessageKind, protoreflect.GroupKind:
		m, err := valToMsg(fd.Message(), v)
		if err != nil {
			return protoreflect.Value{}, err
		}
		return protoreflect.ValueOfMessage(m), nil
	case protoreflect.BoolKind:
		b, ok := o["b"].(bool)
		if !ok {
			return bad()
		}
		return protoreflect.ValueOfBool(b), nil
	case protoreflect.StringKind:
		s, ok := o["s"].(string)
		if !ok {
			return bad()
		}
		return protoreflect.ValueOfString(s), nil
	case protoreflect.BytesKind:
		arr, ok := o["y"].([]any)
		if !ok {
			return bad()
		}
		b := make([]byte, len(arr))
		for i, e := range arr {
			n, err := strconv.Atoi(fmt.Sprint(e))
			if err != nil || n < 0 || n > 255 {
				return bad()
			}
			b[i] = byte(n)
		}
		return protoreflect.ValueOfBytes(b), nil
	case protoreflect.EnumKind:
		s, ok := o["e"].(string)
		if !ok {
			return bad()
		}
		n, err := strconv.ParseInt(s, 10, 32)
		if err != nil {
			return bad()
		}
		return protoreflect.ValueOfEnum(protoreflect.EnumNumber(n)), nil
	case protoreflect.FloatKind, protoreflect.DoubleKind:
		t, ok := o["f"].(string)
		if !ok {
			return bad()
		}
		bits := 64
		if fd.Kind() == protoreflect.FloatKind {
			bits = 32
		}
		var x float64
		switch t {
		case "NaN":
			x = math.NaN()
		case "Infinity":
			x = math.Inf(1)
		case "-Infinity":
			x = math.Inf(-1)
		default:
			var err error
			if x, err = strconv.ParseFloat(t, bits); err != nil {
				return bad()
			}
		}
		if bits == 32 {
			return protoreflect.ValueOfFloat32(float32(x)), nil
		}
		return protoreflect.ValueOfFloat64(x), nil
	}
	s, ok := o["i"].(string)
	if !ok {
		return bad()
	}
	switch fd.Kind() {
	case protoreflect.Int32Kind, protoreflect.Sint32Kind, protoreflect.Sfixed32Kind:
		n, err := strconv.ParseInt(s, 10, 32)
		if err != nil {
			return bad()
		}
		return protoreflect.ValueOfInt32(int32(n)), nil
	case protoreflect.Int64Kind, protoreflect.Sint64Kind, protoreflect.Sfixed64Kind:
		n, err := strconv.ParseInt(s, 10, 64)
		if err != nil {
			return bad()
		}
		return protoreflect.ValueOfInt64(n), nil
	case protoreflect.Uint32Kind, protoreflect.Fixed32Kind:
		n, err := strconv.ParseUint(s, 10, 32)
		if err != nil {
			return bad()
		}
		return protoreflect.ValueOfUint32(uint32(n)), nil
	default:
		n, err := strconv.ParseUint(s, 10, 64)
		if err != nil {
			return bad()
		}
		return protoreflect.ValueOfUint64(n), nil
	}
}
