// Package ir is the harness's schema language: a JSON-serialisable description of a
// protoc CodeGeneratorRequest restricted to the sublanguage of DESIGN.md §3. It is the
// single source both the real plugins (via descriptors) and the Lean model (via JSON) see.
package ir

import (
	"encoding/json"
	"sort"
	"strings"
)

// Request is one plugin invocation.
type Request struct {
	Files     []*File  `json:"files"`
	Generate  []string `json:"generate"`
	Parameter string   `json:"parameter,omitempty"`
	// Primary names the generated file the harness builds a runner for and judges (default: the
	// first entry of Generate). Not part of what a plugin sees.
	Primary string `json:"primary,omitempty"`
}

// PrimaryName is the file the harness serves / judges: Primary, else the first file to generate.
func (r *Request) PrimaryName() string {
	if r.Primary != "" {
		return r.Primary
	}
	if len(r.Generate) > 0 {
		return r.Generate[0]
	}
	return ""
}

type File struct {
	Name      string     `json:"name"`
	Package   string     `json:"package"`
	GoPackage string     `json:"go_package"` // "import/path;pkgname"
	Deps      []string   `json:"deps,omitempty"`
	Messages  []*Message `json:"messages,omitempty"`
	Enums     []*Enum    `json:"enums,omitempty"`
	Services  []*Service `json:"services,omitempty"`
	// Comments: leading comments as protoc would deliver them in source_code_info, keyed `msg:<Message>`,
	// `field:<Message>.<field>`, `enum:<Enum>`, `svc:<Service>`, `rpc:<Service>.<Method>` (top-level declarations only).
	Comments map[string]string `json:"comments,omitempty"`
	// ViaPrelude: the file imports none of the option / well-known files it uses itself; it imports
	// `prelude/prelude.proto`, which re-exports them all with `import public` (a common company-wide layout).
	ViaPrelude bool `json:"via_prelude,omitempty"`
}

type Message struct {
	Name   string     `json:"name"`
	Fields []*Field   `json:"fields,omitempty"`
	Oneofs []*Oneof   `json:"oneofs,omitempty"`
	Nested []*Message `json:"nested,omitempty"`
	Enums  []*Enum    `json:"enums,omitempty"`
}

// Kind names follow protoreflect.Kind.String(): double float int64 uint64 int32 fixed64
// fixed32 bool string message bytes uint32 enum sfixed32 sfixed64 sint32 sint64.
type Field struct {
	Name     string `json:"name"`
	Number   int32  `json:"number"`
	Kind     string `json:"kind"`
	TypeName string `json:"type_name,omitempty"` // ".pkg.Msg" for message/enum
	Card     string `json:"card,omitempty"`      // "" singular | optional | repeated | map
	MapKey   string `json:"map_key,omitempty"`   // key kind when Card == map
	Oneof    string `json:"oneof,omitempty"`     // containing (real) oneof name
	// JSONName is an explicit `json_name` option; "" means protoc's default derivation.
	JSONName string `json:"json_name,omitempty"`
	Ann      Ann    `json:"ann"`
	Rules    *Rules `json:"rules,omitempty"`
}

type Query struct {
	Name     string `json:"name"`
	Required bool   `json:"required,omitempty"`
}

// Ann carries every sebuf field annotation. Pointers distinguish "unset" from zero.
type Ann struct {
	Query         *Query   `json:"query,omitempty"`
	Unwrap        bool     `json:"unwrap,omitempty"`
	Int64Enc      string   `json:"int64_encoding,omitempty"`   // STRING | NUMBER
	EnumEnc       string   `json:"enum_encoding,omitempty"`    // STRING | NUMBER
	Nullable      *bool    `json:"nullable,omitempty"`         //
	EmptyBehavior string   `json:"empty_behavior,omitempty"`   // PRESERVE | NULL | OMIT
	TsFormat      string   `json:"timestamp_format,omitempty"` // RFC3339 | UNIX_SECONDS | UNIX_MILLIS | DATE
	BytesEnc      string   `json:"bytes_encoding,omitempty"`   // BASE64 | BASE64_RAW | BASE64URL | BASE64URL_RAW | HEX
	OneofValue    *string  `json:"oneof_value,omitempty"`
	Flatten       *bool    `json:"flatten,omitempty"`
	FlattenPrefix *string  `json:"flatten_prefix,omitempty"`
	Examples      []string `json:"examples,omitempty"`
}

// Rules is the buf.validate subset of property C19. Numeric bounds are decimal strings so
// that 64-bit and float values survive JSON.
type Rules struct {
	Required bool     `json:"required,omitempty"`
	MinLen   *uint64  `json:"min_len,omitempty"`
	MaxLen   *uint64  `json:"max_len,omitempty"`
	Len      *uint64  `json:"len,omitempty"`
	Pattern  *string  `json:"pattern,omitempty"`
	StrIn    []string `json:"str_in,omitempty"`
	StrConst *string  `json:"str_const,omitempty"`
	Format   string   `json:"format,omitempty"` // email uuid uri hostname ip ipv4 ipv6
	Gt       *string  `json:"gt,omitempty"`
	Gte      *string  `json:"gte,omitempty"`
	Lt       *string  `json:"lt,omitempty"`
	Lte      *string  `json:"lte,omitempty"`
	NumIn    []string `json:"num_in,omitempty"`
	NumConst *string  `json:"num_const,omitempty"`
	// NumGroup names the buf.validate rule group (int32, sint32, uint64, float, ...) the numeric
	// rules are declared under; empty means the group of the field's own kind (the only choice
	// protovalidate accepts).
	NumGroup string  `json:"num_group,omitempty"`
	MinItems *uint64 `json:"min_items,omitempty"`
	MaxItems *uint64 `json:"max_items,omitempty"`
	Unique   *bool   `json:"unique,omitempty"`
	MinPairs *uint64 `json:"min_pairs,omitempty"`
	MaxPairs *uint64 `json:"max_pairs,omitempty"`
	// IgnoreIfZero: `ignore = IGNORE_IF_ZERO_VALUE` next to the rules (the rules still apply to every non-zero value).
	IgnoreIfZero bool `json:"ignore_if_zero,omitempty"`
}

type Oneof struct {
	Name          string  `json:"name"`
	HasConfig     bool    `json:"has_config,omitempty"`
	Discriminator *string `json:"discriminator,omitempty"`
	Flatten       bool    `json:"flatten,omitempty"`
}

type EnumValue struct {
	Name   string  `json:"name"`
	Number int32   `json:"number"`
	Custom *string `json:"custom,omitempty"`
}

type Enum struct {
	Name   string      `json:"name"`
	Values []EnumValue `json:"values"`
}

type Header struct {
	Name       string `json:"name"`
	Type       string `json:"type,omitempty"`
	Required   bool   `json:"required,omitempty"`
	Format     string `json:"format,omitempty"`
	Desc       string `json:"description,omitempty"`
	Example    string `json:"example,omitempty"`
	Deprecated bool   `json:"deprecated,omitempty"`
}

type HTTPConfig struct {
	Path   string `json:"path,omitempty"`
	Method string `json:"method,omitempty"` // GET POST PUT DELETE PATCH or "" (unspecified)
}

type Method struct {
	Name    string      `json:"name"`
	Input   string      `json:"input"`  // ".pkg.Msg"
	Output  string      `json:"output"` // ".pkg.Msg"
	Config  *HTTPConfig `json:"config,omitempty"`
	Headers []Header    `json:"headers,omitempty"`
	// HasHeaders distinguishes an absent method_headers option from an empty list.
	// ClientStreaming / ServerStreaming: the RPC is declared with `stream` on its request / response.
	// sebuf has no streaming transport: every generator maps such an RPC to one plain HTTP route.
	ClientStreaming bool `json:"client_streaming,omitempty"`
	ServerStreaming bool `json:"server_streaming,omitempty"`
}

type Service struct {
	Name      string    `json:"name"`
	HasConfig bool      `json:"has_config,omitempty"`
	BasePath  string    `json:"base_path,omitempty"`
	Headers   []Header  `json:"headers,omitempty"`
	Methods   []*Method `json:"methods,omitempty"`
}

func (r *Request) JSON() string {
	b, _ := json.Marshal(r)
	return string(b)
}

func (r *Request) Clone() *Request {
	var c Request
	b, _ := json.Marshal(r)
	_ = json.Unmarshal(b, &c)
	return &c
}

func (r *Request) FileByName(n string) *File {
	for _, f := range r.Files {
		if f.Name == n {
			return f
		}
	}
	return nil
}

// GoPkgName returns the Go package name protogen derives from go_package.
func (f *File) GoPkgName() string {
	if i := strings.Index(f.GoPackage, ";"); i >= 0 {
		return f.GoPackage[i+1:]
	}
	p := f.GoPackage
	if i := strings.LastIndex(p, "/"); i >= 0 {
		p = p[i+1:]
	}
	return p
}

func (f *File) GoImportPath() string {
	if i := strings.Index(f.GoPackage, ";"); i >= 0 {
		return f.GoPackage[:i]
	}
	return f.GoPackage
}

// FindMessage resolves a fully-qualified ".pkg.Outer.Inner" name.
func (r *Request) FindMessage(full string) (*Message, *File) {
	for _, f := range r.Files {
		prefix := "."
		if f.Package != "" {
			prefix = "." + f.Package + "."
		}
		if !strings.HasPrefix(full, prefix) {
			continue
		}
		rest := strings.Split(full[len(prefix):], ".")
		if m := findMsg(f.Messages, rest); m != nil {
			return m, f
		}
	}
	return nil, nil
}

func findMsg(ms []*Message, path []string) *Message {
	for _, m := range ms {
		if m.Name == path[0] {
			if len(path) == 1 {
				return m
			}
			return findMsg(m.Nested, path[1:])
		}
	}
	return nil
}

// FindEnum resolves a fully-qualified enum name.
func (r *Request) FindEnum(full string) *Enum {
	for _, f := range r.Files {
		prefix := "."
		if f.Package != "" {
			prefix = "." + f.Package + "."
		}
		if !strings.HasPrefix(full, prefix) {
			continue
		}
		rest := strings.Split(full[len(prefix):], ".")
		if e := findEnum(f.Messages, f.Enums, rest); e != nil {
			return e
		}
	}
	return nil
}

func findEnum(ms []*Message, es []*Enum, path []string) *Enum {
	if len(path) == 1 {
		for _, e := range es {
			if e.Name == path[0] {
				return e
			}
		}
		return nil
	}
	for _, m := range ms {
		if m.Name == path[0] {
			return findEnum(m.Nested, m.Enums, path[1:])
		}
	}
	return nil
}

func (m *Message) Field(name string) *Field {
	for _, f := range m.Fields {
		if f.Name == name {
			return f
		}
	}
	return nil
}

// ShapeKey is a canonical digest input for "distinct schema shape" counting.
func (r *Request) ShapeKey() string {
	c := r.Clone()
	sort.Strings(c.Generate)
	return c.JSON()
}
