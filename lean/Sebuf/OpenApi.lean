import Sebuf.JsonSchema
import Sebuf.Str
/-!
`Spec`: well-formedness of an OpenAPI 3.1 document as property C18 states it, evaluated on the
parsed document (a `Json` value): all references resolve, every path variable of a template is
declared exactly once as a required path parameter and vice versa, parameter names are unique
per location, operation ids are unique.
-/
namespace Sebuf.OpenApi
open Sebuf

def objOf : Json → List (Str × Json)
  | .obj kvs => kvs
  | _ => []

def arrOf : Json → List Json
  | .arr l => l
  | _ => []

def strOf : Json → Str
  | .str s => s
  | _ => []

def field (k : String) (j : Json) : Json := (Json.oget k.toList (objOf j)).getD .null

def components (doc : Json) : List (Str × Json) := objOf (field "schemas" (field "components" doc))

def verbs : List String := ["get", "put", "post", "delete", "options", "head", "patch", "trace"]

/-- (path template, verb, operation object) of every operation. -/
def operations (doc : Json) : List (Str × String × Json) :=
  (objOf (field "paths" doc)).flatMap fun p =>
    verbs.filterMap fun v => match Json.oget v.toList (objOf p.2) with
      | some op => some (p.1, v, op)
      | none => none

def parameters (op : Json) : List Json := arrOf (field "parameters" op)

def paramsIn (loc : String) (op : Json) : List Json := (parameters op).filter fun p => strOf (field "in" p) == loc.toList

def hasDup : List Str → Bool
  | [] => false
  | x :: xs => xs.contains x || hasDup xs

def isTrue : Json → Bool | .bool true => true | _ => false

/-- every schema object occurring in an operation (parameters, request body, responses). -/
def opSchemas (op : Json) : List Json :=
  ((parameters op).map (field "schema")) ++
  ((objOf (field "content" (field "requestBody" op))).map fun mt => field "schema" mt.2) ++
  ((objOf (field "responses" op)).flatMap fun r => (objOf (field "content" r.2)).map fun mt => field "schema" mt.2)

structure WF where
  refsResolve        : Bool
  pathVarsDeclared   : Bool   -- each template variable is declared exactly once as a required path parameter, and vice versa
  paramNamesUnique   : Bool
  opIdsUnique        : Bool
  unresolved         : List Str
deriving Repr

/-- the targets a schema object's `discriminator.mapping` names (they are references too, although no
`$ref` keyword carries them). -/
def ownMappingTargets (kvs : List (Str × Json)) : List Str :=
  match Json.oget "discriminator".toList kvs with
  | some (.obj d) =>
    (match Json.oget "mapping".toList d with
     | some (.obj m) => m.filterMap fun p => match p.2 with | .str r => some r | _ => none
     | _ => [])
  | _ => []

/-- every `discriminator.mapping` target anywhere inside a schema. -/
def mappingTargets (s : Json) : List Str := Schema.collect ownMappingTargets s

def check (doc : Json) : WF :=
  let comps := components doc
  let ops := operations doc
  let schemas := (comps.map Prod.snd) ++ ops.flatMap (fun o => opSchemas o.2.2)
  let allRefs := schemas.flatMap Schema.refs ++ schemas.flatMap mappingTargets
  let bad := allRefs.filter fun r => !(Schema.refResolves comps r)
  let pathOK := ops.all fun o =>
    let vars := extractPathParams o.1
    let declared := (paramsIn "path" o.2.2).map fun p => strOf (field "name" p)
    !hasDup declared && vars.all (declared.contains ·) && declared.all (vars.contains ·) &&
    (paramsIn "path" o.2.2).all fun p => isTrue (field "required" p)
  let namesOK := ops.all fun o => ["path", "query", "header", "cookie"].all fun loc =>
    !hasDup ((paramsIn loc o.2.2).map fun p => strOf (field "name" p))
  let ids := ops.map fun o => strOf (field "operationId" o.2.2)
  { refsResolve := bad.isEmpty, pathVarsDeclared := pathOK, paramNamesUnique := namesOK, opIdsUnique := !hasDup ids, unresolved := bad }

end Sebuf.OpenApi
