import Sebuf.Bind
import Sebuf.Lemmas.Dec
import Sebuf.Lemmas.PropsC02
/-!
# C02 — URL-carried fields reach the handler with the URL's value, for every verb

`Holds order` is the full statement for a middleware that runs its steps in `order`.
`generic` proves it for every order in which the body step precedes the URL binders — whatever
else the order contains. The emitted middleware's order is the regenerated fact
`Gen.Pipeline.order`: today `order_today` shows the body step comes LAST, `not_full` is the
proved negation (known finding C02 `body_resets_url_fields`), and `bodiless_partial` is what
still holds (no body decoded). After the obvious repair `order_today` flips and `Holds` follows
from `generic` by `decide`.

Conversion of URL text uses the regenerated `convertStringToFieldValue` table: `convert_in_range`
and `convert_out_of_range` tie each integer kind to its protobuf range.

`WF` (request well-formedness) and `UrlBound` are defined in `Sebuf.Lemmas.PropsC02`, next to the
association-list lemmas whose statements use them.
-/
namespace Sebuf.C02
open Sebuf Sebuf.Bind

variable {V : Type}

/-- **Full statement** for a middleware running `order`: a URL-bound field the body does not
mention reaches the handler with the URL's value, whether or not a body is present. -/
def Holds (V : Type) (order : List Step) : Prop :=
  ∀ (r : Req V) (f : Str) (u : V), WF r → UrlBound r f u →
    (∀ fs, r.body = some fs → f ∉ fs.map Prod.fst) → fget f (bindMsg order r) = some u

/-- **C02, generic**: for EVERY order in which the body step precedes both URL binders the full
statement holds (the hypothesis on the body is not even needed: the URL wins). -/
theorem generic (order : List Step)
    (h : relevant order = [.body, .path, .query] ∨ relevant order = [.body, .query, .path]) :
    Holds V order := by
  intro r f u hwf hb _
  rw [bind_relevant]
  rcases h with h | h <;> rw [h] <;> simp only [bindMsg, List.foldl_cons, List.foldl_nil, applyStep]
  · exact (url_value_after r f u hwf hb _).1
  · exact (url_value_after r f u hwf hb _).2

/-- the order the emitted middleware has NOW (regenerated from the emitted text): since the
repair `fix: go-http: bind the request body before path and query parameters` the body step
precedes both URL binders. -/
theorem order_today : relevant currentOrder = [.body, .path, .query] := by decide

/-- **C02, full**: with the regenerated order, a URL-bound field reaches the handler with the
URL's value for every verb and every body (`generic` applied to today's order). -/
theorem full : Holds V currentOrder := generic currentOrder (Or.inl order_today)

/-- what the regression looked like (the order before the repair; entry `body_resets_url_fields`,
fixed): POST /users/xyz with body `{"note": …}` — the body decode reset the message after the URL
binders had run. A return to that order makes `order_today` fail. -/
theorem body_last_does_not_hold : ¬ Holds Nat [.headers, .path, .query, .body, .validate] := by
  intro h
  have := h { bodyVerb := true, pathVals := [("user_id".toList, 7)], queryVals := [], body := some [("note".toList, 1)] }
    "user_id".toList 7 (by refine ⟨?_, ?_, ?_⟩ <;> simp) (Or.inl (by simp)) (by intro fs hfs; simp at hfs; subst hfs; decide)
  revert this; decide

/-- **C02, partial (today's order)**: when no body is decoded (bodiless verb, or absent / empty
body) the URL value reaches the handler. -/
theorem bodiless_partial (r : Req V) (f : Str) (u : V) (hwf : WF r) (hb : UrlBound r f u)
    (hno : r.bodyVerb = false ∨ r.body = none) : fget f (bindMsg currentOrder r) = some u := by
  rw [bind_relevant, order_today]
  simp only [bindMsg, List.foldl_cons, List.foldl_nil, applyStep]
  have := (url_value_after r f u hwf hb []).1
  rcases hno with hno | hno
  · simp [hno, this]
  · simp [hno, this]

/-- non-vacuity: a well-formed request with a URL-bound field. -/
example : WF ({ bodyVerb := false, pathVals := [("id".toList, 1)], queryVals := [("page".toList, 2)], body := none } : Req Nat) ∧
    UrlBound ({ bodyVerb := false, pathVals := [("id".toList, 1)], queryVals := [("page".toList, 2)], body := none } : Req Nat) "page".toList 2 := by
  refine ⟨⟨?_, ?_, ?_⟩, Or.inr ?_⟩ <;> simp

/-! ## URL text conversion over the regenerated table -/

/-- the regenerated `convertStringToFieldValue` table: every integer kind is parsed with the
parser and bit size of its protobuf range. -/
theorem table_int_kinds :
    lookupKind "int32" = some ("ParseInt", "32") ∧ lookupKind "sint32" = some ("ParseInt", "32") ∧
    lookupKind "sfixed32" = some ("ParseInt", "32") ∧ lookupKind "int64" = some ("ParseInt", "64") ∧
    lookupKind "sint64" = some ("ParseInt", "64") ∧ lookupKind "sfixed64" = some ("ParseInt", "64") ∧
    lookupKind "uint32" = some ("ParseUint", "32") ∧ lookupKind "fixed32" = some ("ParseUint", "32") ∧
    lookupKind "uint64" = some ("ParseUint", "64") ∧ lookupKind "fixed64" = some ("ParseUint", "64") := by decide

/-- kinds the table does not list make the emitted server answer 400 (`unsupported field type`). -/
theorem unlisted_kinds_rejected : Gen.Pipeline.convertDefaultIsError = true ∧
    lookupKind "bytes" = none ∧ lookupKind "enum" = none ∧ lookupKind "message" = none := by decide

def signedKinds : List String := ["int32", "sint32", "sfixed32", "int64", "sint64", "sfixed64"]

/-- **in range ⇒ exact**: the decimal text of any value in the kind's protobuf range converts back to it. -/
theorem convert_in_range_signed (kind : String) (hk : kind ∈ signedKinds) (lo hi v : Int)
    (hr : kindRange kind = some (lo, hi)) (h : lo ≤ v ∧ v ≤ hi) : convertInt kind (intToDec v) = some (some v) := by
  obtain ⟨h1, h2, h3, h4, h5, h6, _⟩ := table_int_kinds
  simp only [signedKinds, List.mem_cons, List.mem_nil_iff, or_false] at hk
  rcases hk with rfl | rfl | rfl | rfl | rfl | rfl <;>
    simp only [kindRange, Option.some.injEq, Prod.mk.injEq] at hr <;> obtain ⟨rfl, rfl⟩ := hr <;>
    simp only [convertInt, h1, h2, h3, h4, h5, h6, intParser, Option.map_some] <;>
    congr 1
  · exact parseInt_intToDec 32 (by decide) v (by simpa using h)
  · exact parseInt_intToDec 32 (by decide) v (by simpa using h)
  · exact parseInt_intToDec 32 (by decide) v (by simpa using h)
  · exact parseInt_intToDec 64 (by decide) v (by simpa using h)
  · exact parseInt_intToDec 64 (by decide) v (by simpa using h)
  · exact parseInt_intToDec 64 (by decide) v (by simpa using h)

/-- **out of range ⇒ 400**: the decimal text of a value outside the kind's range is a conversion
error (so the handler is not invoked with a truncated value). -/
theorem convert_out_of_range_signed (kind : String) (hk : kind ∈ signedKinds) (lo hi v : Int)
    (hr : kindRange kind = some (lo, hi)) (h : v < lo ∨ v > hi) : convertInt kind (intToDec v) = some none := by
  obtain ⟨h1, h2, h3, h4, h5, h6, _⟩ := table_int_kinds
  simp only [signedKinds, List.mem_cons, List.mem_nil_iff, or_false] at hk
  rcases hk with rfl | rfl | rfl | rfl | rfl | rfl <;>
    simp only [kindRange, Option.some.injEq, Prod.mk.injEq] at hr <;> obtain ⟨rfl, rfl⟩ := hr <;>
    simp only [convertInt, h1, h2, h3, h4, h5, h6, intParser, Option.map_some] <;>
    congr 1
  · exact parseInt_out_of_range 32 v (by rcases h with h | h; exact Or.inr (by simpa using h); exact Or.inl (by simpa using h))
  · exact parseInt_out_of_range 32 v (by rcases h with h | h; exact Or.inr (by simpa using h); exact Or.inl (by simpa using h))
  · exact parseInt_out_of_range 32 v (by rcases h with h | h; exact Or.inr (by simpa using h); exact Or.inl (by simpa using h))
  · exact parseInt_out_of_range 64 v (by rcases h with h | h; exact Or.inr (by simpa using h); exact Or.inl (by simpa using h))
  · exact parseInt_out_of_range 64 v (by rcases h with h | h; exact Or.inr (by simpa using h); exact Or.inl (by simpa using h))
  · exact parseInt_out_of_range 64 v (by rcases h with h | h; exact Or.inr (by simpa using h); exact Or.inl (by simpa using h))

/-- unsigned kinds: in-range values convert exactly. -/
theorem convert_in_range_unsigned (kind : String) (hk : kind ∈ ["uint32", "fixed32", "uint64", "fixed64"]) (n : Nat)
    (hi : Int) (hr : kindRange kind = some (0, hi)) (h : (n : Int) ≤ hi) :
    convertInt kind (natToDec n) = some (some (n : Int)) := by
  obtain ⟨_, _, _, _, _, _, h7, h8, h9, h10⟩ := table_int_kinds
  simp only [List.mem_cons, List.mem_nil_iff, or_false] at hk
  rcases hk with rfl | rfl | rfl | rfl <;>
    simp only [kindRange, Option.some.injEq, Prod.mk.injEq, true_and] at hr <;> subst hr <;>
    simp only [convertInt, h7, h8, h9, h10, intParser, Option.map_some]
  · rw [parseUint_natToDec 32 n (by omega)]; rfl
  · rw [parseUint_natToDec 32 n (by omega)]; rfl
  · rw [parseUint_natToDec 64 n (by omega)]; rfl
  · rw [parseUint_natToDec 64 n (by omega)]; rfl

/-- concrete boundary checks (these are tests, labelled as such). -/
example : convertInt "int32" "2147483648".toList = some none := by decide
example : convertInt "int32" "-2147483648".toList = some (some (-2147483648)) := by decide
example : convertInt "uint32" "-1".toList = some none := by decide
example : convertInt "int64" "abc".toList = some none := by decide
example : convertBool "yes".toList = some none := by decide

end Sebuf.C02
