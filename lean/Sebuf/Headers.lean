import Sebuf.Str
import Sebuf.Dec
import Sebuf.Gen.Pipeline
/-!
`Impl`: the emitted `validateHeaders` (Go server). Library leaves (`utf8.ValidString`,
`strconv.ParseFloat`, `time.Parse`) are parameters of the model (`Lib`); the harness supplies
their verdicts per value. Which validator runs for a declared type / format is the regenerated
switch table of the emitted code (`Gen.Pipeline.validateHeaderValueTable`, `validateStringHeaderTable`).
-/
namespace Sebuf.Headers
open Sebuf

structure HSpec where
  name     : Str
  type     : String := ""
  format   : String := ""
  required : Bool := false
deriving DecidableEq, Repr

/-- verdicts of the library leaves for one header value. -/
structure Lib where
  utf8OK     : Bool := true
  floatOK    : Bool := false
  dateTimeOK : Bool := false
  dateOK     : Bool := false
  timeOK     : Bool := false
deriving Repr

def lower (s : Str) : Str := s.map toLowerAscii

/-- `validateUUIDFormat` before `fix: go-http: check hex digits in the uuid header format
validator`: 36 characters with dashes at 8, 13, 18, 23 — nothing else. -/
def uuidShapeBeforeFix (v : Str) : Bool :=
  v.length == 36 && v[8]? == some '-' && v[13]? == some '-' && v[18]? == some '-' && v[23]? == some '-'

def isHex (c : Char) : Bool := isDigitAscii c || ('a' ≤ c && c ≤ 'f') || ('A' ≤ c && c ≤ 'F')

def isDashPos (i : Nat) : Bool := i == 8 || i == 13 || i == 18 || i == 23

/-- `validateUUIDFormat`: 36 characters, dashes at 8, 13, 18, 23, a hex digit everywhere else. -/
def uuidShape (v : Str) : Bool :=
  uuidShapeBeforeFix v && v.zipIdx.all fun p => isDashPos p.2 || isHex p.1

/-- `validateEmailFormat`: contains '@' and splits into exactly two non-empty parts. -/
def emailShape (v : Str) : Bool :=
  match splitOnChar '@' v with
  | [a, b] => a != [] && b != []
  | _ => false

def isSpace (c : Char) : Bool := c == ' ' || c == '\t' || c == '\n' || c == '\r' || c.toNat == 11 || c.toNat == 12

/-- `strings.TrimSpace(v) != ""` (ASCII white space). -/
def notBlank (v : Str) : Bool := v.any fun c => !isSpace c

/-- the validator function the emitted code calls for a declared type. -/
def typeValidator (t : String) : String :=
  match Gen.Pipeline.validateHeaderValueTable.find? (·.1 == t) with
  | some p => p.2
  | none => Gen.Pipeline.validateHeaderValueDefault

def formatValidator (f : String) : String :=
  match Gen.Pipeline.validateStringHeaderTable.find? (·.1 == f) with
  | some p => p.2
  | none => Gen.Pipeline.validateStringHeaderDefault

def stringOK (lib : Lib) (format : String) (v : Str) : Bool :=
  lib.utf8OK &&
  (match formatValidator format with
   | "validateUUIDFormat" => uuidShape v
   | "validateEmailFormat" => emailShape v
   | "validateDateTimeFormat" => lib.dateTimeOK
   | "validateDateFormat" => lib.dateOK
   | "validateTimeFormat" => lib.timeOK
   | _ => true)

/-- `validateHeaderValue`. -/
def valueOK (lib : Lib) (h : HSpec) (v : Str) : Bool :=
  match typeValidator h.type with
  | "validateStringHeader" => stringOK lib h.format v
  | "validateIntegerHeader" => (parseInt 64 v).isSome
  | "validateNumberHeader" => lib.floatOK
  | "validateBooleanHeader" => (parseBool v).isSome
  | "validateArrayHeader" => notBlank v
  | _ => true

/-- the Go map keyed by lower-cased name: insert replaces. -/
def mapPut (h : HSpec) : List HSpec → List HSpec
  | [] => [h]
  | x :: t => if lower x.name = lower h.name then h :: t else x :: mapPut h t

/-- `allHeaders`: REQUIRED service headers, then REQUIRED method headers (overriding by name). -/
def effective (svc meth : List HSpec) : List HSpec :=
  (svc ++ meth).foldl (fun m h => if h.required then mapPut h m else m) []

/-- a request's header lookup: canonical name ↦ first value (`r.Header.Get`). -/
abbrev Hdrs := Str → Option (Str × Lib)

def offending (h : HSpec) (req : Hdrs) : Bool :=
  match req (lower h.name) with
  | none => true
  | some (v, lib) => v == [] || !(valueOK lib h v)

/-- names of the headers `validateHeaders` reports (one violation per offending header; the
order is Go's map order, so this is a set). -/
def violations (svc meth : List HSpec) (req : Hdrs) : List Str :=
  ((effective svc meth).filter (offending · req)).map (·.name)

def dispatched (svc meth : List HSpec) (req : Hdrs) : Bool := (violations svc meth req).isEmpty

/-! ### what the OpenAPI document publishes (`annotations.CombineHeaders`) -/

/-- the Go map keyed by the EXACT name: insert replaces. -/
def putExact (h : HSpec) : List HSpec → List HSpec
  | [] => [h]
  | x :: t => if x.name = h.name then h :: t else x :: putExact h t

/-- `a < b` on names, code point by code point (`sort.Strings`; header names are ASCII). -/
def nameLt : Str → Str → Bool
  | [], [] => false
  | [], _ :: _ => true
  | _ :: _, [] => false
  | a :: as, b :: bs => a.toNat < b.toNat || (a == b && nameLt as bs)

def insertByName (h : HSpec) : List HSpec → List HSpec
  | [] => [h]
  | x :: t => if nameLt h.name x.name then h :: x :: t else x :: insertByName h t

def sortByName (l : List HSpec) : List HSpec := l.foldr insertByName []

/-- `CombineHeaders`: either list alone is returned as it is; otherwise the declarations with a
non-empty name are merged by exact name (method over service) and listed in name order. The result
depends on the two arguments only — in particular not on the other operations of the service. -/
def combineHeaders (svc meth : List HSpec) : List HSpec :=
  if svc.isEmpty then meth else if meth.isEmpty then svc else
  sortByName ((svc ++ meth).foldl (fun m h => if h.name = [] then m else putExact h m) [])

/-! ### what the property demands (`Spec`) -/

/-- the property's merge: a method-level declaration REPLACES the service-level one of the same
name — including when the method declares the header optional. -/
def specMerged (svc meth : List HSpec) : List HSpec :=
  (svc ++ meth).foldl (fun m h => mapPut h m) []

def specRequired (svc meth : List HSpec) : List HSpec := (specMerged svc meth).filter (·.required)


/-- values NO reading of the published type/format allows (a conservative subset). -/
def clearlyInvalid (lib : Lib) (h : HSpec) (v : Str) : Bool :=
  match h.type with
  | "integer" => (parseInt 64 v).isNone && !(v.all fun c => isDigitAscii c || c == '-' || c == '+') || v == []
  | "number" => !lib.floatOK
  | "boolean" => (parseBool v).isNone
  | "array" => !(notBlank v)
  | _ =>
    -- a header published as a string must at least be text: bytes that are not UTF-8 are no string
    !lib.utf8OK ||
    match h.format with
    | "uuid" => !(uuidShape v) || (v.any fun c => c != '-' && !isHex c)
    -- an addr-spec has one `@` between a local part and a domain; only a QUOTED local part may
    -- contain further ones: without any quote, zero or several `@`, or nothing before / after it,
    -- is no e-mail address under any reading
    | "email" => !(v.contains '@') ||
        (!(v.contains '"') && ((v.filter (· == '@')).length != 1 || v.head? == some '@' || v.getLast? == some '@'))
    | "date-time" => !lib.dateTimeOK
    | "date" => !lib.dateOK
    | "time" => !lib.timeOK
    | _ => false

end Sebuf.Headers
