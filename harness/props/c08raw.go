package props

import (
	"encoding/json"
	"fmt"
	"strings"
	"time"

	"google.golang.org/protobuf/encoding/protojson"
	"google.golang.org/protobuf/types/dynamicpb"

	"verif/harness/drv"
	"verif/harness/gen"
	"verif/harness/tsrun"
)

// URL values through the emitted TS server, next to the Go server, on the SAME raw requests
// (not only the escapes the two generated clients happen to write): every way of spelling a
// path / query value must reach the TS handler decoded segment-wise, for GET and for body verbs
// (where the path parameters are merged after the body is parsed).

type rawProbe struct{ raw, want string }

var rawPathProbes = []rawProbe{
	{"a%2Fb", "a/b"}, {"a%2fb", "a/b"}, {"a%20b", "a b"}, {"100%25", "100%"}, {"%C3%A9", "é"}, {"%c3%a9", "é"},
	{"a+b", "a+b"}, {"a%2Bb", "a+b"}, {"x%3By", "x;y"}, {"x;y", "x;y"}, {"a:b@c", "a:b@c"}, {"a=b&c", "a=b&c"},
	{"~t-_.!*'()", "~t-_.!*'()"}, {"%E6%97%A5%E6%9C%AC", "日本"}, {"a%3Fb%23c", "a?b#c"}, {"%F0%9F%98%80", "😀"},
	{"%2E%2E%2Fetc", "../etc"}, {"%25%32%46", "%2F"}, {"plain", "plain"},
}

var rawQueryProbes = []rawProbe{
	{"a+b", "a b"}, {"a%20b", "a b"}, {"a%2Bb", "a+b"}, {"%C3%A9", "é"}, {"a%26b%3Dc", "a&b=c"}, {"a=b", "a=b"},
	{"%25%32%42", "%2B"}, {"a/b?c", "a/b?c"}, {"", ""}, {"~t-_.*", "~t-_.*"},
}

type c08rCase struct {
	rpc     string // Service.Method
	svcTS   string
	rpcTS   string
	method  string
	target  string
	body    string
	class   string
	want    string // proto3 JSON of the message the handler must see (URL's values win)
	reqType string
	tpl     []any
	fields  []any
	goOut   map[string]any
	tsOut   map[string]any
	model   map[string]any
}

func lits(segs ...string) []any {
	var out []any
	for _, s := range segs {
		if strings.HasPrefix(s, "{") {
			out = append(out, map[string]any{"var": s[1 : len(s)-1]})
		} else {
			out = append(out, map[string]any{"lit": s})
		}
	}
	return out
}

func fieldSpec(name, qname string, isPath bool, kind string) map[string]any {
	return map[string]any{"name": name, "qname": qname, "is_path": isPath, "kind": kind, "go_text": []int{}, "go_sent": false, "required": false}
}

func jq(s string) string {
	b, _ := json.Marshal(s)
	return string(b)
}

func c08RawURLs(c *Ctx, td *tsrun.Dir, sc *c08Schema) error {
	res := c.Res
	if sc == nil || !sc.serverOK || !sc.x.it.Built {
		res.Note("raw URL parity not run: the corpus schema did not build / load")
		return nil
	}
	var cases []*c08rCase
	shopH := [][2]string{{"Content-Type", "application/json"}, {"X-API-Key", "123e4567-e89b-42d3-a456-426614174000"}}
	auxH := [][2]string{{"Content-Type", "application/json"}, {"Authorization", "Bearer t"}}
	hdr := map[string][][2]string{}
	add := func(k *c08rCase, h [][2]string) {
		hdr[fmt.Sprint(len(cases))] = h
		cases = append(cases, k)
	}
	for _, p := range rawPathProbes {
		// GET, one variable, last segment
		add(&c08rCase{rpc: "Shop.GetItem", method: "GET", target: "/api/v1/items/" + p.raw, class: "path:get", reqType: "shop.v1.GetItemReq",
			want: `{"itemId":` + jq(p.want) + `}`, tpl: lits("api", "v1", "items", "{item_id}"), fields: []any{fieldSpec("item_id", "item_id", true, "string")}}, shopH)
		// DELETE, two variables
		add(&c08rCase{rpc: "Shop.DelTag", method: "DELETE", target: "/api/v1/items/7/tags/" + p.raw, class: "path:delete", reqType: "shop.v1.DelTagReq",
			want: `{"itemId":7,"name":` + jq(p.want) + `}`, tpl: lits("api", "v1", "items", "{item_id}", "tags", "{name}"),
			fields: []any{fieldSpec("item_id", "item_id", true, "number"), fieldSpec("name", "name", true, "string")}}, shopH)
		// POST, adjacent variables; the body repeats / omits / contradicts the URL-bound fields
		for _, bv := range []struct{ class, body string }{
			{"path:post:body_repeats_url", `{"org":` + jq(p.want) + `,"userId":"42","title":"t"}`},
			{"path:post:body_without_url_fields", `{"title":"t"}`},
			{"path:post:body_conflicts_with_url", `{"org":"other","userId":"9","title":"t"}`},
		} {
			add(&c08rCase{rpc: "Shop.AddUser", method: "POST", target: "/api/v1/orgs/" + p.raw + "/42/users", body: bv.body, class: bv.class, reqType: "shop.v1.AddUserReq",
				want: `{"org":` + jq(p.want) + `,"userId":"42","title":"t"}`, tpl: lits("api", "v1", "orgs", "{org}", "{user_id}", "users"),
				fields: []any{fieldSpec("org", "org", true, "string"), fieldSpec("user_id", "user_id", true, "int64")}},
				append(append([][2]string{}, shopH...), [2]string{"Api-Key", "7"}))
		}
		// PATCH in the second service
		add(&c08rCase{rpc: "Aux.Patch", method: "PATCH", target: "/aux/p/" + p.raw, body: `{"name":` + jq(p.want) + `,"nums":["1","-2"]}`, class: "path:patch:body_repeats_url", reqType: "shop.v1.PatchReq",
			want: `{"name":` + jq(p.want) + `,"nums":["1","-2"]}`, tpl: lits("aux", "p", "{name}"), fields: []any{fieldSpec("name", "name", true, "string")}},
			append(append([][2]string{}, auxH...), [2]string{"X-Flag", "true"}))
	}
	for _, p := range rawQueryProbes {
		rest := "&limit=7&cursor=-5&flag=true&ratio=0.5&tenant_name=" + p.raw + "&big=18446744073709551615"
		for _, v := range []struct{ class, q string }{
			{"query:get", "q=" + p.raw + rest},
			{"query:get:repeated", "q=" + p.raw + "&q=second" + rest},
			{"query:get:unknown_parameter", "zzz=1&q=" + p.raw + rest},
		} {
			add(&c08rCase{rpc: "Shop.Search", method: "GET", target: "/api/v1/search?" + v.q, class: v.class, reqType: "shop.v1.SearchReq",
				want: `{"q":` + jq(p.want) + `,"limit":7,"cursor":"-5","flag":true,"ratio":0.5,"tenantName":` + jq(p.want) + `,"big":"18446744073709551615"}`,
				tpl:  lits("api", "v1", "search"),
				fields: []any{fieldSpec("q", "q", false, "string"), fieldSpec("limit", "limit", false, "number"), fieldSpec("cursor", "cursor", false, "int64"),
					fieldSpec("flag", "flag", false, "boolean"), fieldSpec("ratio", "ratio", false, "number"), fieldSpec("tenant_name", "tenant_name", false, "string"),
					fieldSpec("big", "big", false, "int64")}},
				append(append([][2]string{}, shopH...), [2]string{"X-Count", "1"}))
		}
	}
	// a query-annotated field of a body verb: in the body (what the generated clients send), in the URL, in both
	for _, v := range []struct{ class, query, body, want string }{
		{"query_on_body_verb:body_only", "", `{"page":3,"title":"t"}`, `{"org":"o","userId":"42","page":3,"title":"t"}`},
		{"query_on_body_verb:url_only", "?page=5", `{"title":"t"}`, `{"org":"o","userId":"42","page":5,"title":"t"}`},
		{"query_on_body_verb:url_and_body", "?page=5", `{"page":3,"title":"t"}`, `{"org":"o","userId":"42","page":5,"title":"t"}`},
	} {
		add(&c08rCase{rpc: "Shop.AddUser", method: "POST", target: "/api/v1/orgs/o/42/users" + v.query, body: v.body, class: v.class, reqType: "shop.v1.AddUserReq",
			want: v.want, tpl: lits("api", "v1", "orgs", "{org}", "{user_id}", "users"),
			fields: []any{fieldSpec("org", "org", true, "string"), fieldSpec("user_id", "user_id", true, "int64"), fieldSpec("page", "page", false, "number")}},
			append(append([][2]string{}, shopH...), [2]string{"Api-Key", "7"}))
	}
	// absent parameters: the kinds' defaults
	add(&c08rCase{rpc: "Shop.Search", method: "GET", target: "/api/v1/search?q=x&limit=1&flag=true&ratio=2&tenant_name=t&cursor=3&big=4", class: "query:get:all_present", reqType: "shop.v1.SearchReq",
		want: `{"q":"x","limit":1,"cursor":"3","flag":true,"ratio":2,"tenantName":"t","big":"4"}`, tpl: lits("api", "v1", "search"),
		fields: []any{fieldSpec("q", "q", false, "string"), fieldSpec("limit", "limit", false, "number"), fieldSpec("cursor", "cursor", false, "int64"), fieldSpec("flag", "flag", false, "boolean"),
			fieldSpec("ratio", "ratio", false, "number"), fieldSpec("tenant_name", "tenant_name", false, "string"), fieldSpec("big", "big", false, "int64")}},
		append(append([][2]string{}, shopH...), [2]string{"X-Count", "1"}))
	add(&c08rCase{rpc: "Shop.Search", method: "GET", target: "/api/v1/search?q=x", class: "query:get:absent_64bit", reqType: "shop.v1.SearchReq",
		want: `{"q":"x"}`, tpl: lits("api", "v1", "search"),
		fields: []any{fieldSpec("q", "q", false, "string"), fieldSpec("limit", "limit", false, "number"), fieldSpec("cursor", "cursor", false, "int64"), fieldSpec("flag", "flag", false, "boolean"),
			fieldSpec("ratio", "ratio", false, "number"), fieldSpec("tenant_name", "tenant_name", false, "string"), fieldSpec("big", "big", false, "int64")}},
		append(append([][2]string{}, shopH...), [2]string{"X-Count", "1"}))
	for _, k := range cases {
		parts := strings.SplitN(k.rpc, ".", 2)
		k.svcTS, k.rpcTS = parts[0], lowerFirstASCII(parts[1])
	}
	// run
	var tops, gops []any
	for i, k := range cases {
		h := hdr[fmt.Sprint(i)]
		tops = append(tops, map[string]any{"op": "ts_serve", "method": k.method, "url": k.target, "headers": h, "body": k.body, "handler": map[string]any{"kind": "ok", "resp": map[string]any{}}})
		gop := map[string]any{"op": "serve", "method": k.method, "url": k.target, "headers": h, "body": b64s(k.body), "handler": map[string]any{"kind": "ok"}, "expect": jsonRaw(k.want)}
		gops = append(gops, gop)
	}
	_, touts, err := td.Run("raw", "", sc.serverTS, tops, 3*time.Minute)
	if err != nil {
		return err
	}
	gouts, err := runItem(sc.x, gops)
	if err != nil {
		return err
	}
	driver := drv.Available()
	var douts []map[string]any
	if driver {
		var dops []map[string]any
		for _, k := range cases {
			dops = append(dops, map[string]any{"op": "ts_extract", "template": k.tpl, "fields": k.fields, "body_verb": k.method == "POST" || k.method == "PUT" || k.method == "PATCH",
				"has_body": k.body != "", "target": bytesList(k.target)})
		}
		if douts, err = drv.Run(dops); err != nil {
			res.Corr("driver", "Lean driver failed: "+err.Error(), nil)
			driver = false
		}
	}
	for i, k := range cases {
		k.tsOut, k.goOut = touts[i], gouts[i]
		if driver {
			k.model = douts[i]
		}
		tag := fmt.Sprintf("[raw %s] %s %s", k.class, k.method, k.target)
		res.Case(map[string]any{"part": "raw_url_parity", "class": k.class, "target": k.target, "body": k.body}, true)
		res.Count("raw:" + k.class)
		replay := map[string]any{"schema": sc.req, "rpc": k.rpc, "method": k.method, "target": k.target, "body": k.body, "must_see": jsonRaw(k.want), "ts_server": k.tsOut, "go_server": k.goOut, "impl": k.model}
		md := sc.x.msgDesc("." + k.reqType)
		want := dynamicpb.NewMessage(md)
		if err := protojson.Unmarshal([]byte(k.want), want); err != nil {
			return fmt.Errorf("bad expectation %s: %v", k.want, err)
		}
		// TS server
		n, right, arg := 0, false, any(nil)
		if cs := asList(k.tsOut["calls"]); len(cs) > 0 {
			n = len(cs)
			c0 := mapOf(cs[0])
			right = c0["svc"] == k.svcTS && c0["rpc"] == k.rpcTS
			arg = c0["arg"]
		}
		tsOK, tsWhy := false, ""
		switch {
		case n != 1:
			tsWhy = fmt.Sprintf("TS handler invoked %d times (status %v, matched %s)", n, k.tsOut["status"], clip(canon(k.tsOut["matched"]), 100))
		case !right:
			tsWhy = "reached another TS handler"
		default:
			tsOK, tsWhy = sameMessage(arg, want)
			if !tsOK {
				tsWhy = "TS handler's request " + tsWhy
			}
		}
		// Go server
		goOK := jsonInt(k.goOut["called"]) == 1 && k.goOut["rpc"] == k.rpc && k.goOut["seen_eq"] == true
		goWhy := ""
		if !goOK {
			goWhy = fmt.Sprintf("Go handler invoked %d times (status %v), saw %s", jsonInt(k.goOut["called"]), k.goOut["status"], clip(canon(k.goOut["seen"]), 200))
		}
		// correspondence: the TS model's extraction, and the Go model's body-over-URL flag
		implAgrees := false
		if driver {
			ts := mapOf(k.model["ts"])
			why := ""
			if (ts["matched"] == true) != (n >= 1) {
				why = fmt.Sprintf("the TS route matched=%v, the model says %v", n >= 1, ts["matched"])
			} else if n >= 1 {
				if got, wantPP := canon(mapOf(asList(k.tsOut["calls"])[0])["path_params"]), canon(modelPathParams(ts)); got != wantPP {
					why = fmt.Sprintf("the TS server extracted the path parameters %s, the model says %s", got, wantPP)
				} else if d := c08ModelFieldsDiffer(ts, arg); d != "" {
					why = d
				}
			}
			// Go: path variables win over the body unless the regenerated order still has the body step last;
			// a query parameter present in the URL is bound for every verb (model: go_query)
			fromBody := k.model["go_url_fields_from_body"] == true
			goPredOK := !fromBody || k.class == "path:post:body_repeats_url" || k.class == "path:patch:body_repeats_url"
			if why == "" && goPredOK != goOK {
				why = fmt.Sprintf("the Go handler saw the URL's values=%v, the model says %v (%s)", goOK, goPredOK, goWhy)
			}
			if why == "" && jsonInt(k.goOut["called"]) == 1 {
				why = c08GoQueryDiffers(k.model["go_query"], mapOf(k.goOut["seen"]))
			}
			// TS: a body-verb route takes query-annotated fields from the body only
			if why == "" && n >= 1 && k.model["ts_reads_query"] != true && strings.HasPrefix(k.class, "query_on_body_verb:") {
				var bm map[string]any
				d := json.NewDecoder(strings.NewReader(k.body))
				d.UseNumber()
				_ = d.Decode(&bm)
				if canon(mapOf(arg)["page"]) != canon(bm["page"]) {
					why = fmt.Sprintf("the TS handler's page is %s, the model says the body's %s", canon(mapOf(arg)["page"]), canon(bm["page"]))
				}
			}
			if why != "" {
				res.Corr("raw_url", tag+": "+why, replay)
			} else {
				implAgrees = true
				res.CorrAgree()
			}
		}
		// oracle
		if !tsOK && goOK && strings.HasPrefix(k.class, "query_on_body_verb:") {
			key := "servers_differ:query_parameter_on_body_verb"
			res.Count("divergence:" + key)
			res.Divergence(key, tag+": the Go handler sees the URL's value, "+tsWhy, implAgrees, replay)
			continue
		}
		if !tsOK {
			key := "ts_server_url_value:" + k.class
			if k.class == "query:get:absent_64bit" {
				key = "ts_server_absent_64bit_query_is_empty_string"
			}
			res.Count("divergence:" + key)
			res.Divergence(key, tag+": "+tsWhy+" — must see "+k.want, implAgrees, replay)
		}
		if tsOK != goOK && tsOK {
			key := "servers_differ:" + strings.TrimPrefix(strings.TrimPrefix(k.class, "path:post:"), "path:patch:")
			res.Count("divergence:" + key)
			res.Divergence(key, tag+": the TS handler sees the URL's values, "+goWhy, implAgrees, replay)
		}
	}
	return nil
}

// c08ModelFieldsDiffer compares the model's URL-derived properties with the real argument.
func c08ModelFieldsDiffer(ts map[string]any, arg any) string {
	am := mapOf(arg)
	for _, e := range asList(ts["fields"]) {
		p := asList(e)
		if len(p) != 2 {
			continue
		}
		name, _ := bytesToString(p[0])
		jn := jsonNameOf(name)
		v := mapOf(p[1])
		real := am[jn]
		switch {
		case v["str"] != nil:
			s, _ := bytesToString(v["str"])
			if rs, ok := real.(string); !ok || rs != s {
				return fmt.Sprintf("property %s is %s, the model says the string %q", jn, canon(real), s)
			}
		case v["bool"] != nil:
			if real != v["bool"] {
				return fmt.Sprintf("property %s is %s, the model says %v", jn, canon(real), v["bool"])
			}
		case v["number_of"] != nil:
			s, _ := bytesToString(v["number_of"])
			rn, ok := real.(json.Number)
			if !ok || !sameNumberText(rn.String(), s) {
				return fmt.Sprintf("property %s is %s, the model says Number(%q)", jn, canon(real), s)
			}
		}
	}
	return ""
}

func jsonNameOf(proto string) string {
	parts := strings.Split(proto, "_")
	for i := 1; i < len(parts); i++ {
		if parts[i] != "" {
			parts[i] = strings.ToUpper(parts[i][:1]) + parts[i][1:]
		}
	}
	return strings.Join(parts, "")
}

func sameNumberText(a, b string) bool {
	var x, y float64
	if _, err := fmt.Sscan(a, &x); err != nil {
		return false
	}
	if _, err := fmt.Sscan(b, &y); err != nil {
		return false
	}
	return x == y
}

var _ = gen.PJ

// c08GoQueryDiffers: every query parameter the model says Go's url.ParseQuery finds in the URL
// is the value the Go handler saw for that field.
func c08GoQueryDiffers(goQuery any, seen map[string]any) string {
	for _, e := range asList(goQuery) {
		p := asList(e)
		if len(p) != 2 {
			continue
		}
		name, _ := bytesToString(p[0])
		text, ok := bytesToString(p[1])
		if !ok {
			continue
		}
		jn := jsonNameOf(name)
		same := false
		switch v := seen[jn].(type) {
		case nil:
			same = text == "" || text == "0" || text == "false" || sameNumberText(text, "0")
		case string:
			same = v == text
		case json.Number:
			same = sameNumberText(v.String(), text)
		case bool:
			same = (text == "true") == v
		}
		if !same {
			return fmt.Sprintf("the Go handler's %s is %s, the model says the URL's %q", jn, canon(seen[jn]), text)
		}
	}
	return ""
}
