package main

import (
	"regexp"
	"strings"
	"testing"

	"verif/harness/plug"
)

// The analysis is exercised on the text the unchanged plugins emit and on hand-edited variants
// of that text (what a regressed generator would emit): every variant must surface in the
// regenerated facts, so that the `decide` theorems of Props/C17 stop checking.
func emittedProbe(t *testing.T) [][2]string {
	t.Helper()
	req := globalsProbe()
	var srcs [][2]string
	for _, p := range []struct{ plugin, param string }{{plug.GoHTTP, "generate_mock=true"}, {plug.GoClient, ""}} {
		r := req.Clone()
		r.Parameter = p.param
		res, err := plug.Run(p.plugin, r, nil)
		if err != nil || !res.OK() {
			t.Fatalf("%s: %v", p.plugin, err)
		}
		for _, n := range res.Order {
			if strings.HasSuffix(n, ".go") {
				srcs = append(srcs, [2]string{n[strings.LastIndex(n, "/")+1:], res.Files[n]})
			}
		}
	}
	return srcs
}

func edit(srcs [][2]string, suffix string, f func(string) string) [][2]string {
	out := make([][2]string, len(srcs))
	copy(out, srcs)
	for i := range out {
		if strings.HasSuffix(out[i][0], suffix) {
			n := f(out[i][1])
			if n == out[i][1] {
				panic("edit did not apply to " + suffix)
			}
			out[i][1] = n
		}
	}
	return out
}

func section(lean, def string) string {
	i := strings.Index(lean, "def "+def+" ")
	if i < 0 {
		return ""
	}
	rest := lean[i:]
	if j := strings.Index(rest, "\n/--"); j > 0 {
		rest = rest[:j]
	}
	return rest
}

func TestGlobalsAnalysis(t *testing.T) {
	base := emittedProbe(t)
	out, err := globalsFromSources(base, nil, nil, true)
	if err != nil {
		t.Fatal(err)
	}
	for _, d := range []string{"writesOutsideOnceOrInit", "sharedCaptures", "clientFieldWritesInRpc"} {
		if !strings.HasSuffix(strings.TrimSpace(section(out, d)), ":= []") {
			t.Errorf("unchanged tree: %s is not empty:\n%s", d, section(out, d))
		}
	}
	if strings.Contains(section(out, "routes"), `"?`) || !strings.Contains(section(out, "routes"), "methodHeadersOwner") {
		t.Errorf("unchanged tree: route table not read")
	}

	// sync.Once replaced by an unsynchronised nil check
	onceRe := regexp.MustCompile(`validatorOnce\.Do\(func\(\) \{\s*validator, validatorErr = protovalidate\.New\(\)\s*\}\)`)
	v1 := edit(base, "_http_binding.pb.go", func(s string) string {
		return onceRe.ReplaceAllString(s, "if validator == nil {\n\t\tvalidator, validatorErr = protovalidate.New()\n\t}")
	})
	out, err = globalsFromSources(v1, nil, nil, true)
	if err != nil {
		t.Fatal(err)
	}
	if !strings.Contains(section(out, "writesOutsideOnceOrInit"), `("validator", "getValidator", "assign")`) {
		t.Errorf("nil-check variant not reported:\n%s", section(out, "writesOutsideOnceOrInit"))
	}

	// methodHeaders hoisted: every route of a service gets the last method's list
	assignRe := regexp.MustCompile(`(?m)^\tmethodHeaders = get\w+Headers\(\)\n`)
	v2 := edit(base, "_http.pb.go", func(s string) string {
		return assignRe.ReplaceAllString(s, "")
	})
	out, err = globalsFromSources(v2, nil, nil, true)
	if err != nil {
		t.Fatal(err)
	}
	if !regexp.MustCompile(`method := "Op1"[^}]*methodHeadersOwner := "Op0"`).MatchString(section(out, "routes")) {
		t.Errorf("hoisted methodHeaders not visible in the route table:\n%s", section(out, "routes"))
	}

	// handler built as a closure over the reused variable
	v3 := edit(base, "_http.pb.go", func(s string) string {
		return strings.Replace(s, "\treturn nil\n}", "\t_ = func() int { return len(methodHeaders) }\n\treturn nil\n}", 1)
	})
	out, err = globalsFromSources(v3, nil, nil, true)
	if err != nil {
		t.Fatal(err)
	}
	if !strings.Contains(section(out, "sharedCaptures"), `("RegisterApiServer", "methodHeaders")`) || !strings.Contains(section(out, "reassignedUses"), "captured-by-closure") {
		t.Errorf("closure over the reused variable not reported:\n%s", section(out, "sharedCaptures"))
	}

	// per-call headers written into the client's default map
	v4 := edit(base, "_client.pb.go", func(s string) string {
		return strings.Replace(s, "for k, v := range callOpts.headers {\n\t\thttpReq.Header.Set(k, v)\n\t}",
			"for k, v := range callOpts.headers {\n\t\tc.defaultHeaders[k] = v\n\t}\n\tfor k, v := range c.defaultHeaders {\n\t\thttpReq.Header.Set(k, v)\n\t}", 1)
	})
	out, err = globalsFromSources(v4, nil, nil, true)
	if err != nil {
		t.Fatal(err)
	}
	if !strings.Contains(section(out, "clientFieldWritesInRpc"), "c.defaultHeaders[k] = v") {
		t.Errorf("write into c.defaultHeaders not reported:\n%s", section(out, "clientFieldWritesInRpc"))
	}
	// ... also through a local alias
	v5 := edit(base, "_client.pb.go", func(s string) string {
		return strings.Replace(s, "for k, v := range callOpts.headers {\n\t\thttpReq.Header.Set(k, v)\n\t}",
			"hs := c.defaultHeaders\n\tfor k, v := range callOpts.headers {\n\t\ths[k] = v\n\t}", 1)
	})
	out, err = globalsFromSources(v5, nil, nil, true)
	if err != nil {
		t.Fatal(err)
	}
	if !strings.Contains(section(out, "clientFieldWritesInRpc"), "hs[k] = v") {
		t.Errorf("aliased write into c.defaultHeaders not reported:\n%s", section(out, "clientFieldWritesInRpc"))
	}
}
