import Sebuf.Validate
import Sebuf.Rules
/-!
Helper lemmas for `Sebuf.Props.C12`: list plumbing, the step from one validator to the whole
plugin run, and one `*_fires` lemma per documented rule (a breach makes its validator answer).
`beforeCut` and `stepHas` are defined here because the statements need them. The property
theorems are in `Sebuf/Props/C12.lean`.
-/
namespace Sebuf.C12
open Sebuf Sebuf.Impl Sebuf.Spec

/-! ## list helpers -/

theorem findSome_isSome {α β} {l : List α} {f : α → Option β} {a : α}
    (h : a ∈ l) (hf : (f a).isSome = true) : (l.findSome? f).isSome = true := by
  induction l with
  | nil => cases h
  | cons x t ih =>
    simp only [List.findSome?]
    cases hx : f x with
    | some b => simp
    | none =>
      simp only
      rcases List.mem_cons.mp h with rfl | h'
      · rw [hx] at hf; cases hf
      · exact ih h'

theorem find_isSome {α} {l : List α} {p : α → Bool} {a : α}
    (h : a ∈ l) (hp : p a = true) : (l.find? p).isSome = true := by
  induction l with
  | nil => cases h
  | cons x t ih =>
    simp only [List.find?]
    cases hx : p x with
    | true => simp
    | false =>
      simp only
      rcases List.mem_cons.mp h with rfl | h'
      · rw [hx] at hp; cases hp
      · exact ih h'

theorem isSome_of_eq_some {α} {o : Option α} {a : α} (h : o = some a) : o.isSome = true := by
  subst h; rfl

/-! ## wiring: which validators run, and where -/

/-- steps strictly before `if len(file.Services) == 0 { return nil }`. -/
def beforeCut : List Gen.Wiring.Step → List Gen.Wiring.Step
  | [] => []
  | st :: r => if st.1 == "return_if_no_services" then [] else st :: beforeCut r

def stepHas (st : Gen.Wiring.Step) (v : V) : Bool := st.2.1.any (fun n => V.ofName n == some v)

/-! ## from one validator to the whole run -/

theorem runStep_of_validator (rq : Request) (f : File) (st : Gen.Wiring.Step) (v : V)
    (hv : stepHas st v = true) (h : (applyV rq f st.2.2 v).isSome = true) :
    (runStep rq f st).isSome = true := by
  unfold stepHas at hv
  obtain ⟨n, hn, hnv⟩ := List.any_eq_true.mp hv
  unfold runStep
  refine findSome_isSome hn ?_
  unfold applyValidator
  have : V.ofName n = some v := by simpa using hnv
  rw [this]; exact h

theorem runSteps_of_beforeCut (rq : Request) (f : File) :
    ∀ (steps : List Gen.Wiring.Step) (st : Gen.Wiring.Step), st ∈ beforeCut steps →
      (runStep rq f st).isSome = true → (runSteps rq f steps).isSome = true := by
  intro steps
  induction steps with
  | nil => intro st h; cases h
  | cons s t ih =>
    intro st hmem hs
    unfold beforeCut at hmem
    unfold runSteps
    by_cases hc : (s.1 == "return_if_no_services") = true
    · simp [hc] at hmem
    · simp only [hc] at hmem ⊢
      simp only [Bool.false_eq_true, if_false]
      rcases List.mem_cons.mp hmem with rfl | h'
      · cases hr : runStep rq f st with
        | some e => simp
        | none => rw [hr] at hs; cases hs
      · cases hr : runStep rq f s with
        | some e => simp
        | none => simpa using ih st h' hs

theorem runSteps_of_mem (rq : Request) (f : File) (hsv : f.services.isEmpty = false) :
    ∀ (steps : List Gen.Wiring.Step) (st : Gen.Wiring.Step), st ∈ steps →
      (st.1 == "return_if_no_services") = false →
      (runStep rq f st).isSome = true → (runSteps rq f steps).isSome = true := by
  intro steps
  induction steps with
  | nil => intro st h; cases h
  | cons s t ih =>
    intro st hmem hne hs
    unfold runSteps
    by_cases hc : (s.1 == "return_if_no_services") = true
    · simp only [hc, if_true, hsv, Bool.false_eq_true, if_false]
      rcases List.mem_cons.mp hmem with rfl | h'
      · rw [hc] at hne; cases hne
      · exact ih st h' hne hs
    · simp only [hc, Bool.false_eq_true, if_false]
      rcases List.mem_cons.mp hmem with rfl | h'
      · cases hr : runStep rq f st with
        | some e => simp
        | none => rw [hr] at hs; cases hs
      · cases hr : runStep rq f s with
        | some e => simp
        | none => simpa using ih st h' hne hs

theorem runGoHttp_of_file (rq : Request) (f : File) (hf : f ∈ generated rq)
    (h : (runSteps rq f Gen.Wiring.goHttp).isSome = true) : (runGoHttp rq).isSome = true := by
  unfold runGoHttp
  simp only
  split
  · simp
  · exact findSome_isSome hf h

theorem runGoHttp_of_unwrap (rq : Request) (f : File) (hf : f ∈ generated rq) (m : Message)
    (hm : m ∈ f.messages) (h : (unwrapCheck m).isSome = true) : (runGoHttp rq).isSome = true := by
  have wiring_unwrap : Gen.Wiring.goHttpPre.contains "annotations.GetUnwrapField" = true := by decide
  unfold runGoHttp
  simp only [wiring_unwrap, if_true]
  have : ((generated rq).findSome? fun f => f.messages.findSome? unwrapCheck).isSome = true :=
    findSome_isSome hf (findSome_isSome hm h)
  cases hp : ((generated rq).findSome? fun f => f.messages.findSome? unwrapCheck) with
  | some e => simp
  | none => rw [hp] at this; cases this

theorem runGoClient_of_file (rq : Request) (f : File) (hf : f ∈ generated rq)
    (h : (runSteps rq f Gen.Wiring.goClient).isSome = true) : (runGoClient rq).isSome = true := by
  unfold runGoClient
  exact findSome_isSome hf h

theorem perField_isSome (f : File) (m : Message) (fld : Field) (chk : Field → Verdict)
    (hm : m ∈ f.messages) (hfld : fld ∈ m.fields) (h : (chk fld).isSome = true) :
    (perField (msgsOf f true) chk).isSome = true := by
  unfold perField msgsOf
  simp only [if_true]
  exact findSome_isSome hm (findSome_isSome hfld h)

/-! ## each rule of the property fires its validator -/

theorem nullable_fires (fld : Field) (h : fld.nullable = true)
    (h2 : fld.card ≠ .optional ∨ fld.kind = .message) : (nullableCheck fld).isSome = true := by
  unfold nullableCheck Field.descKind
  rcases h2 with h2 | h2
  · simp [h, h2]
  · by_cases hc : fld.card = .optional
    · simp [h, hc, h2]
    · simp [h, hc]

theorem emptyBehavior_fires (fld : Field) (h : fld.emptyBehavior ≠ 0)
    (h2 : fld.kind ≠ .message ∨ fld.card = .repeated ∨ fld.card = .map) :
    (emptyBehaviorCheck fld).isSome = true := by
  unfold emptyBehaviorCheck Field.descKind Field.isList Field.isMap
  rcases h2 with h2 | h2 | h2
  · by_cases hm : fld.card = .map
    · simp [h, hm]
    · simp [h, hm, h2]
  · simp [h, h2]
  · simp [h, h2]

theorem timestamp_fires (fld : Field) (h : fld.tsFormat ≠ 0) (h2 : isTs fld = false) :
    (timestampCheck fld).isSome = true := by
  unfold timestampCheck Field.isTimestamp Field.descKind
  unfold isTs at h2
  by_cases hm : fld.card = .map
  · simp [h, hm]
  · simp [hm] at h2 ⊢
    simp [h]
    by_cases hk : fld.kind = .message
    · exact Or.inr (h2 hk)
    · exact Or.inl hk

theorem bytes_fires (fld : Field) (h : fld.bytesEnc ≠ 0) (h2 : fld.kind ≠ .bytes ∨ fld.card = .map) :
    (bytesCheck fld).isSome = true := by
  unfold bytesCheck Field.descKind
  rcases h2 with h2 | h2
  · by_cases hm : fld.card = .map
    · simp [h, hm]
    · simp [h, hm, h2]
  · simp [h, h2]

theorem flattenField_fires (fld : Field) (h : fld.flatten = true)
    (h2 : fld.card = .repeated ∨ fld.card = .map ∨ fld.kind ≠ .message ∨ fld.oneof.isSome = true) :
    (flattenFieldCheck fld).isSome = true := by
  unfold flattenFieldCheck Field.descKind Field.isList Field.isMap Field.inAnyOneof
  rcases h2 with h2 | h2 | h2 | h2
  · simp [h, h2]
  · simp [h, h2]
  · by_cases hm : fld.card = .map
    · simp [h, hm]
    · by_cases hr : fld.card = .repeated
      · simp [h, hr]
      · simp [h, hm, hr, h2]
  · by_cases hm : fld.card = .map
    · simp [h, hm]
    · by_cases hr : fld.card = .repeated
      · simp [h, hr]
      · by_cases hk : fld.kind = .message
        · simp [h, hm, hr, hk, h2]
        · simp [h, hm, hr, hk]

theorem prefix_fires (fld : Field) (h : fld.flatten = false) (h2 : fld.flattenPrefix ≠ []) :
    (flattenFieldCheck fld).isSome = true := by
  unfold flattenFieldCheck
  simp [h, h2]

theorem enum_fires (rq : Request) (fld : Field) (hk : fld.kind = .enum) (hm : fld.card ≠ .map)
    (he : fld.enumEnc = 2)
    (hc : (match rq.findEnum fld.typeName with | some e => e.hasCustom | none => false) = true) :
    (enumCheck rq fld).isSome = true := by
  unfold enumCheck Field.descKind
  simp [hk, hm, he]
  exact hc

theorem unwrapNotRepeated_fires (m : Message) (fld : Field) (hfld : fld ∈ m.fields)
    (hu : fld.unwrap = true) (h1 : fld.card ≠ .repeated) (h2 : fld.card ≠ .map) :
    (unwrapCheck m).isSome = true := by
  unfold unwrapCheck
  simp only
  have hmem : fld ∈ m.fields.filter (·.unwrap) := List.mem_filter.mpr ⟨hfld, hu⟩
  have hp : (fun f : Field => !f.isList && !f.isMap) fld = true := by
    simp [Field.isList, Field.isMap, h1, h2]
  have := find_isSome (p := fun f : Field => !f.isList && !f.isMap) hmem hp
  cases hfind : (m.fields.filter (·.unwrap)).find? (fun f => !f.isList && !f.isMap) with
  | some x => simp
  | none => rw [hfind] at this; cases this

theorem unwrapTwice_fires (m : Message) (a v : Field) (rest : List Field)
    (h : m.fields.filter (·.unwrap) = a :: v :: rest) : (unwrapCheck m).isSome = true := by
  unfold unwrapCheck
  simp only [h]
  cases (a :: v :: rest).find? (fun f => !f.isList && !f.isMap) with
  | some x => simp
  | none => simp

theorem mapUnwrapNotAlone_fires (m : Message) (fld : Field)
    (hfind : m.fields.find? (fun f => f.unwrap && f.card == .map) = some fld)
    (hlen : m.fields.length ≠ 1) : (unwrapCheck m).isSome = true := by
  have hfld : fld ∈ m.fields := List.mem_of_find?_eq_some hfind
  have hp := List.find?_some hfind
  have hu : fld.unwrap = true := by simp at hp; exact hp.1
  have hmapc : fld.card = .map := by simp at hp; exact hp.2
  have hmem : fld ∈ m.fields.filter (·.unwrap) := List.mem_filter.mpr ⟨hfld, hu⟩
  unfold unwrapCheck
  simp only
  cases hf : (m.fields.filter (·.unwrap)).find? (fun f => !f.isList && !f.isMap) with
  | some x => simp
  | none =>
    simp only
    generalize m.fields.filter (·.unwrap) = us at hmem ⊢
    match us, hmem with
    | [], hm => cases hm
    | [u], hm =>
      have : fld = u := by simpa using hm
      subst this
      simp [Field.isMap, hmapc, hlen]
    | _ :: v :: _, _ => simp

/-! ### oneof rules -/

theorem oneofCheck_of (rq : Request) (m : Message) (o : OneofDecl) (ho : o ∈ m.oneofs)
    (hc : o.hasConfig = true)
    (h : (discriminatorCollision m o).isSome = true ∨
         (o.flatten = true ∧ (oneofFlattenCheck rq m o).isSome = true)) :
    (oneofCheck rq m).isSome = true := by
  unfold oneofCheck
  refine findSome_isSome (List.mem_filter.mpr ⟨ho, hc⟩) ?_
  cases hd : discriminatorCollision m o with
  | some e => simp
  | none =>
    rcases h with h | ⟨hf, h⟩
    · rw [hd] at h; cases h
    · simp [hf, h]

theorem discriminator_fires (m : Message) (o : OneofDecl)
    (h : (m.fields.filter (·.oneof != some o.name)).any (·.json == o.discriminator) = true) :
    (discriminatorCollision m o).isSome = true := by
  unfold discriminatorCollision
  have : m.fields.any (fun f => f.oneof != some o.name && f.json == o.discriminator) = true := by
    rw [List.any_filter] at h; exact h
  simp [this]

theorem oneofFlattenScalar_fires (rq : Request) (m : Message) (o : OneofDecl)
    (h : (m.fields.filter (·.oneof == some o.name)).any (·.kind != .message) = true) :
    (oneofFlattenCheck rq m o).isSome = true := by
  unfold oneofFlattenCheck
  simp only [h, if_true, Option.isSome_some]

theorem oneofFlattenCollision_fires (rq : Request) (m : Message) (o : OneofDecl)
    (h : (m.fields.filter (·.oneof == some o.name)).any (fun v => v.kind == .message &&
        (Spec.children rq v).any (fun c => c.json == o.discriminator ||
          (m.fields.filter (·.oneof != some o.name)).any (·.json == c.json))) = true) :
    (oneofFlattenCheck rq m o).isSome = true := by
  unfold oneofFlattenCheck
  simp only
  by_cases hs : ((m.fields.filter (·.oneof == some o.name)).any (·.kind != .message)) = true
  · rw [if_pos hs]; rfl
  · have : (m.fields.filter (·.oneof == some o.name)).any (fun v => (childFields rq v).any
        (fun c => (o.discriminator :: (m.fields.filter (·.oneof != some o.name)).map (·.json)).contains c.json)) = true := by
      obtain ⟨v, hv, hvp⟩ := List.any_eq_true.mp h
      refine List.any_eq_true.mpr ⟨v, hv, ?_⟩
      have hvp2 := (Bool.and_eq_true _ _).mp hvp
      obtain ⟨c, hc, hcp⟩ := List.any_eq_true.mp hvp2.2
      have hch : Spec.children rq v = childFields rq v := rfl
      rw [hch] at hc
      refine List.any_eq_true.mpr ⟨c, hc, ?_⟩
      rcases (Bool.or_eq_true _ _).mp hcp with h1 | h1
      · have : c.json = o.discriminator := by simpa using h1
        simp [this]
      · obtain ⟨x, hx, hxp⟩ := List.any_eq_true.mp h1
        have hxe : x.json = c.json := by simpa using hxp
        simp only [List.contains_cons, Bool.or_eq_true]
        right
        exact List.contains_iff_mem.mpr (List.mem_map.mpr ⟨x, hx, hxe⟩)
    rw [if_neg hs, if_pos this]; rfl

/-! ### HTTP rules -/

theorem orV_left {a b : Verdict} (h : a.isSome = true) : (orV a b).isSome = true := by
  cases a with
  | some x => rfl
  | none => cases h

theorem orV_right {a b : Verdict} (h : b.isSome = true) : (orV a b).isSome = true := by
  cases a with
  | some x => rfl
  | none => exact h

theorem pathVar_fires (input : Message) (p : Str)
    (h : input.fields.find? (fun f => f.name == p) = none ∨
         ∃ f, input.fields.find? (fun f => f.name == p) = some f ∧
           (scalarPathKind f.kind = false ∨ f.card = .repeated ∨ f.card = .map)) :
    (pathVarCheck input p).isSome = true := by
  unfold pathVarCheck
  rcases h with h | ⟨f, hf, hk⟩
  · rw [h]; rfl
  · rw [hf]
    have : (isPathParamCompatible f.descKind && f.card != .repeated && f.card != .map) = false := by
      rcases hk with hk | hk | hk
      · have : isPathParamCompatible f.descKind = false := by
          unfold Field.descKind
          split
          · rfl
          · revert hk; cases f.kind <;> simp [scalarPathKind, isPathParamCompatible]
        simp [this]
      · simp [hk]
      · simp [hk]
    simp [this]

theorem methodCheck_fires (rq : Request) (meth : Method) (b : Breach) (file : Str)
    (hb : b ∈ methodBreaches rq file meth) :
    (methodCheck rq meth).isSome = true := by
  unfold methodBreaches at hb
  by_cases hcfg : meth.hasConfig = true
  · simp only [hcfg, Bool.not_true, Bool.false_eq_true, if_false] at hb
    unfold methodCheck
    simp only [hcfg, Bool.not_true, Bool.false_eq_true, if_false]
    generalize (rq.findMessage meth.input).getD default = input at hb ⊢
    rcases List.mem_append.mp hb with hb | hb
    · rcases List.mem_append.mp hb with hb | hb
      · -- a path variable without field / with a non-scalar field
        obtain ⟨p, hp, hbp⟩ := List.mem_flatMap.mp hb
        refine orV_left (findSome_isSome hp ?_)
        cases hfnd : input.fields.find? (fun f => f.name == p) with
        | none => exact pathVar_fires input p (Or.inl hfnd)
        | some f =>
          simp only [hfnd] at hbp
          rcases List.mem_append.mp hbp with h1 | h1
          · refine pathVar_fires input p (Or.inr ⟨f, hfnd, Or.inl ?_⟩)
            by_cases hk : scalarPathKind f.kind = true
            · simp [hk] at h1
            · simpa using hk
          · refine pathVar_fires input p (Or.inr ⟨f, hfnd, Or.inr ?_⟩)
            by_cases hc : (f.card == .repeated || f.card == .map) = true
            · simpa using hc
            · simp [hc] at h1
      · -- a field both path and query
        obtain ⟨q, hq, _⟩ := List.mem_map.mp hb
        have hq' := List.mem_filter.mp hq
        refine orV_right (orV_left ?_)
        exact find_isSome (p := fun q => (extractPathParams meth.path).contains q) (a := q)
          (by unfold queryFieldNames; exact hq'.1) hq'.2
    · -- a bodiless verb with unbound fields
      refine orV_right (orV_right ?_)
      unfold bodilessCheck
      by_cases hv : (verbOfNum meth.verbNum == "GET".toList || verbOfNum meth.verbNum == "DELETE".toList) = true
      · simp only [hv, if_true] at hb ⊢
        obtain ⟨fld, hfld, _⟩ := List.mem_map.mp hb
        have hfld' := List.mem_filter.mp hfld
        have : (input.fields.find? (fun f => !(extractPathParams meth.path).contains f.name &&
            !(queryFieldNames input).contains f.name)).isSome = true :=
          find_isSome (p := fun f : Field => !(extractPathParams meth.path).contains f.name &&
            !(queryFieldNames input).contains f.name) (a := fld) hfld'.1
            (by unfold queryFieldNames; exact hfld'.2)
        cases hfs : input.fields.find? (fun f => !(extractPathParams meth.path).contains f.name &&
            !(queryFieldNames input).contains f.name) with
        | some x => simp
        | none => rw [hfs] at this; cases this
      · rw [if_neg hv] at hb; cases hb
  · simp [hcfg] at hb

theorem mem_ite_single {α} {c : Bool} {a r : α} (h : r ∈ (if c = true then [a] else [])) :
    c = true ∧ r = a := by
  cases c with
  | true => simp at h; exact ⟨rfl, h⟩
  | false => simp at h

end Sebuf.C12
