import Sebuf.OaComp
namespace Sebuf.OaComp
open Sebuf

theorem lookup_setKV_same (k v : Str) : ∀ l : List Ev, lookupKV k (setKV k v l) = some v
  | [] => by simp [setKV, lookupKV]
  | (k', v') :: r => by
    unfold setKV
    by_cases h : k' = k
    · simp [h, lookupKV]
    · simp only [beq_iff_eq, h, if_false, lookupKV]
      exact lookup_setKV_same k v r

theorem lookup_setKV_other (k k' v : Str) (hk : k' ≠ k) : ∀ l : List Ev, lookupKV k' (setKV k v l) = lookupKV k' l
  | [] => by simp [setKV, lookupKV, Ne.symm hk]
  | (a, b) :: r => by
    unfold setKV
    by_cases h : a = k
    · subst h; simp [lookupKV, Ne.symm hk]
    · simp only [beq_iff_eq, h, if_false, lookupKV]
      by_cases h2 : a = k'
      · simp [h2]
      · simp only [h2, if_false]; exact lookup_setKV_other k k' v hk r

theorem applyEvents_cons (init : List Ev) (e : Ev) (evs : List Ev) :
    applyEvents init (e :: evs) = applyEvents (setKV e.1 e.2 init) evs := rfl

/-- names no event touches keep what they had. -/
theorem lookup_apply_untouched (k : Str) : ∀ (evs init : List Ev), (∀ e ∈ evs, e.1 ≠ k) →
    lookupKV k (applyEvents init evs) = lookupKV k init
  | [], _, _ => rfl
  | e :: evs, init, h => by
    rw [applyEvents_cons, lookup_apply_untouched k evs _ (fun x hx => h x (List.mem_cons_of_mem _ hx))]
    exact lookup_setKV_other e.1 k e.2 (Ne.symm (h e List.mem_cons_self)) init

/-- when all events under one name describe the same message, that name resolves to it. -/
theorem lookup_apply_consistent : ∀ (evs init : List Ev),
    (∀ a ∈ evs, ∀ b ∈ evs, a.1 = b.1 → a.2 = b.2) → ∀ e ∈ evs, lookupKV e.1 (applyEvents init evs) = some e.2
  | [], _, _, e, he => by cases he
  | a :: rest, init, hc, e, he => by
    rw [applyEvents_cons]
    have hcr : ∀ x ∈ rest, ∀ y ∈ rest, x.1 = y.1 → x.2 = y.2 := fun x hx y hy =>
      hc x (List.mem_cons_of_mem _ hx) y (List.mem_cons_of_mem _ hy)
    by_cases hex : ∃ b ∈ rest, b.1 = e.1
    · obtain ⟨b, hb, hbe⟩ := hex
      have := lookup_apply_consistent rest (setKV a.1 a.2 init) hcr b hb
      rw [hbe] at this
      rw [this, hc b (List.mem_cons_of_mem _ hb) e he hbe]
    · have hnone : ∀ x ∈ rest, x.1 ≠ e.1 := fun x hx hxe => hex ⟨x, hx, hxe⟩
      rw [lookup_apply_untouched e.1 rest _ hnone]
      rcases List.mem_cons.mp he with h | h
      · subst h; exact lookup_setKV_same _ _ _
      · exact absurd rfl (hnone e h)

end Sebuf.OaComp
