import Sebuf.OaParams
import Sebuf.Lemmas.Ident
namespace Sebuf.OaParams
open Sebuf

/-- every character is white space. -/
def Spaces (a : Str) : Prop := ∀ c ∈ a, isSpace c = true

theorem space_ne_comma {c : Char} (h : isSpace c = true) : c ≠ ',' := by
  intro e; subst e; revert h; decide

theorem space_ne_eq {c : Char} (h : isSpace c = true) : c ≠ '=' := by
  intro e; subst e; revert h; decide

theorem trimLeft_spaces_append (a x : Str) (ha : Spaces a) : trimLeft (a ++ x) = trimLeft x := by
  induction a with
  | nil => rfl
  | cons c r ih =>
    have hc := ha c (List.mem_cons_self ..)
    simp only [List.cons_append, trimLeft, hc, if_true]
    exact ih (fun d hd => ha d (List.mem_cons_of_mem _ hd))

theorem trimLeft_spaces (a : Str) (ha : Spaces a) : trimLeft a = [] := by
  have := trimLeft_spaces_append a [] ha
  simpa [trimLeft] using this

theorem trimLeft_head (c : Char) (r : Str) (hc : isSpace c = false) : trimLeft (c :: r) = c :: r := by
  simp [trimLeft, hc]

/-- a word: non-empty, no white space at either end. -/
structure Word (w : Str) : Prop where
  ne : w ≠ []
  head : ∀ c r, w = c :: r → isSpace c = false
  last : ∀ c r, w.reverse = c :: r → isSpace c = false

theorem trimLeft_word (w x : Str) (hw : Word w) : trimLeft (w ++ x) = w ++ x := by
  cases w with
  | nil => exact absurd rfl hw.ne
  | cons c r => exact trimLeft_head c (r ++ x) (hw.head c r rfl)

theorem spaces_reverse (a : Str) (ha : Spaces a) : Spaces a.reverse :=
  fun c hc => ha c (List.mem_reverse.1 hc)

/-- `TrimSpace(a ++ w ++ b) = w` for white space `a`, `b` and a word `w`. -/
theorem trimSpace_pad (a w b : Str) (ha : Spaces a) (hb : Spaces b) (hw : Word w) :
    trimSpace (a ++ w ++ b) = w := by
  unfold trimSpace
  rw [List.append_assoc, trimLeft_spaces_append a _ ha, trimLeft_word w b hw, List.reverse_append,
    trimLeft_spaces_append _ _ (spaces_reverse b hb)]
  have hr : trimLeft w.reverse = w.reverse := by
    cases h : w.reverse with
    | nil => rfl
    | cons c r => exact trimLeft_head c r (hw.last c r h)
  rw [hr, List.reverse_reverse]

theorem cutEq_append (k r : Str) (hk : ∀ c ∈ k, c ≠ '=') : cutEq (k ++ '=' :: r) = some (k, r) := by
  induction k with
  | nil => simp [cutEq]
  | cons c t ih =>
    have hc := hk c (List.mem_cons_self ..)
    simp only [List.cons_append, cutEq, hc, if_false]
    rw [ih (fun d hd => hk d (List.mem_cons_of_mem _ hd))]; rfl


theorem formatWord : Word "format".toList :=
  ⟨by decide, by intro c r h; cases h; decide, by intro c r h; cases h; decide⟩

/-- **the spelling of the pair does not matter**: white space before the key, between key and `=`,
between `=` and the value and after the value selects the same format as `format=<value>`, for
every value that is a word without `,` and `=`. -/
theorem format_spelling (a b c d v : Str) (ha : Spaces a) (hb : Spaces b) (hc : Spaces c) (hd : Spaces d)
    (hv : Word v) (hvc : ∀ x ∈ v, x ≠ ',') :
    formatOfParam (some (a ++ "format".toList ++ b ++ '=' :: (c ++ v ++ d))) = OaEmit.formatOf (some (String.ofList v)) := by
  have hkey : ∀ x ∈ a ++ "format".toList ++ b, x ≠ '=' := by
    intro x hx
    rcases List.mem_append.1 hx with h | h
    · rcases List.mem_append.1 h with h | h
      · exact space_ne_eq (ha x h)
      · intro e; subst e; revert h; decide
    · exact space_ne_eq (hb x h)
  have hnc : ∀ x ∈ a ++ "format".toList ++ b ++ '=' :: (c ++ v ++ d), x ≠ ',' := by
    intro x hx
    simp only [List.mem_append, List.mem_cons] at hx
    rcases hx with ((h | h) | h) | h | (h | h) | h
    · exact space_ne_comma (ha x h)
    · intro e; subst e; revert h; decide
    · exact space_ne_comma (hb x h)
    · rw [h]; decide
    · exact space_ne_comma (hc x h)
    · exact hvc x h
    · exact space_ne_comma (hd x h)
  have hp : parseParameters (a ++ "format".toList ++ b ++ '=' :: (c ++ v ++ d)) = [("format".toList, v)] := by
    unfold parseParameters
    rw [splitOnChar_no_sep ',' _ hnc]
    simp only [List.filterMap_cons, List.filterMap_nil, cutEq_append _ _ hkey, Option.map_some]
    rw [trimSpace_pad a _ b ha hb formatWord, trimSpace_pad c v d hc hd hv]
  simp only [formatOfParam, hp]
  simp [lookupLast, Gen.OpenApiMain.paramKey]

end Sebuf.OaParams
